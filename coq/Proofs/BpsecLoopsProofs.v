(** The loop structure of security verification, as the translator reads it off bp/app/bpsec.py
    (Gen/BpsecLoops.v), tied to Model/BpSecChain.v (property C12). *)
From Coq Require Import ZArith NArith List Bool Lia ZifyBool ZifyN ZifyNat.
From DTN Require Import Gen.BpsecLoops Model.BpSecChain Proofs.BpSecChainProofs.
Import ListNotations.
Local Open Scope N_scope.

(** * (1) snapshot or live iteration over the blocks *)

(** One verification step with the iteration the source uses. *)
Definition sec_step_as (snapshot : bool) (c : cfg) (bcb : bool) (secs : list secblk) (st : cstate) : cstate * flow :=
  if snapshot then sec_step c bcb secs st else sec_step_live c bcb secs st.

Definition recv_sec_as (snap_bcb snap_bib : bool) (c : cfg) (secs : list secblk) (data : datamap) : result :=
  chain (fun bcb => sec_step_as (if bcb then snap_bcb else snap_bib) c bcb secs) (mkCS true None (view_of secs data)).

Lemma recv_sec_as_snapshot : forall c secs data, recv_sec_as true true c secs data = recv_sec c secs data.
Proof.
  intros c secs data. unfold recv_sec_as, recv_sec, chain, sec_step_as.
  destruct (sec_step c true secs (mkCS true None (view_of secs data))) as [st1 [|]]; reflexivity.
Qed.

(** The snapshot walk lets every listed block contribute its verdict ... *)
Lemma snapshot_counts_every_block : forall c l v s,
  In s l -> blk_result s <> VNone -> snd (verify_all c l v) <> [].
Proof.
  intros c l v s Hin Hbad. rewrite verify_all_failures. intro E.
  rewrite failures_nil in E. apply Hbad, E, Hin.
Qed.

(** ... the live walk does not: the block after an accepted (removed) one is never visited. *)
Lemma live_skips_a_block :
  exists c secs v s, In s secs /\ blk_result s <> VNone
    /\ snd (verify_live (S (length secs)) c secs false 0 v) = [].
Proof.
  exists (mkCfg true), w_second_bad, (view_of w_second_bad [(5, 6); (1, 9)]).
  eexists. split; [right; left; reflexivity|]. split; [vm_compute; discriminate|reflexivity].
Qed.

(** * (2) the result of every target is looked up by index *)
Section Targets.
  Variable R : Type.

  (** [for (ix, t) in enumerate(targets): results[ix]]: [None] = IndexError *)
  Fixpoint by_index (ix : nat) (targets : list N) (results : list R) : list (N * option R) :=
    match targets with
    | [] => []
    | t :: rest => (t, nth_error results ix) :: by_index (S ix) rest results
    end.

  (** [for (t, r) in zip(targets, results)] *)
  Definition by_zip (targets : list N) (results : list R) : list (N * option R) :=
    map (fun p => (fst p, Some (snd p))) (combine targets results).

  Definition target_loop (indexed : bool) (targets : list N) (results : list R) : list (N * option R) :=
    if indexed then by_index 0 targets results else by_zip targets results.

  Lemma by_index_covers : forall targets ix results, map fst (by_index ix targets results) = targets.
  Proof. induction targets as [|t rest IH]; intros; cbn; [reflexivity|]. rewrite IH. reflexivity. Qed.

  Lemma by_zip_length : forall targets results,
    length (by_zip targets results) = Nat.min (length targets) (length results).
  Proof. intros. unfold by_zip. rewrite map_length. apply combine_length. Qed.

  (** the verdict list the model takes: a target whose result is missing makes the loop raise there *)
  Definition verdicts (judge : N -> R -> tres) (l : list (N * option R)) : list (N * tres) :=
    map (fun p => (fst p, match snd p with Some r => judge (fst p) r | None => TRaise end)) l.

  Lemma missing_result_fails : forall judge l t,
    In (t, None) l -> tgts_result (verdicts judge l) <> VNone.
  Proof.
    intros judge l t. induction l as [|[x o] rest IH]; intro Hin; [destruct Hin|].
    cbn [verdicts map fst snd tgts_result]. destruct Hin as [E|Hin].
    - inversion E; subst. discriminate.
    - specialize (IH Hin). fold (verdicts judge rest).
      destruct o as [r|]; [|discriminate].
      destruct (judge x r) as [p|code|]; [exact IH| |discriminate].
      destruct (tgts_result (verdicts judge rest)); [congruence|discriminate|discriminate].
  Qed.

  Lemma by_index_missing : forall targets ix results t k,
    nth_error targets k = Some t -> nth_error results (ix + k)%nat = None ->
    In (t, None) (by_index ix targets results).
  Proof.
    induction targets as [|x rest IH]; intros ix results t k Ht Hr; [destruct k; discriminate|].
    destruct k as [|k]; cbn [nth_error] in Ht.
    - inversion Ht; subst. left. rewrite Nat.add_0_r in Hr. cbn [by_index]. rewrite Hr. reflexivity.
    - right. apply (IH (S ix) results t k Ht). rewrite <- Hr. f_equal. lia.
  Qed.
End Targets.

(** With indexing, a target that has no result makes the block fail; zip drops it without a trace. *)
Theorem indexed_target_without_result_fails : forall (R : Type) (judge : N -> R -> tres) targets results t k,
  nth_error targets k = Some t -> nth_error results k = None ->
  tgts_result (verdicts R judge (target_loop R true targets results)) <> VNone.
Proof.
  intros R judge targets results t k Ht Hr. apply (missing_result_fails R judge _ t).
  apply (by_index_missing R targets 0%nat results t k Ht). exact Hr.
Qed.

Theorem zip_skips_a_target :
  exists (targets : list N) (results : list N) (t : N),
    In t targets /\ ~ In t (map fst (target_loop N false targets results))
    /\ tgts_result (verdicts N (fun _ r => TOk r) (target_loop N false targets results)) = VNone.
Proof.
  exists [1; 5], [7], 5. split; [right; left; reflexivity|]. split; [|reflexivity].
  cbn. intros [E|[]]. discriminate E.
Qed.

(** * (3) an escaping exception counts as FAILED_SEC *)
Definition exception_code (failed_sec : bool) : option N := if failed_sec then Some FAILED_SEC else None.

(** * With the loop kinds of the source (Gen/BpsecLoops.v) *)
Lemma source_chain_fail_closed :
  forall (c : cfg) (secs : list secblk) (data : datamap),
    (exists s, In s secs /\ s_visible s = true /\ blk_result s <> VNone) ->
    (forall s code, In s secs -> s_visible s = true -> blk_result s = VCode code -> sec_reason code = true) ->
    let r := recv_sec_as verify_bcb_iterates_snapshot verify_bib_iterates_snapshot c secs data in
    r_reached r = false /\ r_app r = None /\ exists code, r_out r = Deleted code /\ 12 <= code <= 16.
Proof.
  intros c secs data H1 H2. cbv zeta. change verify_bcb_iterates_snapshot with true. change verify_bib_iterates_snapshot with true.
  rewrite recv_sec_as_snapshot. exact (fail_closed c secs data H1 H2).
Qed.

Lemma source_target_loop_covers :
  forall (R : Type) (targets : list N) (results : list R),
    map fst (target_loop R verify_bib_results_by_index targets results) = targets
    /\ map fst (target_loop R verify_bcb_results_by_index targets results) = targets.
Proof. intros R targets results. split; exact (by_index_covers R targets 0%nat results). Qed.

Lemma source_target_without_result_fails :
  forall (R : Type) (judge : N -> R -> tres) (targets : list N) (results : list R) (t : N) (k : nat),
    nth_error targets k = Some t -> nth_error results k = None ->
    tgts_result (verdicts R judge (target_loop R verify_bib_results_by_index targets results)) <> VNone
    /\ tgts_result (verdicts R judge (target_loop R verify_bcb_results_by_index targets results)) <> VNone.
Proof. intros R judge targets results t k H1 H2. split; exact (indexed_target_without_result_fails R judge targets results t k H1 H2). Qed.

Lemma source_exception_is_failed_sec :
  exception_code verify_bib_exception_failed_sec = step_code VRaised
  /\ exception_code verify_bcb_exception_failed_sec = step_code VRaised.
Proof. split; reflexivity. Qed.
