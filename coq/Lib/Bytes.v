(** Octet strings as lists of [N] (each < 256), big-endian fixed-width
    integers, and the helpers the correspondence files use to write octet
    strings compactly ([unhex len 0x...]). Definitions and their basic
    lemmas; stdlib only. *)
From Coq Require Import List NArith ZArith Arith Lia ZifyN ZifyNat ZifyBool.
Import ListNotations.
Local Open Scope N_scope.

Ltac Zify.zify_post_hook ::= Z.div_mod_to_equations.

Definition byte := N.
Definition bytes := list N.

Definition wf_byte (b : N) : Prop := b < 256.
Definition wf_bytes (l : bytes) : Prop := Forall wf_byte l.

Definition wf_byteb (b : N) : bool := b <? 256.
Definition wf_bytesb (l : bytes) : bool := forallb wf_byteb l.

Lemma wf_bytesb_spec l : wf_bytesb l = true <-> wf_bytes l.
Proof.
  unfold wf_bytesb, wf_bytes. rewrite forallb_forall, Forall_forall.
  unfold wf_byteb, wf_byte. split; intros H x Hx; specialize (H x Hx); lia.
Qed.

Lemma wf_bytes_app a b : wf_bytes (a ++ b) <-> wf_bytes a /\ wf_bytes b.
Proof. unfold wf_bytes. apply Forall_app. Qed.

(** [be k n]: the [k]-octet big-endian representation of [n] (truncating). *)
Fixpoint be (k : nat) (n : N) : bytes :=
  match k with
  | O => []
  | S k' => be k' (n / 256) ++ [n mod 256]
  end.

(** [unbe l]: big-endian value of an octet string. *)
Definition unbe (l : bytes) : N := fold_left (fun acc b => acc * 256 + b) l 0.

Lemma be_length k : forall n, length (be k n) = k.
Proof. induction k as [|k IH]; intros n; cbn [be]; [reflexivity|]. rewrite app_length, IH. cbn. lia. Qed.

Lemma be_wf k : forall n, wf_bytes (be k n).
Proof.
  induction k as [|k IH]; intros n; cbn [be]; [constructor|].
  apply wf_bytes_app. split; [apply IH|]. constructor; [|constructor]. unfold wf_byte. lia.
Qed.

Lemma unbe_app a b : unbe (a ++ [b]) = unbe a * 256 + b.
Proof. unfold unbe. rewrite fold_left_app. reflexivity. Qed.

Lemma unbe_be k : forall n, n < 256 ^ N.of_nat k -> unbe (be k n) = n.
Proof.
  induction k as [|k IH]; intros n Hn.
  - cbn in *. unfold unbe. cbn. lia.
  - cbn [be]. rewrite unbe_app. rewrite IH.
    + lia.
    + rewrite Nnat.Nat2N.inj_succ, N.pow_succ_r' in Hn. lia.
Qed.

(** Injectivity of [be] on in-range values. *)
Lemma be_inj k a b : a < 256 ^ N.of_nat k -> b < 256 ^ N.of_nat k -> be k a = be k b -> a = b.
Proof. intros Ha Hb E. rewrite <- (unbe_be k a Ha), <- (unbe_be k b Hb), E. reflexivity. Qed.

(** Reading a [k]-octet big-endian integer off the front of a buffer. *)
Definition take_be (k : nat) (l : bytes) : option (N * bytes) :=
  if (length l <? k)%nat then None else Some (unbe (firstn k l), skipn k l).

Lemma take_be_app k n rest : n < 256 ^ N.of_nat k -> take_be k (be k n ++ rest) = Some (n, rest).
Proof.
  intros Hn. unfold take_be. rewrite app_length, be_length.
  destruct (Nat.ltb_spec (k + length rest) k) as [H|H]; [lia|].
  rewrite firstn_app, skipn_app, be_length, Nat.sub_diag. cbn [firstn skipn].
  rewrite app_nil_r. rewrite <- (be_length k n) at 1 3. rewrite firstn_all, skipn_all.
  cbn [app]. rewrite unbe_be by exact Hn. reflexivity.
Qed.

(** Compact octet-string literals for generated case files. *)
Definition unhex (len : nat) (n : N) : bytes := be len n.

(** Deterministic pseudo-random data shared with the Python harness
    (32-bit LCG; octet = bits 16..23 of the state). *)
Fixpoint mkdata_aux (len : nat) (st : N) : bytes :=
  match len with
  | O => []
  | S l => let st' := (st * 1103515245 + 12345) mod 4294967296 in
           ((st' / 65536) mod 256) :: mkdata_aux l st'
  end.
Definition mkdata (seed : N) (len : nat) : bytes := mkdata_aux len seed.

Lemma mkdata_aux_length len : forall st, length (mkdata_aux len st) = len.
Proof. induction len as [|l IH]; intros st; cbn [mkdata_aux]; [reflexivity|]. cbn [length]. rewrite IH. reflexivity. Qed.

Lemma mkdata_aux_wf len : forall st, wf_bytes (mkdata_aux len st).
Proof.
  induction len as [|l IH]; intros st; cbn [mkdata_aux]; [constructor|].
  constructor; [unfold wf_byte; lia | apply IH].
Qed.

Definition bytes_eqb (a b : bytes) : bool :=
  (length a =? length b)%nat && forallb (fun p => fst p =? snd p) (combine a b).

Lemma bytes_eqb_eq : forall a b, bytes_eqb a b = true <-> a = b.
Proof.
  unfold bytes_eqb. induction a as [|x a IH]; intros [|y b]; cbn; split; intros H; try reflexivity; try discriminate.
  - apply Bool.andb_true_iff in H as [Hl H]. apply Bool.andb_true_iff in H as [Hxy H].
    apply N.eqb_eq in Hxy. subst y. f_equal. apply IH. rewrite Hl. exact H.
  - inversion H; subst. rewrite Nat.eqb_refl, N.eqb_refl. cbn.
    pose proof (proj2 (IH b) eq_refl) as E. rewrite Nat.eqb_refl in E. exact E.
Qed.
