(** Interval sets over [N] in normal form: a model of the Python [portion]
    library restricted to what the DTN demo agent uses for reassembly
    bookkeeping,

      valid = portion.empty()
      valid |= portion.closedopen(off, off+len)
      if valid == portion.closedopen(0, total): complete

    (bp/app/fragment.py [_reassemble], udpcl/agent.py transfer reassembly and
    [range_encode]/[range_decode], btpu/agent.py discrete segment indices).
    The stand-in implementation used by the harness is
    harness/stubs/portion.py; the [Example]s in Lib/IvlProofs.v pin this model
    to it on concrete cases.

    Representation: a sorted list of half-open pairs [[lo,hi)], each non-empty,
    consecutive pairs separated by a gap (disjoint AND non-adjacent; adjacent
    intervals are merged).  Definitions only; theorems are in Lib/IvlProofs.v.
    Stdlib only. *)
From Coq Require Import List NArith Bool.
Import ListNotations.
Local Open Scope N_scope.

Definition ivl := list (N * N).

(** ** Normal form *)

(** [normfrom b s]: [s] is in normal form and its first lower bound is at
    least [b].  The bound handed to the tail is [hi+1], which is exactly the
    "gap" requirement [hi_i < lo_{i+1}]. *)
Fixpoint normfrom (b : N) (s : ivl) : Prop :=
  match s with
  | [] => True
  | (lo, hi) :: r => b <= lo /\ lo < hi /\ normfrom (hi + 1) r
  end.

Definition norm (s : ivl) : Prop := normfrom 0 s.

Fixpoint normfromb (b : N) (s : ivl) : bool :=
  match s with
  | [] => true
  | (lo, hi) :: r => (b <=? lo) && (lo <? hi) && normfromb (hi + 1) r
  end.

Definition normb (s : ivl) : bool := normfromb 0 s.

(** ** Membership *)

Definition inrange (lo hi x : N) : bool := (lo <=? x) && (x <? hi).

Fixpoint mem (x : N) (s : ivl) : bool :=
  match s with
  | [] => false
  | (lo, hi) :: r => inrange lo hi x || mem x r
  end.

(** ** Union with one interval *)

(** Insert-and-merge of a non-empty interval [[lo,hi)], carrying the interval
    being merged down the list. *)
Fixpoint ins (lo hi : N) (s : ivl) : ivl :=
  match s with
  | [] => [(lo, hi)]
  | (lo', hi') :: r =>
      if hi <? lo' then (lo, hi) :: (lo', hi') :: r          (* strictly before, with a gap *)
      else if hi' <? lo then (lo', hi') :: ins lo hi r       (* strictly after, with a gap *)
      else ins (N.min lo lo') (N.max hi hi') r               (* overlapping or adjacent: merge *)
  end.

(** [s | closedopen(lo, hi)]; [closedopen(lo,hi)] is empty when [hi <= lo]. *)
Definition add (lo hi : N) (s : ivl) : ivl :=
  if hi <=? lo then s else ins lo hi s.

Definition empty : ivl := [].

(** The step function of "valid |= closedopen(fst p, snd p)". *)
Definition add_piece (s : ivl) (p : N * N) : ivl := add (fst p) (snd p) s.

(** All pieces of [ps] added, in order, to [s]. *)
Definition add_all (ps : list (N * N)) (s : ivl) : ivl := fold_left add_piece ps s.

(** [a | b] *)
Definition union (a b : ivl) : ivl := add_all b a.

(** Arbitrary list of pairs to normal form (what the stub's [_norm] does). *)
Definition normalize (ps : list (N * N)) : ivl := add_all ps [].

(** ** Equality and the "everything" interval *)

Fixpoint eqb (a b : ivl) : bool :=
  match a, b with
  | [], [] => true
  | (l1, h1) :: r1, (l2, h2) :: r2 => (l1 =? l2) && (h1 =? h2) && eqb r1 r2
  | _, _ => false
  end.

(** [portion.closedopen(0, total)] *)
Definition full (total : N) : ivl := if total =? 0 then [] else [(0, total)].

(** [portion.closedopen(lo, hi)] as a value. *)
Definition closedopen (lo hi : N) : ivl := add lo hi [].

(** ** Discrete helpers (btpu [IntInterval]): closed integer intervals are
    represented exactly by half-open ones. *)
Definition singleton (x : N) : ivl := [(x, x + 1)].
Definition closed (a b : N) : ivl := [(a, b + 1)].

(** ** udpcl [range_encode] / [range_decode]

    [range_encode]: for each atomic interval, the offset of its lower bound
    from the previous upper bound (from 0 for the first) and its length. *)
Fixpoint range_encode_from (last : N) (s : ivl) : list N :=
  match s with
  | [] => []
  | (lo, hi) :: r => (lo - last) :: (hi - lo) :: range_encode_from hi r
  end.

Definition range_encode (s : ivl) : list N := range_encode_from 0 s.

(** [range_decode]: items consumed two at a time; a trailing odd item is
    dropped (the second [next()] raises [StopIteration], which ends the loop
    before anything is added). *)
Fixpoint range_decode_from (last : N) (acc : ivl) (l : list N) : ivl :=
  match l with
  | off :: len :: rest =>
      let lo := last + off in
      let hi := lo + len in
      range_decode_from hi (add lo hi acc) rest
  | _ => acc
  end.

Definition range_decode (l : list N) : ivl := range_decode_from 0 [] l.
