(** TCPCL endpoint model: C09 -- a queued transfer is never silently dropped:
    its id stays in the transmit map or a SigSendFinished was emitted for it. *)
From Coq Require Import ZArith NArith List Bool Lia ZifyBool ZifyN ZifyNat Arith.
From RecordUpdate Require Import RecordSet.
From DTN Require Import Lib.Bytes Model.TcpclMsg Model.TcpclSess Proofs.TcpclSessBasics
  Proofs.TcpclSentProofs1 Proofs.TcpclSentProofs2 Proofs.TcpclSentProofs3 Proofs.TcpclSentProofs4
  Proofs.TcpclSentProofs5 Proofs.TcpclSentProofs6 Proofs.TcpclSentProofs7 Proofs.TcpclSentProofs8 Proofs.TcpclSentProofs9 Proofs.TcpclSentProofs10 Proofs.TcpclSentProofs11.
Import ListNotations RecordSetNotations.
Ltac Zify.zify_post_hook ::= Z.div_mod_to_equations.
Local Open Scope N_scope.


Definition keys {V} (d : list (N * V)) : list N := map fst d.

Lemma keys_dict_set {V} k (v : V) d id : In id (keys d) -> In id (keys (dict_set k v d)).
Proof.
  induction d as [|[k' v'] d IH]; cbn [keys map fst dict_set In]; [contradiction|].
  destruct (N.eqb_spec k' k) as [e|e]; cbn [map fst In]; intros [H|H];
    first [left; congruence | right; exact H | right; apply IH; exact H].
Qed.

Lemma keys_dict_set_same {V} k (v : V) d : In k (keys (dict_set k v d)).
Proof.
  induction d as [|[k' v'] d IH]; cbn [keys map fst dict_set In]; [left; reflexivity|].
  destruct (N.eqb_spec k' k) as [e|e]; cbn [map fst In]; [left; reflexivity|right; exact IH].
Qed.

Lemma keys_dict_del_ne {V} k (d : list (N * V)) id : k <> id -> In id (keys d) -> In id (keys (dict_del k d)).
Proof.
  intros Hne. induction d as [|[k' v'] d IH]; cbn [keys map fst dict_del In]; [contradiction|].
  destruct (N.eqb_spec k' k) as [e|e]; cbn [map fst In]; intros [H|H];
    first [subst; contradiction | exact H | left; exact H | right; apply IH; exact H].
Qed.

Lemma keys_flush its : forall (m : list (N * N)) id,
  In id (keys m) -> In id (keys (flush_map its m)) \/ In id (map fst its).
Proof.
  induction its as [|it its IH]; intros m id H; cbn [flush_map fold_left map In]; [left; exact H|].
  destruct (N.eq_dec (fst it) id) as [e|e]; [right; left; exact e|].
  destruct (IH (dict_del (fst it) m) id (keys_dict_del_ne _ _ _ e H)) as [H1|H1]; [left; exact H1|right; right; exact H1].
Qed.

Definition fin (id : N) (t : list event) : Prop := exists args, In (ESig SigSendFinished (PStrNum id :: args)) t.

Lemma fin_in_flush its id : In id (map fst its) ->
  In (ESig SigSendFinished [PStrNum id; PInt 0; PStr RES_TERMINATING]) (flush_events its).
Proof.
  intros H. unfold flush_events. apply in_map_iff in H. destruct H as (it&E&Hin). apply in_map_iff. exists it.
  split; [rewrite E; reflexivity|exact Hin].
Qed.

Lemma fin_app id t1 t2 : fin id t1 -> fin id (t1 ++ t2).
Proof. intros [a H]. exists a. apply in_app_iff. left. exact H. Qed.

Ltac in_tac := rewrite ?in_app_iff; cbn [In]; intuition (try reflexivity; auto).

Lemma keys_or_set {V} k (v : V) d id (F : Prop) :
  (In id (map fst d) \/ F) -> In id (map fst (dict_set k v d)) \/ F.
Proof. intros [H|H]; [left; apply keys_dict_set; exact H|right; exact H]. Qed.

Lemma keys_or_del {V} k (d : list (N * V)) id (F : Prop) :
  (k = id -> F) -> (In id (map fst d) \/ F) -> In id (map fst (dict_del k d)) \/ F.
Proof.
  intros Hk [H|H]; [|right; exact H]. destruct (N.eq_dec k id) as [e|e]; [right; apply Hk, e|].
  left. apply keys_dict_del_ne; assumption.
Qed.

Lemma keys_or_flush its (d : list (N * N)) id (F : Prop) :
  (In id (map fst its) -> F) -> (In id (map fst d) \/ F) -> In id (map fst (flush_map its d)) \/ F.
Proof.
  intros Hk [H|H]; [|right; exact H]. destruct (keys_flush its d id H) as [H1|H1]; [left; exact H1|right; apply Hk, H1].
Qed.

Ltac txmap_leaf :=
  let id := fresh "id" in let Hin := fresh "Hin" in
  intros id Hin;
  repeat first
    [ apply keys_or_set
    | apply keys_or_del; [let e := fresh "e" in intros e; subst; eexists; in_tac|]
    | apply keys_or_flush;
      [let H1 := fresh "H1" in intros H1;
       match goal with H : In _ (map fst ?its) |- _ =>
         pose proof (fin_in_flush its _ H) end;
       exists [PInt 0; PStr RES_TERMINATING]; in_tac|] ];
  left; exact Hin.

Lemma txmap_recv_frame fr s :
  forall id, In id (keys (tx_map s)) ->
    In id (keys (tx_map (fst (recv_frame fr s)))) \/ fin id (trace (fst (recv_frame fr s))).
Proof.
  unfold keys. hm_unfold. destruct fr as [c|m]; [|destruct m]; p_split;
    unfold state_trace, close_trace, close_txmap; p_split.
  all: txmap_leaf.
Qed.

Definition is_ret (e : event) : bool := match e with ERet _ _ => true | _ => false end.

Ltac noret_leaf :=
  let e := fresh "e" in let He := fresh "He" in let Hin := fresh "Hin" in
  intros e He Hin; try exact Hin;
  rewrite ?in_app_iff in Hin; cbn [In] in Hin;
  repeat match goal with
         | H : _ \/ _ |- _ => destruct H as [H|H]
         | H : False |- _ => contradiction
         end;
  try assumption;
  try (subst e; discriminate He);
  try (match goal with H : In _ (flush_events _) |- _ =>
         unfold flush_events in H; apply in_map_iff in H; destruct H as (?&H&_); subst e; discriminate He end).

Lemma noret_recv_frame fr s :
  forall e, is_ret e = true -> In e (trace (fst (recv_frame fr s))) -> In e (trace s).
Proof.
  hm_unfold. destruct fr as [c|m]; [|destruct m]; p_split;
    unfold state_trace, close_trace; p_split.
  all: noret_leaf.
Qed.

Lemma txmap_step_o o s : not_rx o = true ->
  forall id, In id (keys (tx_map s)) ->
    In id (keys (tx_map (step s o))) \/ fin id (trace (step s o)).
Proof.
  intros Ho. unfold keys. destruct o; try discriminate Ho; st_unfold; p_split;
    unfold state_trace, close_trace, close_txmap; p_split; txmap_leaf.
Qed.

Lemma noret_step_o o s : not_rx o = true -> (forall d, o <> OSend d) ->
  forall e, is_ret e = true -> In e (trace (step s o)) -> In e (trace s).
Proof.
  intros Ho Hs. destruct o; try discriminate Ho; try (exfalso; eapply Hs; reflexivity); st_unfold; p_split;
    unfold state_trace, close_trace; p_split.
  all: noret_leaf.
Qed.

Lemma send_step d s : closed s = false -> in_term s = false ->
  trace (step s (OSend d)) = trace s ++ [ERet 1 (PStrNum (next_id s))]
  /\ tx_map (step s (OSend d)) = dict_set (next_id s) 0 (tx_map s).
Proof. intros Hc Ht. st_unfold. rewrite Hc, Ht. p_split. split; reflexivity. Qed.

(** Once terminating, send_bundle_data is refused and changes nothing. *)
Lemma send_refused d s : closed s = false -> in_term s = true ->
  step s (OSend d) = emit (EExc EX_RUNTIME) s.
Proof. intros Hc Ht. unfold step. rewrite Hc, Ht. reflexivity. Qed.

(** Every transfer id returned by send_bundle_data is still in the transmit
    map, or a SigSendFinished signal was emitted for it. *)
Definition Qd (s : ep) : Prop :=
  forall id, In (ERet 1 (PStrNum id)) (trace s) -> In id (keys (tx_map s)) \/ fin id (trace s).

Lemma fin_mono id s s' : (exists t, trace s' = trace s ++ t) -> fin id (trace s) -> fin id (trace s').
Proof. intros [t E] H. rewrite E. apply fin_app, H. Qed.

Lemma Qd_recv_frame fr s : Qd s -> Qd (fst (recv_frame fr s)).
Proof.
  intros H id Hin. apply noret_recv_frame in Hin; [|reflexivity].
  destruct (H id Hin) as [H1|H1]; [apply txmap_recv_frame; exact H1|].
  right. eapply fin_mono; [apply trace_recv_frame|exact H1].
Qed.

Lemma Qd_step_o o s : Qd s -> closed s = false -> not_rx o = true -> Qd (step s o).
Proof.
  intros H Hc Ho id Hin.
  assert (Hmono : exists t, trace (step s o) = trace s ++ t) by (apply trace_step_o, Ho).
  assert (Hold : In (ERet 1 (PStrNum id)) (trace s) -> In id (keys (tx_map (step s o))) \/ fin id (trace (step s o))).
  { intros Hi. destruct (H id Hi) as [H1|H1]; [apply txmap_step_o; assumption|].
    right. eapply fin_mono; [exact Hmono|exact H1]. }
  destruct o; try discriminate Ho;
    try (apply Hold; revert Hin; apply noret_step_o; [reflexivity|discriminate|reflexivity]).
  destruct (in_term s) eqn:Ht.
  { rewrite (send_refused data s Hc Ht) in Hin |- *. unfold emit in *. ep_cbn_in Hin. ep_cbn.
    apply in_app_iff in Hin. destruct Hin as [Hin|[Hin|[]]]; [|discriminate Hin].
    destruct (H id Hin) as [H1|[a H1]]; [left; exact H1|right]. exists a. apply in_app_iff. left. exact H1. }
  destruct (send_step data s Hc Ht) as [Et Em]. rewrite Et in Hin. apply in_app_iff in Hin.
  destruct Hin as [Hin|[Hin|[]]]; [apply Hold, Hin|]. inversion Hin. subst id.
  left. rewrite Em. apply keys_dict_set_same.
Qed.

Lemma Qd_step s o : Qd s -> Qd (step s o).
Proof.
  revert s o. apply (step_inv Qd).
  - intros s dt H. exact H.
  - intros s o H Hc Ho. apply Qd_step_o; assumption.
  - intros s fr rest H Hc Hk. apply Qd_recv_frame. exact H.
  - intros s b i t H. exact H.
  - intros s k H id Hin. unfold emit in Hin. ep_cbn_in Hin. apply in_app_iff in Hin.
    destruct Hin as [Hin|[Hin|[]]]; [|discriminate Hin].
    destruct (H id Hin) as [H1|[a H1]]; [left; exact H1|right]. exists a. unfold emit. ep_cbn.
    apply in_app_iff. left. exact H1.
Qed.

(** C09: after any run, every transfer that was queued (its id was returned by
    send_bundle_data) is still queued / in progress / awaiting its final
    acknowledgement, or was reported finished -- never silently dropped. *)
Theorem queued_never_dropped c ops : let s := run c ops in
  forall id, In (ERet 1 (PStrNum id)) (trace s) ->
    In id (map fst (tx_map s)) \/ exists args, In (ESig SigSendFinished (PStrNum id :: args)) (trace s).
Proof.
  cbv zeta. apply (run_invariant Qd); [|intros s o; apply Qd_step].
  intros id H. cbn in H. contradiction.
Qed.
