''' Recording stand-in for dbus.service. '''
import functools

#: Global log of D-Bus boundary events:
#: dicts(kind='signal'|'return', obj=<object_path>, name, signature, args)
EVENT_LOG = []
#: Optional callables invoked with each event dict
LISTENERS = []


def _emit(evt):
    EVENT_LOG.append(evt)
    for func in list(LISTENERS):
        func(evt)


class BusName(object):
    def __init__(self, name, bus=None, **kwargs):
        self._name = name
        self._bus = bus

    def get_name(self):
        return self._name

    def get_bus(self):
        return self._bus


class Object(object):
    def __init__(self, conn=None, object_path=None, bus_name=None):
        self._stub_conn = conn
        self._stub_path = object_path
        self.locations = [(conn, object_path, False)] if object_path is not None else []

    def remove_from_connection(self, connection=None, path=None):
        self.locations = []

    def add_to_connection(self, connection, path):
        self.locations.append((connection, path, False))


def method(dbus_interface, in_signature=None, out_signature=None, **kwargs):
    def deco(func):
        @functools.wraps(func)
        def wrapper(self, *args, **kw):
            ret = func(self, *args, **kw)
            _emit(dict(kind='return', obj=getattr(self, '_stub_path', None),
                       name=func.__name__, iface=dbus_interface,
                       signature=out_signature, in_signature=in_signature,
                       args=(ret,), call_args=args))
            return ret
        wrapper._dbus_is_method = True
        wrapper._dbus_interface = dbus_interface
        wrapper._dbus_in_signature = in_signature
        wrapper._dbus_out_signature = out_signature
        return wrapper
    return deco


def signal(dbus_interface, signature=None, **kwargs):
    def deco(func):
        @functools.wraps(func)
        def wrapper(self, *args, **kw):
            # dbus-python marshals first (raising on type mismatch), and
            # runs the body first of all
            func(self, *args, **kw)
            _emit(dict(kind='signal', obj=getattr(self, '_stub_path', None),
                       name=func.__name__, iface=dbus_interface,
                       signature=signature, args=args))
        wrapper._dbus_is_signal = True
        wrapper._dbus_interface = dbus_interface
        wrapper._dbus_signature = signature
        return wrapper
    return deco
