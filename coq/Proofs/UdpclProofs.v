(** Proofs about the UDPCL transfer model (Model/Udpcl.v) for property C13:
    every datagram of a send request is within the MTU, the segments tile the
    bundle, a receiver given each segment once (any order, interleaved with
    other peers/transfers) queues exactly the bundle and nothing earlier,
    repeated segments never produce anything but the bundle, and a datagram
    made of several messages (and padding) is handled message by message.

    Structure
    - facts about Gen/UdpclBudget.v (the translated arithmetic) -- the only
      place where the generated definitions are unfolded;
    - the segmentation loop: specification, termination for [remain > 0],
      divergence for [remain <= 0] (the observation recorded in DESIGN: for
      [mtu <= overhead] the real generator never stops);
    - non-interference of keys ([run_segments_proj]): the global receiver
      restricted to one (peer, id) key is the local run [xrun];
    - the buffer invariant [xinv] (what has been written agrees with the
      bundle) and the interval-set tracking [tracked], over Lib/Ivl;
    - [recv_loop] over a concatenation of message encodings, from
      [Cbor.decode_encode] / [decode_indef_depth] consumption. *)
From Coq Require Import List NArith ZArith Arith Bool Lia ZifyBool ZifyN ZifyNat Permutation.
From DTN Require Import Lib.Bytes Lib.Cbor Lib.CborProofs Lib.Ivl Lib.IvlProofs Gen.UdpclBudget Model.Udpcl.
Import ListNotations.
Local Open Scope N_scope.

Ltac Zify.zify_post_hook ::= Z.div_mod_to_equations.

(** * Facts about the generated definitions (the only place where
    Gen/UdpclBudget.v is unfolded) *)

Lemma gen_unsegmented len mtu : unsegmented len mtu = (len <? mtu)%Z.
Proof. reflexivity. Qed.
Lemma gen_loop_test off len : loop_test off len = (off <? len)%Z.
Proof. reflexivity. Qed.
Lemma gen_next_offset off r : next_offset off r = (off + r)%Z.
Proof. reflexivity. Qed.
Lemma gen_slice_lo off r : slice_lo off r = off.
Proof. reflexivity. Qed.
Lemma gen_slice_hi off r : slice_hi off r = (off + r)%Z.
Proof. reflexivity. Qed.
Lemma gen_init_offset : init_offset = 0%Z.
Proof. reflexivity. Qed.
Lemma gen_seg_msg xid total off frag :
  seg_msg xid total off frag = CMap [(CUint 2, CArr [CUint xid; CUint total; CUint off; CBstr frag])].
Proof. reflexivity. Qed.

Definition overhead (xid total : N) : nat := (3 + head_len xid + 3 * head_len total)%nat.

Lemma enc_seg_length xid total off frag :
  length (encode (seg_msg xid total off frag))
  = (3 + head_len xid + head_len total + head_len off + head_len (olen frag) + length frag)%nat.
Proof.
  rewrite gen_seg_msg. cbn [encode map concat fst snd length].
  rewrite ?app_length, ?head_length. cbn [length]. unfold olen.
  change (head_len (N.of_nat 1)) with 1%nat. change (head_len 2) with 1%nat.
  change (head_len (N.of_nat 4)) with 1%nat. lia.
Qed.

Lemma gen_remain mtu xid total : remain mtu xid total = (Z.of_N mtu - Z.of_nat (overhead xid total))%Z.
Proof.
  unfold remain, ext_base_encsize, data_size_encsize, ext_base, remain_size, overhead.
  change (ext_of ext_base_fields xid total total []) with (seg_msg xid total total []).
  rewrite enc_seg_length. cbn [field_item data_size_field encode]. rewrite head_length.
  change (olen []) with 0. change (head_len 0) with 1%nat. cbn [length]. lia.
Qed.
(** * List helpers *)

Lemma skipn_skipn' {A} (b : nat) : forall (a : nat) (l : list A), skipn a (skipn b l) = skipn (b + a) l.
Proof.
  induction b as [|b IH]; intros a l; [reflexivity|].
  destruct l as [|x l]; [rewrite !skipn_nil; reflexivity|]. cbn [skipn plus]. apply IH.
Qed.

Lemma pyslice_eq data off r :
  (0 <= off)%Z -> (0 < r)%Z ->
  pyslice data off (off + r) = firstn (Z.to_nat r) (skipn (Z.to_nat off) data).
Proof. intros Ho Hr. unfold pyslice. f_equal. lia. Qed.

(** * The segmentation loop *)

Section Loop.
  Variable data : bytes.
  Variable r : Z.

  Definition piece_ok (p : N * bytes) : Prop :=
    (Z.of_N (fst p) < Z.of_nat (length data))%Z
    /\ (Z.of_nat (length (snd p)) <= r)%Z
    /\ (length (snd p) <= length data)%nat
    /\ snd p <> [].

  Lemma seg_loop_spec : (0 < r)%Z -> forall fuel off ps,
    (0 <= off)%Z -> seg_loop fuel data r off = Some ps ->
    contiguous_from (Z.to_N off) ps
    /\ concat (map snd ps) = skipn (Z.to_nat off) data
    /\ Forall piece_ok ps.
  Proof.
    intros Hr. induction fuel as [|f IH]; intros off ps Hoff E; [discriminate|].
    cbn [seg_loop] in E. change (loop_test off (Z.of_nat (length data))) with (off <? Z.of_nat (length data))%Z in E.
    change (next_offset off r) with (off + r)%Z in E.
    change (slice_lo off r) with off in E. change (slice_hi off r) with (off + r)%Z in E.
    destruct (off <? Z.of_nat (length data))%Z eqn:Hlt.
    - destruct (seg_loop f data r (off + r)%Z) as [l|] eqn:El; [|discriminate].
      injection E as <-. destruct (IH (off + r)%Z l ltac:(lia) El) as (Hc & Hcat & Hall).
      rewrite pyslice_eq by lia.
      set (fr := firstn (Z.to_nat r) (skipn (Z.to_nat off) data)).
      assert (Hlen : length fr = Nat.min (Z.to_nat r) (length data - Z.to_nat off)).
      { unfold fr. rewrite firstn_length, skipn_length. reflexivity. }
      assert (Hne : fr <> []).
      { intros Hnil. rewrite Hnil in Hlen. cbn [length] in Hlen. lia. }
      split; [|split].
      + cbn [contiguous_from]. split; [reflexivity|]. split; [exact Hne|].
        destruct l as [|[o2 f2] l2]; [exact I|].
        pose proof Hc as Hc'. cbn [contiguous_from] in Hc'. destruct Hc' as (Ho2 & _).
        inversion Hall as [|? ? Hp2 _]; subst. destruct Hp2 as (Hp2 & _). cbn [fst] in Hp2.
        replace (Z.to_N off + olen fr) with (Z.to_N (off + r)); [exact Hc|].
        unfold olen. lia.
      + cbn [map concat snd]. rewrite Hcat. unfold fr.
        replace (Z.to_nat (off + r)) with (Z.to_nat off + Z.to_nat r)%nat by lia.
        rewrite <- skipn_skipn'. apply firstn_skipn.
      + constructor; [|exact Hall]. unfold piece_ok. cbn [fst snd].
        repeat split; try lia. exact Hne.
    - injection E as <-. cbn [contiguous_from map concat]. repeat split; [|constructor].
      symmetry. apply skipn_all2. lia.
  Qed.

  Lemma seg_loop_terminates : (0 < r)%Z -> forall fuel off,
    (0 <= off)%Z -> (Z.to_nat (Z.of_nat (length data) - off) < fuel)%nat ->
    exists ps, seg_loop fuel data r off = Some ps.
  Proof.
    intros Hr. induction fuel as [|f IH]; intros off Hoff Hf; [lia|].
    cbn [seg_loop]. change (loop_test off (Z.of_nat (length data))) with (off <? Z.of_nat (length data))%Z.
    change (next_offset off r) with (off + r)%Z.
    destruct (off <? Z.of_nat (length data))%Z eqn:Hlt; [|eexists; reflexivity].
    destruct (IH (off + r)%Z ltac:(lia) ltac:(lia)) as (ps & ->). eexists; reflexivity.
  Qed.

  (** the observation recorded in DESIGN: with [remain_size <= 0] the loop
      never ends, whatever the fuel *)
  Lemma seg_loop_diverges : (r <= 0)%Z -> forall fuel off,
    (off < Z.of_nat (length data))%Z -> seg_loop fuel data r off = None.
  Proof.
    intros Hr. induction fuel as [|f IH]; intros off Hoff; [reflexivity|].
    cbn [seg_loop]. change (loop_test off (Z.of_nat (length data))) with (off <? Z.of_nat (length data))%Z.
    change (next_offset off r) with (off + r)%Z.
    replace (off <? Z.of_nat (length data))%Z with true by lia.
    rewrite IH by lia. reflexivity.
  Qed.
End Loop.

(** * Sender theorems *)

Definition feasible (mtu xid total : N) : Prop := N.of_nat (overhead xid total) < mtu.

Lemma feasible_remain mtu xid total : feasible mtu xid total <-> (0 < remain mtu xid total)%Z.
Proof. unfold feasible. rewrite gen_remain. lia. Qed.

Theorem send_pieces_terminates data mtu xid :
  feasible mtu xid (olen data) -> exists ps, send_pieces data mtu xid = Some ps.
Proof.
  intros Hf. unfold send_pieces. rewrite gen_init_offset.
  apply seg_loop_terminates; [apply feasible_remain; exact Hf | lia | lia].
Qed.

Theorem send_pieces_diverges data mtu xid fuel :
  ~ feasible mtu xid (olen data) -> data <> [] ->
  seg_loop fuel data (remain mtu xid (olen data)) init_offset = None.
Proof.
  intros Hf Hne. rewrite gen_init_offset. apply seg_loop_diverges.
  - rewrite feasible_remain in Hf. lia.
  - destruct data; [congruence|]. cbn [length]. lia.
Qed.

Theorem send_pieces_spec data mtu xid ps :
  feasible mtu xid (olen data) -> send_pieces data mtu xid = Some ps ->
  contiguous_from 0 ps /\ concat (map snd ps) = data
  /\ Forall (piece_ok data (remain mtu xid (olen data))) ps.
Proof.
  intros Hf E. unfold send_pieces in E. rewrite gen_init_offset in E.
  apply feasible_remain in Hf.
  destruct (seg_loop_spec data _ Hf _ 0%Z _ ltac:(lia) E) as (Hc & Hcat & Hall).
  repeat split; assumption.
Qed.

Theorem send_terminates data mtu xid :
  feasible mtu xid (olen data) -> exists dgs, send_transfer data mtu xid = Some dgs.
Proof.
  intros Hf. unfold send_transfer. destruct (unsegmented _ _); [eexists; reflexivity|].
  destruct (send_pieces_terminates data mtu xid Hf) as (ps & ->). eexists; reflexivity.
Qed.

Theorem send_single data mtu xid :
  olen data < mtu -> send_transfer data mtu xid = Some [data].
Proof.
  intros Hlt. unfold send_transfer. rewrite gen_unsegmented.
  replace (Z.of_nat (length data) <? Z.of_N mtu)%Z with true; [reflexivity|]. unfold olen in Hlt. lia.
Qed.

Theorem send_segmented data mtu xid :
  mtu <= olen data ->
  send_transfer data mtu xid = option_map (map (enc_piece xid (olen data))) (send_pieces data mtu xid).
Proof.
  intros Hle. unfold send_transfer. rewrite gen_unsegmented.
  replace (Z.of_nat (length data) <? Z.of_N mtu)%Z with false; [reflexivity|]. unfold olen in Hle. lia.
Qed.

Lemma enc_piece_within data mtu xid p :
  feasible mtu xid (olen data) -> piece_ok data (remain mtu xid (olen data)) p ->
  olen (enc_piece xid (olen data) p) <= mtu.
Proof.
  intros Hf (Ho & Hl & Hld & _). unfold enc_piece, olen at 1. rewrite enc_seg_length.
  rewrite gen_remain in Hl. unfold feasible in Hf. unfold overhead in *.
  pose proof (head_len_mono (fst p) (olen data) ltac:(unfold olen; lia)) as H1.
  pose proof (head_len_mono (olen (snd p)) (olen data) ltac:(unfold olen; lia)) as H2.
  lia.
Qed.

Theorem send_within_mtu data mtu xid dgs :
  feasible mtu xid (olen data) -> send_transfer data mtu xid = Some dgs ->
  Forall (fun d => olen d <= mtu) dgs.
Proof.
  intros Hf E. unfold send_transfer in E. rewrite gen_unsegmented in E.
  destruct (Z.of_nat (length data) <? Z.of_N mtu)%Z eqn:Hlt.
  - injection E as <-. constructor; [|constructor]. unfold olen. lia.
  - destruct (send_pieces data mtu xid) as [ps|] eqn:Ep; [|discriminate].
    injection E as <-. destruct (send_pieces_spec _ _ _ _ Hf Ep) as (_ & _ & Hall).
    apply Forall_map. eapply Forall_impl; [|exact Hall].
    intros p Hp. apply enc_piece_within; assumption.
Qed.

(** * The store of transfers in progress *)

Lemma key_eqb_eq a b : key_eqb a b = true <-> a = b.
Proof.
  destruct a as [a1 a2], b as [b1 b2]. unfold key_eqb. cbn [fst snd].
  rewrite andb_true_iff, !N.eqb_eq. split; [intros [-> ->]; reflexivity | intros H; inversion H; auto].
Qed.

Lemma key_eqb_refl a : key_eqb a a = true.
Proof. apply key_eqb_eq. reflexivity. Qed.

Lemma key_eqb_neq a b : a <> b -> key_eqb a b = false.
Proof. intros H. destruct (key_eqb a b) eqn:E; [|reflexivity]. apply key_eqb_eq in E. contradiction. Qed.

Lemma lookup_set_same k v l : lookup k (set_key k v l) = Some v.
Proof.
  induction l as [|[k' v'] r IH]; cbn [set_key lookup].
  - rewrite key_eqb_refl. reflexivity.
  - destruct (key_eqb k k') eqn:E; cbn [lookup]; [rewrite key_eqb_refl; reflexivity | rewrite E; exact IH].
Qed.

Lemma lookup_set_other k k' v l : k <> k' -> lookup k' (set_key k v l) = lookup k' l.
Proof.
  intros Hne. induction l as [|[k2 v2] r IH]; cbn [set_key lookup].
  - rewrite (key_eqb_neq k' k) by congruence. reflexivity.
  - destruct (key_eqb k k2) eqn:E; cbn [lookup].
    + apply key_eqb_eq in E. subst k2. rewrite (key_eqb_neq k' k) by congruence. reflexivity.
    + destruct (key_eqb k' k2); [reflexivity | exact IH].
Qed.

Lemma lookup_del_same k l : lookup k (del_key k l) = None.
Proof.
  induction l as [|[k2 v2] r IH]; cbn [del_key lookup]; [reflexivity|].
  destruct (key_eqb k k2) eqn:E; [exact IH | cbn [lookup]; rewrite E; exact IH].
Qed.

Lemma lookup_del_other k k' l : k <> k' -> lookup k' (del_key k l) = lookup k' l.
Proof.
  intros Hne. induction l as [|[k2 v2] r IH]; cbn [del_key lookup]; [reflexivity|].
  destruct (key_eqb k k2) eqn:E.
  - apply key_eqb_eq in E. subst k2. rewrite (key_eqb_neq k' k) by congruence. exact IH.
  - cbn [lookup]. destruct (key_eqb k' k2); [reflexivity | exact IH].
Qed.

(** * One key at a time: the local run *)

(** (total, offset, fragment) *)
Definition levent : Type := (N * N * bytes)%type.
Definition ev_local (e : seg_event) : levent := let '(_, _, t, o, f) := e in (t, o, f).

Fixpoint xrun (x : option xfer) (l : list levent) : option xfer * list (option bytes * bool) :=
  match l with
  | [] => (x, [])
  | (t, o, f) :: r =>
      match xstep x t o f with
      | (x', out, err) => match xrun x' r with (x'', outs) => (x'', (out, err) :: outs) end
      end
  end.

Lemma xrun_app l1 : forall x l2,
  xrun x (l1 ++ l2) =
  match xrun x l1 with (x1, o1) => match xrun x1 l2 with (x2, o2) => (x2, o1 ++ o2) end end.
Proof.
  induction l1 as [|[[t o] f] r IH]; intros x l2; cbn [app xrun].
  - destruct (xrun x l2); reflexivity.
  - destruct (xstep x t o f) as [[x' out] err]. rewrite IH.
    destruct (xrun x' r) as [x1 o1]. destruct (xrun x1 l2) as [x2 o2]. reflexivity.
Qed.

Lemma xstep_err x t o f x' out : xstep x t o f = (x', out, true) -> x' = x /\ out = None.
Proof.
  unfold xstep. destruct x as [x0|].
  - destruct (x_total x0 =? t); intros E; inversion E; auto.
  - intros E; inversion E.
Qed.

Definition own (k : key) (e : seg_event) : bool := key_eqb (ev_key e) k.
Definition own_out (k : key) (eo : seg_event * (option bytes * bool)) : bool := key_eqb (ev_key (fst eo)) k.

(** Non-interference: what happens to the entry of [k], and what the items of
    [k] output, depends on the items of [k] only. *)
Lemma run_segments_proj k : forall evs st st' outs,
  run_segments st evs = (st', outs) ->
  xrun (lookup k (r_frags st)) (map ev_local (filter (own k) evs))
  = (lookup k (r_frags st'), map snd (filter (own_out k) (combine evs outs))).
Proof.
  induction evs as [|e r IH]; intros st st' outs H.
  - cbn in H. injection H as <- <-. reflexivity.
  - destruct e as [[[[peer xid] total] off] frag]. cbn [run_segments] in H.
    destruct (recv_segment st peer xid total off frag) as [[st1 out] err] eqn:E1.
    destruct (run_segments st1 r) as [st2 outs2] eqn:E2. injection H as <- <-.
    specialize (IH _ _ _ E2). cbn [filter combine]. unfold own at 1, own_out at 1. cbn [ev_key fst].
    unfold recv_segment in E1.
    destruct (xstep (lookup (peer, xid) (r_frags st)) total off frag) as [[x' out'] err'] eqn:Ex.
    destruct (key_eqb (peer, xid) k) eqn:Ek.
    + apply key_eqb_eq in Ek. subst k. cbn [map ev_local xrun]. rewrite Ex.
      destruct err'.
      * injection E1 as <- <- <-. apply xstep_err in Ex. destruct Ex as [-> ->].
        rewrite IH. reflexivity.
      * injection E1 as <- <- <-. cbn [r_frags] in IH.
        replace (lookup (peer, xid) (match x' with
                                      | Some v => set_key (peer, xid) v (r_frags st)
                                      | None => del_key (peer, xid) (r_frags st)
                                      end)) with x' in IH
          by (destruct x'; [rewrite lookup_set_same | rewrite lookup_del_same]; reflexivity).
        rewrite IH. reflexivity.
    + assert (Hne : (peer, xid) <> k) by (intros Heq; subst k; rewrite key_eqb_refl in Ek; discriminate).
      replace (lookup k (r_frags st1)) with (lookup k (r_frags st)) in IH; [exact IH|].
      destruct err'; injection E1 as <- <- <-; [reflexivity|]. cbn [r_frags].
      destruct x'; [rewrite lookup_set_other | rewrite lookup_del_other]; auto.
Qed.

(** what the run appends to the queue is what the items output *)
Definition queued_of (eo : seg_event * (option bytes * bool)) : list (N * bytes) :=
  match fst (snd eo) with
  | Some b => [(fst (ev_key (fst eo)), b)]
  | None => []
  end.

Lemma run_segments_queue : forall evs st st' outs,
  run_segments st evs = (st', outs) ->
  r_queue st' = r_queue st ++ flat_map queued_of (combine evs outs) /\ length outs = length evs.
Proof.
  induction evs as [|e r IH]; intros st st' outs H.
  - cbn in H. injection H as <- <-. cbn. rewrite app_nil_r. auto.
  - destruct e as [[[[peer xid] total] off] frag]. cbn [run_segments] in H.
    destruct (recv_segment st peer xid total off frag) as [[st1 out] err] eqn:E1.
    destruct (run_segments st1 r) as [st2 outs2] eqn:E2. injection H as <- <-.
    destruct (IH _ _ _ E2) as [IHq IHl]. cbn [combine flat_map length]. rewrite IHq, IHl. split; [|reflexivity].
    unfold queued_of at 1. cbn [fst snd ev_key].
    unfold recv_segment in E1.
    destruct (xstep (lookup (peer, xid) (r_frags st)) total off frag) as [[x' out'] err'] eqn:Ex.
    destruct err'.
    + injection E1 as <- <- <-. reflexivity.
    + injection E1 as <- <- <-. cbn [r_queue]. rewrite <- app_assoc. reflexivity.
Qed.

(** * Buffer invariant: what has been written agrees with the bundle *)

(** [p] is a true slice of [data] *)
Definition piece_of (data : bytes) (p : N * bytes) : Prop :=
  exists pre post, data = pre ++ snd p ++ post /\ olen pre = fst p.

Lemma tiling_pieces : forall ps off pre0 data,
  contiguous_from off ps -> olen pre0 = off -> data = pre0 ++ concat (map snd ps) ->
  Forall (piece_of data) ps.
Proof.
  induction ps as [|[o f] r IH]; intros off pre0 data Hc Hp Hd; [constructor|].
  cbn [contiguous_from] in Hc. destruct Hc as (-> & _ & Hc). cbn [map concat snd] in Hd.
  constructor.
  - exists pre0, (concat (map snd r)). cbn [fst snd]. auto.
  - apply (IH (off + olen f) (pre0 ++ f)); [exact Hc | unfold olen in *; rewrite app_length; lia |].
    rewrite Hd, app_assoc. reflexivity.
Qed.

Lemma piece_of_bound data p : piece_of data p -> fst p + olen (snd p) <= olen data.
Proof.
  intros (pre & post & Hd & Hp). rewrite Hd. unfold olen in *. rewrite !app_length. lia.
Qed.

Definition agree (buf data : bytes) (s : ivl) : Prop :=
  forall i : nat, Ivl.mem (N.of_nat i) s = true -> nth i buf 0 = nth i data 0.

Definition xinv (data : bytes) (x : xfer) : Prop :=
  x_total x = olen data /\ length (x_buf x) = length data /\ norm (x_valid x)
  /\ agree (x_buf x) data (x_valid x).

Definition oinv (data : bytes) (x : option xfer) : Prop :=
  match x with None => True | Some x0 => xinv data x0 end.

Lemma splice_decomp (buf : bytes) o (f : bytes) :
  (N.to_nat o + length f <= length buf)%nat ->
  exists b1 b2 b3, buf = b1 ++ b2 ++ b3 /\ length b1 = N.to_nat o /\ length b2 = length f
                   /\ splice buf o f = b1 ++ f ++ b3.
Proof.
  intros Hle. exists (firstn (N.to_nat o) buf), (firstn (length f) (skipn (N.to_nat o) buf)),
    (skipn (N.to_nat o + length f) buf).
  repeat split.
  - rewrite <- skipn_skipn'. rewrite firstn_skipn, firstn_skipn. reflexivity.
  - rewrite firstn_length. lia.
  - rewrite firstn_length, skipn_length. lia.
Qed.

Lemma nth_mid {A} (b1 b2 f b3 : list A) d i : length b2 = length f ->
  ((i < length b1 \/ length b1 + length f <= i)%nat ->
   nth i (b1 ++ f ++ b3) d = nth i (b1 ++ b2 ++ b3) d)
  /\ ((length b1 <= i < length b1 + length f)%nat ->
      nth i (b1 ++ f ++ b3) d = nth (i - length b1) f d).
Proof.
  intros Hl. split.
  - intros [Hi|Hi].
    + rewrite !app_nth1 by lia. reflexivity.
    + rewrite (app_nth2 b1) by lia. rewrite (app_nth2 f) by lia.
      rewrite (app_nth2 b1) by lia. rewrite (app_nth2 b2) by lia. rewrite Hl. reflexivity.
  - intros Hi. rewrite (app_nth2 b1) by lia. rewrite app_nth1 by lia. reflexivity.
Qed.

Lemma xwrite_inv data x p :
  xinv data x -> piece_of data p ->
  match xwrite x (fst p) (snd p) with
  | (Some x', None) => xinv data x'
  | (None, Some b) => b = data
  | _ => False
  end.
Proof.
  intros (Ht & Hl & Hn & Ha) Hp. pose proof (piece_of_bound _ _ Hp) as Hb.
  destruct p as [o f]. destruct Hp as (pre & post & Hd & Hpre). cbn [fst snd] in *.
  unfold xwrite.
  set (buf' := splice (x_buf x) o f). set (v' := Ivl.add o (o + olen f) (x_valid x)).
  destruct (splice_decomp (x_buf x) o f) as (b1 & b2 & b3 & Hbuf & Hb1 & Hb2 & Hsp).
  { unfold olen in Hb. lia. }
  fold buf' in Hsp.
  assert (Hlen' : length buf' = length data).
  { rewrite Hsp, <- Hl, Hbuf, !app_length. lia. }
  assert (Hn' : norm v') by (apply add_norm; exact Hn).
  assert (Ha' : agree buf' data v').
  { intros i Hi. unfold v' in Hi. rewrite mem_add_any in Hi.
    assert (Hpl : length pre = length b1) by (unfold olen in Hpre; lia).
    destruct ((o <=? N.of_nat i) && (N.of_nat i <? o + olen f)) eqn:Er.
    - rewrite Hsp, Hd.
      rewrite (proj2 (nth_mid b1 b2 f b3 0 i Hb2)) by (unfold olen in Er; lia).
      rewrite (proj2 (nth_mid pre f f post 0 i eq_refl)) by (unfold olen in Er; lia).
      rewrite Hpl. reflexivity.
    - rewrite orb_false_r in Hi. rewrite <- (Ha i Hi). rewrite Hsp. rewrite Hbuf at 1.
      apply (proj1 (nth_mid b1 b2 f b3 0 i Hb2)). unfold olen in Er. lia. }
  destruct (Ivl.eqb v' (full (x_total x))) eqn:Ec.
  - pose proof (proj1 (complete_iff v' (x_total x) Hn') Ec) as Ec'.
    apply (nth_ext _ _ 0 0 Hlen'). intros n Hlt. apply Ha'. rewrite Ec', Ht. unfold olen. lia.
  - repeat split; assumption.
Qed.

Lemma xstep_inv data x p :
  oinv data x -> piece_of data p ->
  exists x' out, xstep x (olen data) (fst p) (snd p) = (x', out, false)
                 /\ oinv data x' /\ (out = None \/ out = Some data).
Proof.
  intros Hx Hp. unfold xstep. destruct x as [x0|].
  - cbn [oinv] in Hx. pose proof Hx as (Ht & _). rewrite Ht, N.eqb_refl.
    pose proof (xwrite_inv data x0 p Hx Hp) as Hw.
    destruct (xwrite x0 (fst p) (snd p)) as [[x'|] [b|]]; try contradiction.
    + exists (Some x'), None. cbn [oinv]. auto.
    + exists None, (Some b). subst b. cbn [oinv]. auto.
  - set (x0 := mk_xfer (olen data) [] (repeat 0 (N.to_nat (olen data)))).
    assert (Hx0 : xinv data x0).
    { unfold xinv, x0. cbn [x_total x_valid x_buf]. repeat split.
      - rewrite repeat_length. unfold olen. lia.
      - intros i Hi. discriminate Hi. }
    pose proof (xwrite_inv data x0 p Hx0 Hp) as Hw.
    destruct (xwrite x0 (fst p) (snd p)) as [[x'|] [b|]]; try contradiction.
    + exists (Some x'), None. cbn [oinv]. auto.
    + exists None, (Some b). subst b. cbn [oinv]. auto.
Qed.

Definition lev (total : N) (p : N * bytes) : levent := (total, fst p, snd p).

Definition out_safe (data : bytes) (oe : option bytes * bool) : Prop :=
  snd oe = false /\ (fst oe = None \/ fst oe = Some data).

(** T1: items that are true slices of the bundle, in any order and with any
    repetition: nothing is ever output but the bundle itself *)
Lemma xrun_safe data : forall l x x' outs,
  oinv data x -> Forall (piece_of data) l ->
  xrun x (map (lev (olen data)) l) = (x', outs) ->
  oinv data x' /\ Forall (out_safe data) outs.
Proof.
  induction l as [|p r IH]; intros x x' outs Hx Hl E.
  - cbn in E. injection E as <- <-. auto.
  - inversion Hl as [|? ? Hp Hr]; subst. cbn [map xrun lev] in E.
    destruct (xstep_inv data x p Hx Hp) as (x1 & out & Es & Hx1 & Hout). rewrite Es in E.
    destruct (xrun x1 (map (lev (olen data)) r)) as [x2 outs2] eqn:E2. injection E as <- <-.
    destruct (IH _ _ _ Hx1 Hr E2) as [Hx2 Ho2]. split; [exact Hx2|].
    constructor; [split; [reflexivity | exact Hout] | exact Ho2].
Qed.

(** * Tracking the interval set *)

Definition ranges (l : list (N * bytes)) : list (N * N) :=
  map (fun p => (fst p, fst p + olen (snd p))) l.

Definition tracked (total : N) (l : list (N * bytes)) (x : option xfer) : Prop :=
  match l with
  | [] => x = None
  | _ => exists x0, x = Some x0 /\ x_total x0 = total /\ x_valid x0 = add_all (ranges l) []
  end.

Lemma ranges_snoc l p : add_all (ranges (l ++ [p])) [] = Ivl.add (fst p) (fst p + olen (snd p)) (add_all (ranges l) []).
Proof. unfold ranges, add_all. rewrite map_app, fold_left_app. reflexivity. Qed.

Lemma xstep_track total l x p :
  tracked total l x ->
  exists buf', xstep x total (fst p) (snd p)
    = if Ivl.eqb (add_all (ranges (l ++ [p])) []) (full total)
      then (None, Some buf', false)
      else (Some (mk_xfer total (add_all (ranges (l ++ [p])) []) buf'), None, false).
Proof.
  intros Ht. rewrite ranges_snoc. unfold xstep. destruct l as [|q l].
  - cbn [tracked] in Ht. subst x. unfold xwrite. cbn [x_total x_valid x_buf].
    eexists. change (add_all (ranges []) []) with (@nil (N * N)).
    destruct (Ivl.eqb _ _); reflexivity.
  - cbn [tracked] in Ht. destruct Ht as (x0 & -> & Htot & Hv). rewrite Htot, N.eqb_refl.
    unfold xwrite. rewrite Hv, Htot. eexists. destruct (Ivl.eqb _ _); reflexivity.
Qed.

(** * Tilings *)

Lemma contig_lower : forall ps off, contiguous_from off ps -> forall q, In q ps -> off <= fst q.
Proof.
  induction ps as [|[o f] r IH]; intros off Hc q Hq; [destruct Hq|].
  cbn [contiguous_from] in Hc. destruct Hc as (-> & _ & Hc). destruct Hq as [<-|Hq]; [cbn; lia|].
  specialize (IH _ Hc q Hq). lia.
Qed.

Lemma olen_pos (f : bytes) : f <> [] -> 1 <= olen f.
Proof. destruct f; [congruence|]. unfold olen. cbn [length]. lia. Qed.

Lemma tiling_disjoint : forall ps off, contiguous_from off ps ->
  forall p q, In p ps -> In q ps -> fst q <= fst p < fst q + olen (snd q) -> p = q.
Proof.
  induction ps as [|[o f] r IH]; intros off Hc p q Hp Hq Hr; [destruct Hp|].
  cbn [contiguous_from] in Hc. destruct Hc as (-> & Hne & Hc). apply olen_pos in Hne.
  destruct Hp as [<-|Hp], Hq as [<-|Hq]; cbn [fst snd] in *.
  - reflexivity.
  - pose proof (contig_lower _ _ Hc q Hq). lia.
  - pose proof (contig_lower _ _ Hc p Hp). lia.
  - exact (IH _ Hc p q Hp Hq Hr).
Qed.

Lemma contig_NoDup : forall ps off, contiguous_from off ps -> NoDup ps.
Proof.
  induction ps as [|[o f] r IH]; intros off Hc; [constructor|].
  cbn [contiguous_from] in Hc. destruct Hc as (-> & Hne & Hc). apply olen_pos in Hne.
  constructor; [|exact (IH _ Hc)].
  intros Hin. pose proof (contig_lower _ _ Hc _ Hin) as H. cbn [fst] in H. lia.
Qed.

Lemma tiling_cover x : forall ps off, contiguous_from off ps ->
  existsb (fun q => (fst q <=? x) && (x <? snd q)) (ranges ps)
  = (off <=? x) && (x <? off + olen (concat (map snd ps))).
Proof.
  induction ps as [|[o f] r IH]; intros off Hc.
  - cbn. unfold olen. cbn. lia.
  - cbn [contiguous_from] in Hc. destruct Hc as (-> & _ & Hc).
    cbn [ranges map existsb fst snd concat]. fold (ranges r). rewrite (IH _ Hc).
    unfold olen. rewrite app_length. lia.
Qed.

Section Tiling.
  Variable data : bytes.
  Variable ps : list (N * bytes).
  Hypothesis Hcontig : contiguous_from 0 ps.
  Hypothesis Hcat : concat (map snd ps) = data.

  Let total := olen data.

  Lemma tiling_piece_of : Forall (piece_of data) ps.
  Proof. apply (tiling_pieces ps 0 []); [exact Hcontig | reflexivity | symmetry; exact Hcat]. Qed.

  Lemma tiling_complete : Ivl.eqb (add_all (ranges ps) []) (full total) = true.
  Proof.
    apply complete_iff; [apply add_all_norm; exact I|].
    intros x. rewrite add_all_mem. cbn [Ivl.mem orb]. rewrite (tiling_cover x ps 0 Hcontig), Hcat.
    unfold total. lia.
  Qed.

  (** a piece that has not arrived leaves the set incomplete *)
  Lemma tiling_incomplete l p :
    (forall q, In q l -> In q ps) -> In p ps -> ~ In p l ->
    Ivl.eqb (add_all (ranges l) []) (full total) = false.
  Proof.
    intros Hsub Hp Hnot.
    pose proof tiling_piece_of as Hpo. rewrite Forall_forall in Hpo.
    pose proof (piece_of_bound _ _ (Hpo p Hp)) as Hb.
    assert (Hne : 1 <= olen (snd p)).
    { pose proof (tiling_disjoint ps 0 Hcontig p p Hp Hp). 
      destruct (N.eq_dec (olen (snd p)) 0) as [Hz|]; [|lia]. exfalso.
      clear -Hcontig Hp Hz. revert Hcontig Hp. generalize 0. induction ps as [|[o f] r IH]; intros off Hc Hin; [destruct Hin|].
      cbn [contiguous_from] in Hc. destruct Hc as (-> & Hn & Hc). destruct Hin as [<-|Hin].
      - cbn [snd] in Hz. apply olen_pos in Hn. lia.
      - exact (IH _ Hc Hin). }
    apply (incomplete_neq _ _ (fst p)); [fold total in Hb; lia|].
    rewrite add_all_mem. cbn [Ivl.mem orb].
    apply not_true_is_false. intros Hex. apply existsb_exists in Hex.
    destruct Hex as (rg & Hin & Hrg). unfold ranges in Hin. apply in_map_iff in Hin.
    destruct Hin as (q & <- & Hq). cbn [fst snd] in Hrg.
    assert (p = q) by (apply (tiling_disjoint ps 0 Hcontig); [exact Hp | apply Hsub; exact Hq | lia]).
    subst q. contradiction.
  Qed.

  (** T2: while a piece is missing nothing is output *)
  Lemma xrun_no_early : forall l x' outs,
    (forall q, In q l -> In q ps) -> (exists p, In p ps /\ ~ In p l) ->
    xrun None (map (lev total) l) = (x', outs) ->
    outs = repeat (None, false) (length l) /\ tracked total l x'.
  Proof.
    induction l as [|e l IH] using rev_ind; intros x' outs Hsub (p & Hp & Hnot) E.
    - cbn in E. injection E as <- <-. split; reflexivity.
    - rewrite map_app, xrun_app in E.
      destruct (xrun None (map (lev total) l)) as [x1 o1] eqn:E1.
      destruct (IH x1 o1) as [Ho1 Ht1]; [intros q Hq; apply Hsub, in_or_app; auto
                                       | exists p; split; [exact Hp | intros Hin; apply Hnot, in_or_app; auto]
                                       | reflexivity |].
      cbn [map xrun lev] in E.
      destruct (xstep_track total l x1 e Ht1) as (buf' & Es). rewrite Es in E.
      rewrite (tiling_incomplete (l ++ [e]) p Hsub Hp Hnot) in E.
      injection E as <- <-. split.
      + rewrite Ho1, app_length. cbn [length]. rewrite Nat.add_1_r. cbn [repeat].
        rewrite repeat_cons. reflexivity.
      + unfold tracked. destruct (l ++ [e]) eqn:El; [destruct l; discriminate El|]. rewrite <- El.
        eexists. repeat split.
  Qed.

  (** T3: each piece exactly once, in any order: one bundle, at the last item *)
  Lemma xrun_permutation l :
    ps <> [] -> Permutation ps l ->
    xrun None (map (lev total) l)
    = (None, repeat (None, false) (length ps - 1) ++ [(Some data, false)]).
  Proof.
    intros Hne Hperm.
    assert (Hl : l <> []) by (intros ->; apply Permutation_sym, Permutation_nil in Hperm; contradiction).
    destruct (exists_last Hl) as (l0 & e & ->).
    assert (Hnd : NoDup (l0 ++ [e])) by (apply (Permutation_NoDup Hperm), (contig_NoDup ps 0 Hcontig)).
    assert (He : In e ps) by (apply (Permutation_in _ (Permutation_sym Hperm)), in_or_app; right; left; reflexivity).
    assert (Hnot : ~ In e l0).
    { apply NoDup_remove_2 in Hnd. rewrite app_nil_r in Hnd. exact Hnd. }
    assert (Hsub : forall q, In q l0 -> In q ps).
    { intros q Hq. apply (Permutation_in _ (Permutation_sym Hperm)), in_or_app. auto. }
    destruct (xrun None (map (lev total) (l0 ++ [e]))) as [xf of] eqn:E.
    pose proof E as Esafe.
    apply (xrun_safe data) in Esafe;
      [|exact I | eapply Permutation_Forall; [exact Hperm | exact tiling_piece_of]].
    destruct Esafe as [_ Hsafe].
    rewrite map_app, xrun_app in E.
    destruct (xrun None (map (lev total) l0)) as [x1 o1] eqn:E1.
    destruct (xrun_no_early l0 x1 o1 Hsub (ex_intro _ e (conj He Hnot)) E1) as [Ho1 Ht1].
    cbn [map xrun lev] in E.
    destruct (xstep_track total l0 x1 e Ht1) as (buf' & Es). rewrite Es in E.
    assert (Hfull : add_all (ranges (l0 ++ [e])) [] = add_all (ranges ps) []).
    { apply add_all_perm; [exact I|]. unfold ranges. apply Permutation_map, Permutation_sym, Hperm. }
    rewrite Hfull, tiling_complete in E. injection E as <- <-.
    apply Forall_app in Hsafe. destruct Hsafe as [_ Hlast].
    apply Forall_inv in Hlast. destruct Hlast as (_ & Hb). cbn [fst] in Hb.
    destruct Hb as [Hb|Hb]; [discriminate|]. injection Hb as ->.
    rewrite Ho1. f_equal. f_equal. f_equal.
    apply Permutation_length in Hperm. rewrite app_length in Hperm. cbn [length] in Hperm. lia.
  Qed.
End Tiling.

(** * The receiver as a whole *)

Definition gev (peer xid total : N) (p : N * bytes) : seg_event := (peer, xid, total, fst p, snd p).

Lemma ev_local_gev peer xid total ps :
  map ev_local (map (gev peer xid total) ps) = map (lev total) ps.
Proof. rewrite map_map. reflexivity. Qed.

Theorem reassembly data mtu xid peer ps st evs st' outs :
  feasible mtu xid (olen data) -> send_pieces data mtu xid = Some ps -> data <> [] ->
  lookup (peer, xid) (r_frags st) = None ->
  Permutation (filter (own (peer, xid)) evs) (map (gev peer xid (olen data)) ps) ->
  run_segments st evs = (st', outs) ->
  map snd (filter (own_out (peer, xid)) (combine evs outs))
  = repeat (None, false) (length ps - 1) ++ [(Some data, false)]
  /\ lookup (peer, xid) (r_frags st') = None.
Proof.
  intros Hf Ep Hne Hfresh Hperm Hrun.
  destruct (send_pieces_spec _ _ _ _ Hf Ep) as (Hc & Hcat & _).
  assert (Hps : ps <> []) by (intros ->; cbn in Hcat; congruence).
  pose proof (run_segments_proj (peer, xid) evs st st' outs Hrun) as P. rewrite Hfresh in P.
  apply (Permutation_map ev_local) in Hperm. rewrite ev_local_gev in Hperm.
  apply Permutation_map_inv in Hperm. destruct Hperm as (l & El & Hpl). rewrite El in P.
  rewrite (xrun_permutation data ps Hc Hcat l Hps Hpl) in P. injection P as <- <-. auto.
Qed.

Lemma drawn_from peer xid total ps : forall l,
  Forall (fun e => exists p, In p ps /\ e = gev peer xid total p) l ->
  exists l', map ev_local l = map (lev total) l'
             /\ (forall q, In q l' -> In q ps)
             /\ (forall q, In q l' -> In (gev peer xid total q) l).
Proof.
  induction l as [|e r IH]; intros H.
  - exists []. repeat split; intros q [].
  - inversion H as [|? ? (p & Hp & ->) Hr]; subst. destruct (IH Hr) as (l' & El & Hsub & Hback).
    exists (p :: l'). cbn [map]. rewrite El. repeat split.
    + intros q [<-|Hq]; auto.
    + intros q [<-|Hq]; [left; reflexivity | right; auto].
Qed.

Theorem repeats_safe data mtu xid peer ps st evs st' outs :
  feasible mtu xid (olen data) -> send_pieces data mtu xid = Some ps ->
  lookup (peer, xid) (r_frags st) = None ->
  Forall (fun e => exists p, In p ps /\ e = gev peer xid (olen data) p) (filter (own (peer, xid)) evs) ->
  run_segments st evs = (st', outs) ->
  Forall (fun oe => snd oe = false /\ (fst oe = None \/ fst oe = Some data))
         (map snd (filter (own_out (peer, xid)) (combine evs outs)))
  /\ ((exists p, In p ps /\ ~ In (gev peer xid (olen data) p) evs) ->
      Forall (fun oe => oe = (None, false)) (map snd (filter (own_out (peer, xid)) (combine evs outs)))).
Proof.
  intros Hf Ep Hfresh Hdrawn Hrun.
  destruct (send_pieces_spec _ _ _ _ Hf Ep) as (Hc & Hcat & _).
  pose proof (run_segments_proj (peer, xid) evs st st' outs Hrun) as P. rewrite Hfresh in P.
  destruct (drawn_from _ _ _ _ _ Hdrawn) as (l & El & Hsub & Hback). rewrite El in P.
  split.
  - apply (xrun_safe data) in P; [exact (proj2 P) | exact I |].
    pose proof (tiling_piece_of data ps Hc Hcat) as Hpo. rewrite Forall_forall in *.
    intros q Hq. apply Hpo, Hsub, Hq.
  - intros (p & Hp & Hnot).
    apply (xrun_no_early data ps Hc Hcat) in P; [| exact Hsub |].
    + destruct P as [-> _]. apply Forall_forall. intros oe Hin. apply repeat_spec in Hin. exact Hin.
    + exists p. split; [exact Hp|]. intros Hin. apply Hnot. apply Hback in Hin.
      apply filter_In in Hin. exact (proj1 Hin).
Qed.

(** * Datagrams made of several messages *)

Lemma head_first m n : exists b tl, head m n = b :: tl /\ m * 32 <= b <= m * 32 + 27.
Proof.
  rewrite head_eq. eexists; eexists. split; [reflexivity|]. pose proof (head_info_le n). lia.
Qed.

Lemma recv_loop_bundle f st peer b tl :
  128 <= b <= 159 ->
  recv_loop (S f) st peer (b :: tl)
  = match decode (length (b :: tl)) (b :: tl) with
    | Some (_, rest) =>
        recv_loop f (queue_bundle st peer (firstn (length (b :: tl) - length rest) (b :: tl))) peer rest
    | None => (st, 1)
    end.
Proof.
  intros Hb. cbn [recv_loop].
  replace (b =? 0) with false by lia. replace ((20 <=? b) && (b <=? 23)) with false by lia.
  replace (b =? 6) with false by lia. replace (b / 32 =? 4) with true by lia. reflexivity.
Qed.

Lemma recv_loop_map f st peer b tl :
  160 <= b <= 187 ->
  recv_loop (S f) st peer (b :: tl)
  = match decode (length (b :: tl)) (b :: tl) with
    | Some (CMap kvs, rest) =>
        match recv_ext_map st peer kvs with
        | (st', 0) => recv_loop f st' peer rest
        | r => r
        end
    | Some _ => (st, 2)
    | None => (st, 1)
    end.
Proof.
  intros Hb. cbn [recv_loop].
  replace (b =? 0) with false by lia. replace ((20 <=? b) && (b <=? 23)) with false by lia.
  replace (b =? 6) with false by lia. replace (b / 32 =? 4) with false by lia.
  replace (b / 32 =? 5) with true by lia. reflexivity.
Qed.

Lemma firstn_consumed (enc rest : bytes) : firstn (length (enc ++ rest) - length rest) (enc ++ rest) = enc.
Proof.
  rewrite app_length. replace (length enc + length rest - length rest)%nat with (length enc) by lia.
  rewrite firstn_app, Nat.sub_diag, firstn_all. cbn [firstn]. apply app_nil_r.
Qed.

Lemma size_seq_le l : (fold_right (fun x acc => (size x + acc)%nat) O l <= length (encode_seq l))%nat.
Proof.
  induction l as [|x l IH]; cbn [fold_right]; [cbn; lia|].
  rewrite encode_seq_cons, app_length. pose proof (size_le_length x). lia.
Qed.

Lemma recv_loop_step f st peer m rest :
  wmsg_wf m ->
  recv_loop (S f) st peer (wenc m ++ rest)
  = match handle_msg st peer m with
    | (st', 0) => recv_loop f st' peer rest
    | r => r
    end.
Proof.
  intros Hwf. destruct m as [l|l|kvs]; cbn [wenc handle_msg wmsg_wf] in *.
  - destruct (head_first 4 (N.of_nat (length l))) as (b & tl & Eh & Hb).
    assert (E : encode (CArr l) = b :: (tl ++ encode_seq l)) by (rewrite encode_CArr, Eh; reflexivity).
    rewrite E at 1. cbn [app]. rewrite recv_loop_bundle by lia.
    rewrite app_comm_cons, <- E.
    rewrite decode_encode; [| exact Hwf | rewrite app_length; pose proof (size_le_length (CArr l)); lia].
    rewrite firstn_consumed. reflexivity.
  - unfold encode_indef_arr at 1. cbn [app]. rewrite recv_loop_bundle by lia.
    change (159 :: (encode_seq l ++ [255]) ++ rest) with (encode_indef_arr l ++ rest).
    rewrite decode_indef_depth; [| exact Hwf |].
    + rewrite firstn_consumed. reflexivity.
    + rewrite app_length, encode_indef_arr_length. pose proof (depth_le_size (CArr l)) as Hd.
      cbn [size] in Hd. pose proof (size_seq_le l). lia.
  - destruct (head_first 5 (N.of_nat (length kvs))) as (b & tl & Eh & Hb).
    assert (E : encode (CMap kvs) = b :: (tl ++ encode_pairs kvs)) by (rewrite encode_CMap, Eh; reflexivity).
    rewrite E at 1. cbn [app]. rewrite recv_loop_map by lia.
    rewrite app_comm_cons, <- E.
    rewrite decode_encode; [| exact Hwf | rewrite app_length; pose proof (size_le_length (CMap kvs)); lia].
    reflexivity.
Qed.

Lemma wenc_nonempty m : (1 <= length (wenc m))%nat.
Proof.
  destruct m; cbn [wenc]; try apply encode_length_pos.
  rewrite encode_indef_arr_length. lia.
Qed.

Lemma recv_loop_msgs pad : (pad = [] \/ exists tl, pad = 0 :: tl) ->
  forall ms fuel st peer, Forall wmsg_wf ms -> (length ms < fuel)%nat ->
  recv_loop fuel st peer (concat (map wenc ms) ++ pad) = handle_all st peer ms.
Proof.
  intros Hpad. induction ms as [|m r IH]; intros fuel st peer Hwf Hfuel.
  - destruct fuel as [|f]; [cbn in Hfuel; lia|]. cbn [map concat app handle_all].
    destruct Hpad as [->|(tl & ->)]; reflexivity.
  - destruct fuel as [|f]; [lia|]. inversion Hwf as [|? ? Hm Hr]; subst.
    cbn [map concat handle_all]. rewrite <- app_assoc. rewrite recv_loop_step by exact Hm.
    destruct (handle_msg st peer m) as [st' code]. destruct code; [|reflexivity].
    apply IH; [exact Hr | cbn [length] in Hfuel; lia].
Qed.

Theorem multi_message st peer ms pad :
  Forall wmsg_wf ms -> (pad = [] \/ exists tl, pad = 0 :: tl) ->
  recv_datagram st peer (concat (map wenc ms) ++ pad) = handle_all st peer ms.
Proof.
  intros Hwf Hpad. unfold recv_datagram. apply recv_loop_msgs; [exact Hpad | exact Hwf |].
  rewrite app_length. apply Nat.lt_succ_r.
  assert (length ms <= length (concat (map wenc ms)))%nat; [|lia].
  clear. induction ms as [|m r IH]; cbn [map concat length]; [lia|].
  rewrite app_length. pose proof (wenc_nonempty m). lia.
Qed.

(** a datagram carrying one TRANSFER message is that item *)
Lemma recv_ext_map_seg st peer xid total off frag :
  recv_ext_map st peer [(CUint 2, CArr [CUint xid; CUint total; CUint off; CBstr frag])]
  = match recv_segment st peer xid total off frag with
    | (st', _, err) => (st', if err then 1 else 0)
    end.
Proof. reflexivity. Qed.

Theorem segment_datagram st peer xid total off frag :
  xid < two64 -> total < two64 -> off < two64 -> olen frag < two64 -> wf_bytes frag ->
  recv_datagram st peer (encode (seg_msg xid total off frag))
  = match recv_segment st peer xid total off frag with
    | (st', _, err) => (st', if err then 1 else 0)
    end.
Proof.
  intros Hx Ht Ho Hl Hw. rewrite gen_seg_msg.
  pose proof (multi_message st peer [WExt [(CUint 2, CArr [CUint xid; CUint total; CUint off; CBstr frag])]] []) as H.
  cbn [map concat wenc] in H. rewrite !app_nil_r in H. rewrite H.
  - cbn [handle_all handle_msg]. rewrite recv_ext_map_seg.
    destruct (recv_segment st peer xid total off frag) as [[st' out] err]. destruct err; reflexivity.
  - constructor; [|constructor]. cbn [wmsg_wf wf length fold_right fst snd]. unfold olen in Hl. repeat split; try lia; assumption.
  - left; reflexivity.
Qed.

(** an unsegmented bundle (one CBOR array, definite or indefinite length)
    sent as a datagram is queued octet for octet *)
Theorem bundle_datagram st peer m :
  wmsg_wf m -> (forall kvs, m <> WExt kvs) ->
  recv_datagram st peer (wenc m) = (queue_bundle st peer (wenc m), 0).
Proof.
  intros Hwf Hne. pose proof (multi_message st peer [m] [] (Forall_cons _ Hwf (Forall_nil _)) (or_introl eq_refl)) as H.
  cbn [map concat] in H. rewrite !app_nil_r in H. rewrite H. cbn [handle_all].
  destruct m; cbn [handle_msg]; try reflexivity. exfalso. eapply Hne. reflexivity.
Qed.

(** * The observation about small MTUs, and re-exports *)

Theorem infeasible_never_ends data mtu xid :
  ~ feasible mtu xid (olen data) -> mtu <= olen data -> data <> [] ->
  send_transfer data mtu xid = None
  /\ forall fuel, seg_loop fuel data (remain mtu xid (olen data)) init_offset = None.
Proof.
  intros Hf Hle Hne. split.
  - rewrite send_segmented by exact Hle. unfold send_pieces.
    rewrite send_pieces_diverges by assumption. reflexivity.
  - intros fuel. apply send_pieces_diverges; assumption.
Qed.

Theorem tiling data mtu xid :
  feasible mtu xid (olen data) -> mtu <= olen data ->
  exists ps, send_pieces data mtu xid = Some ps
    /\ send_transfer data mtu xid
       = Some (map (fun p => encode (seg_msg xid (olen data) (fst p) (snd p))) ps)
    /\ contiguous_from 0 ps /\ concat (map snd ps) = data.
Proof.
  intros Hf Hle. destruct (send_pieces_terminates data mtu xid Hf) as (ps & Ep).
  exists ps. destruct (send_pieces_spec _ _ _ _ Hf Ep) as (Hc & Hcat & _).
  rewrite send_segmented by exact Hle. rewrite Ep. repeat split; assumption.
Qed.

(** * Non-vacuity: concrete inputs satisfying the hypotheses *)

Definition ex_data : bytes := [10; 11; 12; 13; 14; 15; 16; 17; 18; 19].

(** MTU 10, transfer id 0, ten octets: overhead 7, three octets per segment,
    four segments of 10, 10, 10 and 8 octets *)
Example ex_feasible : feasible 10 0 (olen ex_data) /\ 10 <= olen ex_data /\ ex_data <> [].
Proof. unfold feasible. vm_compute. repeat split; congruence. Qed.

Example ex_send :
  send_pieces ex_data 10 0 = Some [(0, [10; 11; 12]); (3, [13; 14; 15]); (6, [16; 17; 18]); (9, [19])]
  /\ option_map (map (fun d => length d)) (send_transfer ex_data 10 0) = Some [10; 10; 10; 8]%nat.
Proof. vm_compute. split; reflexivity. Qed.

(** the smallest MTU for which a ten-octet bundle with id 0 can be sent at all *)
Example ex_infeasible : ~ feasible 7 0 (olen ex_data) /\ send_transfer ex_data 7 0 = None
                        /\ feasible 8 0 (olen ex_data).
Proof. unfold feasible. vm_compute. repeat split; congruence. Qed.

(** the strict test: a bundle of exactly MTU octets is segmented *)
Example ex_equal_is_segmented :
  option_map (fun l => length l) (send_transfer ex_data 10 0) = Some 4%nat
  /\ send_transfer ex_data 11 0 = Some [ex_data].
Proof. vm_compute. split; reflexivity. Qed.

(** an arrival satisfying the hypotheses of [reassembly]: the four segments of
    peer 1 / transfer 0 in the order 2,0,3,1, interleaved with a segment of the
    same transfer id from peer 2 and one of transfer 7 from peer 1 *)
Definition ex_evs : list seg_event :=
  [(1, 0, 10, 6, [16; 17; 18]); (2, 0, 10, 6, [16; 17; 18]); (1, 0, 10, 0, [10; 11; 12]);
   (1, 7, 4, 0, [1; 2]); (1, 0, 10, 9, [19]); (1, 0, 10, 3, [13; 14; 15])].

Example ex_reassembly_hyps :
  exists ps, send_pieces ex_data 10 0 = Some ps
    /\ lookup (1, 0) (r_frags rstate0) = None
    /\ Permutation (filter (own (1, 0)) ex_evs) (map (gev 1 0 (olen ex_data)) ps).
Proof.
  eexists. split; [vm_compute; reflexivity|]. split; [reflexivity|].
  vm_compute.
  apply (Permutation_cons_app [_; _] [_]). cbn [app].
  apply perm_skip. apply perm_swap.
Qed.

Example ex_reassembly_run :
  map (fun oe => (opt_list (fst oe), snd oe)) (snd (run_segments rstate0 ex_evs))
  = [([], false); ([], false); ([], false); ([], false); ([], false); ([ex_data], false)]
  /\ r_queue (fst (run_segments rstate0 ex_evs)) = [(1, ex_data)].
Proof. vm_compute. split; reflexivity. Qed.

(** duplicates before and after completion: hypotheses of [repeats_safe] *)
Definition ex_dups : list seg_event :=
  [(1, 0, 10, 6, [16; 17; 18]); (1, 0, 10, 6, [16; 17; 18]); (1, 0, 10, 0, [10; 11; 12]);
   (1, 0, 10, 9, [19]); (1, 0, 10, 0, [10; 11; 12]); (1, 0, 10, 3, [13; 14; 15]);
   (1, 0, 10, 3, [13; 14; 15])].

Example ex_repeats_hyps :
  exists ps, send_pieces ex_data 10 0 = Some ps
    /\ Forall (fun e => exists p, In p ps /\ e = gev 1 0 (olen ex_data) p) (filter (own (1, 0)) ex_dups).
Proof.
  eexists. split; [vm_compute; reflexivity|].
  change (filter (own (1, 0)) ex_dups) with ex_dups. unfold ex_dups.
  repeat (apply Forall_cons;
          [match goal with
           | |- exists p, _ /\ (_, _, _, ?o, ?f) = _ => exists (o, f); split; [cbn; tauto | reflexivity]
           end|]).
  apply Forall_nil.
Qed.

Example ex_repeats_run :
  map (fun oe => (opt_list (fst oe), snd oe)) (snd (run_segments rstate0 ex_dups))
  = [([], false); ([], false); ([], false); ([], false); ([], false); ([ex_data], false); ([], false)]
  /\ map (fun kv => (fst kv, x_valid (snd kv))) (r_frags (fst (run_segments rstate0 ex_dups))) = [((1, 0), [(3, 6)])].
Proof. vm_compute. split; reflexivity. Qed.

(** several messages and padding in one datagram: two segments, an
    indefinite-length bundle, a definite-length bundle, padding *)
Definition ex_msgs : list wmsg :=
  [WExt [(CUint 2, CArr [CUint 0; CUint 10; CUint 6; CBstr [16; 17; 18]])];
   WBundleIndef [CUint 7; CArr [CUint 1; CBstr [1; 2; 3]]];
   WExt [(CUint 4, CTstr [100; 116; 110]); (CUint 2, CArr [CUint 0; CUint 10; CUint 0; CBstr [10; 11; 12]])];
   WBundle [CUint 1; CUint 2]].

Example ex_multi_hyps : Forall wmsg_wf ex_msgs.
Proof.
  repeat constructor; cbn [length]; try (cbv; reflexivity).
Qed.

Example ex_multi_run :
  let '(st, code) := recv_datagram rstate0 1 (concat (map wenc ex_msgs) ++ [0; 0; 161; 2]) in
  (code, r_queue st, map (fun kv => (fst kv, x_valid (snd kv))) (r_frags st))
  = (0, [(1, [159; 7; 130; 1; 67; 1; 2; 3; 255]); (1, [130; 1; 2])], [((1, 0), [(0, 3); (6, 9)])]).
Proof. vm_compute. reflexivity. Qed.

Example ex_segment_datagram_hyps :
  0 < two64 /\ 10 < two64 /\ 6 < two64 /\ olen [16; 17; 18] < two64 /\ wf_bytes [16; 17; 18].
Proof. repeat split; try (vm_compute; reflexivity). repeat constructor. Qed.

(** * The pacing queue: nothing is dropped, duplicated or reordered within a lane *)

Section PacingProofs.
  Variable D : Type.

  Lemma lane_of_app lane (a b : list (bool * D)) : lane_of D lane (a ++ b) = lane_of D lane a ++ lane_of D lane b.
  Proof. unfold lane_of. rewrite filter_app, map_app. reflexivity. Qed.

  Lemma lane_of_tagged lane tag (l : list D) :
    lane_of D lane (map (pair tag) l) = if Bool.eqb tag lane then l else [].
  Proof.
    unfold lane_of. induction l as [|x l IH]; cbn [map filter fst].
    - destruct (Bool.eqb tag lane); reflexivity.
    - destruct (Bool.eqb tag lane) eqn:E; cbn [map snd]; rewrite IH; reflexivity.
  Qed.

  Definition lane_q (lane : bool) (st : pq D) : list D := if lane then q_pri D st else q_paced D st.

  Lemma pq_step_conserves lane st e out st' :
    pq_step D st e = (out, st') ->
    lane_of D lane out ++ lane_q lane st' = lane_q lane st ++ enq_of D lane [e].
  Proof.
    destruct e as [ds|ds|n]; cbn [pq_step enq_of flat_map]; intros E; injection E as <- <-;
      destruct lane; cbn [lane_q q_pri q_paced lane_of filter map app]; rewrite ?app_nil_r; try reflexivity.
    - rewrite lane_of_app, !lane_of_tagged. cbn [Bool.eqb]. rewrite !app_nil_r. reflexivity.
    - rewrite lane_of_app, !lane_of_tagged. cbn [Bool.eqb app]. apply firstn_skipn.
  Qed.

  Theorem pacing_conserves lane : forall evs st out st',
    pq_run D st evs = (out, st') ->
    lane_of D lane out ++ lane_q lane st' = lane_q lane st ++ enq_of D lane evs.
  Proof.
    induction evs as [|e r IH]; intros st out st' E.
    - cbn in E. injection E as <- <-. cbn. rewrite app_nil_r. reflexivity.
    - cbn [pq_run] in E. destruct (pq_step D st e) as [o1 st1] eqn:E1.
      destruct (pq_run D st1 r) as [o2 st2] eqn:E2. injection E as <- <-.
      rewrite lane_of_app, <- app_assoc, (IH _ _ _ E2), app_assoc, (pq_step_conserves lane _ _ _ _ E1).
      rewrite <- app_assoc. f_equal. unfold enq_of. cbn [flat_map]. rewrite app_nil_r. reflexivity.
  Qed.

  (** a last tick with enough tokens empties both lanes: every datagram ever
      enqueued has then been emitted exactly once, in its lane's order *)
  Theorem pacing_drains lane evs n out st' :
    pq_run D (mk_pq D [] []) (evs ++ [Tick D n]) = (out, st') ->
    (length (enq_of D false evs) <= n)%nat ->
    lane_of D lane out = enq_of D lane evs /\ q_pri D st' = [] /\ q_paced D st' = [].
  Proof.
    intros E Hn.
    assert (Hrun : forall l1 l2 st, pq_run D st (l1 ++ l2)
              = let '(o1, s1) := pq_run D st l1 in let '(o2, s2) := pq_run D s1 l2 in (o1 ++ o2, s2)).
    { induction l1 as [|e r IH]; intros l2 st; cbn [app pq_run].
      - destruct (pq_run D st l2); reflexivity.
      - destruct (pq_step D st e) as [o1 s1]. rewrite IH. destruct (pq_run D s1 r) as [o2 s2].
        destruct (pq_run D s2 l2) as [o3 s3]. rewrite app_assoc. reflexivity. }
    rewrite Hrun in E. destruct (pq_run D (mk_pq D [] []) evs) as [o1 s1] eqn:E1.
    cbn [pq_run pq_step] in E. rewrite app_nil_r in E. injection E as <- <-.
    pose proof (pacing_conserves false _ _ _ _ E1) as Hp. cbn [lane_q q_paced app] in Hp.
    assert (Hlen : (length (q_paced D s1) <= n)%nat).
    { rewrite <- Hp in Hn. rewrite app_length in Hn. lia. }
    cbn [q_pri q_paced]. split; [|split; [reflexivity | apply skipn_all2; exact Hlen]].
    pose proof (pacing_conserves lane _ _ _ _ E1) as Hc.
    rewrite lane_of_app, lane_of_app, !lane_of_tagged. rewrite firstn_all2 by exact Hlen.
    destruct lane; cbn [Bool.eqb lane_q q_pri q_paced app] in *; rewrite ?app_nil_r; exact Hc.
  Qed.
End PacingProofs.

Example ex_pacing :
  run_pq [(1, [10; 11; 12]); (2, [1]); (0, [20]); (2, [0]); (0, [21; 22]); (2, [5])]
  = ([10; 20; 21; 22; 11; 12], ([], [])).
Proof. vm_compute. reflexivity. Qed.
