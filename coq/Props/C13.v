(** Property C13 -- UDPCL transfers arrive intact and no datagram exceeds the
    MTU.  Statements only; the proofs are in Proofs/UdpclProofs.v over the
    model Model/Udpcl.v, whose size arithmetic / message layout is
    Gen/UdpclBudget.v (regenerated from /repo/src/udpcl/agent.py on every run).

    Vocabulary (Model/Udpcl.v): [send_transfer data mtu xid] = the datagrams of
    one send request ([None]: the generator never stops); [send_pieces] = the
    (offset, fragment) pairs of the segmented case; [seg_msg xid total off frag]
    = the CBOR item [{2: [xid, total, off, frag]}]; [recv_datagram] /
    [recv_segment] / [run_segments] = the receiver on a datagram / on one
    TRANSFER item / on a list of items [(peer, xid, total, off, frag)], each
    answering what it queued; [olen] = length in [N].

    Feasibility guard: [3 + |head xid| + 3 |head total| < mtu] is exactly
    [remain_size > 0] in the code.  For smaller MTUs the code's while loop never
    terminates ([C13_infeasible_never_ends]); no implementation can satisfy
    the property there (a segment needs at least one data octet), so this is
    recorded as an observation, not as a violation. *)
From Coq Require Import List NArith ZArith Permutation.
From DTN Require Import Lib.Bytes Lib.Cbor Lib.Ivl Lib.IvlProofs Gen.UdpclBudget Model.Udpcl Proofs.UdpclProofs.
Import ListNotations.
Local Open Scope N_scope.

(** A send request produces finitely many datagrams. *)
Theorem C13_terminates : forall (data : bytes) (mtu xid : N),
  N.of_nat (3 + head_len xid + 3 * head_len (olen data)) < mtu ->
  exists dgs, send_transfer data mtu xid = Some dgs.
Proof. exact send_terminates. Qed.
Print Assumptions C13_terminates.

(** No datagram exceeds the MTU -- all bundle lengths, all MTUs, all ids. *)
Theorem C13_within_mtu : forall (data : bytes) (mtu xid : N) (dgs : list bytes),
  N.of_nat (3 + head_len xid + 3 * head_len (olen data)) < mtu ->
  send_transfer data mtu xid = Some dgs ->
  Forall (fun d => olen d <= mtu) dgs.
Proof. exact send_within_mtu. Qed.
Print Assumptions C13_within_mtu.

(** A bundle shorter than the MTU is one datagram: the bundle itself. *)
Theorem C13_single_when_fits : forall (data : bytes) (mtu xid : N),
  olen data < mtu -> send_transfer data mtu xid = Some [data].
Proof. exact send_single. Qed.
Print Assumptions C13_single_when_fits.

(** Otherwise the datagrams are the encodings of TRANSFER segments whose
    fragments are non-empty, follow one another from offset 0 without gap or
    overlap, and concatenate to the bundle. *)
Theorem C13_tiling : forall (data : bytes) (mtu xid : N),
  N.of_nat (3 + head_len xid + 3 * head_len (olen data)) < mtu ->
  mtu <= olen data ->
  exists ps : list (N * bytes),
    send_pieces data mtu xid = Some ps
    /\ send_transfer data mtu xid
       = Some (map (fun p => encode (seg_msg xid (olen data) (fst p) (snd p))) ps)
    /\ contiguous_from 0 ps
    /\ concat (map snd ps) = data.
Proof. exact tiling. Qed.
Print Assumptions C13_tiling.

(** A datagram that is one segment message is handled as that TRANSFER item;
    a datagram that is one CBOR array (a bundle, definite or indefinite
    length) is queued octet for octet. *)
Theorem C13_segment_datagram : forall (st : rstate) (peer xid total off : N) (frag : bytes),
  xid < 18446744073709551616 -> total < 18446744073709551616 -> off < 18446744073709551616 ->
  olen frag < 18446744073709551616 -> wf_bytes frag ->
  recv_datagram st peer (encode (seg_msg xid total off frag))
  = match recv_segment st peer xid total off frag with
    | (st', _, err) => (st', if err then 1 else 0)
    end.
Proof. exact segment_datagram. Qed.
Print Assumptions C13_segment_datagram.

Theorem C13_bundle_datagram : forall (st : rstate) (peer : N) (m : wmsg),
  wmsg_wf m -> (forall kvs, m <> WExt kvs) ->
  recv_datagram st peer (wenc m) = (queue_bundle st peer (wenc m), 0).
Proof. exact bundle_datagram. Qed.
Print Assumptions C13_bundle_datagram.

(** Reassembly.  [evs] is any list of TRANSFER items in which the items of key
    (peer, xid) are a permutation of the segments of the bundle (each exactly
    once), interleaved arbitrarily with items of other transfers / peers; the
    receiver state [st] is arbitrary except that it has no entry for the key.
    Then the items of the key output nothing until the last one, which outputs
    exactly the bundle, no item raises, and the entry is gone afterwards. *)
Theorem C13_reassembly :
  forall (data : bytes) (mtu xid peer : N) (ps : list (N * bytes))
         (st : rstate) (evs : list seg_event) (st' : rstate) (outs : list (option bytes * bool)),
  N.of_nat (3 + head_len xid + 3 * head_len (olen data)) < mtu ->
  send_pieces data mtu xid = Some ps ->
  data <> [] ->
  lookup (peer, xid) (r_frags st) = None ->
  Permutation (filter (fun e => key_eqb (ev_key e) (peer, xid)) evs)
              (map (fun p => (peer, xid, olen data, fst p, snd p)) ps) ->
  run_segments st evs = (st', outs) ->
  map snd (filter (fun eo => key_eqb (ev_key (fst eo)) (peer, xid)) (combine evs outs))
  = repeat (None, false) (length ps - 1) ++ [(Some data, false)]
  /\ lookup (peer, xid) (r_frags st') = None.
Proof. exact reassembly. Qed.
Print Assumptions C13_reassembly.

(** What a run appends to the receive queue is exactly what its items output
    (so "outputs" above means "queued"). *)
Theorem C13_queue_is_outputs :
  forall (evs : list seg_event) (st st' : rstate) (outs : list (option bytes * bool)),
  run_segments st evs = (st', outs) ->
  r_queue st' = r_queue st ++ flat_map (fun eo => match fst (snd eo) with
                                                  | Some b => [(fst (ev_key (fst eo)), b)]
                                                  | None => []
                                                  end) (combine evs outs)
  /\ length outs = length evs.
Proof. exact run_segments_queue. Qed.
Print Assumptions C13_queue_is_outputs.

(** Repeated segments.  The items of the key are segments of the bundle in any
    order, any number of times each (possibly some never): whatever they
    output is the whole bundle, never a partial or altered one, nothing
    raises; and as long as some segment has not arrived at all, nothing is
    output. *)
Theorem C13_repeats_safe :
  forall (data : bytes) (mtu xid peer : N) (ps : list (N * bytes))
         (st : rstate) (evs : list seg_event) (st' : rstate) (outs : list (option bytes * bool)),
  N.of_nat (3 + head_len xid + 3 * head_len (olen data)) < mtu ->
  send_pieces data mtu xid = Some ps ->
  lookup (peer, xid) (r_frags st) = None ->
  Forall (fun e => exists p, In p ps /\ e = (peer, xid, olen data, fst p, snd p))
         (filter (fun e => key_eqb (ev_key e) (peer, xid)) evs) ->
  run_segments st evs = (st', outs) ->
  Forall (fun oe => snd oe = false /\ (fst oe = None \/ fst oe = Some data))
         (map snd (filter (fun eo => key_eqb (ev_key (fst eo)) (peer, xid)) (combine evs outs)))
  /\ ((exists p, In p ps /\ ~ In (peer, xid, olen data, fst p, snd p) evs) ->
      Forall (fun oe => oe = (None, false))
             (map snd (filter (fun eo => key_eqb (ev_key (fst eo)) (peer, xid)) (combine evs outs)))).
Proof. exact repeats_safe. Qed.
Print Assumptions C13_repeats_safe.

(** Several messages in one datagram, optionally followed by padding (first
    octet 0x00, anything after it): handled as the sequence of those messages,
    each bundle queued with exactly its own octets. *)
Theorem C13_multi_message : forall (st : rstate) (peer : N) (ms : list wmsg) (pad : bytes),
  Forall wmsg_wf ms -> (pad = [] \/ exists tl, pad = 0 :: tl) ->
  recv_datagram st peer (concat (map wenc ms) ++ pad) = handle_all st peer ms.
Proof. exact multi_message. Qed.
Print Assumptions C13_multi_message.

(** The pacing queue of a conversation ([TxSendWait]): a priority lane
    (non-transfer messages) and a paced lane (transfer datagrams).  Whatever
    the interleaving of enqueues and ticks and whatever the token budgets,
    what has been emitted on a lane followed by what is still pending on it is
    exactly what was enqueued on it, in order: nothing is dropped, duplicated
    or reordered; and a last tick with enough tokens leaves nothing pending.
    (The token arithmetic itself is not modelled: the budget of each tick is
    an input; the harness feeds the budgets it observes on the real queue.) *)
Theorem C13_pacing_conserves :
  forall (D : Type) (lane : bool) (evs : list (pq_ev D)) (st : pq D) (out : list (bool * D)) (st' : pq D),
  pq_run D st evs = (out, st') ->
  lane_of D lane out ++ (if lane then q_pri D st' else q_paced D st')
  = (if lane then q_pri D st else q_paced D st) ++ enq_of D lane evs.
Proof. exact pacing_conserves. Qed.
Print Assumptions C13_pacing_conserves.

Theorem C13_pacing_drains :
  forall (D : Type) (lane : bool) (evs : list (pq_ev D)) (n : nat) (out : list (bool * D)) (st' : pq D),
  pq_run D (mk_pq D [] []) (evs ++ [Tick D n]) = (out, st') ->
  (length (enq_of D false evs) <= n)%nat ->
  lane_of D lane out = enq_of D lane evs /\ q_pri D st' = [] /\ q_paced D st' = [].
Proof. exact pacing_drains. Qed.
Print Assumptions C13_pacing_drains.

(** Observation (not a violation, see the header): below the feasibility
    bound the loop of [_send_transfer] never ends, whatever the fuel. *)
Theorem C13_infeasible_never_ends : forall (data : bytes) (mtu xid : N),
  ~ N.of_nat (3 + head_len xid + 3 * head_len (olen data)) < mtu ->
  mtu <= olen data -> data <> [] ->
  send_transfer data mtu xid = None
  /\ forall fuel, seg_loop fuel data (remain mtu xid (olen data)) init_offset = None.
Proof. exact infeasible_never_ends. Qed.
Print Assumptions C13_infeasible_never_ends.

(** [range_decode (range_encode s) = s] for the interval sets the agent builds. *)
Theorem range_roundtrip : forall s : ivl, norm s -> range_decode (range_encode s) = s.
Proof. exact range_decode_encode. Qed.
Print Assumptions range_roundtrip.
