from . import glib  # noqa: F401
