(** C19 - Status reports are sent exactly when requested and say what happened.

    Model: Model/BpAgent.v.  [create_report] is BundleContainer.create_report over the tables translated
    from the source into Gen/ReportTable.v (FLAGS, STATUS_FIELD, PrimaryBlock.Flag, the reply's primary
    block); [recv_core] is one call of Agent.recv_bundle with everything it defers; [reports_of evs] are
    the status reports handed to a convergence layer among the events [evs].
    [occurred evs s] reads what happened off the events: delivered = a delivery callback, forwarded = the
    bundle (whole or as fragments) handed to a CL, deleted = neither.

    Standing for the unchanged code (the model reproduces it):
      C19_content_refuted   - residue of the defect fixed in cf814c0: when the fragment step takes the
                              bundle over on a route whose CL is not attached, 'forwarded' is reported
                              although every fragment fails to be sent (an outright failed forward is now
                              reported as deleted only: C19_failed_forward_deleted_only);
      C19_subject_refuted   - a forwarded bundle with creation time 0 is reported under the timestamp
                              the agent wrote into it, not the one it arrived with;
      C19_emitted_if_refuted_{no_route,fragment} - requested reception reports that are never sent. *)
From Coq Require Import NArith List Bool.
From DTN Require Import Gen.ReportTable Model.BpAgent Proofs.BpAgentProofs.
Import ListNotations.
Local Open Scope N_scope.

(** create_report returns a report  <->  report-to is not dtn:none  /\  some recorded action was requested. *)
Theorem C19_iff :
  forall (node : eid) (ts : N * N) (b : bundle) (acts : list action) (rsn : option N),
    create_report node ts b acts rsn <> None
    <-> b_rpt b <> EID_NONE /\ exists s, In s acts /\ requested b s = true.
Proof. exact create_report_iff. Qed.
Print Assumptions C19_iff.

(** Only if, and content: every report handed to a CL while processing [b] is addressed to b's report-to
    endpoint (which is not dtn:none), comes from this node, is flagged as an administrative record with
    CRC-32C on its blocks, names b's source (and creation timestamp, when that is not zero) as subject,
    carries times iff b requested them, asserts something, and asserts only what b requested. *)
Theorem C19_only_if_and_content :
  forall (matches : N -> eid -> bool) (a : agent) (b : bundle) (r : report),
    In r (reports_of (snd (fst (recv_core matches a b)))) ->
    b_rpt b <> EID_NONE /\ r_dst r = b_rpt b /\ r_src r = a_node a /\ r_rpt r = EID_NONE
    /\ r_flags r = report_bundle_flags /\ r_crc r = report_crc_type
    /\ r_with_time r = has_flag (b_flags b) status_time_flag
    /\ r_subj_src r = b_src b
    /\ (b_time b <> 0 -> r_subj_time r = b_time b /\ r_subj_seq r = b_seq b)
    /\ (exists s, asserted r s = true)
    /\ (forall s, asserted r s = true -> requested b s = true).
Proof. exact report_sound_r. Qed.
Print Assumptions C19_only_if_and_content.

(** FULL STATEMENT (false only in the corner excluded by the second guard):
      forall matches a b r, In r (reports_of evs) -> forall s, asserted r s = requested b s && occurred evs s.
    Guards: the bundle is not a fragment routed to delivery, the fragment step did not take the bundle over
    on a route whose CL is not attached, and the application it is delivered to does not refuse it (the admin
    element rejecting an ACME record records 'delete' after the delivery: the one report then asserts both
    "delivered" and "deleted", see C19_refused_example). *)
Theorem C19_content_partial :
  forall (matches : N -> eid -> bool) (a : agent) (b : bundle) (r : report),
    In r (reports_of (snd (fst (recv_core matches a b)))) ->
    mem ADlv (route_actions matches a b) && is_frag b = false ->
    (forall k, send_path matches a (b_dst b) (b_size b) (has_flag (b_flags b) FLAG_NO_FRAGMENT) (is_frag b) (b_fragfeas b)
               <> SentFrags k false) ->
    b_refuse b = false ->
    forall s, asserted r s = requested b s && occurred (snd (fst (recv_core matches a b))) s.
Proof. exact asserted_occurred_partial_r. Qed.
Print Assumptions C19_content_partial.

Theorem C19_content_refuted :
  exists (a : agent) (b : bundle) (r : report),
    In r (reports_of (w_events a b))
    /\ mem ADlv (route_actions w_matches a b) && is_frag b = false
    /\ requested b AFwd = true
    /\ asserted r AFwd = true /\ occurred (w_events a b) AFwd = false
    /\ asserted r ADel = false.
Proof. exact asserted_occurred_refuted. Qed.
Print Assumptions C19_content_refuted.

(** Regression of cf814c0: no transmit route for the destination - the one report asserts received and
    deleted (reason NO_ROUTE), not forwarded. *)
Theorem C19_failed_forward_deleted_only :
  let a := w_agent [(0, AFwd)] [w_rpt_route] in
  let b := w_bundle 1000 1 None in
  map (fun r => (map (asserted r) [ARecv; AFwd; ADlv; ADel], r_reason r)) (reports_of (w_events a b))
  = [([true; false; false; true], fwd_fail_reason)].
Proof. exact failed_forward_reported_deleted_only. Qed.
Print Assumptions C19_failed_forward_deleted_only.

(** FULL STATEMENT (false): the subject timestamp is always the one the bundle arrived with.  The guarded
    version ([b_time b <> 0]) is part of C19_only_if_and_content. *)
Theorem C19_subject_refuted :
  exists (a : agent) (b : bundle) (r : report),
    In r (reports_of (w_events a b))
    /\ has_tx (w_events a b) = true
    /\ (r_subj_time r =? b_time b) = false.
Proof. exact subject_refuted. Qed.
Print Assumptions C19_subject_refuted.

(** A report never requests further reports: none of the four request flags nor the status-time flag is
    set in its bundle flags, its own report-to is dtn:none, the administrative-record flag is set, and
    [create_report] applied to any bundle carrying those flags yields nothing. *)
Theorem C19_no_cascade :
  forall (matches : N -> eid -> bool) (a : agent) (b : bundle) (r : report),
    In r (reports_of (snd (fst (recv_core matches a b)))) ->
    (forall s, flags_request (r_flags r) s = false)
    /\ has_flag (r_flags r) status_time_flag = false
    /\ has_flag (r_flags r) FLAG_PAYLOAD_ADMIN = true
    /\ r_rpt r = EID_NONE
    /\ (forall node' ts' b' acts' rsn', b_flags b' = r_flags r -> create_report node' ts' b' acts' rsn' = None).
Proof. exact no_cascade_r. Qed.
Print Assumptions C19_no_cascade.

(** A bundle that was forwarded (whole or as fragments) is never reported as deleted. *)
Theorem C19_forwarded_not_deleted :
  forall (matches : N -> eid -> bool) (a : agent) (b : bundle) (r : report),
    In r (reports_of (snd (fst (recv_core matches a b)))) ->
    has_tx (snd (fst (recv_core matches a b))) = true -> asserted r ADel = false.
Proof. exact forwarded_not_deleted_r. Qed.
Print Assumptions C19_forwarded_not_deleted.

(** If-direction.  FULL STATEMENT (false): whenever report-to is set and a requested status occurred, a
    report is handed to [send_bundle].  Proved for the reception status of bundles that reach a final
    disposition (deleted / delivered / taken for forwarding). *)
Theorem C19_emitted_if_partial :
  forall (matches : N -> eid -> bool) (a : agent) (b : bundle),
    accepted a b = true ->
    mem ADlv (route_actions matches a b) && is_frag b = false ->
    b_rpt b <> EID_NONE -> requested b ARecv = true ->
    mem ADel (chain_acts matches a b) || mem ADlv (chain_acts matches a b) || mem AFwd (chain_acts matches a b) = true ->
    exists e, In e (snd (fst (recv_core matches a b))) /\ is_report_ev e = true.
Proof. exact report_attempted_if. Qed.
Print Assumptions C19_emitted_if_partial.

Theorem C19_emitted_if_refuted_no_route :
  exists (a : agent) (b : bundle),
    accepted a b = true /\ b_rpt b <> EID_NONE /\ requested b ARecv = true /\ requested b ADel = true
    /\ w_events a b = [].
Proof. exact attempted_if_refuted_no_route. Qed.
Print Assumptions C19_emitted_if_refuted_no_route.

Theorem C19_emitted_if_refuted_fragment :
  exists (a : agent) (b : bundle),
    accepted a b = true /\ b_rpt b <> EID_NONE /\ requested b ARecv = true /\ is_frag b = true
    /\ w_events a b = [].
Proof. exact attempted_if_refuted_fragment. Qed.
Print Assumptions C19_emitted_if_refuted_fragment.

(** ---- non-vacuity ---- *)

(* delivered with every report requested: one report, received+delivered asserted, with times *)
Example C19_content_example :
  let a := w_agent [(0, ADlv)] [w_rpt_route] in
  let b := w_bundle 1000 1 None in
  mem ADlv (route_actions w_matches a b) && is_frag b = false
  /\ map (fun r => (map (asserted r) [ARecv; AFwd; ADlv; ADel], r_with_time r, r_dst r))
         (reports_of (w_events a b)) = [([true; false; true; false], true, 7)].
Proof. vm_compute. repeat split. Qed.

(* forwarded as fragments (MTU 60 < size 95, feasible): 'forwarded' reported, never 'deleted' *)
Example C19_forwarded_not_deleted_example :
  let a := w_agent [(0, AFwd)] [w_rpt_route; mkTx 1001 true (Some 60) 0] in
  let b := w_bundle 1000 1 None in
  has_tx (w_events a b) = true
  /\ map (fun r => map (asserted r) [ARecv; AFwd; ADlv; ADel]) (reports_of (w_events a b))
     = [[true; true; false; false]].
Proof. vm_compute. repeat split. Qed.

(* refused by the admin element after delivery: one report asserting received, delivered AND deleted *)
Example C19_refused_example :
  let a := w_agent [] [w_rpt_route] in
  let b := mkBundle 5 1 7 1000 1 None ALL_REPORT_FLAGS 5 true None 0 95 true true in
  map (fun r => map (asserted r) [ARecv; AFwd; ADlv; ADel]) (reports_of (w_events a b)) = [[true; false; true; true]].
Proof. vm_compute. reflexivity. Qed.

Example C19_emitted_if_example :
  let a := w_agent [(0, ADel)] [w_rpt_route] in
  let b := w_bundle 1000 1 None in
  accepted a b = true /\ mem ADlv (route_actions w_matches a b) && is_frag b = false
  /\ requested b ARecv = true
  /\ mem ADel (chain_acts w_matches a b) = true
  /\ length (reports_of (w_events a b)) = 1%nat.
Proof. vm_compute. repeat split. Qed.
