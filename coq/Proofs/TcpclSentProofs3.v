(** TCPCL endpoint model: what handling one received message does, field by field (part 2). *)
From Coq Require Import ZArith NArith List Bool Lia ZifyBool ZifyN ZifyNat Arith.
From RecordUpdate Require Import RecordSet.
From DTN Require Import Lib.Bytes Model.TcpclMsg Model.TcpclSess Proofs.TcpclSessBasics Proofs.TcpclSentProofs1 Proofs.TcpclSentProofs2.
Import ListNotations RecordSetNotations.
Ltac Zify.zify_post_hook ::= Z.div_mod_to_equations.
Local Open Scope N_scope.

Ltac use_eqs := repeat match goal with H : ?x = _ |- context [?x] => rewrite H end.
Ltac bool_leaf := use_eqs; cbn [andb orb negb]; rewrite ?orb_false_r, ?orb_true_r, ?andb_false_r, ?andb_true_r; try reflexivity; try congruence.

Lemma in_term_recv_msg m s : in_term (fst (recv_frame (FMsg m) s)) = in_term s || (is_term m && in_sess s).
Proof.
  hm_unfold. unfold is_term. destruct m; p_split; rewrite ?orb_true_r, ?orb_false_r; cbn [andb orb]; sum_leaf; bool_leaf.
Qed.

Lemma sessinit_peer_recv_msg m s : sessinit_peer (fst (recv_frame (FMsg m) s)) =
  match m with MSessInit ka smru xmru nid _ => Some (mkSI ka smru xmru nid) | _ => sessinit_peer s end.
Proof. hm_unfold. destruct m; p_split; sum_leaf. Qed.

(** Whether the merge of the session settings after a SESS_INIT goes through. *)
Definition init_ok (nodeid : bytes) (s : ep) : bool :=
  (c_passive (cf s) || match sessinit_this s with Some _ => true | None => false end) && ascii nodeid.

Lemma seg_size_recv_msg m s : seg_size (fst (recv_frame (FMsg m) s)) =
  match m with
  | MSessInit _ smru _ nid _ => if init_ok nid s then N.min (c_seg_init (cf s)) smru else seg_size s
  | _ => seg_size s
  end.
Proof. hm_unfold. unfold init_ok. destruct m; p_split; sum_leaf; bool_leaf. Qed.

Lemma keepalive_time_recv_msg m s : is_init m = false ->
  keepalive_time (fst (recv_frame (FMsg m) s)) = keepalive_time s.
Proof. hm_unfold. destruct m; intros Hm; try discriminate Hm; p_split; sum_leaf. Qed.

Lemma rx_tmp_recv_msg m s : rx_tmp (fst (recv_frame (FMsg m) s)) =
  match m with
  | MXferSeg fl xid _ data =>
      if in_sess s then
        match seg_acc fl xid data s with
        | Some acc => if has_end fl then None else Some (xid, acc)
        | None => rx_tmp s
        end
      else rx_tmp s
  | _ => rx_tmp s
  end.
Proof. hm_unfold. unfold seg_acc. destruct m; p_split; sum_leaf. Qed.

Lemma tx_tmp_recv_msg m s : tx_tmp (fst (recv_frame (FMsg m) s)) = tx_tmp s \/ tx_tmp (fst (recv_frame (FMsg m) s)) = None.
Proof. hm_unfold. destruct m; p_split; auto. Qed.

Lemma tx_len_recv_msg m s : tx_tmp (fst (recv_frame (FMsg m) s)) <> None -> tx_len (fst (recv_frame (FMsg m) s)) = tx_len s.
Proof. hm_unfold. destruct m; p_split; intros H; try reflexivity; try congruence. Qed.

Lemma state_recv_frame f s : state (fst (recv_frame f s)) = ST_CONNECTING -> state s = ST_CONNECTING.
Proof. hm_unfold. destruct f as [c|m]; [|destruct m]; p_split; intros H; try assumption; try discriminate H. Qed.

Lemma ka_due_recv_frame f s : (ka_due s <> None -> keepalive_time s <> 0) ->
  ka_due (fst (recv_frame f s)) <> None -> keepalive_time (fst (recv_frame f s)) <> 0.
Proof.
  hm_unfold. destruct f as [c|m]; [|destruct m]; p_split; intros H H1; try (apply H; assumption); try congruence.
  all: unfold ka_next in *; revert H1; p_norm; repeat case_step; intros; try congruence.
  all: match goal with E : (0 <? _) = true |- _ => apply N.ltb_lt in E; lia end.
Qed.
