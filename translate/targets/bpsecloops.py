''' bp/app/bpsec.py: the loop structure of security verification on reception.

(1) ``Bpsec._verify_bib`` / ``Bpsec._verify_bcb`` walk the blocks ``ctr.block_type(...)`` returns.  Accepting a
    block REMOVES it from that very list (``ctr.remove_block``), so iterating the live list skips the block
    after every accepted one; iterating a snapshot (``list(...)`` / ``tuple(...)``) visits all.
(2) ``CoseContext.verify_bib`` / ``verify_bcb`` walk ``payload.targets`` and look the result of every target up
    by its index (``payload.results[tgt_ix]``): a target without a result raises.  ``zip(targets, results)``
    would silently skip targets that have no result.
(3) an exception escaping the per-block verification is turned into ``StatusReport.ReasonCode.FAILED_SEC``.

The generated booleans say which of the alternatives each loop uses; any other shape fails closed.
'''
import ast
import os

SNAPSHOT_FUNCS = ('list', 'tuple')


def _is_block_type_call(node):
    return (isinstance(node, ast.Call) and isinstance(node.func, ast.Attribute) and node.func.attr == 'block_type'
            and ast.unparse(node.func.value) == 'ctr')


def _iter_kind(expr, assigns, fname):
    ''' 'snapshot' | 'live' for the iterable of the block loop '''
    if isinstance(expr, ast.Name):
        if expr.id not in assigns:
            raise ValueError('%s: loop over %s, which is not assigned from ctr.block_type(...)' % (fname, expr.id))
        return _iter_kind(assigns[expr.id], {}, fname)
    if _is_block_type_call(expr):
        return 'live'
    if (isinstance(expr, ast.Call) and isinstance(expr.func, ast.Name) and expr.func.id in SNAPSHOT_FUNCS
            and len(expr.args) == 1 and not expr.keywords and _is_block_type_call(expr.args[0])):
        return 'snapshot'
    raise ValueError('%s: unexpected iterable of the block loop: %s' % (fname, ast.unparse(expr)))


def block_loop(func, verify_name):
    ''' (iteration kind, exception handling) of Bpsec._verify_bib / _verify_bcb '''
    assigns = {}
    for node in ast.walk(func):
        if isinstance(node, ast.Assign) and len(node.targets) == 1 and isinstance(node.targets[0], ast.Name) \
                and 'block_type' in ast.unparse(node.value):
            if node.targets[0].id in assigns:
                raise ValueError('%s: %s assigned twice' % (func.name, node.targets[0].id))
            assigns[node.targets[0].id] = node.value
    loops = [node for node in ast.walk(func) if isinstance(node, ast.For)
             and (isinstance(node.iter, ast.Name) and node.iter.id in assigns or 'block_type' in ast.unparse(node.iter))]
    if len(loops) != 1:
        raise ValueError('%s: expected exactly one loop over ctr.block_type(...), found %d' % (func.name, len(loops)))
    kind = _iter_kind(loops[0].iter, assigns, func.name)
    # the call ctx.<verify_name>(ctr, blk) sits in a try whose handler catches Exception and assigns the result
    tries = [node for node in ast.walk(loops[0]) if isinstance(node, ast.Try)
             and any(isinstance(sub, ast.Call) and isinstance(sub.func, ast.Attribute) and sub.func.attr == verify_name
                     for stmt in node.body for sub in ast.walk(stmt))]
    calls = [node for node in ast.walk(func) if isinstance(node, ast.Call) and isinstance(node.func, ast.Attribute)
             and node.func.attr == verify_name]
    if len(tries) != 1 or len(calls) != 1:
        raise ValueError('%s: expected exactly one call of %s, inside one try' % (func.name, verify_name))
    node = tries[0]
    if len(node.handlers) != 1 or node.finalbody or node.orelse:
        raise ValueError('%s: unexpected try shape around %s' % (func.name, verify_name))
    handler = node.handlers[0]
    if handler.type is None or ast.unparse(handler.type) != 'Exception':
        raise ValueError('%s: the handler around %s does not catch Exception' % (func.name, verify_name))
    body_assign = [stmt for stmt in node.body if isinstance(stmt, ast.Assign)]
    if len(body_assign) != 1 or len(body_assign[0].targets) != 1 or not isinstance(body_assign[0].targets[0], ast.Name):
        raise ValueError('%s: the result of %s is not assigned to a name' % (func.name, verify_name))
    res_name = body_assign[0].targets[0].id
    for stmt in handler.body:
        for sub in ast.walk(stmt):
            if isinstance(sub, (ast.Raise, ast.Return, ast.Continue, ast.Break)):
                raise ValueError('%s: the exception handler leaves the loop body (%s)' % (func.name, type(sub).__name__))
    hassign = [stmt for stmt in handler.body if isinstance(stmt, ast.Assign) and len(stmt.targets) == 1
               and isinstance(stmt.targets[0], ast.Name) and stmt.targets[0].id == res_name]
    if len(hassign) != 1:
        raise ValueError('%s: the exception handler does not assign %s exactly once' % (func.name, res_name))
    value = ast.unparse(hassign[0].value)
    if value == 'StatusReport.ReasonCode.FAILED_SEC':
        failed_sec = True
    elif isinstance(hassign[0].value, (ast.JoinedStr, ast.Constant)) and (
            isinstance(hassign[0].value, ast.JoinedStr) or isinstance(hassign[0].value.value, str)):
        failed_sec = False        # a text "reason" (the tree before d956b1c)
    else:
        raise ValueError('%s: the exception handler assigns %s = %s' % (func.name, res_name, value))
    # the result must be appended to the failure list after the try, guarded by "is not None"
    appends = [sub for sub in ast.walk(loops[0]) if isinstance(sub, ast.If) and ast.unparse(sub.test) == '%s is not None' % res_name
               and any('append(%s)' % res_name in ast.unparse(stmt) for stmt in sub.body)]
    if len(appends) != 1:
        raise ValueError('%s: "if %s is not None: failure.append(%s)" not found in the loop' % (func.name, res_name, res_name))
    return (kind, failed_sec)


def target_loop(func):
    ''' 'index' | 'zip' for CoseContext.verify_bib / verify_bcb '''
    loops = [node for node in ast.walk(func) if isinstance(node, ast.For) and 'payload.targets' in ast.unparse(node.iter)]
    if len(loops) != 1:
        raise ValueError('%s: expected exactly one loop over payload.targets, found %d' % (func.name, len(loops)))
    loop = loops[0]
    itr = loop.iter
    if not (isinstance(itr, ast.Call) and isinstance(itr.func, ast.Name)):
        raise ValueError('%s: unexpected target loop: %s' % (func.name, ast.unparse(itr)))
    if itr.func.id == 'enumerate' and len(itr.args) == 1 and isinstance(itr.args[0], ast.Call) \
            and isinstance(itr.args[0].func, ast.Name) and itr.args[0].func.id == 'zip':
        itr = itr.args[0]        # enumerate(zip(targets, results)) pairs like zip
    if itr.func.id == 'enumerate' and len(itr.args) == 1 and ast.unparse(itr.args[0]).endswith('.payload.targets'):
        blk = ast.unparse(itr.args[0])[:-len('.payload.targets')]
        if not (isinstance(loop.target, ast.Tuple) and len(loop.target.elts) == 2 and isinstance(loop.target.elts[0], ast.Name)):
            raise ValueError('%s: unexpected loop variables %s' % (func.name, ast.unparse(loop.target)))
        idx = loop.target.elts[0].id
        want = '%s.payload.results[%s]' % (blk, idx)
        first = [stmt for stmt in loop.body if want in ast.unparse(stmt)]
        if not first or not isinstance(first[0], ast.Assign):
            raise ValueError('%s: %s is not looked up by a top-level statement of the target loop' % (func.name, want))
        # no statement before the lookup may leave the iteration
        for stmt in loop.body[:loop.body.index(first[0])]:
            for sub in ast.walk(stmt):
                if isinstance(sub, (ast.Continue, ast.Break, ast.Return)):
                    raise ValueError('%s: the iteration can be left before the result lookup' % func.name)
        return 'index'
    if itr.func.id == 'zip' and len(itr.args) == 2 and ast.unparse(itr.args[0]).endswith('.payload.targets') \
            and ast.unparse(itr.args[1]).endswith('.payload.results'):
        return 'zip'
    raise ValueError('%s: unexpected target loop: %s' % (func.name, ast.unparse(itr)))


def generate(repo_src):
    with open(os.path.join(repo_src, 'bp', 'app', 'bpsec.py'), 'r') as infile:
        tree = ast.parse(infile.read())
    classes = {node.name: node for node in tree.body if isinstance(node, ast.ClassDef)}
    for name in ('Bpsec', 'CoseContext'):
        if name not in classes:
            raise ValueError('bp.app.bpsec.%s not found' % name)
    app = {node.name: node for node in classes['Bpsec'].body if isinstance(node, ast.FunctionDef)}
    ctx = {node.name: node for node in classes['CoseContext'].body if isinstance(node, ast.FunctionDef)}
    lines = ['(** GENERATED by translate/targets/bpsecloops.py from bp/app/bpsec.py -- do not edit. *)', '']
    for kind in ('bib', 'bcb'):
        for (table, fname) in ((app, '_verify_' + kind), (ctx, 'verify_' + kind)):
            if fname not in table:
                raise ValueError('%s not found' % fname)
        (itkind, failed_sec) = block_loop(app['_verify_' + kind], 'verify_' + kind)
        tkind = target_loop(ctx['verify_' + kind])
        lines.append('Definition verify_%s_iterates_snapshot : bool := %s.' % (kind, 'true' if itkind == 'snapshot' else 'false'))
        lines.append('Definition verify_%s_exception_failed_sec : bool := %s.' % (kind, 'true' if failed_sec else 'false'))
        lines.append('Definition verify_%s_results_by_index : bool := %s.' % (kind, 'true' if tkind == 'index' else 'false'))
    return {'Gen/BpsecLoops.v': '\n'.join(lines) + '\n'}
