(* C17 -- the TCPCL endpoint answers out-of-place peer messages without
   corrupting its state: event-loop callbacks never let an exception escape,
   every rejected message is answered by exactly one MSG_REJECT, and the
   endpoint's own queued transfers are unaffected.

   Every statement is about the executable model Model/TcpclSess.v
   (s = run c ops: every configuration, every operation list -- every schedule,
   chunking, back-pressure pattern, position of the D-Bus calls and arbitrary
   received octets -- unless a hypothesis says otherwise).

   Hypotheses of (17a), both necessary (Examples below):
     (i)  OStart is the first operation: the agent always starts a handler
          before the loop runs; otherwise an active endpoint that reads a contact
          header raises AttributeError (conhead_this is unset);
     (ii) every SESS_INIT the endpoint parses carries an ASCII node id
          (sessinit_ascii on the ghost log [handled] of the frames given to
          recv_message): the model treats any other node id as undecodable
          (UnicodeDecodeError); a node id that is not UTF-8 is not a well-formed
          message.

   Recorded finding, not proved away: an unknown message type never completes,
   the receive stream stalls (C17_unknown_type_stalls, C17_unknown_type_stalls_rx).

   (17d) "never delivers data assembled from mismatched transfers" is proved by
   the transfer-structure package (Proofs/TcpclXferRecv.v: no_mixed_delivery,
   pop_delivered; also stated in Props/C01.v) and re-exported at the end. *)
From Coq Require Import List NArith Bool.
Import ListNotations.
From DTN Require Import Lib.Bytes Model.TcpclMsg Model.TcpclSess Model.TcpclXferSpec
  Proofs.TcpclRobustLib Proofs.TcpclRobustProofs Proofs.TcpclXferRecv.
Local Open Scope N_scope.

(* ---- (17a) no exception escapes an event-loop callback, and the receive
        watch stays registered (the endpoint does not go deaf) *)
Theorem C17_no_escape : forall c ops o,
  non_user o = true ->
  let s := run c (OStart :: ops) in
  Forall sessinit_ascii (handled (step s o)) ->
  (exists evs, trace (step s o) = trace s ++ evs /\ forall k, ~ In (EExc k) evs)
  /\ rx_alive (step s o) = rx_alive s.
Proof. exact no_escape. Qed.
Print Assumptions C17_no_escape.

Definition c17_cfg : cfg := mkCfg true [97] 30 60 1000 500 None.
Definition c17_ops : list op :=
  [ORx (MAGIC ++ [4; 0]); ORx (encode_msg (MSessInit 20 400 1000 [98] []));
   ORx (encode_msg (MXferAck 1 7 5))].
Example C17_no_escape_nonvacuous :
  non_user (ORx (encode_msg (MXferRefuse 1 9))) = true
  /\ Forall sessinit_ascii
       (handled (step (run c17_cfg (OStart :: c17_ops)) (ORx (encode_msg (MXferRefuse 1 9)))))
  /\ length (handled (step (run c17_cfg (OStart :: c17_ops)) (ORx (encode_msg (MXferRefuse 1 9))))) = 4%nat.
Proof. vm_compute. split; [reflexivity|]. split; [repeat constructor|reflexivity]. Qed.

(* hypothesis (i) is necessary *)
Example C17_no_escape_needs_start :
  trace (run cfg_active [ORx (MAGIC ++ [4; 0])]) = [EExc EX_ATTRIBUTE]
  /\ rx_alive (run cfg_active [ORx (MAGIC ++ [4; 0])]) = false.
Proof. exact no_escape_needs_start. Qed.

(* hypothesis (ii) is necessary *)
Example C17_no_escape_needs_ascii :
  let ops := [OStart; ORx (MAGIC ++ [4; 0]);
              ORx (encode_msg (MSessInit 30 1000 1000 [200] []))] in
  trace (run cfg_active ops)
  = [ESig SigState [PStr ST_CONTACT]; ESig SigState [PStr ST_SESSNEG]; EExc EX_UNICODE].
Proof. exact no_escape_needs_ascii. Qed.

(* ---- what the D-Bus caller can get back: exactly three errors (terminate() or
        send_bundle_data() while terminating; pop of an unknown id) -- API errors
        returned to the caller, not escapes from an event-loop callback *)
Theorem C17_term_twice : forall s r,
  closed s = false -> in_sess s = true -> in_term s = true ->
  step s (OTerm r) = emit (EExc EX_RUNTIME) s.
Proof. exact term_twice. Qed.
Print Assumptions C17_term_twice.

Theorem C17_pop_unknown : forall s id,
  closed s = false -> dict_get id (rx_map s) = None ->
  step s (OPop id) = emit (EExc EX_KEY) s.
Proof. exact pop_unknown. Qed.
Print Assumptions C17_pop_unknown.

(* send_bundle_data once the session is terminating: refused (RuntimeError to the
   caller), nothing is queued, the state is otherwise unchanged *)
Theorem C17_send_terminating : forall s d,
  closed s = false -> in_term s = true ->
  step s (OSend d) = emit (EExc EX_RUNTIME) s.
Proof. exact send_terminating. Qed.
Print Assumptions C17_send_terminating.

(* every event a user operation adds is not an exception, except in exactly
   these three cases (in any state whatsoever) *)
Theorem C17_user_errors : forall s o,
  non_user o = false ->
  exists evs, trace (step s o) = trace s ++ evs /\
    Forall (fun e =>
      is_exc e = false
      \/ (e = EExc EX_RUNTIME /\ exists r, o = OTerm r /\ closed s = false /\ in_sess s = true /\ in_term s = true)
      \/ (e = EExc EX_KEY /\ exists id, o = OPop id /\ closed s = false /\ dict_get id (rx_map s) = None)
      \/ (e = EExc EX_RUNTIME /\ exists d, o = OSend d /\ closed s = false /\ in_term s = true)) evs.
Proof. exact step_user_events. Qed.
Print Assumptions C17_user_errors.

(* the whole run: every exception event was returned to a D-Bus caller *)
Theorem C17_exc_only_user : forall c ops,
  Forall sessinit_ascii (handled (run c (OStart :: ops))) ->
  forall k, In (EExc k) (trace (run c (OStart :: ops))) ->
    (k = EX_RUNTIME /\ ((exists r, In (OTerm r) ops) \/ (exists d, In (OSend d) ops)))
    \/ (k = EX_KEY /\ exists id, In (OPop id) ops).
Proof. exact exc_only_user. Qed.
Print Assumptions C17_exc_only_user.

Example C17_exc_only_user_nonvacuous :
  let ops := c17_ops ++ [OPop 3; OTerm 0; OTerm 0; OSend [1]] in
  Forall sessinit_ascii (handled (run c17_cfg (OStart :: ops)))
  /\ filter is_exc (trace (run c17_cfg (OStart :: ops)))
     = [EExc EX_KEY; EExc EX_RUNTIME; EExc EX_RUNTIME]
  /\ q_tx_queue (run c17_cfg (OStart :: ops)) = [].
Proof. vm_compute. split; [repeat constructor|split; reflexivity]. Qed.

(* ---- (17b) a rejected message is answered by exactly one MSG_REJECT, reason
        3 (unexpected), and nothing else is sent *)
Theorem C17_answered : forall m s s' r,
  handle_msg m s = (s', Reject r) ->
  recv_frame (FMsg m) s = (send_msg (MReject (msg_id m) r) s', None)
  /\ sent (fst (recv_frame (FMsg m) s)) = sent s ++ [FMsg (MReject (msg_id m) r)]
  /\ r = REJ_UNEXPECTED.
Proof. exact answered. Qed.
Print Assumptions C17_answered.

Example C17_answered_nonvacuous :
  sent (run c17_cfg (OStart :: c17_ops))
  = [FContact (mkContact MAGIC 4 0); FMsg (MSessInit 30 1000 (2^64 - 1) [97] []);
     FMsg (MReject 2 3)].
Proof. vm_compute. reflexivity. Qed.

(* which messages are rejected *)
Theorem C17_reject_before_session : forall m s,
  in_sess s = false ->
  match m with MXferSeg _ _ _ _ | MXferAck _ _ _ | MXferRefuse _ _ | MSessTerm _ _ => True | _ => False end ->
  handle_msg m s = (s, Reject REJ_UNEXPECTED).
Proof. exact reject_before_session. Qed.
Print Assumptions C17_reject_before_session.

Theorem C17_reject_segment_no_transfer : forall flags xid ext data s,
  in_sess s = true -> has_start flags = false ->
  match rx_tmp s with Some (cur, _) => (cur =? xid) = false | None => True end ->
  handle_msg (MXferSeg flags xid ext data) s = (s, Reject REJ_UNEXPECTED).
Proof. exact reject_segment_no_transfer. Qed.
Print Assumptions C17_reject_segment_no_transfer.

Theorem C17_reject_ack_unknown : forall flags xid len s,
  in_sess s = true -> ~ In xid (map fst (tx_map s)) ->
  handle_msg (MXferAck flags xid len) s = (s, Reject REJ_UNEXPECTED).
Proof. exact reject_ack_unknown. Qed.
Print Assumptions C17_reject_ack_unknown.

Theorem C17_reject_refuse_unknown : forall reason xid s,
  in_sess s = true -> ~ In xid (map fst (tx_map s)) ->
  handle_msg (MXferRefuse reason xid) s = (s, Reject REJ_UNEXPECTED).
Proof. exact reject_refuse_unknown. Qed.
Print Assumptions C17_reject_refuse_unknown.

(* a contact header with the wrong magic or version closes the connection; like
   every close it first reports the transfers that were never started
   (send_bundle_finished(id, 0, 'session terminating') for each), sends nothing *)
Theorem C17_bad_contact_closes : forall c s,
  contact_ok c = false ->
  let s' := fst (recv_frame (FContact c) s) in
  snd (recv_frame (FContact c) s) = None /\ closed s' = true /\ sent s' = sent s
  /\ (closed s = false ->
      trace s' = (trace s ++ map (fun it : N * bytes =>
                                   ESig SigSendFinished [PStrNum (fst it); PInt 0; PStr RES_TERMINATING])
                                (pend_start s)) ++ [EClosed]).
Proof. exact bad_contact_closes. Qed.
Print Assumptions C17_bad_contact_closes.

Example C17_bad_contact_nonvacuous :
  let s := run c17_cfg [OStart; OSend [1]; ORx ([100; 116; 110; 63] ++ [4; 0])] in
  closed s = true
  /\ trace s = [ESig SigState [PStr ST_CONTACT]; ERet 1 (PStrNum 1);
                ESig SigSendFinished [PStrNum 1; PInt 0; PStr RES_TERMINATING]; EClosed]
  /\ q_tx_queue s = [].
Proof. vm_compute. repeat split. Qed.

(* recorded finding: an unknown message type never completes *)
Theorem C17_unknown_type_stalls : forall id rest,
  (id = 0 \/ 8 <= id) -> parse_msg (id :: rest) = None.
Proof. exact unknown_type_stalls. Qed.
Print Assumptions C17_unknown_type_stalls.

Theorem C17_unknown_type_stalls_rx : forall id rest data s,
  (id = 0 \/ 8 <= id) -> closed s = false -> rx_alive s = true -> in_conn s = true ->
  rx_buf s = id :: rest -> data <> [] ->
  let s' := step s (ORx data) in
  rx_buf s' = rx_buf s ++ data /\ handled s' = handled s /\ sent s' = sent s /\ trace s' = trace s.
Proof. exact unknown_type_stalls_rx. Qed.
Print Assumptions C17_unknown_type_stalls_rx.

(* ---- (17c) a rejected message does not touch the endpoint's own transfers *)
Theorem C17_own_transfers_unaffected : forall m s s' r,
  handle_msg m s = (s', Reject r) ->
  pend_start s' = pend_start s /\ tx_tmp s' = tx_tmp s /\ tx_len s' = tx_len s
  /\ pend_ack s' = pend_ack s /\ map fst (tx_map s') = map fst (tx_map s)
  /\ rx_map s' = rx_map s /\ rx_tmp s' = rx_tmp s /\ next_id s' = next_id s.
Proof. exact own_transfers_unaffected. Qed.
Print Assumptions C17_own_transfers_unaffected.

(* ---- (17d) re-exported from the transfer-structure package: every bundle
        handed to the application (popped) is a specified delivery, and each
        specified delivery (xid, d) is the concatenation of the data of the
        segments of ONE transfer id -- a START segment of xid, then (among frames
        none of which is a START) the segments of xid up to its first END *)
Theorem C17_pop_delivered : forall c ops id d,
  In (EPop id d) (trace (run c ops)) -> In (id, d) (deliver_spec (handled (run c ops))).
Proof. exact pop_delivered. Qed.
Print Assumptions C17_pop_delivered.

Theorem C17_no_mixed_delivery :
  forall (h : list frame) (xid : N) (d : bytes),
    In (xid, d) (deliver_spec h) ->
    exists pre fl0 e0 d0 mid post,
      h = pre ++ FMsg (MXferSeg fl0 xid e0 d0) :: mid ++ post /\
      has_start fl0 = true /\
      Forall (fun f => is_start f = false) mid /\
      d = d0 ++ concat (map (contrib xid) mid) /\
      ((has_end fl0 = true /\ mid = []) \/
       (has_end fl0 = false /\
        exists mid' fle ee de, mid = mid' ++ [FMsg (MXferSeg fle xid ee de)] /\ has_end fle = true /\
                               Forall (fun f => is_end_of xid f = false) mid')).
Proof. exact no_mixed_delivery. Qed.
Print Assumptions C17_no_mixed_delivery.
