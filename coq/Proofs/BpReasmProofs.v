(** Proofs about the reassembly model Model/BpReasm.v (property C06). *)
From Coq Require Import ZArith NArith List Bool Lia ZifyBool ZifyN ZifyNat.
From DTN Require Import Lib.Bytes Lib.Ivl Lib.IvlProofs Model.BpReasm.
Import ListNotations.
Local Open Scope N_scope.

Ltac Zify.zify_post_hook ::= Z.div_mod_to_equations.

(** * Identities and the table *)

Lemma id_eqb_eq a b : id_eqb a b = true <-> a = b.
Proof.
  destruct a as [[a1 a2] a3], b as [[b1 b2] b3]. unfold id_eqb. split.
  - intros H. apply andb_prop in H. destruct H as [H H3]. apply andb_prop in H. destruct H as [H1 H2].
    apply N.eqb_eq in H1, H2, H3. subst. reflexivity.
  - intros H. inversion H. subst. rewrite !N.eqb_refl. reflexivity.
Qed.

Lemma id_eqb_refl a : id_eqb a a = true.
Proof. apply id_eqb_eq. reflexivity. Qed.

Lemma id_eqb_neq a b : id_eqb a b = false <-> a <> b.
Proof.
  split.
  - intros H E. apply id_eqb_eq in E. congruence.
  - intros H. destruct (id_eqb a b) eqn:E; [|reflexivity]. apply id_eqb_eq in E. contradiction.
Qed.

Lemma id_eqb_sym a b : id_eqb a b = id_eqb b a.
Proof.
  destruct (id_eqb a b) eqn:E.
  - apply id_eqb_eq in E. subst. symmetry. apply id_eqb_refl.
  - apply id_eqb_neq in E. symmetry. apply id_eqb_neq. congruence.
Qed.

Lemma tbl_get_set_same k e t : tbl_get k (tbl_set k e t) = Some e.
Proof.
  induction t as [|[k' e'] r IH]; cbn [tbl_set tbl_get].
  - rewrite id_eqb_refl. reflexivity.
  - destruct (id_eqb k k') eqn:E; cbn [tbl_get].
    + rewrite id_eqb_refl. reflexivity.
    + rewrite E. exact IH.
Qed.

Lemma tbl_get_set_other k k' e t : k' <> k -> tbl_get k' (tbl_set k e t) = tbl_get k' t.
Proof.
  intros Hne. induction t as [|[k2 e2] r IH]; cbn [tbl_set tbl_get].
  - apply id_eqb_neq in Hne. rewrite Hne. reflexivity.
  - destruct (id_eqb k k2) eqn:E; cbn [tbl_get].
    + apply id_eqb_eq in E. subst k2. apply id_eqb_neq in Hne. rewrite Hne. reflexivity.
    + rewrite IH. reflexivity.
Qed.

Lemma tbl_get_del_same k t : tbl_get k (tbl_del k t) = None.
Proof.
  induction t as [|[k' e'] r IH]; cbn [tbl_del tbl_get]; [reflexivity|].
  destruct (id_eqb k k') eqn:E; [exact IH|]. cbn [tbl_get]. rewrite E. exact IH.
Qed.

Lemma tbl_get_del_other k k' t : k' <> k -> tbl_get k' (tbl_del k t) = tbl_get k' t.
Proof.
  intros Hne. induction t as [|[k2 e2] r IH]; cbn [tbl_del tbl_get]; [reflexivity|].
  destruct (id_eqb k k2) eqn:E.
  - apply id_eqb_eq in E. subst k2. apply id_eqb_neq in Hne. rewrite Hne. exact IH.
  - cbn [tbl_get]. rewrite IH. reflexivity.
Qed.

(** [recv_fragment] touches exactly the slot of the fragment's own identity. *)

Lemma recv_get_same t f :
  tbl_get (f_id f) (fst (recv_fragment t f)) = fst (entry_step (tbl_get (f_id f) t) f).
Proof.
  unfold recv_fragment. destruct (entry_step (tbl_get (f_id f) t) f) as [[e|] out]; cbn [fst].
  - apply tbl_get_set_same.
  - apply tbl_get_del_same.
Qed.

Lemma recv_get_other t f k :
  k <> f_id f -> tbl_get k (fst (recv_fragment t f)) = tbl_get k t.
Proof.
  intros Hne. unfold recv_fragment.
  destruct (entry_step (tbl_get (f_id f) t) f) as [[e|] out]; cbn [fst].
  - apply tbl_get_set_other. exact Hne.
  - apply tbl_get_del_other. exact Hne.
Qed.

Lemma recv_out t f :
  snd (recv_fragment t f) = snd (entry_step (tbl_get (f_id f) t) f).
Proof.
  unfold recv_fragment. destruct (entry_step (tbl_get (f_id f) t) f) as [[e|] out]; reflexivity.
Qed.

Lemma entry_step_deliver_id slot f d :
  snd (entry_step slot f) = ODeliver d -> d_id d = f_id f.
Proof.
  unfold entry_step.
  destruct (Ivl.eqb _ _); cbn [snd]; [|discriminate].
  destruct (if f_off f =? 0 then _ else _); [|discriminate].
  intros H. inversion H. reflexivity.
Qed.

(** * The seen set *)

Lemma sid_eqb_eq a b : sid_eqb a b = true <-> a = b.
Proof.
  destruct a as [ka oa], b as [kb ob]. unfold sid_eqb. cbn [fst snd]. split.
  - intros H. apply andb_prop in H. destruct H as [Hk Ho]. apply id_eqb_eq in Hk. subst kb.
    destruct oa as [[o1 t1]|], ob as [[o2 t2]|]; try discriminate; [|reflexivity].
    apply andb_prop in Ho. destruct Ho as [H1 H2]. apply N.eqb_eq in H1, H2. subst. reflexivity.
  - intros H. inversion H. subst. rewrite id_eqb_refl.
    destruct ob as [[o2 t2]|]; [|reflexivity]. rewrite !N.eqb_refl. reflexivity.
Qed.

Lemma sid_eqb_id a b : sid_eqb a b = true -> fst a = fst b.
Proof. intros H. apply sid_eqb_eq in H. subst. reflexivity. Qed.

Lemma in_seen_cons s x l : in_seen s (x :: l) = sid_eqb s x || in_seen s l.
Proof. reflexivity. Qed.

Lemma in_seen_cons_other s x l : fst s <> fst x -> in_seen s (x :: l) = in_seen s l.
Proof.
  intros Hne. rewrite in_seen_cons. destruct (sid_eqb s x) eqn:E; [|reflexivity].
  apply sid_eqb_id in E. contradiction.
Qed.

Lemma in_seen_whole_frag k f l :
  in_seen (whole_sid k) (frag_sid f :: l) = in_seen (whole_sid k) l.
Proof.
  rewrite in_seen_cons. unfold sid_eqb, whole_sid, frag_sid. cbn [fst snd].
  rewrite andb_false_r. reflexivity.
Qed.

(** * Deliveries of a history *)

Lemma deliveries_nil st : deliveries st [] = [].
Proof. reflexivity. Qed.

Lemma deliveries_cons st f r :
  deliveries st (f :: r) = snd (agent_recv st f) ++ deliveries (fst (agent_recv st f)) r.
Proof.
  unfold deliveries. cbn [run]. destruct (agent_recv st f) as [st1 ds]. cbn [fst snd].
  destruct (run st1 r) as [st2 dss]. reflexivity.
Qed.

Lemma run_cons_state st f r :
  fst (run st (f :: r)) = fst (run (fst (agent_recv st f)) r).
Proof.
  cbn [run]. destruct (agent_recv st f) as [st1 ds]. cbn [fst snd].
  destruct (run st1 r) as [st2 dss]. reflexivity.
Qed.

Lemma deliv_for_nil k : deliv_for k [] = [].
Proof. reflexivity. Qed.

Lemma deliv_for_app k a b : deliv_for k (a ++ b) = deliv_for k a ++ deliv_for k b.
Proof. apply filter_app. Qed.

(** What one [agent_recv] does, by cases. *)
Lemma agent_recv_cases st f :
  (in_seen (frag_sid f) (st_seen st) = true /\ agent_recv st f = (st, []))
  \/ (in_seen (frag_sid f) (st_seen st) = false /\
      let t1 := fst (recv_fragment (st_tbl st) f) in
      let seen1 := frag_sid f :: st_seen st in
      match snd (recv_fragment (st_tbl st) f) with
      | ODeliver d =>
          d_id d = f_id f /\
          ((in_seen (whole_sid (f_id f)) (st_seen st) = true /\ agent_recv st f = (mkState t1 seen1, []))
           \/ (in_seen (whole_sid (f_id f)) (st_seen st) = false /\
               agent_recv st f = (mkState t1 (whole_sid (f_id f) :: seen1), [d])))
      | _ => agent_recv st f = (mkState t1 seen1, [])
      end).
Proof.
  unfold agent_recv. destruct (in_seen (frag_sid f) (st_seen st)) eqn:S; [left; auto|right].
  split; [reflexivity|]. cbn zeta.
  destruct (recv_fragment (st_tbl st) f) as [t1 out] eqn:R. cbn [fst snd].
  destruct out as [|d|]; try reflexivity.
  assert (Hid : d_id d = f_id f).
  { apply (entry_step_deliver_id (tbl_get (f_id f) (st_tbl st)) f). rewrite <- recv_out, R. reflexivity. }
  split; [exact Hid|]. rewrite Hid, in_seen_whole_frag.
  destruct (in_seen (whole_sid (f_id f)) (st_seen st)); [left|right]; split; reflexivity.
Qed.

(** * Fragments of different bundles never mix *)

(** Two agent states agree on everything that concerns identity [k]: its table slot
    and which of its identities (whole or fragment) have been seen. *)
Definition agree (k : ident3) (a b : state) : Prop :=
  tbl_get k (st_tbl a) = tbl_get k (st_tbl b) /\
  forall o, in_seen (k, o) (st_seen a) = in_seen (k, o) (st_seen b).

Lemma agree_refl k a : agree k a a.
Proof. split; reflexivity. Qed.

Lemma agree_trans k a b c : agree k a b -> agree k b c -> agree k a c.
Proof.
  intros [H1 H2] [H3 H4]. split; [congruence|]. intros o. rewrite H2. apply H4.
Qed.

Lemma seen_cons_agree k x la lb :
  (forall o, in_seen (k, o) la = in_seen (k, o) lb) ->
  forall o, in_seen (k, o) (x :: la) = in_seen (k, o) (x :: lb).
Proof. intros H o. rewrite !in_seen_cons, H. reflexivity. Qed.

(** Frame: a fragment of another identity leaves [k]'s slot and seen-identities alone
    and delivers nothing for [k]; whatever it delivers carries its own identity. *)
Lemma step_other k st f :
  f_id f <> k ->
  agree k (fst (agent_recv st f)) st /\
  deliv_for k (snd (agent_recv st f)) = [] /\
  (forall d, In d (snd (agent_recv st f)) -> d_id d = f_id f).
Proof.
  intros Hne.
  assert (Hs : forall o l, in_seen (k, o) (frag_sid f :: l) = in_seen (k, o) l).
  { intros o l. apply in_seen_cons_other. cbn [fst frag_sid]. congruence. }
  assert (Hw : forall o l, in_seen (k, o) (whole_sid (f_id f) :: l) = in_seen (k, o) l).
  { intros o l. apply in_seen_cons_other. cbn [fst whole_sid]. congruence. }
  assert (Ht : tbl_get k (fst (recv_fragment (st_tbl st) f)) = tbl_get k (st_tbl st)).
  { apply recv_get_other. congruence. }
  destruct (agent_recv_cases st f) as [[S E]|[S H]].
  - rewrite E. cbn [fst snd]. split; [apply agree_refl|]. split; [reflexivity|intros d []].
  - cbn zeta in H. destruct (snd (recv_fragment (st_tbl st) f)) as [|d|] eqn:O.
    + rewrite H. cbn [fst snd]. split; [|split; [reflexivity|intros d []]].
      split; cbn [st_tbl st_seen]; [exact Ht|]. intros o. apply Hs.
    + destruct H as [Hid [[W E]|[W E]]]; rewrite E; cbn [fst snd].
      * split; [|split; [reflexivity|intros d' []]].
        split; cbn [st_tbl st_seen]; [exact Ht|]. intros o. apply Hs.
      * split; [|split].
        -- split; cbn [st_tbl st_seen]; [exact Ht|]. intros o. rewrite Hw. apply Hs.
        -- unfold deliv_for. cbn [filter]. rewrite Hid.
           assert (X : id_eqb (f_id f) k = false) by (apply id_eqb_neq; exact Hne).
           rewrite X. reflexivity.
        -- intros d' [<-|[]]. exact Hid.
    + rewrite H. cbn [fst snd]. split; [|split; [reflexivity|intros d []]].
      split; cbn [st_tbl st_seen]; [exact Ht|]. intros o. apply Hs.
Qed.

(** What a fragment of [k] does depends only on the [k]-part of the state. *)
Lemma step_same k a b f :
  agree k a b -> f_id f = k ->
  agree k (fst (agent_recv a f)) (fst (agent_recv b f)) /\
  snd (agent_recv a f) = snd (agent_recv b f).
Proof.
  intros [Ht Hs] Hk. unfold agent_recv.
  assert (S : in_seen (frag_sid f) (st_seen a) = in_seen (frag_sid f) (st_seen b)).
  { unfold frag_sid. rewrite Hk. apply Hs. }
  rewrite <- S. destruct (in_seen (frag_sid f) (st_seen a)); cbn [fst snd].
  { split; [split; assumption|reflexivity]. }
  unfold recv_fragment. rewrite Hk, <- Ht.
  destruct (entry_step (tbl_get k (st_tbl a)) f) as [slot out] eqn:ES.
  assert (Hslot : tbl_get k (match slot with Some e => tbl_set k e (st_tbl a) | None => tbl_del k (st_tbl a) end)
                  = tbl_get k (match slot with Some e => tbl_set k e (st_tbl b) | None => tbl_del k (st_tbl b) end)).
  { destruct slot; [rewrite !tbl_get_set_same|rewrite !tbl_get_del_same]; reflexivity. }
  assert (Hs1 := seen_cons_agree k (frag_sid f) _ _ Hs).
  destruct out as [|d|]; cbn [fst snd].
  - split; [split; cbn [st_tbl st_seen]; assumption|reflexivity].
  - assert (Hid : d_id d = k).
    { rewrite <- Hk. apply (entry_step_deliver_id (tbl_get k (st_tbl a)) f). rewrite ES. reflexivity. }
    rewrite Hid.
    assert (W : in_seen (whole_sid k) (frag_sid f :: st_seen b)
                = in_seen (whole_sid k) (frag_sid f :: st_seen a)) by (symmetry; apply (Hs1 None)).
    rewrite W. destruct (in_seen (whole_sid k) (frag_sid f :: st_seen a)); cbn [fst snd].
    + split; [split; cbn [st_tbl st_seen]; assumption|reflexivity].
    + split; [|reflexivity]. split; cbn [st_tbl st_seen]; [assumption|].
      apply seen_cons_agree. exact Hs1.
  - split; [split; cbn [st_tbl st_seen]; assumption|reflexivity].
Qed.

Definition is_id (k : ident3) (f : frag) : bool := id_eqb (f_id f) k.

(** Removing every fragment of other identities from a history changes neither what is
    delivered for [k] nor [k]'s final table slot. *)
Lemma no_mixing_gen k h : forall a b,
  agree k a b ->
  deliv_for k (deliveries a h) = deliv_for k (deliveries b (filter (is_id k) h)) /\
  agree k (fst (run a h)) (fst (run b (filter (is_id k) h))).
Proof.
  induction h as [|f r IH]; intros a b Hab.
  - cbn [filter]. rewrite !deliveries_nil. split; [reflexivity|exact Hab].
  - cbn [filter]. destruct (is_id k f) eqn:E; unfold is_id in E.
    + apply id_eqb_eq in E. destruct (step_same k a b f Hab E) as [Hag Hds].
      rewrite !deliveries_cons, !run_cons_state, !deliv_for_app, Hds.
      destruct (IH _ _ Hag) as [H1 H2]. rewrite H1. split; [reflexivity|exact H2].
    + apply id_eqb_neq in E. destruct (step_other k a f E) as [Hag [Hds _]].
      rewrite deliveries_cons, run_cons_state, deliv_for_app, Hds. cbn [app].
      apply IH. eapply agree_trans; [exact Hag|exact Hab].
Qed.

Theorem no_mixing_trace k h :
  deliv_for k (deliveries init h) = deliv_for k (deliveries init (filter (is_id k) h)) /\
  tbl_get k (st_tbl (fst (run init h))) = tbl_get k (st_tbl (fst (run init (filter (is_id k) h)))).
Proof.
  destruct (no_mixing_gen k h init init (agree_refl k init)) as [H1 [H2 _]]. split; assumption.
Qed.

(** * Nothing is delivered while an octet is missing *)

Lemma entry_step_incomplete slot f T x :
  (forall e, slot = Some e -> e_total e = T /\ mem x (e_valid e) = false) ->
  f_total f = T -> ~ carries f x -> x < T ->
  exists e', entry_step slot f = (Some e', ONone) /\ e_total e' = T /\ mem x (e_valid e') = false.
Proof.
  intros Hslot Ht Hc Hx. unfold entry_step.
  set (e0 := match slot with Some e => e | None => fresh_entry (f_total f) end).
  assert (H0 : e_total e0 = T /\ mem x (e_valid e0) = false).
  { subst e0. destruct slot as [e|]; [apply Hslot; reflexivity|]. cbn. split; [exact Ht|reflexivity]. }
  destruct H0 as [H0t H0m].
  assert (Hm : mem x (Ivl.add (f_off f) (f_end f) (e_valid e0)) = false).
  { rewrite mem_add_any, H0m. unfold carries in Hc. cbn [orb]. lia. }
  rewrite H0t. rewrite (incomplete_neq _ T x Hx Hm).
  eexists. split; [reflexivity|]. cbn [e_total e_valid]. split; [reflexivity|exact Hm].
Qed.

Lemma no_early_gen k T x h : forall st,
  x < T ->
  (forall e, tbl_get k (st_tbl st) = Some e -> e_total e = T /\ mem x (e_valid e) = false) ->
  (forall f, In f h -> f_id f = k -> f_total f = T /\ ~ carries f x) ->
  deliv_for k (deliveries st h) = [].
Proof.
  induction h as [|f r IH]; intros st Hx Hinv Hh; [reflexivity|].
  rewrite deliveries_cons, deliv_for_app.
  assert (Hr : forall g, In g r -> f_id g = k -> f_total g = T /\ ~ carries g x).
  { intros g Hg. apply Hh. right. exact Hg. }
  destruct (id_eqb (f_id f) k) eqn:E.
  - apply id_eqb_eq in E. destruct (Hh f (or_introl eq_refl) E) as [Ht Hc].
    destruct (agent_recv_cases st f) as [[S Eq]|[S H]].
    + rewrite Eq. cbn [fst snd app]. apply IH; assumption.
    + cbn zeta in H.
      destruct (entry_step_incomplete (tbl_get k (st_tbl st)) f T x Hinv Ht Hc Hx) as (e' & Hes & He1 & He2).
      assert (Ho : snd (recv_fragment (st_tbl st) f) = ONone) by (rewrite recv_out, E, Hes; reflexivity).
      rewrite Ho in H. rewrite H. cbn [fst snd app]. apply IH; [exact Hx| |exact Hr].
      cbn [st_tbl]. intros e He. rewrite <- E, recv_get_same, E, Hes in He. cbn [fst] in He.
      inversion He. subst e. split; assumption.
  - apply id_eqb_neq in E. destruct (step_other k st f E) as [[Hag _] [Hds _]].
    rewrite Hds. cbn [app]. apply IH; [exact Hx| |exact Hr].
    intros e He. rewrite Hag in He. apply Hinv. exact He.
Qed.

Theorem no_early k T x h :
  x < T ->
  (forall f, In f h -> f_id f = k -> f_total f = T /\ ~ carries f x) ->
  deliv_for k (deliveries init h) = [].
Proof.
  intros Hx Hh. apply (no_early_gen k T x h init Hx); [|exact Hh].
  cbn. intros e He. discriminate.
Qed.

(** * The buffer *)

Lemma nth_firstn_lt {A} (d : A) : forall n i (l : list A), (i < n)%nat -> nth i (firstn n l) d = nth i l d.
Proof.
  induction n as [|n IH]; intros i l Hi; [lia|].
  destruct l as [|a l]; [destruct i; reflexivity|]. destruct i as [|i]; [reflexivity|].
  cbn [firstn nth]. apply IH. lia.
Qed.

Lemma nth_skipn_add {A} (d : A) : forall n i (l : list A), nth i (skipn n l) d = nth (n + i) l d.
Proof.
  induction n as [|n IH]; intros i l; [reflexivity|].
  destruct l as [|a l]; [destruct i; reflexivity|]. cbn [skipn Nat.add nth]. apply IH.
Qed.

Lemma splice_length buf lo hi data :
  hi = lo + blen data -> hi <= blen buf -> length (splice buf lo hi data) = length buf.
Proof.
  unfold splice, blen. intros H1 H2. rewrite !app_length, firstn_length, skipn_length. lia.
Qed.

Lemma splice_nth_in buf lo hi data i :
  hi = lo + blen data -> hi <= blen buf -> (N.to_nat lo <= i < N.to_nat hi)%nat ->
  nth i (splice buf lo hi data) 0 = nth (i - N.to_nat lo) data 0.
Proof.
  unfold splice, blen. intros H1 H2 Hi.
  assert (L : length (firstn (N.to_nat lo) buf) = N.to_nat lo) by (rewrite firstn_length; lia).
  rewrite app_nth2 by lia. rewrite L. apply app_nth1. lia.
Qed.

Lemma splice_nth_out buf lo hi data i :
  hi = lo + blen data -> hi <= blen buf -> (i < N.to_nat lo \/ N.to_nat hi <= i)%nat ->
  nth i (splice buf lo hi data) 0 = nth i buf 0.
Proof.
  unfold splice, blen. intros H1 H2 Hi.
  assert (L : length (firstn (N.to_nat lo) buf) = N.to_nat lo) by (rewrite firstn_length; lia).
  destruct Hi as [Hi|Hi].
  - rewrite app_nth1 by lia. apply nth_firstn_lt. exact Hi.
  - rewrite app_nth2 by lia. rewrite app_nth2 by lia. rewrite nth_skipn_add, L. f_equal. lia.
Qed.

Lemma frag_data_nth k p f i :
  frag_of k p f -> (i < length (f_data f))%nat ->
  nth i (f_data f) 0 = nth (N.to_nat (f_off f) + i) p 0.
Proof.
  intros (_ & _ & _ & Hd) Hi. set (n := length (f_data f)) in *.
  rewrite Hd. rewrite nth_firstn_lt by exact Hi. apply nth_skipn_add.
Qed.

(** The table slot of a bundle with payload [p]: right size, and the buffer agrees
    with [p] on every offset marked valid. *)
Definition entry_ok (p : bytes) (e : entry) : Prop :=
  e_total e = blen p /\ length (e_buf e) = length p /\ norm (e_valid e) /\
  forall x, mem x (e_valid e) = true ->
            x < blen p /\ nth (N.to_nat x) (e_buf e) 0 = nth (N.to_nat x) p 0.

Lemma fresh_ok p : entry_ok p (fresh_entry (blen p)).
Proof.
  unfold entry_ok, fresh_entry, zeros, blen. cbn [e_total e_buf e_valid].
  split; [reflexivity|]. split; [rewrite repeat_length; lia|]. split; [exact I|].
  intros x Hx. discriminate.
Qed.

Lemma step_ok k p e0 f first :
  entry_ok p e0 -> frag_of k p f ->
  entry_ok p (mkEntry (e_total e0) (Ivl.add (f_off f) (f_end f) (e_valid e0))
                      (splice (e_buf e0) (f_off f) (f_end f) (f_data f)) first).
Proof.
  intros (Ht & Hl & Hn & Hb) Hf. pose proof Hf as (Hid & Hft & Hend & Hd).
  assert (E1 : f_end f = f_off f + blen (f_data f)) by reflexivity.
  assert (E2 : f_end f <= blen (e_buf e0)) by (unfold blen in *; lia).
  unfold entry_ok. cbn [e_total e_buf e_valid].
  split; [exact Ht|]. split; [rewrite splice_length by assumption; exact Hl|].
  split; [apply add_norm; exact Hn|].
  intros x Hx. rewrite mem_add_any in Hx.
  destruct ((f_off f <=? x) && (x <? f_end f)) eqn:C.
  - split; [lia|]. rewrite splice_nth_in by (try assumption; lia).
    rewrite (frag_data_nth k p f) by (try assumption; unfold f_end, blen in *; lia).
    f_equal. lia.
  - rewrite orb_false_r in Hx. destruct (Hb x Hx) as [Hlt Hnth]. split; [exact Hlt|].
    rewrite splice_nth_out by (try assumption; lia). exact Hnth.
Qed.

Lemma complete_buf p e :
  entry_ok p e -> Ivl.eqb (e_valid e) (Ivl.full (e_total e)) = true -> e_buf e = p.
Proof.
  intros (Ht & Hl & Hn & Hb) Hc. rewrite Ht in Hc.
  pose proof (proj1 (complete_iff _ _ Hn) Hc) as Hall.
  apply (nth_ext _ _ 0 0 Hl). intros n Hlt.
  assert (Hm : mem (N.of_nat n) (e_valid e) = true) by (rewrite Hall; unfold blen; lia).
  destruct (Hb _ Hm) as [_ Hnth]. rewrite Nat2N.id in Hnth. exact Hnth.
Qed.

(** * Safety: at most one delivery, with the right payload and a first fragment's blocks *)

Section Safety.
Variable k : ident3.
Variable p : bytes.
Variable H : list frag.      (* the whole arrival history *)

Definition first_ok (e : entry) : Prop :=
  forall ff, e_first e = Some ff -> In ff H /\ f_id ff = k /\ f_off ff = 0.

Definition slot_ok (slot : option entry) : Prop :=
  forall e, slot = Some e -> entry_ok p e /\ first_ok e.

Definition good_delivery (d : delivered) : Prop :=
  exists f0, In f0 H /\ f_id f0 = k /\ f_off f0 = 0 /\ d = mkDelivered k p (f_blocks f0).

Lemma entry_step_safe slot f :
  slot_ok slot -> frag_of k p f -> In f H ->
  match entry_step slot f with
  | (Some e', ONone) => entry_ok p e' /\ first_ok e'
  | (None, ODeliver d) => good_delivery d
  | (None, OError) => True
  | _ => False
  end.
Proof.
  intros Hs Hf Hin. unfold entry_step.
  set (e0 := match slot with Some e => e | None => fresh_entry (f_total f) end).
  assert (H0 : entry_ok p e0 /\ first_ok e0).
  { subst e0. destruct slot as [e|]; [apply Hs; reflexivity|].
    destruct Hf as (_ & Ht & _). rewrite Ht. split; [apply fresh_ok|]. intros ff X. discriminate. }
  destruct H0 as [Hok Hfirst].
  set (first := if f_off f =? 0 then Some f else e_first e0).
  assert (Hf1 : forall ff, first = Some ff -> In ff H /\ f_id ff = k /\ f_off ff = 0).
  { subst first. destruct (f_off f =? 0) eqn:E0.
    - intros ff X. inversion X. subst ff. destruct Hf as (Hid & _). repeat split; [exact Hin|exact Hid|lia].
    - exact Hfirst. }
  pose proof (step_ok k p e0 f first Hok Hf) as Hok'.
  destruct (Ivl.eqb _ _) eqn:C.
  - destruct first as [ff|] eqn:EF; [|exact I].
    destruct (Hf1 ff eq_refl) as (Hi1 & Hi2 & Hi3). exists ff. repeat split; try assumption.
    destruct Hf as (Hid & _). rewrite Hid. f_equal.
    apply (complete_buf p _ Hok'). cbn [e_valid e_total]. exact C.
  - split; [exact Hok'|]. exact Hf1.
Qed.

Lemma safety_gen h : forall st,
  incl h H ->
  slot_ok (tbl_get k (st_tbl st)) ->
  (forall f, In f h -> f_id f = k -> frag_of k p f) ->
  (in_seen (whole_sid k) (st_seen st) = true -> deliv_for k (deliveries st h) = []) /\
  (deliv_for k (deliveries st h) = [] \/
   exists d, good_delivery d /\ deliv_for k (deliveries st h) = [d]).
Proof.
  induction h as [|f r IH]; intros st Hincl Hslot Hh.
  { rewrite deliveries_nil. split; [reflexivity|left; reflexivity]. }
  assert (Hincl' : incl r H) by (intros g Hg; apply Hincl; right; exact Hg).
  assert (Hr : forall g, In g r -> f_id g = k -> frag_of k p g) by (intros g Hg; apply Hh; right; exact Hg).
  rewrite deliveries_cons, deliv_for_app.
  destruct (id_eqb (f_id f) k) eqn:E.
  - apply id_eqb_eq in E. pose proof (Hh f (or_introl eq_refl) E) as Hf.
    assert (Hin : In f H) by (apply Hincl; left; reflexivity).
    destruct (agent_recv_cases st f) as [[S Eq]|[S HC]].
    { rewrite Eq. cbn [fst snd]. rewrite deliv_for_nil. cbn [app]. apply IH; assumption. }
    cbn zeta in HC.
    pose proof (entry_step_safe (tbl_get k (st_tbl st)) f Hslot Hf Hin) as Hes.
    pose proof (recv_get_same (st_tbl st) f) as Hg. pose proof (recv_out (st_tbl st) f) as Ho.
    rewrite E in Hg, Ho, HC.
    destruct (entry_step (tbl_get k (st_tbl st)) f) as [slot' out] eqn:ES. cbn [fst snd] in Hg, Ho.
    rewrite Ho in HC.
    assert (Hslot' : slot_ok slot').
    { destruct slot' as [e'|]; [|intros e X; discriminate].
      destruct out; try contradiction. intros e X. inversion X. subst e. exact Hes. }
    assert (X := IH (mkState (fst (recv_fragment (st_tbl st) f)) (frag_sid f :: st_seen st)) Hincl').
    cbn [st_tbl st_seen] in X. rewrite Hg in X. specialize (X Hslot' Hr).
    rewrite in_seen_whole_frag in X.
    destruct out as [|d|].
    + rewrite HC. cbn [fst snd]. rewrite deliv_for_nil. cbn [app]. exact X.
    + destruct slot' as [e'|]; [contradiction|].
      destruct HC as [Hid [[W Eq]|[W Eq]]]; rewrite Eq; cbn [fst snd].
      * rewrite deliv_for_nil. cbn [app]. exact X.
      * assert (Hrest : deliv_for k (deliveries
                  {| st_tbl := fst (recv_fragment (st_tbl st) f);
                     st_seen := whole_sid k :: frag_sid f :: st_seen st |} r) = []).
        { apply IH; cbn [st_tbl st_seen]; [assumption|rewrite Hg; exact Hslot'|assumption|].
          rewrite in_seen_cons. rewrite (proj2 (sid_eqb_eq _ _) eq_refl). reflexivity. }
        rewrite Hrest. unfold deliv_for. cbn [filter].
        rewrite Hid, id_eqb_refl. cbn [app]. split.
        -- intros Y. congruence.
        -- right. exists d. split; [exact Hes|reflexivity].
    + rewrite HC. cbn [fst snd]. rewrite deliv_for_nil. cbn [app]. exact X.
  - apply id_eqb_neq in E. destruct (step_other k st f E) as [[Hag Hsn] [Hds _]].
    rewrite Hds. cbn [app].
    assert (X := IH (fst (agent_recv st f)) Hincl').
    rewrite Hag in X. specialize (X Hslot Hr).
    unfold whole_sid in *. rewrite Hsn in X. exact X.
Qed.

End Safety.

(** The [k]-slot stays well-formed along any history of consistent fragments. *)
Lemma slot_ok_run k p H h : forall st,
  incl h H ->
  slot_ok k p H (tbl_get k (st_tbl st)) ->
  (forall f, In f h -> f_id f = k -> frag_of k p f) ->
  slot_ok k p H (tbl_get k (st_tbl (fst (run st h)))).
Proof.
  induction h as [|f r IH]; intros st Hincl Hslot Hh; [exact Hslot|].
  assert (Hincl' : incl r H) by (intros g Hg; apply Hincl; right; exact Hg).
  assert (Hr : forall g, In g r -> f_id g = k -> frag_of k p g) by (intros g Hg; apply Hh; right; exact Hg).
  rewrite run_cons_state. apply IH; [exact Hincl'| |exact Hr].
  destruct (id_eqb (f_id f) k) eqn:E.
  - apply id_eqb_eq in E. pose proof (Hh f (or_introl eq_refl) E) as Hf.
    assert (Hin : In f H) by (apply Hincl; left; reflexivity).
    pose proof (entry_step_safe k p H (tbl_get k (st_tbl st)) f Hslot Hf Hin) as Hes.
    pose proof (recv_get_same (st_tbl st) f) as Hg. rewrite E in Hg.
    assert (Hslot' : slot_ok k p H (tbl_get k (fst (recv_fragment (st_tbl st) f)))).
    { rewrite Hg. destruct (entry_step (tbl_get k (st_tbl st)) f) as [[e'|] out]; cbn [fst].
      - destruct out; try contradiction. intros e X. inversion X. subst e. exact Hes.
      - intros e X. discriminate. }
    destruct (agent_recv_cases st f) as [[S Eq]|[S HC]]; [rewrite Eq; exact Hslot|].
    cbn zeta in HC. destruct (snd (recv_fragment (st_tbl st) f)) as [|d|].
    + rewrite HC. exact Hslot'.
    + destruct HC as [_ [[_ Eq]|[_ Eq]]]; rewrite Eq; exact Hslot'.
    + rewrite HC. exact Hslot'.
  - apply id_eqb_neq in E. destruct (step_other k st f E) as [[Hag _] _]. rewrite Hag. exact Hslot.
Qed.

(** * Liveness: a cover with pairwise distinct offsets is delivered *)

Section Liveness.
Variable k : ident3.
Variable p : bytes.
Variable fs : list frag.
Variable f0 : frag.
Hypothesis Hfs : forall f, In f fs -> frag_of k p f.
Hypothesis Hcov : covers fs p.
Hypothesis Hf0 : In f0 fs /\ f_off f0 = 0.
Hypothesis Hdist : forall f g, In f fs -> In g fs -> f_off f = f_off g -> f = g.

Definition ksid (f : frag) : sid := (k, Some (f_off f, f_total f)).

Lemma ksid_frag f : In f fs -> frag_sid f = ksid f.
Proof. intros Hf. destruct (Hfs f Hf) as (Hid & _). unfold frag_sid, ksid. rewrite Hid. reflexivity. Qed.

Lemma seen1_iff f g seen :
  In f fs -> In g fs ->
  (in_seen (ksid g) (frag_sid f :: seen) = true <-> g = f \/ in_seen (ksid g) seen = true).
Proof.
  intros Hf Hg. rewrite in_seen_cons, orb_true_iff. split; (intros [X|X]; [left|right; exact X]).
  - apply sid_eqb_eq in X. rewrite (ksid_frag f Hf) in X. unfold ksid in X. inversion X.
    apply Hdist; assumption.
  - subst g. rewrite (ksid_frag f Hf). apply sid_eqb_eq. reflexivity.
Qed.

Definition live_entry (seen : list sid) (e : entry) : Prop :=
  e_total e = blen p /\ norm (e_valid e) /\
  (forall x, mem x (e_valid e) = true <->
             exists f, In f fs /\ in_seen (ksid f) seen = true /\ carries f x) /\
  (in_seen (ksid f0) seen = true -> e_first e <> None).

Definition live_inv (st : state) : Prop :=
  match tbl_get k (st_tbl st) with
  | None => forall f, In f fs -> in_seen (ksid f) (st_seen st) = false
  | Some e => live_entry (st_seen st) e /\ Ivl.eqb (e_valid e) (Ivl.full (blen p)) = false
  end.

Lemma live_inv_agree a b : agree k a b -> live_inv b -> live_inv a.
Proof.
  intros [Ht Hs]. unfold live_inv, live_entry, ksid. rewrite Ht.
  destruct (tbl_get k (st_tbl b)) as [e|].
  - intros [(H1 & H2 & H3 & H4) H5]. split; [|exact H5]. repeat split; try assumption.
    + intros Hm. apply H3 in Hm. destruct Hm as (f & A & B & C). exists f. rewrite Hs. auto.
    + intros (f & A & B & C). apply H3. exists f. rewrite <- Hs. auto.
    + rewrite Hs. exact H4.
  - intros Hn f Hf. rewrite Hs. apply Hn. exact Hf.
Qed.

Lemma e0_live st :
  live_inv st ->
  live_entry (st_seen st)
    (match tbl_get k (st_tbl st) with Some e => e | None => fresh_entry (blen p) end).
Proof.
  unfold live_inv. destruct (tbl_get k (st_tbl st)) as [e|]; [intros [X _]; exact X|].
  intros Hn. unfold live_entry, fresh_entry. cbn [e_total e_valid e_first].
  split; [reflexivity|]. split; [exact I|]. split.
  - intros x. split; [discriminate|]. intros (f & A & B & _). rewrite (Hn f A) in B. discriminate.
  - intros X. rewrite (Hn f0 (proj1 Hf0)) in X. discriminate.
Qed.

Lemma step_live_entry seen e0 f buf :
  live_entry seen e0 -> In f fs ->
  live_entry (frag_sid f :: seen)
    (mkEntry (e_total e0) (Ivl.add (f_off f) (f_end f) (e_valid e0)) buf
             (if f_off f =? 0 then Some f else e_first e0)).
Proof.
  intros (H1 & H2 & H3 & H4) Hf. unfold live_entry. cbn [e_total e_valid e_first].
  split; [exact H1|]. split; [apply add_norm; exact H2|]. split.
  - intros x. rewrite mem_add_any, orb_true_iff. split.
    + intros [Hm|Hc].
      * apply H3 in Hm. destruct Hm as (g & A & B & C). exists g. split; [exact A|]. split; [|exact C].
        apply (seen1_iff f g seen Hf A). right. exact B.
      * exists f. split; [exact Hf|]. split; [apply (seen1_iff f f seen Hf Hf); left; reflexivity|].
        unfold carries. lia.
    + intros (g & A & B & C). apply (seen1_iff f g seen Hf A) in B. destruct B as [->|B].
      * right. unfold carries in C. lia.
      * left. apply H3. exists g. auto.
  - intros X. destruct (f_off f =? 0) eqn:E0; [discriminate|].
    apply (seen1_iff f f0 seen Hf (proj1 Hf0)) in X. destruct X as [X|X].
    + subst f. destruct Hf0 as [_ Z]. lia.
    + apply H4. exact X.
Qed.

(** When the slot becomes complete the first fragment is there. *)
Lemma complete_first seen e f :
  live_entry seen e -> In f fs -> in_seen (ksid f) seen = true ->
  Ivl.eqb (e_valid e) (Ivl.full (blen p)) = true -> e_first e <> None.
Proof.
  intros (H1 & H2 & H3 & H4) Hf Hseen Hc. apply H4.
  assert (Hz : exists g, In g fs /\ in_seen (ksid g) seen = true /\ f_off g = 0).
  { destruct (N.eq_dec (blen p) 0) as [Z|Z].
    - exists f. destruct (Hfs f Hf) as (_ & _ & He & _). unfold f_end in He.
      repeat split; try assumption. lia.
    - pose proof (proj1 (complete_iff _ _ H2) Hc 0) as Hm.
      assert (Hm' : mem 0 (e_valid e) = true) by (rewrite Hm; lia).
      apply H3 in Hm'. destruct Hm' as (g & A & B & C). exists g. unfold carries in C.
      repeat split; try assumption. lia. }
  destruct Hz as (g & A & B & C).
  assert (g = f0) by (apply Hdist; [exact A|exact (proj1 Hf0)|destruct Hf0; lia]).
  subst g. exact B.
Qed.

Lemma all_seen_complete seen e :
  live_entry seen e -> (forall f, In f fs -> in_seen (ksid f) seen = true) ->
  Ivl.eqb (e_valid e) (Ivl.full (blen p)) = true.
Proof.
  intros (H1 & H2 & H3 & H4) Hall. apply complete_iff; [exact H2|]. intros x.
  destruct (x <? blen p) eqn:C.
  - apply H3. destruct (Hcov x) as (f & A & B); [lia|]. exists f. auto.
  - destruct (mem x (e_valid e)) eqn:M; [|reflexivity].
    apply H3 in M. destruct M as (f & A & _ & B). destruct (Hfs f A) as (_ & _ & He & _).
    unfold carries in B. lia.
Qed.

Lemma live_gen h : forall st,
  live_inv st ->
  in_seen (whole_sid k) (st_seen st) = false ->
  (forall f, In f h -> f_id f = k -> In f fs) ->
  (forall f, In f fs -> in_seen (ksid f) (st_seen st) = true \/ In f h) ->
  deliv_for k (deliveries st h) <> [].
Proof.
  induction h as [|f r IH]; intros st Hinv Hw Hh Hall.
  { exfalso.
    assert (Hall' : forall f, In f fs -> in_seen (ksid f) (st_seen st) = true).
    { intros f Hf. destruct (Hall f Hf) as [X|[]]. exact X. }
    unfold live_inv in Hinv. destruct (tbl_get k (st_tbl st)) as [e|].
    - destruct Hinv as [Hle Hnc]. rewrite (all_seen_complete _ e Hle Hall') in Hnc. discriminate.
    - specialize (Hall' f0 (proj1 Hf0)). rewrite (Hinv f0 (proj1 Hf0)) in Hall'. discriminate. }
  assert (Hr : forall g, In g r -> f_id g = k -> In g fs) by (intros g Hg; apply Hh; right; exact Hg).
  rewrite deliveries_cons, deliv_for_app.
  destruct (id_eqb (f_id f) k) eqn:E.
  - apply id_eqb_eq in E. assert (Hf : In f fs) by (apply Hh; [left; reflexivity|exact E]).
    destruct (agent_recv_cases st f) as [[S Eq]|[S HC]].
    { rewrite Eq. cbn [fst snd]. rewrite deliv_for_nil. cbn [app]. apply IH; try assumption.
      intros g Hg. destruct (Hall g Hg) as [X|[X|X]]; [left; exact X| |right; exact X].
      subst g. left. rewrite <- (ksid_frag f Hf). exact S. }
    cbn zeta in HC.
    pose proof (recv_get_same (st_tbl st) f) as Hg. pose proof (recv_out (st_tbl st) f) as Ho.
    rewrite E in Hg, Ho, HC.
    pose proof (e0_live st Hinv) as Hle0.
    assert (Htot : f_total f = blen p) by (destruct (Hfs f Hf) as (_ & X & _); exact X).
    unfold entry_step in Hg, Ho. rewrite Htot in Hg, Ho.
    set (e0 := match tbl_get k (st_tbl st) with Some e => e | None => fresh_entry (blen p) end) in *.
    pose proof (step_live_entry (st_seen st) e0 f
                  (splice (e_buf e0) (f_off f) (f_end f) (f_data f)) Hle0 Hf) as Hle1.
    assert (Ht0 : e_total e0 = blen p) by (destruct Hle0 as (X & _); exact X).
    rewrite Ht0 in Hg, Ho, Hle1.
    assert (Hseenf : in_seen (ksid f) (frag_sid f :: st_seen st) = true).
    { apply (seen1_iff f f _ Hf Hf). left. reflexivity. }
    destruct (Ivl.eqb (Ivl.add (f_off f) (f_end f) (e_valid e0)) (Ivl.full (blen p))) eqn:C.
    + (* complete: delivered now *)
      pose proof (complete_first _ _ f Hle1 Hf Hseenf C) as Hfirst. cbn [e_first] in Hfirst.
      cbn [snd] in Ho.
      destruct (if f_off f =? 0 then Some f else e_first e0) as [ff|]; [|contradiction].
      rewrite Ho in HC. destruct HC as [Hid [[W _]|[W Eq]]]; [congruence|].
      rewrite Eq. cbn [fst snd]. unfold deliv_for at 1. cbn [filter].
      rewrite Hid, id_eqb_refl. cbn [app]. discriminate.
    + (* still incomplete *)
      cbn [fst snd] in Hg, Ho. rewrite Ho in HC. rewrite HC. cbn [fst snd].
      rewrite deliv_for_nil. cbn [app]. apply IH; cbn [st_tbl st_seen].
      * unfold live_inv. cbn [st_tbl st_seen]. rewrite Hg. cbn [e_valid]. split; [exact Hle1|exact C].
      * rewrite in_seen_whole_frag. exact Hw.
      * exact Hr.
      * intros g Hgin. destruct (Hall g Hgin) as [X|[X|X]].
        -- left. apply (seen1_iff f g _ Hf Hgin). right. exact X.
        -- subst g. left. exact Hseenf.
        -- right. exact X.
  - apply id_eqb_neq in E. destruct (step_other k st f E) as [Hag [Hds _]].
    rewrite Hds. cbn [app]. apply IH.
    + apply (live_inv_agree _ st Hag Hinv).
    + destruct Hag as [_ Hs]. unfold whole_sid in *. rewrite Hs. exact Hw.
    + exact Hr.
    + intros g Hgin. destruct (Hall g Hgin) as [X|[X|X]].
      * left. destruct Hag as [_ Hs]. unfold ksid. rewrite Hs. exact X.
      * subst g. destruct (Hfs f Hgin) as (X & _). contradiction.
      * right. exact X.
Qed.

End Liveness.

(** * Closed statements used by Props/C06.v *)

Theorem safety k p h :
  (forall f, In f h -> f_id f = k -> frag_of k p f) ->
  deliv_for k (deliveries init h) = [] \/
  exists f0, In f0 h /\ f_id f0 = k /\ f_off f0 = 0 /\
             deliv_for k (deliveries init h) = [mkDelivered k p (f_blocks f0)].
Proof.
  intros Hh.
  destruct (safety_gen k p h h init (incl_refl h)) as [_ [X|X]]; try assumption.
  - cbn. intros e Y. discriminate.
  - left. exact X.
  - right. destruct X as (d & (g0 & A & B & C & D) & Hd). exists g0. subst d. auto.
Qed.

Theorem complete_once k p fs f0 h :
  (forall f, In f fs -> frag_of k p f) ->
  covers fs p ->
  In f0 fs -> f_off f0 = 0 ->
  (forall f g, In f fs -> In g fs -> f_off f = f_off g -> f = g) ->
  (forall f, In f h -> f_id f = k -> In f fs) ->
  (forall f, In f fs -> In f h) ->
  deliv_for k (deliveries init h) = [mkDelivered k p (f_blocks f0)].
Proof.
  intros Hfs Hcov Hin0 Hoff0 Hdist Hsub Hsup.
  assert (Hcons : forall f, In f h -> f_id f = k -> frag_of k p f).
  { intros f A B. apply Hfs. apply Hsub; assumption. }
  assert (Hlive : deliv_for k (deliveries init h) <> []).
  { apply (live_gen k p fs f0 Hfs Hcov (conj Hin0 Hoff0) Hdist h init).
    - unfold live_inv. cbn. intros f _. reflexivity.
    - reflexivity.
    - exact Hsub.
    - intros f Hf. right. apply Hsup. exact Hf. }
  destruct (safety k p h Hcons) as [X|(g0 & A & B & C & D)]; [contradiction|].
  assert (g0 = f0).
  { apply Hdist; [apply Hsub; assumption|exact Hin0|lia]. }
  subst g0. exact D.
Qed.

Theorem buffer_correct k p h e :
  (forall f, In f h -> f_id f = k -> frag_of k p f) ->
  tbl_get k (st_tbl (fst (run init h))) = Some e ->
  e_total e = blen p /\ length (e_buf e) = length p /\
  forall x, mem x (e_valid e) = true ->
            x < blen p /\ nth (N.to_nat x) (e_buf e) 0 = nth (N.to_nat x) p 0.
Proof.
  intros Hh He.
  assert (X : slot_ok k p h (tbl_get k (st_tbl (fst (run init h))))).
  { apply slot_ok_run; [apply incl_refl| |exact Hh]. cbn. intros e' Y. discriminate. }
  destruct (X e He) as [(A & B & _ & D) _]. auto.
Qed.

(** ** The witness against unrestricted overlapping fragment sets

    Payload of 10 octets; fragments A = [0,3), B = [0,5), C = [5,10).  A and B have the
    same (offset, total), hence the same identity in [recv_bundle]. *)
Definition w_k : ident3 := (1, 1000, 0).
Definition w_p : bytes := [1; 2; 3; 4; 5; 6; 7; 8; 9; 10].
Definition w_blocks : list blk := [(192, 2, [7])].
Definition w_A : frag := mkFrag w_k 0 10 [1; 2; 3] w_blocks.
Definition w_B : frag := mkFrag w_k 0 10 [1; 2; 3; 4; 5] w_blocks.
Definition w_C : frag := mkFrag w_k 5 10 [6; 7; 8; 9; 10] [].
Definition w_fs : list frag := [w_A; w_B; w_C].

Lemma w_frag_of : forall f, In f w_fs -> frag_of w_k w_p f.
Proof.
  intros f [<-|[<-|[<-|[]]]]; unfold frag_of; (split; [reflexivity|]); (split; [reflexivity|]);
    (split; [vm_compute; discriminate|reflexivity]).
Qed.

Lemma w_covers : covers w_fs w_p.
Proof.
  intros x Hx. change (blen w_p) with 10 in Hx. destruct (x <? 5) eqn:C.
  - exists w_B. split; [right; left; reflexivity|]. unfold carries. change (f_end w_B) with 5. cbn [f_off w_B]. lia.
  - exists w_C. split; [right; right; left; reflexivity|]. unfold carries. change (f_end w_C) with 10. cbn [f_off w_C]. lia.
Qed.

Theorem complete_once_refuted :
  exists k p fs f0 h h',
    (forall f, In f fs -> frag_of k p f) /\ covers fs p /\ In f0 fs /\ f_off f0 = 0 /\
    (forall f, In f h -> In f fs) /\ (forall f, In f fs -> In f h) /\
    (forall f, In f h' -> In f fs) /\ (forall f, In f fs -> In f h') /\
    deliv_for k (deliveries init h) = [] /\
    deliv_for k (deliveries init h') = [mkDelivered k p (f_blocks f0)].
Proof.
  exists w_k, w_p, w_fs, w_B, [w_A; w_B; w_C], [w_B; w_C; w_A].
  split; [exact w_frag_of|]. split; [exact w_covers|].
  split; [right; left; reflexivity|]. split; [reflexivity|].
  split; [intros f X; exact X|]. split; [intros f X; exact X|].
  split; [intros f [<-|[<-|[<-|[]]]]; cbn; auto|].
  split; [intros f [<-|[<-|[<-|[]]]]; cbn; auto|].
  split; vm_compute; reflexivity.
Qed.

(** * Damaged copies contribute nothing and suppress nothing *)

Theorem damaged_noop h : forall st,
  deliveries_arr st h = deliveries st (intact_only h) /\
  fst (run_arr st h) = fst (run st (intact_only h)).
Proof.
  induction h as [|a r IH]; intros st; [split; reflexivity|].
  destruct a as [f|f].
  - cbn [intact_only]. rewrite deliveries_cons, run_cons_state.
    unfold deliveries_arr. cbn [run_arr agent_recv_arr].
    destruct (agent_recv st f) as [st1 ds]. cbn [fst snd].
    destruct (IH st1) as [H1 H2]. unfold deliveries_arr in H1.
    destruct (run_arr st1 r) as [st2 dss]. cbn [fst snd concat] in *.
    rewrite H1. split; [reflexivity|exact H2].
  - cbn [intact_only]. unfold deliveries_arr. cbn [run_arr agent_recv_arr].
    destruct (IH st) as [H1 H2]. unfold deliveries_arr in H1.
    destruct (run_arr st r) as [st2 dss]. cbn [fst snd concat app] in *.
    split; assumption.
Qed.

(** * Non-vacuity: concrete inputs satisfying the hypotheses of the theorems above *)

Definition x_k : ident3 := (2, 50, 1).
Definition x_p : bytes := [10; 20; 30; 40; 50; 60; 70; 80; 90; 100].
Definition x_F0 : frag := mkFrag x_k 0 10 [10; 20; 30; 40] [(7, 2, [1; 2]); (192, 3, [])].
Definition x_F1 : frag := mkFrag x_k 2 10 [30; 40; 50; 60; 70] [].           (* overlaps F0 *)
Definition x_F2 : frag := mkFrag x_k 7 10 [80; 90; 100] [(7, 2, [9])].
Definition x_G : frag := mkFrag (2, 50, 2) 0 4 [9; 9] [].                    (* other sequence number *)
Definition x_H : frag := mkFrag (3, 50, 1) 5 10 [1; 1; 1; 1; 1] [].          (* other source *)
Definition x_fs : list frag := [x_F0; x_F1; x_F2].
(** last fragment first, duplicates, two other bundles interleaved, first fragment late *)
Definition x_h : list frag := [x_F2; x_G; x_F1; x_F2; x_H; x_F0; x_F1; x_F0].

Example complete_once_nonvacuous :
  (forall f, In f x_fs -> frag_of x_k x_p f) /\
  covers x_fs x_p /\
  In x_F0 x_fs /\ f_off x_F0 = 0 /\
  (forall f g, In f x_fs -> In g x_fs -> f_off f = f_off g -> f = g) /\
  (forall f, In f x_h -> f_id f = x_k -> In f x_fs) /\
  (forall f, In f x_fs -> In f x_h) /\
  deliv_for x_k (deliveries init x_h) = [mkDelivered x_k x_p (f_blocks x_F0)] /\
  length (deliveries init x_h) = 1%nat.
Proof.
  split.
  { intros f [<-|[<-|[<-|[]]]]; unfold frag_of; (split; [reflexivity|]); (split; [reflexivity|]);
      (split; [vm_compute; discriminate|reflexivity]). }
  split.
  { intros x Hx. change (blen x_p) with 10 in Hx. unfold carries.
    destruct (x <? 4) eqn:C4; [exists x_F0|destruct (x <? 7) eqn:C7; [exists x_F1|exists x_F2]].
    - split; [left; reflexivity|]. change (f_end x_F0) with 4. cbn [f_off x_F0]. lia.
    - split; [right; left; reflexivity|]. change (f_end x_F1) with 7. cbn [f_off x_F1]. lia.
    - split; [right; right; left; reflexivity|]. change (f_end x_F2) with 10. cbn [f_off x_F2]. lia. }
  split; [left; reflexivity|]. split; [reflexivity|].
  split.
  { intros f g [<-|[<-|[<-|[]]]] [<-|[<-|[<-|[]]]] E; try reflexivity; discriminate E. }
  split.
  { intros f [<-|[<-|[<-|[<-|[<-|[<-|[<-|[<-|[]]]]]]]]] E; try discriminate E; cbn; auto. }
  split.
  { intros f [<-|[<-|[<-|[]]]]; cbn; auto 10. }
  split; vm_compute; reflexivity.
Qed.

(** Octet 5 is carried by neither F0 = [0,4) nor F2 = [7,10). *)
Example no_early_nonvacuous :
  let h := [x_F2; x_G; x_F0; x_F2; x_H] in
  5 < 10 /\
  (forall f, In f h -> f_id f = x_k -> f_total f = 10 /\ ~ carries f 5) /\
  deliveries init h = [] /\
  exists e, tbl_get x_k (st_tbl (fst (run init h))) = Some e /\ e_valid e = [(0, 4); (7, 10)] /\
            e_buf e = [10; 20; 30; 40; 0; 0; 0; 80; 90; 100].
Proof.
  cbn zeta. split; [lia|]. split.
  { intros f [<-|[<-|[<-|[<-|[<-|[]]]]]] E; try discriminate E; (split; [reflexivity|]);
      unfold carries; vm_compute; intros [A B]; try (apply A; reflexivity); try discriminate B. }
  split; [vm_compute; reflexivity|].
  eexists. split; [vm_compute; reflexivity|]. split; reflexivity.
Qed.

(** The modelled slice assignment grows the buffer when a fragment with a larger total
    reaches past the end of the buffer allocated from the first fragment's total
    (inconsistent totals; outside every theorem's hypotheses, inside the model). *)
Example splice_grows :
  splice (zeros 6) 8 10 [9; 10] = [0; 0; 0; 0; 0; 0; 9; 10] /\
  splice [1; 2; 3; 4; 5; 0; 9; 10] 4 8 [5; 6; 7; 8] = [1; 2; 3; 4; 5; 6; 7; 8].
Proof. split; reflexivity. Qed.

(** Completion without a first fragment is the error outcome, and the slot is gone. *)
Example error_outcome :
  recv_fragment [] (mkFrag x_k 3 0 [] []) = ([], OError).
Proof. reflexivity. Qed.

Example damaged_noop_nonvacuous :
  let h := [Damaged x_F0; Intact x_F2; Damaged x_F1; Intact x_F1; Damaged x_F2; Intact x_F0; Damaged x_F0] in
  intact_only h = [x_F2; x_F1; x_F0] /\
  deliveries_arr init h = [mkDelivered x_k x_p (f_blocks x_F0)].
Proof. cbn zeta. split; vm_compute; reflexivity. Qed.

