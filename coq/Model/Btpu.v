(** BTP-U: message codec, segmentation and reassembly.

    Hand-written executable model of

      /repo/src/btpu/messages.py   (scapy classes HintHead, MessageHead,
                                    DefinitePadding, BundlePdu, TransferSeg,
                                    TransferEnd, TransferCancel, MessageSet)
      /repo/src/btpu/agent.py      (Agent._send_transfer, Agent._recv_msg,
                                    RxTransfer, _add_rx_item, the receive queue)

    tied to the code by harness/check_C20.py (same inputs through the real
    scapy classes / the real agent and through these definitions under
    [vm_compute]).  Definitions only; proofs are in Proofs/BtpuProofs.v.

    Wire layout as scapy builds it (octets are [N], see Lib/Bytes.v):

      MessageHead : msg_type (8 bits) | flags (4 bits, H = 0x8) | length (20 bits)
                    | hints ... | payload
                    [length] counts the hint octets plus the payload octets
                    ([BitFieldLenField length_of='hints' adjust=+len(payload)]).
      HintHead    : hint_type (7 bits) | h_flag (1 bit) | length (8 bits) | data
                    A hint list is present iff flags has the H bit; it continues
                    while the hint just read has h_flag = 1 ([hint_cb]);
                    [self_build] sets h_flag on all but the last hint.
      MessageSet  : messages while the next octet is non-zero ([is_msg_cb]);
                    whatever follows (it starts with a zero octet) is padding.

    Out-of-range field values: scapy masks bit fields ([msg length mod 2^20],
    [flags mod 16], [hint_type mod 128]) -- modelled as such, this is where the
    recorded 2^20 overflow finding lives -- and raises for byte/int fields
    ([msg_type >= 256], hint data longer than 255, [xfer_num]/[seg_idx] >= 2^32);
    the model truncates there instead, and every theorem excludes those values
    by an explicit hypothesis. *)
From Coq Require Import List NArith Arith Bool.
From DTN Require Import Lib.Bytes.
Import ListNotations.
Local Open Scope N_scope.

(** ** Messages *)

Record hint := mkHint { h_type : N; h_data : bytes }.

(** The [MessageHead] layer with its payload octets.  [m_flags] is the whole
    4-bit flags value as scapy keeps it. *)
Record msg := mkMsg { m_type : N; m_flags : N; m_hints : list hint; m_body : bytes }.

(** A [MessageSet]: messages followed by trailing padding. *)
Record frame := mkFrame { f_msgs : list msg; f_pad : bytes }.

Definition LEN_MOD : N := 1048576.     (* 2^20: width of the length field *)
Definition MAX_LIST : nat := 100.      (* scapy conf.max_list_count: a PacketListField
                                          with more items raises while dissecting *)

Definition blen (b : bytes) : N := N.of_nat (length b).

Definition is_nil {A} (l : list A) : bool := match l with [] => true | _ => false end.

(** H bit of a 4-bit flags value ([pkt.flags & 0x8]). *)
Definition has_h (fl : N) : bool := (fl / 8) mod 2 =? 1.

(** ** Encoder ([bytes(pkt)]) *)

Fixpoint encode_hints (hs : list hint) : bytes :=
  match hs with
  | [] => []
  | h :: t =>
      ((h_type h mod 128) * 2 + (if is_nil t then 0 else 1))
        :: (blen (h_data h) mod 256)
        :: h_data h ++ encode_hints t
  end.

(** Value of the 20-bit length field that scapy emits. *)
Definition len_field (m : msg) : N :=
  (blen (encode_hints (m_hints m)) + blen (m_body m)) mod LEN_MOD.

Definition encode_msg (m : msg) : bytes :=
  m_type m
    :: be 3 ((m_flags m mod 16) * LEN_MOD + len_field m)
    ++ encode_hints (m_hints m) ++ m_body m.

Definition encode_msgs (ms : list msg) : bytes := concat (map encode_msg ms).

Definition encode_frame (f : frame) : bytes := encode_msgs (f_msgs f) ++ f_pad f.

(** ** Decoder (scapy dissection), strict: [None] for anything truncated or
    inconsistent.  scapy itself is lenient there (it falls back to [Raw]
    layers); those inputs are outside "valid frame". *)

Fixpoint decode_hints (fuel : nat) (bs : bytes) : option (list hint * bytes) :=
  match fuel with
  | O => None
  | S f =>
      match bs with
      | b0 :: ln :: rest =>
          if (length rest <? N.to_nat ln)%nat then None
          else
            let h := mkHint (b0 / 2) (firstn (N.to_nat ln) rest) in
            let rest' := skipn (N.to_nat ln) rest in
            if b0 mod 2 =? 1
            then match decode_hints f rest' with
                 | Some (hs, r) => Some (h :: hs, r)
                 | None => None
                 end
            else Some ([h], rest')
      | _ => None
      end
  end.

(** Header fields: (msg_type, flags, length). *)
Definition decode_head (bs : bytes) : option (N * N * N * bytes) :=
  match bs with
  | t :: rest =>
      match take_be 3 rest with
      | Some (v, rest1) => Some (t, v / LEN_MOD, v mod LEN_MOD, rest1)
      | None => None
      end
  | [] => None
  end.

(** The declared length of the message at the front of [bs]. *)
Definition declared_len (bs : bytes) : option N :=
  match decode_head bs with Some (_, _, len, _) => Some len | None => None end.

Definition decode_msg (bs : bytes) : option (msg * bytes) :=
  match decode_head bs with
  | Some (t, fl, len, rest1) =>
      if (length rest1 <? N.to_nat len)%nat then None
      else
        let body := firstn (N.to_nat len) rest1 in
        let rest2 := skipn (N.to_nat len) rest1 in
        if has_h fl
        then match decode_hints (S (length body)) body with
             | Some (hs, pl) =>
                 if (length hs <=? MAX_LIST)%nat then Some (mkMsg t fl hs pl, rest2) else None
             | None => None
             end
        else Some (mkMsg t fl [] body, rest2)
  | None => None
  end.

Fixpoint decode_msgs (fuel : nat) (bs : bytes) : option (list msg * bytes) :=
  match bs with
  | [] => Some ([], [])
  | b :: _ =>
      if b =? 0 then Some ([], bs)               (* is_msg_cb: padding starts here *)
      else match fuel with
           | O => None
           | S f =>
               match decode_msg bs with
               | Some (m, rest) =>
                   match decode_msgs f rest with
                   | Some (ms, pad) => Some (m :: ms, pad)
                   | None => None
                   end
               | None => None
               end
           end
  end.

Definition decode_frame (bs : bytes) : option frame :=
  match decode_msgs (length bs) bs with
  | Some (ms, pad) => if (length ms <=? MAX_LIST)%nat then Some (mkFrame ms pad) else None
  | None => None
  end.

(** ** Payload classes bound to [msg_type] ([bind_layers]) *)

Inductive content :=
| CPadding (d : bytes)                 (* 1 DefinitePadding *)
| CBundle (d : bytes)                  (* 2 BundlePdu *)
| CSeg (xfer idx : N) (d : bytes)      (* 3 TransferSeg / Raw *)
| CEnd (xfer idx : N) (d : bytes)      (* 4 TransferEnd / Raw *)
| CCancel (xfer : N)                   (* 5 TransferCancel *)
| COther.                              (* unbound type, or too short for its class *)

Definition view_xfer (body : bytes) : option (N * N * bytes) :=
  match take_be 4 body with
  | Some (x, r) =>
      match take_be 4 r with
      | Some (i, d) => Some (x, i, d)
      | None => None
      end
  | None => None
  end.

(** An empty payload gets no layer at all in scapy ([do_dissect_payload]
    is skipped), whatever the type. *)
Definition view (m : msg) : content :=
  if is_nil (m_body m) then COther
  else if m_type m =? 1 then CPadding (m_body m)
  else if m_type m =? 2 then CBundle (m_body m)
  else if m_type m =? 3 then
    match view_xfer (m_body m) with Some (x, i, d) => CSeg x i d | None => COther end
  else if m_type m =? 4 then
    match view_xfer (m_body m) with Some (x, i, d) => CEnd x i d | None => COther end
  else if m_type m =? 5 then
    match take_be 4 (m_body m) with Some (x, _) => CCancel x | None => COther end
  else COther.

(** ** Builders: what the agent constructs ([flags] left to [self_build]) *)

Definition mk_msg (t : N) (hs : list hint) (body : bytes) : msg :=
  mkMsg t (if is_nil hs then 0 else 8) hs body.

Definition mk_padding (d : bytes) : msg := mk_msg 1 [] d.
Definition mk_bundle (d : bytes) : msg := mk_msg 2 [] d.
Definition mk_seg (hs : list hint) (last : bool) (xfer idx : N) (d : bytes) : msg :=
  mk_msg (if last then 4 else 3) hs (be 4 xfer ++ be 4 idx ++ d).
Definition mk_cancel (xfer : N) : msg := mk_msg 5 [] (be 4 xfer).

(** ** Well-formedness (boolean, so that it can be evaluated on examples) *)

Definition wf_hintb (h : hint) : bool :=
  (h_type h <? 128) && (blen (h_data h) <? 256) && wf_bytesb (h_data h).

Definition wf_msgb (m : msg) : bool :=
  (m_type m <? 256) && (m_flags m <? 16)
  && Bool.eqb (has_h (m_flags m)) (negb (is_nil (m_hints m)))
  && forallb wf_hintb (m_hints m) && (length (m_hints m) <=? MAX_LIST)%nat
  && wf_bytesb (m_body m)
  && (blen (encode_hints (m_hints m)) + blen (m_body m) <? LEN_MOD).

(** A frame: every message well-formed and of non-zero type, at most
    [MAX_LIST] of them, padding empty or starting with a zero octet. *)
Definition wf_padb (p : bytes) : bool :=
  match p with [] => true | b :: _ => b =? 0 end && wf_bytesb p.

Definition wf_frameb (f : frame) : bool :=
  forallb (fun m => wf_msgb m && negb (m_type m =? 0)) (f_msgs f)
  && (length (f_msgs f) <=? MAX_LIST)%nat && wf_padb (f_pad f).

(** ** Sender: [Agent._send_transfer] *)

(** The hint the agent attaches to every segment: type 0, total length as
    4 octets ([total_len.to_bytes(4, 'big')]; raises from 2^32 on). *)
Definition xfer_hints (total : N) : list hint := [mkHint 0 (be 4 total)].

(** [len(msg_head)]: the head with its hints and no payload. *)
Definition head_len (hs : list hint) : N := 4 + blen (encode_hints hs).

(** [remain_size = mtu - len(msg_head) - 8] (Python integers; non-positive
    values make the real loop run forever -- see [mtu_feasible_h]). *)
Definition remain_size (hs : list hint) (mtu : N) : N := mtu - head_len hs - 8.

(** The [while seg_offset < total_len] loop, on the data still to send:
    [seg_offset < total_len] iff something remains; the segment is the
    last one iff nothing remains after it.  (idx, data, is_last). *)
Fixpoint chunk (fuel : nat) (rs : nat) (rem : bytes) (idx : N) : list (N * bytes * bool) :=
  match fuel with
  | O => []
  | S f =>
      match rem with
      | [] => []
      | _ :: _ =>
          let rem' := skipn rs rem in
          (idx, firstn rs rem, is_nil rem') :: chunk f rs rem' (idx + 1)
      end
  end.

Definition segments (hs : list hint) (mtu : N) (data : bytes) : list (N * bytes * bool) :=
  chunk (length data) (N.to_nat (remain_size hs mtu)) data 0.

Definition seg_msg (hs : list hint) (xid : N) (s : N * bytes * bool) : msg :=
  let '(idx, d, last) := s in mk_seg hs last xid idx d.

Definition seg_frame (hs : list hint) (xid : N) (s : N * bytes * bool) : bytes :=
  encode_frame (mkFrame [seg_msg hs xid s] []).

(** [total_len < mtu - 4] with [mtu = None] meaning "never segment". *)
Definition fits (mtu : option N) (total : N) : bool :=
  match mtu with None => true | Some m => total <? m - 4 end.

(** Frames yielded for one bundle, with an arbitrary hint list on segments. *)
Definition send_transfer_h (hs : list hint) (mtu : option N) (xid : N) (data : bytes) : list bytes :=
  if fits mtu (blen data)
  then [encode_frame (mkFrame [mk_bundle data] [])]
  else match mtu with
       | Some m => map (seg_frame hs xid) (segments hs m data)
       | None => []
       end.

(** What the code does: one total-length hint. *)
Definition send_transfer (mtu : option N) (xid : N) (data : bytes) : list bytes :=
  send_transfer_h (xfer_hints (blen data)) mtu xid data.

(** Segmentation makes progress iff [remain_size >= 1]. *)
Definition mtu_feasible_h (hs : list hint) (mtu : N) : bool := head_len hs + 8 <? mtu.
Definition mtu_feasible (mtu : N) : bool := 18 <? mtu.

(** Everything the theorems about a segmented transfer assume, as one
    boolean: the MTU leaves room for data ([remain_size >= 1]), the bundle
    does not fit, and every field value fits its width (hints well-formed,
    32-bit transfer number and segment indices, octets < 256, segment
    messages shorter than 2^20). *)
Definition xfer_okb (hs : list hint) (mtu xid : N) (data : bytes) : bool :=
  mtu_feasible_h hs mtu && negb (fits (Some mtu) (blen data))
  && forallb wf_hintb hs && (length hs <=? MAX_LIST)%nat
  && (xid <? 4294967296) && (blen data <? 4294967296) && wf_bytesb data
  && (mtu <? LEN_MOD + 4).

(** The same for the hint list the code uses. *)
Definition send_okb (mtu xid : N) (data : bytes) : bool :=
  xfer_okb (xfer_hints (blen data)) mtu xid data.

(** ** Receiver: [RxTransfer], [Agent._recv_msg] *)

(** [got_idx] and [data] together: (index, octets) sorted by index, indices
    distinct.  [got_idx] is [map fst]; a normalised discrete interval set
    equals [closed(0, e)] iff its points are exactly 0..e. *)
Record xfer := mkXfer { x_end : option N; x_segs : list (N * bytes) }.

Definition seg_mem (i : N) (l : list (N * bytes)) : bool := existsb (fun p => fst p =? i) l.

Fixpoint seg_ins (i : N) (d : bytes) (l : list (N * bytes)) : list (N * bytes) :=
  match l with
  | [] => [(i, d)]
  | (j, e) :: t => if i <? j then (i, d) :: l else (j, e) :: seg_ins i d t
  end.

(** [l] is exactly [lo; lo+1; ...; hi]. *)
Fixpoint is_range (l : list N) (lo hi : N) : bool :=
  match l with
  | [] => lo =? hi + 1
  | x :: t => (x =? lo) && is_range t (lo + 1) hi
  end.

(** One segment for one transfer.  Result: new transfer state ([None] =
    entry deleted) and the completed data if this segment completed it. *)
Definition seg_step (cur : option xfer) (is_end : bool) (idx : N) (d : bytes)
  : option xfer * option bytes :=
  let x := match cur with Some x => x | None => mkXfer None [] end in
  if seg_mem idx (x_segs x) then (Some x, None)        (* not a new segment *)
  else
    let e := if is_end then Some idx else x_end x in
    let segs := seg_ins idx d (x_segs x) in
    let x' := mkXfer e segs in
    match e with
    | Some v =>
        if v =? 0 then (Some x', None)                 (* `if xfer.got_end:` -- 0 is falsy *)
        else if is_range (map fst segs) 0 v
             then (None, Some (concat (map snd segs)))
             else (Some x', None)
    | None => (Some x', None)
    end.

(** [EthernetChannel]: the dataclass fields in declaration order; its [key]
    is [astuple(self)], i.e. ALL of them (Gen/BtpuBudget.v [key_fields],
    [C20_tie_key]).  Addresses are the 48-bit values of the MAC octets. *)
Record chan := mkChan { c_if : N; c_peer : N; c_local : N; c_vlan : option N }.

Definition opt_eqb (a b : option N) : bool :=
  match a, b with
  | None, None => true
  | Some x, Some y => x =? y
  | _, _ => false
  end.

Definition chan_eqb (a b : chan) : bool :=
  (c_if a =? c_if b) && (c_peer a =? c_peer b) && (c_local a =? c_local b)
  && opt_eqb (c_vlan a) (c_vlan b).

(** A channel for examples. *)
Definition chan1 : chan := mkChan 1 1 255 None.

(** Key of the table of transfers in progress: [(conv.key, xfer_num)]. *)
Definition key := (chan * N)%type.
Definition key_eqb (a b : key) : bool := chan_eqb (fst a) (fst b) && (snd a =? snd b).

Fixpoint plookup (k : key) (l : list (key * xfer)) : option xfer :=
  match l with
  | [] => None
  | (k', v) :: t => if key_eqb k k' then Some v else plookup k t
  end.

Fixpoint pset (k : key) (v : xfer) (l : list (key * xfer)) : list (key * xfer) :=
  match l with
  | [] => [(k, v)]
  | (k', v') :: t => if key_eqb k k' then (k, v) :: t else (k', v') :: pset k v t
  end.

Fixpoint pdel (k : key) (l : list (key * xfer)) : list (key * xfer) :=
  match l with
  | [] => []
  | (k', v') :: t => if key_eqb k k' then pdel k t else (k', v') :: pdel k t
  end.

Record rx := mkRx {
  r_prog : list (key * xfer);     (* _rx_progres *)
  r_queue : list (N * bytes);     (* _rx_queue: transfer id -> data *)
  r_next : N;                     (* _rx_id *)
  r_signals : list (N * N * N);   (* recv_bundle_finished(bid, length, {address: peer}), oldest first *)
  r_timers : N                    (* glib.timeout_add calls so far *)
}.

Definition rx_init : rx := mkRx [] [] 0 [] 0.

(** [_add_rx_item] *)
Definition add_rx (conv : chan) (st : rx) (d : bytes) : rx :=
  mkRx (r_prog st) (r_queue st ++ [(r_next st, d)]) (r_next st + 1)
       (r_signals st ++ [(r_next st, blen d, c_peer conv)]) (r_timers st).

Definition recv_seg (conv : chan) (st : rx) (is_end : bool) (x idx : N) (d : bytes) : rx * bool :=
  match d with
  | [] => (st, true)       (* no Raw layer under the transfer header: `.load` raises *)
  | _ :: _ =>
      let k := (conv, x) in
      let cur := plookup k (r_prog st) in
      let fresh := negb (seg_mem idx (match cur with Some c => x_segs c | None => [] end)) in
      let timers := if fresh then r_timers st + 1 else r_timers st in
      match seg_step cur is_end idx d with
      | (_, Some full) =>
          (add_rx conv (mkRx (pdel k (r_prog st)) (r_queue st) (r_next st) (r_signals st) timers) full, false)
      | (Some x', None) =>
          (mkRx (pset k x' (r_prog st)) (r_queue st) (r_next st) (r_signals st) timers, false)
      | (None, None) => (st, false)
      end
  end.

(** One message; the boolean says an exception left [_recv_msg]. *)
Definition recv_msg (conv : chan) (st : rx) (m : msg) : rx * bool :=
  match view m with
  | CBundle d => (add_rx conv st d, false)      (* an empty BundlePdu never gets here: see [view] *)
  | CSeg x i d => recv_seg conv st false x i d
  | CEnd x i d => recv_seg conv st true x i d
  | _ => (st, false)
  end.

Fixpoint recv_msgs (conv : chan) (st : rx) (ms : list msg) : rx * bool :=
  match ms with
  | [] => (st, false)
  | m :: t =>
      match recv_msg conv st m with
      | (st', true) => (st', true)
      | (st', false) => recv_msgs conv st' t
      end
  end.

(** [_recv_msg(sock, data, conv)] on the octets of one frame.  A frame that
    does not decode is dropped. *)
Definition recv_frame_r (conv : chan) (st : rx) (bs : bytes) : rx * bool :=
  match decode_frame bs with
  | Some f => recv_msgs conv st (f_msgs f)
  | None => (st, false)
  end.

Definition recv_frame (conv : chan) (st : rx) (bs : bytes) : rx := fst (recv_frame_r conv st bs).

Definition queued (st : rx) : list bytes := map snd (r_queue st).

(** ** Several transfers in progress at once *)

(** One received transfer message, abstractly: which channel it came over,
    which transfer it names, and the segment. *)
Record item := mkItem { it_chan : chan; it_xid : N; it_last : bool; it_idx : N; it_data : bytes }.

Definition item_key (it : item) : key := (it_chan it, it_xid it).

Definition recv_item (st : rx) (it : item) : rx :=
  fst (recv_seg (it_chan it) st (it_last it) (it_xid it) (it_idx it) (it_data it)).

(** The bundle (if any) that taking in [it] completes. *)
Definition item_out (st : rx) (it : item) : list bytes :=
  match it_data it with
  | [] => []
  | _ :: _ =>
      match snd (seg_step (plookup (item_key it) (r_prog st)) (it_last it) (it_idx it) (it_data it)) with
      | Some full => [full]
      | None => []
      end
  end.

(** Bundles completed for key [k] while the items [l] are taken in from [st]. *)
Fixpoint completions (k : key) (st : rx) (l : list item) : list bytes :=
  match l with
  | [] => []
  | it :: t =>
      (if key_eqb (item_key it) k then item_out st it else []) ++ completions k (recv_item st it) t
  end.

Definition for_key (k : key) (l : list item) : list item :=
  filter (fun it => key_eqb (item_key it) k) l.

(** The segment [s] of transfer [xid] arriving over [conv]. *)
Definition seg_item (conv : chan) (xid : N) (s : N * bytes * bool) : item :=
  let '(idx, d, last) := s in mkItem conv xid last idx d.

(** ** Renderings for the correspondence files (printable values only;
    options are rendered as lists of length 0 or 1) *)

(** Test data of any length at a constant cost per octet: the 251-octet
    block [mkdata seed 251] repeated ([Lib.Bytes.mkdata] costs a 32-bit
    multiplication and division per octet under [vm_compute]). *)
Fixpoint cyc (n : nat) (cur blk : bytes) : bytes :=
  match n with
  | O => []
  | S n' =>
      match cur with
      | b :: t => b :: cyc n' t blk
      | [] => match blk with
              | b :: t => b :: cyc n' t blk
              | [] => []
              end
      end
  end.
Definition gdata (seed len : N) : bytes := cyc (N.to_nat len) [] (mkdata seed 251).

(** digest: a := (33 a + b) mod 2^32 from 5381, with shifts and masks only. *)
Definition digest (bs : bytes) : N :=
  fold_left (fun a b => N.land (N.shiftl a 5 + a + b) 4294967295) bs 5381.

Definition o_opt {A} (o : option A) : list A := match o with Some a => [a] | None => [] end.

Definition o_hint (h : hint) : N * bytes := (h_type h, h_data h).
Definition i_hint (p : N * bytes) : hint := mkHint (fst p) (snd p).
Definition o_msg (m : msg) : N * N * list (N * bytes) * bytes :=
  (m_type m, m_flags m, map o_hint (m_hints m), m_body m).

Definition o_content (c : content) : N * N * N * bytes :=
  match c with
  | CPadding d => (1, 0, 0, d)
  | CBundle d => (2, 0, 0, d)
  | CSeg x i d => (3, x, i, d)
  | CEnd x i d => (4, x, i, d)
  | CCancel x => (5, x, 0, [])
  | COther => (0, 0, 0, [])
  end.

(** A message as the harness describes it: (kind, explicit flags or none,
    hints, xfer, idx, data); built with the builders above. *)
Definition b_msg (c : N * list N * list (N * bytes) * N * N * bytes) : msg :=
  let '(kind, fl, hs, x, i, d) := c in
  let hs' := map i_hint hs in
  let m := if kind =? 3 then mk_seg hs' false x i d
           else if kind =? 4 then mk_seg hs' true x i d
           else if kind =? 5 then mk_msg 5 hs' (be 4 x ++ d)
           else mk_msg kind hs' d in
  match fl with
  | f :: _ => mkMsg (m_type m) f (m_hints m) (m_body m)
  | [] => m
  end.

Definition o_frame (g : frame) :=
  (map o_msg (f_msgs g), f_pad g, map (fun m => o_content (view m)) (f_msgs g)).

(** Codec case: messages plus trailing padding.  Result: well-formedness,
    the encoding, each message's length field, and the strict decoding of
    the encoding with the payload views. *)
Definition run_codec (c : list (N * list N * list (N * bytes) * N * N * bytes) * bytes) :=
  let f := mkFrame (map b_msg (fst c)) (snd c) in
  let bs := encode_frame f in
  (wf_frameb f, bs, map len_field (f_msgs f), map o_frame (o_opt (decode_frame bs))).

(** Same for frames with large payloads: octet strings are rendered as
    (length, digest), views are left out. *)
Definition o_msg_big (m : msg) :=
  (m_type m, m_flags m, map o_hint (m_hints m), blen (m_body m), digest (m_body m)).
Definition run_codec_big (c : list (N * list N * list (N * bytes) * N * N * bytes) * bytes) :=
  let f := mkFrame (map b_msg (fst c)) (snd c) in
  let bs := encode_frame f in
  (wf_frameb f, blen bs, digest bs, map len_field (f_msgs f),
   map (fun g => (map o_msg_big (f_msgs g), f_pad g)) (o_opt (decode_frame bs))).

(** Decode case: arbitrary octets.  Result: strict decoding and its re-encoding. *)
Definition run_decode (bs : bytes) :=
  map (fun g => (o_frame g, encode_frame g)) (o_opt (decode_frame bs)).

(** Send case: (mtu or none, xfer id, seed, length). *)
Definition run_send (c : list N * N * N * N) : list bytes :=
  let '(mtu, xid, seed, len) := c in
  send_transfer (hd_error mtu) xid (gdata seed len).

(** Same for large bundles: per frame (length, first 24 octets, digest). *)
Definition run_send_big (c : list N * N * N * N) : list (N * bytes * N) :=
  map (fun f => (blen f, firstn 24 f, digest f)) (run_send c).

Definition o_chan (c : chan) := (c_if c, c_peer c, c_local c, o_opt (c_vlan c)).
Definition i_chan (t : N * N * N * list N) : chan :=
  let '(i, p, l, v) := t in mkChan i p l (hd_error v).

Definition o_xfer (e : key * xfer) :=
  (o_chan (fst (fst e)), snd (fst e), o_opt (x_end (snd e)), map fst (x_segs (snd e))).

Definition o_rx (st : rx) :=
  (map o_xfer (r_prog st), r_queue st, r_signals st, r_timers st).

Fixpoint recv_trace (st : rx) (frames : list (N * N * N * list N * bytes)) : list (nat * bool) * rx :=
  match frames with
  | [] => ([], st)
  | (cv, f) :: t =>
      let '(st', raised) := recv_frame_r (i_chan cv) st f in
      let '(tr, fin) := recv_trace st' t in
      ((length (r_signals st'), raised) :: tr, fin)
  end.

(** Receive case: (conversation, frame octets) in arrival order.  Result:
    number of signals so far and the raised flag after each frame, then the
    final state. *)
Definition run_recv (c : list (N * N * N * list N * bytes)) :=
  let '(tr, fin) := recv_trace rx_init c in (tr, o_rx fin).

(** Receive case for generated transfers: (mtu, xid, seed, len, arrival order
    as positions into the list of frames of [send_transfer]).  Result: signal
    count after each frame, queued data (as digest and length), signals,
    transfers still in progress, timers, and "the queued octets are the bundle". *)
Definition run_xfer (c : N * N * N * N * list nat) :=
  let '(mtu, xid, seed, len, order) := c in
  let data := gdata seed len in
  let frames := send_transfer (Some mtu) xid data in
  let arrival := map (fun i => ((1, 73588229121, 73588229375, @nil N), nth i frames [])) order in
  let '(tr, fin) := recv_trace rx_init arrival in
  (map fst tr, map (fun d => (blen d, digest d)) (queued fin), r_signals fin,
   map o_xfer (r_prog fin), r_timers fin,
   match queued fin with [d] => bytes_eqb d data | _ => false end).

(** Receive case with several transfers in progress at once: transfers
    (channel, mtu, xid, seed, len) and the arrival as (transfer number, frame
    position) pairs.  Result: signal count after each arrival, the queue as
    (id, length, digest), the signals (id, length, peer), transfers still in
    progress, timers. *)
Definition run_multi (c : list (N * N * N * list N * N * N * N * N) * list (nat * nat)) :=
  let xfers := map (fun t => let '(cv, mtu, xid, seed, len) := t in
                             (cv, send_transfer (Some mtu) xid (gdata seed len))) (fst c) in
  let arrival := map (fun a => let '(cv, frames) := nth (fst a) xfers ((0, 0, 0, []), []) in
                               (cv, nth (snd a) frames [])) (snd c) in
  let '(tr, fin) := recv_trace rx_init arrival in
  (map fst tr, map (fun e => (fst e, blen (snd e), digest (snd e))) (r_queue fin), r_signals fin,
   map o_xfer (r_prog fin), r_timers fin).
