(* C15 -- TCPCL enforces its TLS and peer-authentication policy.

   Every statement is about the definitions of Gen/TlsPolicy.v, which are
   regenerated from src/tcpcl/session.py on every run:
     tls_attempt      <- Messenger.merge_contact_params
     contact_outcome  <- Messenger.recv_message (contact-header branch)
     match_id         <- match_id() decision tail
     peer_dnsid, authn_refuses <- Messenger.merge_session_params (TLS block)
   The specification (policy_ok, tls_use_ok, known_dns_name, ...) is
   Model/TlsSpec.v, written from the property text.

   The authentication statement is proved at full strength (C15_authn), together
   with its three clauses separately and the converse (C15_authn_complete).
   History: before repository commit 55f212b the host clause was false (an endpoint
   without a DNS name for its peer that required host authentication accepted a
   certificate carrying DNS names but no IP address); the witnesses of that defect
   are kept in harness/corpus/C15_host_authn.json and are run first by the check. *)
From Coq Require Import List NArith Bool.
Import ListNotations.
From DTN Require Import Gen.TlsPolicy Model.TlsSpec Proofs.TlsPolicyProofs.
Local Open Scope N_scope.

(* ---- TLS is attempted exactly when both contact headers offer it: for ALL values of the two
        flags octets (reserved bits included), attempted <-> bit 0 (CAN_TLS, RFC 9174 4.2) of both is set *)
Theorem C15_tls_iff_both : forall this_flags peer_flags : N,
  tls_attempt this_flags peer_flags = true <-> (N.testbit this_flags 0 = true /\ N.testbit peer_flags 0 = true).
Proof. exact tls_iff_both. Qed.
Print Assumptions C15_tls_iff_both.
Example C15_tls_iff_both_reserved_bits :
  tls_attempt 1 1 = true /\ tls_attempt 1 3 = true /\ tls_attempt 255 129 = true
  /\ tls_attempt 1 2 = false /\ tls_attempt 254 1 = false /\ tls_attempt 0 255 = false.
Proof. repeat split; reflexivity. Qed.

(* ---- a node that requires TLS never proceeds (to SESS_INIT) in the clear *)
Theorem C15_require_tls_never_clear : forall (attempt handshake_ok secured : bool),
  contact_outcome (Some true) attempt handshake_ok = Proceed secured -> secured = true.
Proof. exact require_tls_never_clear. Qed.
Print Assumptions C15_require_tls_never_clear.
Example C15_require_tls_never_clear_nonvacuous :
  contact_outcome (Some true) true true = Proceed true /\ contact_outcome (Some true) false true = Closed.
Proof. split; reflexivity. Qed.

(* ---- a node that forbids TLS never proceeds secured *)
Theorem C15_forbid_tls_never_secured : forall (attempt handshake_ok secured : bool),
  contact_outcome (Some false) attempt handshake_ok = Proceed secured -> secured = false.
Proof. exact forbid_tls_never_secured. Qed.
Print Assumptions C15_forbid_tls_never_secured.
Example C15_forbid_tls_never_secured_nonvacuous :
  contact_outcome (Some false) false true = Proceed false /\ contact_outcome (Some false) true true = Closed.
Proof. split; reflexivity. Qed.

(* ---- no SESS_INIT unless the use of TLS matches the requirement:
        whenever the contact step proceeds, it is secured iff both sides offered
        TLS, and in agreement with require_tls when that is set *)
Theorem C15_no_sessinit_unless_policy :
  forall (require_tls : option bool) (this_flags peer_flags : N) (handshake_ok secured : bool),
    contact_outcome require_tls (tls_attempt this_flags peer_flags) handshake_ok = Proceed secured ->
    secured = (N.testbit this_flags 0 && N.testbit peer_flags 0)
    /\ match require_tls with Some r => secured = r | None => True end.
Proof. exact no_sessinit_unless_policy. Qed.
Print Assumptions C15_no_sessinit_unless_policy.
Example C15_no_sessinit_unless_policy_nonvacuous :
  contact_outcome None (tls_attempt 1 1) true = Proceed true
  /\ contact_outcome None (tls_attempt 1 3) true = Proceed true
  /\ contact_outcome None (tls_attempt 1 2) true = Proceed false
  /\ contact_outcome (Some true) (tls_attempt 1 255) true = Proceed true
  /\ contact_outcome (Some false) (tls_attempt 0 1) false = Proceed false.
Proof. repeat split; reflexivity. Qed.

(* ---- a secured continuation only comes out of a successful handshake *)
Theorem C15_secured_only_by_handshake : forall (require_tls : option bool) (attempt handshake_ok : bool),
  contact_outcome require_tls attempt handshake_ok = Proceed true -> attempt = true /\ handshake_ok = true.
Proof. exact secured_only_by_handshake. Qed.
Print Assumptions C15_secured_only_by_handshake.

(* ---- the DNS reference the code uses, whenever it is a non-empty name, is the DNS
        name the endpoint knows (an empty name is no name: the code's reference is
        then falsy and the specification has none) *)
Theorem C15_dns_reference : forall (passive : bool) (peer_name peer_addr d : N),
  known_dns_name passive peer_name peer_addr = Some d <->
  (peer_dnsid passive peer_name peer_addr = Some d /\ d <> 0).
Proof. exact dns_reference_some. Qed.
Print Assumptions C15_dns_reference.

(* ---- authentication, clause 1 (unconditional): an accepted certificate presents
        no identifier that contradicts the peer's address, DNS name or node ID *)
Theorem C15_authn_no_contradiction :
  forall (passive : bool) (peer_name peer_addr node : N) (ips dnss uris : list N) (rh rn : bool),
    authn_refuses passive peer_name peer_addr node ips dnss uris rh rn = false ->
    (forall r, Some peer_addr = Some r -> ips <> [] -> In r ips)
    /\ (forall r, known_dns_name passive peer_name peer_addr = Some r -> dnss <> [] -> In r dnss)
    /\ (forall r, Some node = Some r -> uris <> [] -> In r uris).
Proof. exact authn_no_contradiction. Qed.
Print Assumptions C15_authn_no_contradiction.
Example C15_authn_no_contradiction_nonvacuous :
  authn_refuses false 11 1 21 [1; 2] [12; 11] [21] true true = false
  /\ authn_refuses false 11 1 21 [2] [11] [21] false false = true
  /\ authn_refuses false 11 1 21 [1] [12] [21] false false = true
  /\ authn_refuses false 11 1 21 [1] [11] [22] false false = true.
Proof. repeat split; vm_compute; reflexivity. Qed.

(* ---- authentication, clause 3 (unconditional): node authentication required =>
        the announced node ID is present in the certificate *)
Theorem C15_authn_node :
  forall (passive : bool) (peer_name peer_addr node : N) (ips dnss uris : list N) (rh rn : bool),
    authn_refuses passive peer_name peer_addr node ips dnss uris rh rn = false ->
    rn = true -> In node uris.
Proof. exact authn_node. Qed.
Print Assumptions C15_authn_node.
(* empty announced node ID (identifier 0): URI SANs that are not the empty ID contradict it *)
Example C15_authn_empty_node_id :
  authn_refuses true 1 1 0 [] [] [22] false false = true
  /\ authn_refuses true 1 1 0 [] [] [22] false true = true
  /\ authn_refuses true 1 1 0 [] [] [] false true = true
  /\ authn_refuses true 1 1 0 [] [] [] false false = false.
Proof. repeat split; vm_compute; reflexivity. Qed.
Example C15_authn_node_nonvacuous :
  authn_refuses true 1 1 21 [] [] [22; 21] false true = false
  /\ authn_refuses true 1 1 21 [] [] [] false true = true.
Proof. split; vm_compute; reflexivity. Qed.

(* ---- authentication, clause 2 (unconditional): host authentication required =>
        an IP SAN equal to the peer address, or a DNS SAN equal to the DNS name the
        endpoint knows for its peer, is present in the certificate *)
Theorem C15_authn_host :
  forall (passive : bool) (peer_name peer_addr node : N) (ips dnss uris : list N) (rh rn : bool),
    authn_refuses passive peer_name peer_addr node ips dnss uris rh rn = false ->
    rh = true ->
    In peer_addr ips \/ exists d, known_dns_name passive peer_name peer_addr = Some d /\ In d dnss.
Proof. exact authn_host. Qed.
Print Assumptions C15_authn_host.
Example C15_authn_host_nonvacuous :
  (* passive, IP SAN matches: accepted *)
  authn_refuses true 1 1 21 [2; 1] [12] [] true false = false
  (* passive, DNS names only (the former defect): refused *)
  /\ authn_refuses true 1 1 21 [] [11] [] true false = true
  (* active by address literal, DNS names only: refused *)
  /\ authn_refuses false 1 1 21 [] [11] [] true false = true
  (* active by name, DNS SAN matches: accepted *)
  /\ authn_refuses false 11 1 21 [] [12; 11] [] true false = false.
Proof. repeat split; vm_compute; reflexivity. Qed.

(* ---- the full statement: a session is established under TLS (the decision does
        not refuse) only if the certificate satisfies the whole policy *)
Theorem C15_authn :
  forall (passive : bool) (peer_name peer_addr node : N) (ips dnss uris : list N) (rh rn : bool),
    authn_refuses passive peer_name peer_addr node ips dnss uris rh rn = false ->
    policy_ok peer_addr (known_dns_name passive peer_name peer_addr) node ips dnss uris rh rn.
Proof. exact authn_sound. Qed.
Print Assumptions C15_authn.
(* empty connect name: no DNS name is known, DNS SANs authenticate nothing *)
Example C15_authn_empty_dns_name :
  authn_refuses false 0 1 21 [] [12] [] true false = true
  /\ authn_refuses false 0 1 21 [] [0] [] true false = true
  /\ authn_refuses false 0 1 21 [] [12] [] false false = false
  /\ authn_refuses false 0 1 21 [1] [12] [] true false = false.
Proof. repeat split; vm_compute; reflexivity. Qed.
Example C15_authn_nonvacuous :
  (* active by name, host+node required, everything matches *)
  authn_refuses false 11 1 21 [] [11] [21] true true = false
  (* passive, host required, no SAN at all: refused *)
  /\ authn_refuses true 1 1 21 [] [] [] true false = true
  (* nothing required, nothing presented: accepted *)
  /\ authn_refuses true 1 1 21 [] [] [] false false = false.
Proof. repeat split; vm_compute; reflexivity. Qed.

(* ---- no over-refusal: whatever the policy allows is accepted (so the
        specification is not weaker than the decision anywhere) *)
Theorem C15_authn_complete :
  forall (passive : bool) (peer_name peer_addr node : N) (ips dnss uris : list N) (rh rn : bool),
    policy_ok peer_addr (known_dns_name passive peer_name peer_addr) node ips dnss uris rh rn ->
    authn_refuses passive peer_name peer_addr node ips dnss uris rh rn = false.
Proof. exact authn_complete. Qed.
Print Assumptions C15_authn_complete.

(* ---- the computable rendering of policy_ok used by the harness means policy_ok *)
Theorem C15_policy_okb_spec :
  forall (addr : N) (dns : option N) (node : N) (ips dnss uris : list N) (rh rn : bool),
    policy_okb addr dns node ips dnss uris rh rn = true <-> policy_ok addr dns node ips dnss uris rh rn.
Proof. exact policy_okb_ok. Qed.
Print Assumptions C15_policy_okb_spec.
