''' Shared machinery of the per-property checks.

Each property has a driver ``harness/check_Cxx.py`` run as
``/venv/bin/python harness/check_Cxx.py [--tier quick|thorough] [--replay F]``
(through ``/verif/check Cxx``).  A driver builds a :class:`Check`, then

 1. (optionally) regenerates translated Coq files from /repo  (:meth:`gen`),
 2. rebuilds the Coq development and re-checks ``coq/Props/Cxx.v`` capturing
    ``Print Assumptions`` (:meth:`coq_props`)  -- the proof obligations,
 3. runs the correspondence between the Coq model (evaluated with
    ``vm_compute`` by :meth:`coq_eval`) and the real implementation,
 4. evaluates the property oracle on the implementation's observations,
 5. reports (:meth:`finish`): evidence file, KNOWN-FINDING / VIOLATION lines.
'''
import argparse
import ast
import fcntl
import hashlib
import json
import os
import random
import re
import subprocess
import sys
import time

VERIF = os.path.dirname(os.path.dirname(os.path.abspath(__file__)))
COQ = os.path.join(VERIF, 'coq')
BUILD = os.path.join(VERIF, 'build')
EVIDENCE = os.path.join(VERIF, 'evidence')
REPO = os.environ.get('VERIF_REPO', '/repo')
KNOWN_FILE = os.path.join(VERIF, 'known_findings.json')

KERNEL_TB = [
    'Coq 8.16.1 kernel (coqc); vm_compute used for model evaluation and for closed computational proofs; native_compute not used',
    'no Axiom/Parameter/Admitted in the development (grep gate in setup.sh and in every check)',
]


def coq_bytes(data):
    ''' Render an octet string as a Coq term of type [list N]. '''
    data = bytes(data)
    if len(data) == 0:
        return '(@nil N)'
    if len(data) <= 8:
        return '[' + '; '.join(str(b) for b in data) + ']%N'
    if len(data) <= 48:
        return '(unhex %d 0x%s%%N)' % (len(data), data.hex())
    # unhex is quadratic in the length: long strings are concatenations of 48-octet pieces
    parts = [data[idx:idx + 48] for idx in range(0, len(data), 48)]
    return '(List.concat [' + '; '.join('unhex %d 0x%s%%N' % (len(part), part.hex()) for part in parts) + '])'


def coq_list(items, typ=None):
    if not items:
        return '(@nil %s)' % typ if typ else '[]'
    return '[' + '; '.join(items) + ']'


def coq_bool(val):
    return 'true' if val else 'false'


def coq_N(val):
    return '%d%%N' % val


def coq_nat(val):
    return '%d%%nat' % val


def coq_opt(val, render=str, typ=None):
    if val is None:
        return '(@None %s)' % typ if typ else 'None'
    return '(Some %s)' % render(val)


def mkdata(seed, length):
    ''' Same LCG as Lib/Bytes.mkdata. '''
    out = bytearray()
    st = seed
    for _ in range(length):
        st = (st * 1103515245 + 12345) % 4294967296
        out.append((st >> 16) & 0xFF)
    return bytes(out)


def parse_coq_value(text):
    ''' Parse what ``Eval vm_compute`` printed for a value built from lists,
    pairs, N/nat numbers, booleans and options into Python objects. '''
    text = text.strip()
    # strip the "= " prefix and the trailing ": type"
    if text.startswith('='):
        text = text[1:]
    depth = 0
    cut = None
    for (idx, char) in enumerate(text):
        if char in '([':
            depth += 1
        elif char in ')]':
            depth -= 1
        elif char == ':' and depth == 0:
            cut = idx
            break
    if cut is not None:
        text = text[:cut]
    text = re.sub(r'%(N|nat|Z|positive|list|bool)\b', '', text)
    text = text.replace(';', ',')
    text = re.sub(r'\btrue\b', 'True', text)
    text = re.sub(r'\bfalse\b', 'False', text)
    text = re.sub(r'\bSome\b', '"Some",', text)
    text = re.sub(r'\bNone\b', 'None', text)
    text = re.sub(r'\s+', ' ', text)
    return ast.literal_eval(text.strip())


class CoqError(Exception):
    pass


class Check(object):

    def __init__(self, prop_id, level='proof', argv=None, description=''):
        parser = argparse.ArgumentParser(description=description)
        parser.add_argument('--tier', default=os.environ.get('VERIF_TIER', 'quick'), choices=['quick', 'thorough'])
        parser.add_argument('--replay', default=None)
        parser.add_argument('--seed', type=int, default=int(os.environ.get('VERIF_SEED', '20260923')))
        self.args = parser.parse_args(argv)
        self.prop_id = prop_id
        self.level = level
        self.tier = self.args.tier
        self.seed = self.args.seed
        self.rng = random.Random(self.seed)
        self.start = time.time()
        self.obligations = []  # (name, ok, detail)
        self.trusted_base = list(KERNEL_TB)
        self.assumptions = []
        self.notes = []  # operational notes (e.g. an evaluation shard that had to be re-run)
        self.coverage = {}
        self.samples = []
        self.evaluations = 0
        self.nontrivial = set()
        self.violations = []  # (what, replay_path, no_input)
        self.known_hits = {}
        self.checker_cmds = []
        self.hist = {}
        os.makedirs(BUILD, exist_ok=True)
        os.makedirs(os.path.join(BUILD, 'replay'), exist_ok=True)
        os.makedirs(EVIDENCE, exist_ok=True)
        with open(KNOWN_FILE, 'r') as infile:
            self.known = [ent for ent in json.load(infile)['findings'] if ent['property'] == prop_id]

    # ------------------------------------------------------------------ utilities
    def quick(self):
        return self.tier == 'quick'

    def count(self, key, sub=None):
        ''' Histogram of the input distribution, written to the evidence. '''
        if sub is None:
            self.hist[key] = self.hist.get(key, 0) + 1
        else:
            tab = self.hist.setdefault(key, {})
            tab[str(sub)] = tab.get(str(sub), 0) + 1

    def case(self, ident, nontrivial=True, sample=None):
        ''' Record one explored case.  ``ident`` must be hashable/distinct per
        distinct case; ``nontrivial`` by the rule stated in the evidence. '''
        self.evaluations += 1
        if nontrivial:
            self.nontrivial.add(hashlib.sha1(repr(ident).encode()).hexdigest())
        if sample is not None and len(self.samples) < 6:
            self.samples.append(sample)

    def obligation(self, name, okay, detail=''):
        self.obligations.append((name, bool(okay), detail))

    # ------------------------------------------------------------------ Coq side
    def _run(self, cmd, timeout, cwd=COQ):
        self.checker_cmds.append(' '.join(cmd))
        try:
            proc = subprocess.run(cmd, cwd=cwd, stdout=subprocess.PIPE, stderr=subprocess.STDOUT,
                                  timeout=timeout, text=True)
        except subprocess.TimeoutExpired as err:
            out = err.stdout or ''
            if isinstance(out, bytes):
                out = out.decode(errors='replace')
            return (124, out + '\n[timeout after %ds]' % timeout)
        return (proc.returncode, proc.stdout)

    def gate_no_axioms(self):
        ''' Textual gate: nothing in the development declares an axiom or
        leaves a proof open. '''
        pat = re.compile(r'\b(Admitted|admit|Axiom|Axioms|Parameter|Parameters|Conjecture|Admit Obligations|bypass_check)\b|Unset Guard|Unset Positivity|Unset Universe|type-in-type')
        bad = []
        for (root, _dirs, files) in os.walk(COQ):
            for name in files:
                if not name.endswith('.v'):
                    continue
                path = os.path.join(root, name)
                with open(path, 'r') as infile:
                    text = infile.read()
                # drop comments
                text = re.sub(r'\(\*.*?\*\)', '', text, flags=re.S)
                for mat in pat.finditer(text):
                    bad.append('%s: %s' % (os.path.relpath(path, VERIF), mat.group(0)))
        self.obligation('gate:no-axiom-no-admit', not bad, '; '.join(bad[:5]))
        return not bad

    def coq_make(self, targets, timeout=1500):
        ''' (Re)build the named .vo targets (paths relative to coq/) from the
        current sources under a lock. '''
        lock = open(os.path.join(BUILD, '.coq.lock'), 'w')
        fcntl.flock(lock, fcntl.LOCK_EX)
        try:
            # regenerates coq/Gen/*.v from /repo's current tree (translator) and the project file
            (ret, out) = self._run(['sh', os.path.join(VERIF, 'setup.sh'), '--project-only'], 300, cwd=VERIF)
            if ret != 0:
                raise CoqError(out)
            self.translator_out = out
            if not targets:
                return (0, out)
            (ret, out) = self._run(['make', '-f', 'Makefile.conf.mk', '-j16'] + list(targets), timeout)
        finally:
            fcntl.flock(lock, fcntl.LOCK_UN)
            lock.close()
        return (ret, out)

    def coq_props_extra(self, rel, timeout=900):
        ''' Re-check an additional theorem file (e.g. Props/TcpclTie.v) shared by several properties. '''
        path = os.path.join(COQ, rel)
        if not os.path.exists(path):
            self.obligation('theorem:<%s missing>' % rel, False, 'missing')
            return False
        with open(path, 'r') as infile:
            text = infile.read()
        theorems = re.findall(r'^\s*(?:Theorem|Corollary)\s+([A-Za-z0-9_\']+)', text, flags=re.M)
        vo_path = path[:-2] + '.vo'
        if os.path.exists(vo_path):
            os.unlink(vo_path)
        (ret, out) = self.coq_make([rel + 'o'], timeout)
        okay = (ret == 0)
        if okay:
            closed = out.count('Closed under the global context')
            axioms = re.findall(r'Axioms:\n((?:.+\n?)+?)(?=\n\S|\Z)', out)
            self.trusted_base.append('Print Assumptions over %s: %d theorem(s) "Closed under the global context"%s' % (
                rel, closed, ''.join('; Axioms: ' + ' '.join(blk.split()) for blk in axioms)))
        for name in theorems:
            self.obligation('theorem:%s (%s)' % (name, rel), okay, '' if okay else self._first_error(out))
        self.coverage.setdefault('theorems_extra', []).extend(theorems)
        return okay

    def coq_props(self, extra_targets=(), timeout=1500):
        ''' Rebuild and re-check coq/Props/<id>.v from scratch; every
        ``Theorem`` in it is an obligation; collect Print Assumptions. '''
        self.gate_no_axioms()
        props_v = os.path.join('Props', self.prop_id + '.v')
        if not os.path.exists(os.path.join(COQ, props_v)):
            self.obligation('theorem:<%s missing>' % props_v, False, 'no Props file')
            self.coq_failure = 'no Props file'
            # still regenerate Gen/ and the project so model evaluation works
            self.coq_make([])
            return False
        with open(os.path.join(COQ, props_v), 'r') as infile:
            text = infile.read()
        theorems = re.findall(r'^\s*(?:Theorem|Corollary)\s+([A-Za-z0-9_\']+)', text, flags=re.M)
        vo_path = os.path.join(COQ, 'Props', self.prop_id + '.vo')
        if os.path.exists(vo_path):
            os.unlink(vo_path)
        (ret, out) = self.coq_make([props_v + 'o'] + list(extra_targets), timeout)
        okay = (ret == 0)
        assum = {}
        if okay:
            # output of Print Assumptions appears in make's stdout
            blocks = re.split(r'\n(?=Closed under the global context|Axioms:)', '\n' + out)
            closed = out.count('Closed under the global context')
            axioms = re.findall(r'Axioms:\n((?:.+\n?)+?)(?=\n\S|\Z)', out)
            assum = dict(closed=closed, axiom_blocks=axioms, blocks=len(blocks) - 1)
            self.trusted_base.append(
                'Print Assumptions over %s: %d theorem(s) "Closed under the global context"%s' % (
                    props_v, closed, ''.join('; Axioms: ' + ' '.join(blk.split()) for blk in axioms)))
        for name in theorems:
            self.obligation('theorem:' + name, okay, '' if okay else self._first_error(out))
        if not theorems:
            self.obligation('theorem:<none found in %s>' % props_v, False, 'no Theorem in Props file')
        self.coverage['theorems'] = theorems
        self.coverage['print_assumptions'] = assum
        if okay and self.tier == 'thorough':
            self.coqchk('DTN.Props.' + self.prop_id)
        if not okay:
            self.coq_failure = self._first_error(out)
        return okay

    def coqchk(self, module, timeout=1500):
        ''' Independent re-check of the compiled property file and everything it depends on;
        records the axioms coqchk reports (thorough tier). '''
        (ret, out) = self._run(['coqchk', '-silent', '-o', '-Q', '.', 'DTN', module], timeout)
        axioms = ''
        mat = re.search(r'\* Axioms:\s*(.*?)(?:\n\s*\*|\Z)', out, flags=re.S)
        if mat:
            axioms = ' '.join(mat.group(1).split())
        self.obligation('coqchk:%s' % module, ret == 0, out[-600:] if ret != 0 else '')
        self.trusted_base.append('coqchk -o %s: exit %d; axioms: %s' % (module, ret, axioms or '<none>'))
        self.coverage['coqchk'] = dict(module=module, ok=(ret == 0), axioms=axioms or '<none>', tail=out[-400:])
        return ret == 0

    @staticmethod
    def _first_error(out):
        mat = re.search(r'(File "[^"]+", line \d+, characters [\d-]+:\n(?:.*\n){0,12})', out)
        if mat and 'Error' in mat.group(1):
            return mat.group(1).strip()[:1500]
        idx = out.find('Error')
        return out[max(0, idx - 300):idx + 900].strip() if idx >= 0 else out[-1200:]

    def coq_eval(self, name, imports, cases, func, chunk=250, timeout=900, prelude=''):
        ''' Evaluate ``func`` (a Coq term of type ``T -> R``) on each of
        ``cases`` (Coq terms of type T) inside Coq with vm_compute and return
        the parsed results, one per case.  R must print as nested lists /
        pairs / numbers / booleans / options.  Files are sharded and compiled
        in parallel. '''
        if not cases:
            return []
        shard_dir = os.path.join(BUILD, 'cases')
        os.makedirs(shard_dir, exist_ok=True)
        shards = [cases[idx:idx + chunk] for idx in range(0, len(cases), chunk)]
        paths = []
        for (idx, shard) in enumerate(shards):
            base = 'cases_%s_%s_%d' % (self.prop_id, name, idx)
            path = os.path.join(shard_dir, base + '.v')
            with open(path, 'w') as out:
                out.write('From Coq Require Import List NArith ZArith Bool String.\nImport ListNotations.\n')
                out.write('From DTN Require Import Lib.Bytes.\n')
                for imp in imports:
                    out.write('From DTN Require Import %s.\n' % imp)
                out.write('Set Printing Depth 100000000.\nSet Printing Width 2000.\nLocal Open Scope N_scope.\n')
                out.write(prelude + '\n')
                for (cidx, term) in enumerate(shard):
                    out.write('Definition c%d := %s.\n' % (cidx, term))
                    out.write('Eval vm_compute in (%s c%d).\n' % (func, cidx))
            paths.append(path)
        cmd = 'ulimit -s unlimited 2>/dev/null || ulimit -s 1000000 2>/dev/null; ls %s | xargs -P16 -I{} sh -c \'timeout %d coqc -Q %s DTN {} > {}.out 2>&1; echo $? > {}.rc\'' % (
            ' '.join(paths), timeout, COQ)
        self.checker_cmds.append('coqc -Q coq DTN build/cases/cases_%s_%s_*.v  (%d shard(s), %d case(s), Eval vm_compute)' % (
            self.prop_id, name, len(paths), len(cases)))
        subprocess.run(cmd, shell=True, cwd=shard_dir, stdout=subprocess.DEVNULL, stderr=subprocess.DEVNULL)
        # a shard killed by a signal or by the timeout (memory pressure with 16 evaluators in parallel on a loaded
        # machine) says nothing about the model: run it once more, alone; a Coq error (rc 1) is never retried
        for path in paths:
            try:
                with open(path + '.rc') as infile:
                    ret = int(infile.read().strip() or '1')
            except (IOError, ValueError):
                ret = 137
            if ret in (124, 137, 139, 143) or ret < 0:
                self.notes.append('model-evaluation shard %s ended with rc %d (killed); re-run alone' % (os.path.basename(path), ret))
                subprocess.run('ulimit -s unlimited 2>/dev/null || ulimit -s 1000000 2>/dev/null; '
                               'timeout %d coqc -Q %s DTN %s > %s.out 2>&1; echo $? > %s.rc' % (2 * timeout, COQ, path, path, path),
                               shell=True, cwd=shard_dir, stdout=subprocess.DEVNULL, stderr=subprocess.DEVNULL)
        results = []
        for (path, shard) in zip(paths, shards):
            with open(path + '.rc') as infile:
                ret = int(infile.read().strip() or '1')
            with open(path + '.out') as infile:
                out = infile.read()
            if ret != 0:
                with open(os.path.join(BUILD, 'last_eval_error.txt'), 'w') as errfile:
                    errfile.write('rc=%d\n%s' % (ret, out))
                errs = [blk for blk in re.split(r'\n(?=File )', out) if 'Error' in blk]
                raise CoqError('model evaluation failed for %s (rc %d): %s' % (
                    os.path.basename(path), ret, (errs[0] if errs else out[-800:])[:900]))
            parts = re.split(r'^\s*= ', out, flags=re.M)[1:]
            if len(parts) != len(shard):
                raise CoqError('expected %d results, got %d in %s' % (len(shard), len(parts), path))
            for part in parts:
                results.append(parse_coq_value(part))
            for ext in ('', '.out', '.rc'):
                try:
                    os.unlink(path + ext)
                except OSError:
                    pass
            for ext in ('.vo', '.glob', '.vok', '.vos'):
                try:
                    os.unlink(path[:-2] + ext)
                except OSError:
                    pass
            try:
                os.unlink(os.path.join(shard_dir, '.' + os.path.basename(path)[:-2] + '.aux'))
            except OSError:
                pass
        return results

    def translate_ok(self, target):
        ''' Outcome of the last translator run (done by coq_make/coq_props) for one target. '''
        try:
            with open(os.path.join(BUILD, 'translate_status.json')) as infile:
                stat = json.load(infile).get(target)
        except (IOError, ValueError):
            return (False, 'no translate_status.json')
        if stat is None:
            return (False, 'target not run')
        return (bool(stat['ok']), stat.get('error', ''))

    # ------------------------------------------------------------------ verdicts
    def known_match(self, signature):
        ''' A failing input whose signature is listed as a *known* (unfixed)
        finding is reported as KNOWN-FINDING instead of a violation. '''
        for ent in self.known:
            if ent.get('status') == 'known' and ent.get('signature') == signature:
                return ent
        return None

    def fail(self, signature, what, replay_obj, no_input=False):
        ''' Report a property failure found on the implementation (or a broken
        obligation with no failing input found). '''
        ent = None if no_input else self.known_match(signature)
        if ent is not None:
            if signature not in self.known_hits:
                self.known_hits[signature] = (ent, what)
            return False
        key = hashlib.sha1((signature + repr(what)).encode()).hexdigest()[:12]
        path = os.path.join(BUILD, 'replay', '%s_%s.json' % (self.prop_id, key))
        with open(path, 'w') as out:
            json.dump(dict(property=self.prop_id, signature=signature, what=what, seed=self.seed,
                           tier=self.tier, replay=replay_obj, no_failing_input_found=no_input),
                      out, indent=1, default=repr)
        if len(self.violations) < 20:
            self.violations.append((signature, what, path, no_input))
        return True

    def finish(self, rule, extra_cov=None, assumptions=None):
        # broken proof obligations / ties with no concrete failing input found
        broken = [(name, detail) for (name, okay, detail) in self.obligations if not okay]
        have_input = any(not no_input for (_s, _w, _p, no_input) in self.violations)
        if broken and not have_input:
            self.fail('obligation', 'obligation(s) no longer check: ' + '; '.join('%s [%s]' % (n, d[:300]) for (n, d) in broken),
                      dict(broken=[dict(obligation=n, detail=d) for (n, d) in broken]), no_input=True)
        cov = dict(
            obligations=len(self.obligations),
            discharged=sum(1 for (_n, okay, _d) in self.obligations if okay),
            obligation_list=[dict(name=n, ok=okay) for (n, okay, _d) in self.obligations],
            checker_cmd=' && '.join(self.checker_cmds[:6]) or 'make -f Makefile.conf.mk',
            trusted_base=self.trusted_base,
            evaluations=self.evaluations,
            distinct_nontrivial=len(self.nontrivial),
            rule=rule,
            samples=self.samples or ['(no correspondence cases in this run)'],
            input_distribution=self.hist,
            known_findings_reproduced=[sig for sig in self.known_hits],
        )
        cov.update(self.coverage)
        if extra_cov:
            cov.update(extra_cov)
        evid = dict(
            property_id=self.prop_id,
            tier=self.tier,
            seed=self.seed,
            level=self.level,
            coverage=cov,
            assumptions=(assumptions or []) + self.assumptions + self.notes,
            wall_s=round(time.time() - self.start, 2),
            violations=len(self.violations),
        )
        with open(os.path.join(EVIDENCE, self.prop_id + '.json'), 'w') as out:
            json.dump(evid, out, indent=1, default=repr)
        for (sig, (ent, what)) in sorted(self.known_hits.items()):
            print('KNOWN-FINDING: property=%s %s' % (self.prop_id, ent.get('what', what)))
        for (sig, what, path, no_input) in self.violations:
            print('# %s: %s' % (sig, str(what)[:400]))
            print('VIOLATION property=%s replay=%s%s' % (self.prop_id, path, ' no-failing-input-found' if no_input else ''))
        print('%s %s: obligations %d/%d, evaluations %d (nontrivial %d), violations %d, %.1fs' % (
            self.prop_id, self.tier, cov['discharged'], cov['obligations'], self.evaluations,
            len(self.nontrivial), len(self.violations), time.time() - self.start))
        sys.stdout.flush()
        sys.exit(1 if self.violations else 0)
