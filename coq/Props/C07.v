(* C07 -- TCPCL message framing is independent of how TCP chunks the stream.

   "The sequence of contact header and messages a receiver acts on is
    determined only by the octet stream, never by where the network splits it:
    any prefix of a message (or of the contact header) is left untouched until
    its final octet arrives, a complete message is acted on as soon as its
    final octet arrives, and trailing octets are kept for the next message.
    Every message the implementation encodes is decoded to the same fields by
    an independent RFC 9174 decoder, and vice versa."

   Model (Model/TcpclMsg.v, hand-written, tied to /repo by the correspondence
   run of harness/check_C07.py on every run):
     encode_msg / encode_contact / encode_frame  what scapy's bytes(pkt) emits;
     parse_msg / parse_contact / parse_frame ph  the probe of Messenger.recv_raw
        (ph = _in_conn): Some (frame, remaining octets) iff a complete frame is
        at the front of the buffer;
     rx_loop / rx_recv St phase alive handle           the while-loop of recv_raw for
        ANY handler [handle] (recv_message) over ANY state [St] with phase
        projection [phase]; one rx_recv = one recv_raw(chunk);
     rx_log_recv                                 the same with the logging
        handler (state = ((_in_conn, open), frames acted on so far); as in
        recv_message a contact header with magic "dtn!" and version 4
        (contact_ok) sets _in_conn, any other one closes the connection).
   The field layout in encode_msg/parse_msg is RFC 9174 sections 4.1, 4.7,
   5.1.1, 5.1.2, 5.2.2-5.2.5, 6.1.  The harness carries a second, independent
   decoder/encoder written with plain [struct] from the same RFC sections and
   checks on every run that  scapy (real code) = model = struct codec  on
   generated messages, so C07_codec_roundtrip (model encoder vs model parser)
   is tied both to the implementation and to the independent decoder.

   Extension items.  The framing of XFER_SEGMENT / SESS_INIT only depends on
   the ext_size octets of the extension region (carried as opaque octets in
   the message), and at that level the codec round trip holds in full
   (C07_codec_roundtrip).  One level down, the FULL-STRENGTH statement

       forall items, Forall (wf_ext known) items ->
         scapy_view known (encode_exts items) = map item_view items

   ("the implementation's dissector reports the items an RFC 9174 encoder
   wrote") is FALSE for the code as it stands: C07_codec_exts_refuted.  Any
   list of two or more items is reported as one Raw blob (TlvHead lacks
   extract_padding, so the length check of the first item sees the following
   items as part of its payload); C07_codec_exts_defect_exact.  Proved instead:
   C07_codec_exts_partial (lists of at most one item, which is what the
   implementation sends by default), C07_codec_exts_spec (the RFC reading is an
   exact inverse of the item encoder).  The receive path never looks at the
   items (recv_xfer_data ignores ext_items), so no other C07 clause is touched.
   Known finding "C07 / ext-item list with >= 2 items dissected as one Raw blob". *)
From Coq Require Import List NArith Bool.
Import ListNotations.
From DTN Require Import Lib.Bytes Model.TcpclMsg Proofs.TcpclMsgProofs.
Local Open Scope N_scope.

(* ---- split invariance: for EVERY octet stream (valid or not), EVERY handler
        and state, the state reached and the octets kept after a sequence of
        reads depend only on the concatenation of the reads *)
Theorem C07_split_invariance :
  forall (St : Type) (phase alive : St -> bool) (handle : St -> frame -> St)
         (chunks : list bytes) (c : bytes) (st : St * bytes),
    fold_left (rx_recv St phase alive handle) chunks (rx_recv St phase alive handle st c)
    = rx_recv St phase alive handle st (c ++ concat chunks).
Proof. exact rx_split_invariance. Qed.
Print Assumptions C07_split_invariance.

Theorem C07_two_reads_are_one :
  forall (St : Type) (phase alive : St -> bool) (handle : St -> frame -> St)
         (st : St * bytes) (c1 c2 : bytes),
    rx_recv St phase alive handle (rx_recv St phase alive handle st c1) c2 = rx_recv St phase alive handle st (c1 ++ c2).
Proof. exact rx_recv_recv. Qed.
Print Assumptions C07_two_reads_are_one.

(* ---- two ways of cutting the same stream: same frames acted on (in the same
        order, by the logging handler: literally the same log), same octets kept *)
Theorem C07_stream_only :
  forall (St : Type) (phase alive : St -> bool) (handle : St -> frame -> St)
         (chunks1 chunks2 : list bytes) (s : St),
    concat chunks1 = concat chunks2 ->
    fold_left (rx_recv St phase alive handle) chunks1 (s, []) = fold_left (rx_recv St phase alive handle) chunks2 (s, []).
Proof. exact rx_stream_only. Qed.
Print Assumptions C07_stream_only.

Theorem C07_frames_acted_on_stream_only :
  forall (chunks1 chunks2 : list bytes),
    concat chunks1 = concat chunks2 ->
    fold_left rx_log_recv chunks1 rx_init = fold_left rx_log_recv chunks2 rx_init.
Proof. exact (fun c1 c2 => rx_stream_only log_state log_phase log_alive log_handle c1 c2 ((false, true), [])). Qed.
Print Assumptions C07_frames_acted_on_stream_only.
Example C07_frames_acted_on_stream_only_nonvacuous :
  (* contact header, KEEPALIVE, SESS_TERM cut 4|3|1|2 and 1|9: same result, both frames logged *)
  fold_left rx_log_recv [[100;116;110;33]; [4;0;4]; [5]; [1;3]] rx_init
  = fold_left rx_log_recv [[100]; [116;110;33;4;0;4;5;1;3]] rx_init
  /\ fold_left rx_log_recv [[100]; [116;110;33;4;0;4;5;1;3]] rx_init
     = (((true, true), [FContact (mkContact MAGIC 4 0); FMsg MKeepalive; FMsg (MSessTerm 1 3)]), []).
Proof. split; vm_compute; reflexivity. Qed.

(* ---- frames already acted on are never revised by later reads *)
Theorem C07_log_only_grows :
  forall (st : log_state * bytes) (c : bytes),
    exists more, snd (fst (rx_log_recv st c)) = snd (fst st) ++ more.
Proof. exact rx_log_mono. Qed.
Print Assumptions C07_log_only_grows.

(* ---- once the handler has closed the connection nothing more is acted on:
        later octets are only appended to the buffer *)
Theorem C07_closed_inert :
  forall (St : Type) (phase alive : St -> bool) (handle : St -> frame -> St)
         (s : St) (buf c : bytes),
    alive s = false -> rx_recv St phase alive handle (s, buf) c = (s, buf ++ c).
Proof. exact rx_closed_inert. Qed.
Print Assumptions C07_closed_inert.
Example C07_closed_inert_nonvacuous :
  (* bad magic: the header is handled (and closes), the KEEPALIVE behind it is not *)
  rx_log_recv rx_init [100;116;110;63;4;0;4] = (((false, false), [FContact (mkContact [100;116;110;63] 4 0)]), [4]).
Proof. vm_compute. reflexivity. Qed.

(* ---- a strict prefix of a frame is left untouched (probe level) ... *)
Theorem C07_prefix_untouched :
  forall (ph : bool) (f : frame) (p q : bytes),
    accepts ph f -> encode_frame f = p ++ q -> q <> [] -> parse_frame ph p = None.
Proof. exact frame_prefix. Qed.
Print Assumptions C07_prefix_untouched.

(* ---- ... and by the loop, for any handler: state and buffer unchanged *)
Theorem C07_prefix_untouched_loop :
  forall (St : Type) (phase alive : St -> bool) (handle : St -> frame -> St)
         (s : St) (f : frame) (p q : bytes),
    accepts (phase s) f -> encode_frame f = p ++ q -> q <> [] ->
    rx_recv St phase alive handle (s, []) p = (s, p).
Proof. exact rx_prefix_untouched. Qed.
Print Assumptions C07_prefix_untouched_loop.
Example C07_prefix_untouched_nonvacuous :
  (* 22 of the 23 octets of a START|END segment with no items and one data octet *)
  let f := FMsg (MXferSeg 3 7 [] [65]) in
  accepts true f /\ encode_frame f = firstn 22 (encode_frame f) ++ [65]
  /\ parse_frame true (firstn 22 (encode_frame f)) = None
  /\ parse_frame false [100;116;110;33;4] = None.
Proof.
  cbv zeta. split; [split; [apply wf_msgb_wf; reflexivity|reflexivity]|].
  split; [|split]; vm_compute; reflexivity.
Qed.

(* ---- a complete frame is acted on in the read that delivers its final
        octet: p held in the buffer, q arrives, the frame is handled, nothing is kept *)
Theorem C07_complete_acted_on :
  forall (St : Type) (phase alive : St -> bool) (handle : St -> frame -> St)
         (s : St) (f : frame) (p q : bytes),
    alive s = true -> accepts (phase s) f -> encode_frame f = p ++ q ->
    rx_recv St phase alive handle (s, p) q = (handle s f, []).
Proof. exact rx_complete_acted_on. Qed.
Print Assumptions C07_complete_acted_on.
Example C07_complete_acted_on_nonvacuous :
  (* a lone KEEPALIVE octet is complete; the last octet of a contact header completes it *)
  rx_log_recv (((true, true), []), []) [4] = (((true, true), [FMsg MKeepalive]), [])
  /\ rx_log_recv (((false, true), []), [100;116;110;33;4]) [1] = (((true, true), [FContact (mkContact MAGIC 4 1)]), []).
Proof. split; vm_compute; reflexivity. Qed.

(* ---- trailing octets are kept for the next message (probe level) *)
Theorem C07_tail_kept :
  forall (ph : bool) (f : frame) (rest : bytes),
    accepts ph f -> parse_frame ph (encode_frame f ++ rest) = Some (f, rest).
Proof. exact frame_parse_encode. Qed.
Print Assumptions C07_tail_kept.

(* ---- what the probe consumes is exactly the re-encoding of what it returns
        (recv_raw's "read back the encoded data"), on any buffer of octets *)
Theorem C07_consumed_is_encoding :
  forall (ph : bool) (b : bytes) (f : frame) (r : bytes),
    wf_bytes b -> parse_frame ph b = Some (f, r) ->
    b = encode_frame f ++ r /\ accepts ph f /\ wf_bytes r.
Proof. exact frame_parse_sound. Qed.
Print Assumptions C07_consumed_is_encoding.

(* ---- a decision once taken is not changed by octets that arrive later *)
Theorem C07_probe_stable :
  forall (ph : bool) (b e : bytes) (f : frame) (r : bytes),
    parse_frame ph b = Some (f, r) -> parse_frame ph (b ++ e) = Some (f, r ++ e).
Proof. exact frame_parse_app. Qed.
Print Assumptions C07_probe_stable.

(* ---- a well-formed stream: every frame is handled, in order, nothing is left *)
Theorem C07_stream :
  forall (St : Type) (phase alive : St -> bool) (handle : St -> frame -> St)
         (fs : list frame) (s : St),
    rx_consistent St phase alive handle s fs ->
    rx_recv St phase alive handle (s, []) (concat (map encode_frame fs)) = (fold_left handle fs s, []).
Proof. exact rx_stream. Qed.
Print Assumptions C07_stream.

Theorem C07_stream_log :
  forall (c : contact) (ms : list msg),
    wf_contact c -> contact_ok c = true -> Forall wf_msg ms ->
    rx_log_recv rx_init (concat (map encode_frame (FContact c :: map FMsg ms)))
    = (((true, true), FContact c :: map FMsg ms), []).
Proof. exact rx_log_stream. Qed.
Print Assumptions C07_stream_log.

(* ---- any cut of any prefix of a well-formed stream: exactly the frames whose
        final octet has arrived have been acted on, the octets [q] of the next,
        incomplete frame are kept *)
Theorem C07_any_cut :
  forall (c : contact) (ms : list msg) (fs1 : list frame) (f : frame) (fs2 : list frame)
         (q q' : bytes) (chunks : list bytes),
    wf_contact c -> contact_ok c = true -> Forall wf_msg ms ->
    FContact c :: map FMsg ms = fs1 ++ f :: fs2 ->
    encode_frame f = q ++ q' -> q' <> [] ->
    concat chunks = concat (map encode_frame fs1) ++ q ->
    fold_left rx_log_recv chunks rx_init
    = (((match fs1 with [] => false | _ => true end, true), fs1), q).
Proof. exact rx_log_any_cut. Qed.
Print Assumptions C07_any_cut.

Theorem C07_any_cut_all :
  forall (c : contact) (ms : list msg) (chunks : list bytes),
    wf_contact c -> contact_ok c = true -> Forall wf_msg ms ->
    concat chunks = concat (map encode_frame (FContact c :: map FMsg ms)) ->
    fold_left rx_log_recv chunks rx_init = (((true, true), FContact c :: map FMsg ms), []).
Proof. exact rx_log_any_cut_all. Qed.
Print Assumptions C07_any_cut_all.

(* non-vacuity: a contact header and one message of every type (START segment
   carrying the Transfer Length extension item, a zero-length END segment, a
   SESS_INIT with a node id and the private session extension) is a well-formed
   stream, and the model handles exactly these ten frames (example_msgs is
   spelled out in Proofs/TcpclMsgProofs.v) *)
Example C07_stream_nonvacuous :
  wf_contact (mkContact MAGIC 4 0) /\ contact_ok (mkContact MAGIC 4 0) = true /\ Forall wf_msg example_msgs
  /\ length (concat (map encode_frame (FContact (mkContact MAGIC 4 0) :: map FMsg example_msgs))) = 167%nat
  /\ snd (fst (rx_log_recv rx_init (concat (map encode_frame (FContact (mkContact MAGIC 4 0) :: map FMsg example_msgs)))))
     = FContact (mkContact MAGIC 4 0) :: map FMsg example_msgs.
Proof.
  split; [|split; [|split; [|split]]].
  - repeat split; try reflexivity. repeat constructor.
  - reflexivity.
  - apply wf_msgs_forallb. vm_compute. reflexivity.
  - vm_compute. reflexivity.
  - vm_compute. reflexivity.
Qed.

(* ---- codec round trip (message level, extension region as octets): the
        parser inverts the encoder, with any trailing octets kept *)
Theorem C07_codec_roundtrip :
  forall (m : msg) (rest : bytes),
    wf_msg m -> parse_msg (encode_msg m ++ rest) = Some (m, rest).
Proof. exact parse_encode. Qed.
Print Assumptions C07_codec_roundtrip.

(* ---- and vice versa: whatever the parser accepts is the encoding of what it
        returns (so decode-then-encode is the identity on the consumed octets) *)
Theorem C07_codec_roundtrip_converse :
  forall (b : bytes) (m : msg) (r : bytes),
    wf_bytes b -> parse_msg b = Some (m, r) -> b = encode_msg m ++ r /\ wf_msg m /\ wf_bytes r.
Proof. exact parse_sound. Qed.
Print Assumptions C07_codec_roundtrip_converse.

Theorem C07_codec_contact_roundtrip :
  forall (c : contact) (rest : bytes),
    wf_contact c -> parse_contact (encode_contact c ++ rest) = Some (c, rest).
Proof. exact contact_parse_encode. Qed.
Print Assumptions C07_codec_contact_roundtrip.

(* ---- unique decodability: no encoding is a prefix of another *)
Theorem C07_codec_prefix_free :
  forall (a b : msg) (x y : bytes),
    wf_msg a -> wf_msg b -> encode_msg a ++ x = encode_msg b ++ y -> a = b /\ x = y.
Proof. exact encode_prefix_free. Qed.
Print Assumptions C07_codec_prefix_free.

Example C07_codec_nonvacuous :
  forallb wf_msgb example_msgs = true
  /\ map (fun m => parse_msg (encode_msg m ++ [4])) example_msgs
     = map (fun m => Some (m, [4])) example_msgs
  /\ encode_msg (MXferSeg 2 1 (encode_exts [mkExt 1 1 [0;0;0;0;0;0;0;3]]) [1;2;3])
     = [1; 2; 0;0;0;0;0;0;0;1; 0;0;0;13; 1; 0;1; 0;8; 0;0;0;0;0;0;0;3; 0;0;0;0;0;0;0;3; 1;2;3].
Proof. split; [|split]; vm_compute; reflexivity. Qed.

(* ---- extension items: the RFC 9174 reading inverts the item encoder *)
Theorem C07_codec_exts_spec :
  forall (known : N -> option nat) (items : list extitem),
    Forall (wf_ext known) items -> spec_exts known (encode_exts items) = Some items.
Proof. exact spec_exts_encode. Qed.
Print Assumptions C07_codec_exts_spec.

Theorem C07_codec_exts_spec_converse :
  forall (known : N -> option nat) (region : bytes) (items : list extitem),
    wf_bytes region -> spec_exts known region = Some items ->
    region = encode_exts items /\ Forall (wf_ext known) items.
Proof. exact spec_exts_sound. Qed.
Print Assumptions C07_codec_exts_spec_converse.

(* ---- the full-strength item statement is false for the implementation's
        dissector: the two items the implementation itself sends with
        enable_test=private_extensions (private dummy 0xFF + Transfer Length)
        are reported as one Raw blob *)
Theorem C07_codec_exts_refuted :
  exists items : list extitem,
    Forall (wf_ext xfer_ext_len) items
    /\ scapy_view xfer_ext_len (encode_exts items) <> map item_view items.
Proof. exact scapy_exts_refuted. Qed.
Print Assumptions C07_codec_exts_refuted.

(* ---- exactly that: every list of two or more items, nothing else *)
Theorem C07_codec_exts_defect_exact :
  forall (known : N -> option nat) (items : list extitem),
    Forall (wf_ext known) items -> (2 <= length items)%nat ->
    scapy_view known (encode_exts items) = [XRaw (encode_exts items)].
Proof. exact scapy_view_ge2. Qed.
Print Assumptions C07_codec_exts_defect_exact.

Theorem C07_codec_exts_partial :
  forall (known : N -> option nat) (items : list extitem),
    Forall (wf_ext known) items -> (length items <= 1)%nat ->
    scapy_view known (encode_exts items) = map item_view items.
Proof. exact scapy_view_le1. Qed.
Print Assumptions C07_codec_exts_partial.
Example C07_codec_exts_partial_nonvacuous :
  wf_ext xfer_ext_len (mkExt 1 1 [0;0;0;0;0;0;0;3])
  /\ scapy_view xfer_ext_len (encode_exts [mkExt 1 1 [0;0;0;0;0;0;0;3]]) = [XItem 1 1 8 [0;0;0;0;0;0;0;3]]
  /\ scapy_view xfer_ext_len (encode_exts [mkExt 0 255 [0;0;0;0;0;0;0;0;0;0]; mkExt 0 1 [0;0;0;0;0;0;0;2]])
     = [XRaw (encode_exts [mkExt 0 255 [0;0;0;0;0;0;0;0;0;0]; mkExt 0 1 [0;0;0;0;0;0;0;2]])].
Proof. split; [apply wf_extb_wf; reflexivity|]. split; vm_compute; reflexivity. Qed.
