(** C10 - BP agent processes each received bundle at most once and routes by first match.

    Model: Model/BpAgent.v ([recv_core] = one call of Agent.recv_bundle, [recv] = one bundle from the CL
    with the re-injection of a completed reassembly, [run] = a history).  [matches] is Python's
    [pattern.match(eid) is not None]; every theorem holds for every such function.
    Events: [EvDeliver] (delivery callback), [EvTx]/[EvFrags] (bundle handed to the CL whole / as
    fragments), [EvReport]/[EvReportFrags] (status report handed to the CL), [EvSendFail]. *)
From Coq Require Import NArith List Bool.
From Coq Require Import String.
From DTN Require Import Gen.ReportTable Gen.Chain Gen.RecvGates Model.BpAgent Proofs.BpAgentProofs Proofs.BpAgentGates.
Import ListNotations.
Local Open Scope N_scope.

(** For all histories (any initial agent state, any routing tables, repeats, fragments, look-alikes):
    at most one processing with any effect per identity. *)
Theorem C10_at_most_once :
  forall (matches : N -> eid -> bool) (hist : list bundle) (a : agent) (i : ident),
    (List.length (acts_on i (snd (run matches a hist))) <= 1)%nat.
Proof. exact at_most_once. Qed.
Print Assumptions C10_at_most_once.

(** A repeat of an identity already seen causes no delivery, forwarding or report and changes nothing. *)
Theorem C10_repeat_ignored :
  forall (matches : N -> eid -> bool) (a : agent) (b : bundle),
    In (ident_of b) (a_seen a) -> recv matches a b = (a, [(b, [])]).
Proof. exact duplicate_ignored. Qed.
Print Assumptions C10_repeat_ignored.

(** After any processing with an effect the identity is in the seen set (so the next copy is a repeat). *)
Theorem C10_acted_then_seen :
  forall (matches : N -> eid -> bool) (a : agent) (b : bundle),
    snd (fst (recv_core matches a b)) <> [] ->
    ~ In (ident_of b) (a_seen a) /\ In (ident_of b) (a_seen (fst (fst (recv_core matches a b)))).
Proof. exact recv_core_acted. Qed.
Print Assumptions C10_acted_then_seen.

Theorem C10_own_source_ignored :
  forall (matches : N -> eid -> bool) (a : agent) (b : bundle),
    b_src b = a_node a -> recv matches a b = (a, [(b, [])]).
Proof. exact own_source_ignored. Qed.
Print Assumptions C10_own_source_ignored.

(** The action is that of the FIRST receive route whose pattern matches the destination
    ([find] returns the first element satisfying the test). *)
Theorem C10_first_match :
  forall (matches : N -> eid -> bool) (a : agent) (b : bundle),
    accepted a b = true -> local_dest a b = false ->
    let act := option_map snd (find (fun r => matches (fst r) (b_dst b)) (a_rx a)) in
    let evs := snd (fst (recv_core matches a b)) in
    (has_deliver evs = true -> act = Some ADlv)
    /\ (has_tx evs = true -> act = Some AFwd)
    /\ (act = Some ADlv -> b_frag b = None -> (has_deliver evs = true <-> b_sec b = None) /\ has_tx evs = false)
    /\ (act = Some AFwd -> has_deliver evs = false /\ has_tx evs = negb (prep_fails b) && tx_ok matches a b)
    /\ (act <> Some ADlv -> act <> Some AFwd -> has_deliver evs = false /\ has_tx evs = false).
Proof. exact first_match. Qed.
Print Assumptions C10_first_match.

(** Bundles addressed to the node's own administrative endpoint (or to an endpoint a loaded application
    registered) are delivered whatever the table says - unless BPSec verification fails (C12). *)
Theorem C10_admin_delivered :
  forall (matches : N -> eid -> bool) (a : agent) (b : bundle),
    accepted a b = true -> local_dest a b = true -> b_frag b = None ->
    let evs := snd (fst (recv_core matches a b)) in
    (has_deliver evs = true <-> b_sec b = None) /\ has_tx evs = false.
Proof. exact local_delivered. Qed.
Print Assumptions C10_admin_delivered.

(** A bundle matching no route is neither delivered nor forwarded (indeed nothing at all happens). *)
Theorem C10_no_route_no_action :
  forall (matches : N -> eid -> bool) (a : agent) (b : bundle),
    accepted a b = true -> local_dest a b = false ->
    option_map snd (find (fun r => matches (fst r) (b_dst b)) (a_rx a)) = None ->
    snd (fst (recv_core matches a b)) = [] /\ snd (recv_core matches a b) = None.
Proof. exact no_route_no_action. Qed.
Print Assumptions C10_no_route_no_action.

(** Identities are equal iff all components are: look-alikes differing in one component are distinct. *)
Theorem C10_ident_inj :
  forall b1 b2 : bundle,
    ident_eqb (ident_of b1) (ident_of b2) = true
    <-> b_src b1 = b_src b2 /\ b_time b1 = b_time b2 /\ b_seq b1 = b_seq b2 /\ b_frag b1 = b_frag b2.
Proof. exact ident_inj. Qed.
Print Assumptions C10_ident_inj.

(** One received bundle, one action: in one call of recv_bundle at most one status report is built (handed to
    send_bundle), at most one delivery callback fires and the bundle is handed to a CL at most once.
    [count p evs] = number of events satisfying p; [is_report_ev] covers a report sent whole, as fragments,
    or failing in send_bundle.  (The tail of recv_bundle is translated into Gen/RecvTail.v; without the
    [return] of its delete branch this does not hold.) *)
Theorem C10_one_action_per_bundle :
  forall (matches : N -> eid -> bool) (a : agent) (b : bundle),
    let evs := snd (fst (recv_core matches a b)) in
    (count is_report_ev evs <= 1)%nat /\ (count is_deliver_ev evs <= 1)%nat /\ (count is_tx_ev evs <= 1)%nat.
Proof. exact one_finish. Qed.
Print Assumptions C10_one_action_per_bundle.

(** The finish step for EVERY action record: 'delete' takes precedence - one finish, nothing handed to a CL -
    also when 'deliver' and/or 'forward' are recorded too (an application step refusing a bundle already
    accepted for delivery); without 'delete', one finish unless both 'deliver' and 'forward' are recorded. *)
Theorem C10_delete_takes_precedence :
  forall (matches : N -> eid -> bool) (a : agent) (b : bundle) (acts : list action) (rsn : option N) (c : bool),
    let evs := snd (final matches a b acts rsn c) in
    (mem ADel acts = true -> (count is_report_ev evs <= 1)%nat /\ count is_tx_ev evs = 0%nat)
    /\ (mem ADlv acts && mem AFwd acts = false -> (count is_report_ev evs <= 1)%nat)
    /\ (count is_deliver_ev evs <= 1)%nat /\ (count is_tx_ev evs <= 1)%nat.
Proof. exact final_counts. Qed.
Print Assumptions C10_delete_takes_precedence.

(** The chain-step orders found in the source (Gen/Chain.v), stably sorted as Agent.__init__ does, give
    the step sequence the model follows. *)
Theorem C10_chain_order :
  chain_ids Gen.Chain.rx_steps =
    [("admin", "_rx_route"); ("sand", "_rx_route"); ("safe", "_rx_route"); ("agent", "_do_rx_step");
     ("fragment", "_reassemble"); ("bpsec", "_verify_bcb"); ("bpsec", "_verify_bib");
     ("admin", "_recv_bundle"); ("sand", "_recv_bundle"); ("safe", "_recv_bundle")]%string
  /\ chain_ids Gen.Chain.tx_steps =
    [("sand", "_tx_route"); ("agent", "_do_tx_step"); ("bpsec", "_apply_bib"); ("bpsec", "_apply_bcb");
     ("fragment", "_create")]%string.
Proof. exact chain_order. Qed.
Print Assumptions C10_chain_order.

(** ---- non-vacuity: concrete inputs satisfying the hypotheses, evaluated ---- *)

(* accepted, not local, first of two matching routes is 'forward' and the second 'deliver': forwarded *)
Example C10_first_match_example :
  let m := table_matches [(0, 9); (1, 9); (1001, 9); (1000, 7)] in
  let a := w_agent [(0, AFwd); (1, ADlv)] [w_rpt_route; w_fwd_route] in
  let b := w_bundle 1000 1 None in
  accepted a b = true /\ local_dest a b = false
  /\ has_tx (snd (fst (recv_core m a b))) = true /\ has_deliver (snd (fst (recv_core m a b))) = false.
Proof. vm_compute. repeat split. Qed.

Example C10_admin_delivered_example :
  let a := w_agent [(0, AFwd)] [w_rpt_route] in
  let b := mkBundle 5 1 7 1000 1 None ALL_REPORT_FLAGS 5 true None 0 95 true false in
  accepted a b = true /\ local_dest a b = true /\ has_deliver (snd (fst (recv_core w_matches a b))) = true.
Proof. vm_compute. repeat split. Qed.

(* a history with a repeat, a look-alike and two fragments: every identity acted on exactly once or never *)
Example C10_at_most_once_example :
  let a := w_agent [(0, AFwd)] [w_rpt_route; w_fwd_route] in
  let h := [w_bundle 1000 1 None; w_bundle 1000 1 None; w_bundle 1000 2 None;
            w_bundle 1000 1 (Some (0, 10)); w_bundle 1000 1 (Some (5, 10)); w_bundle 1000 1 (Some (0, 10))] in
  map (fun i => List.length (acts_on i (snd (run w_matches a h))))
      [ident_of (w_bundle 1000 1 None); ident_of (w_bundle 1000 2 None);
       ident_of (w_bundle 1000 1 (Some (0, 10))); ident_of (w_bundle 1000 1 (Some (5, 10)));
       ident_of (w_bundle 1000 3 None)]
  = [1; 1; 1; 1; 0]%nat.
Proof. vm_compute. reflexivity. Qed.

(* a bundle for the administrative endpoint that the admin element refuses (ACME record it rejects): the record
   holds receive, deliver and delete; ONE report, one delivery callback, nothing forwarded *)
Example C10_refused_example :
  let a := w_agent [] [w_rpt_route] in
  let b := mkBundle 5 1 7 1000 1 None ALL_REPORT_FLAGS 5 true None 0 95 true true in
  chain_acts w_matches a b = [ARecv; ADlv; ADel]
  /\ map (fun p => count p (snd (fst (recv_core w_matches a b)))) [is_report_ev; is_deliver_ev; is_tx_ev] = [1; 1; 0]%nat.
Proof. vm_compute. split; reflexivity. Qed.

Example C10_no_route_example :
  let a := w_agent [] [w_rpt_route] in
  let b := w_bundle 1000 1 None in
  accepted a b = true /\ local_dest a b = false
  /\ option_map snd (find (fun r => w_matches (fst r) (b_dst b)) (a_rx a)) = None.
Proof. vm_compute. repeat split. Qed.

(** ---- admission gates: the head of Agent.recv_bundle, translated into Gen/RecvGates.v ----
    [run_gates gates a b] walks the gates as the source statements behave (a rejecting gate returns; the
    seen-set insert takes effect whatever follows it) and yields (admitted?, agent, 'receive' recorded?). *)

(** The gates in source order let through exactly the bundles the model's [recv_core] processes; when they let one through,
    the identity and 'receive' are recorded; when they reject, the agent is untouched. *)
Theorem C10_gates_match_model :
  forall (a : agent) (b : bundle),
    let '(ok, a', rcv) := run_gates recv_gates a b in
    ok = accepted a b /\ rcv = accepted a b
    /\ a' = (if accepted a b then set_seen a (a_seen a ++ [ident_of b]) else a).
Proof. exact gates_match_model. Qed.
Print Assumptions C10_gates_match_model.

(** The identity is recorded only after the CRC gate has passed: a bundle failing the CRC check leaves no
    trace (so a damaged copy cannot suppress the intact one). *)
Theorem C10_gates_crc_before_seen :
  forall (a : agent) (b : bundle),
    b_crc_ok b = false -> run_gates recv_gates a b = (false, a, false).
Proof. exact gates_crc_first. Qed.
Print Assumptions C10_gates_crc_before_seen.

(** [recv_core] leaves exactly the seen list the gates leave, and does nothing at all when they reject. *)
Theorem C10_gates_recv_core :
  forall (matches : N -> eid -> bool) (a : agent) (b : bundle),
    a_seen (fst (fst (recv_core matches a b))) = a_seen (snd (fst (run_gates recv_gates a b)))
    /\ (fst (fst (run_gates recv_gates a b)) = false -> recv_core matches a b = (a, [], None)).
Proof. exact gates_recv_core. Qed.
Print Assumptions C10_gates_recv_core.

Theorem C10_gates_order : recv_gates = [GCrc; GOwnSource; GSeenTest; GSeenRecord; GReceive].
Proof. exact gates_order. Qed.
Print Assumptions C10_gates_order.

(* non-vacuity: a CRC-damaged bundle is rejected with the seen list unchanged; the intact one is admitted *)
Example C10_gates_example :
  let a := w_agent [(0, AFwd)] [w_rpt_route] in
  let bad := mkBundle 5 9 7 1000 1 None ALL_REPORT_FLAGS 5 false None 0 95 true false in
  run_gates recv_gates a bad = (false, a, false)
  /\ fst (fst (run_gates recv_gates a (w_bundle 1000 1 None))) = true
  /\ a_seen (snd (fst (run_gates recv_gates a (w_bundle 1000 1 None)))) = [ident_of (w_bundle 1000 1 None)].
Proof. vm_compute. repeat split. Qed.
