(** Proofs about [Model/BpSec.v]: AAD agreement between source and verifier,
    injectivity of the authenticated input in exactly the covered content
    (binding), completeness / soundness of BIB verification and of BCB
    decryption relative to explicitly stated idealised primitives. *)
From Coq Require Import List NArith ZArith Arith Bool Lia ZifyBool ZifyN ZifyNat.
From DTN Require Import Lib.Bytes Lib.Cbor Lib.CborProofs Lib.Crc Model.BpSec.
Import ListNotations.
Local Open Scope N_scope.

Lemma some_inj {A} (a b : A) : Some a = Some b -> a = b.
Proof. intros H. injection H as H. exact H. Qed.

(** * CBOR sequences are uniquely decodable *)

Lemma encode_seq_inj l : forall l', Forall wf l -> Forall wf l' -> encode_seq l = encode_seq l' -> l = l'.
Proof.
  induction l as [|x l IH]; intros [|y l'] Hl Hl' E.
  - reflexivity.
  - rewrite encode_seq_nil, encode_seq_cons in E. symmetry in E. apply app_eq_nil in E as [E _].
    exfalso. exact (encode_nonempty y E).
  - rewrite encode_seq_nil, encode_seq_cons in E. apply app_eq_nil in E as [E _].
    exfalso. exact (encode_nonempty x E).
  - rewrite !encode_seq_cons in E. inversion Hl; subst. inversion Hl'; subst.
    apply encode_prefix_free in E as [-> E]; [|assumption|assumption].
    f_equal. apply IH; assumption.
Qed.

Lemma app_inj_len {A} (a : list A) : forall b c d, length a = length c -> a ++ b = c ++ d -> a = c /\ b = d.
Proof.
  induction a as [|x a IH]; intros b [|y c] d L E; cbn in L; try discriminate.
  - split; [reflexivity|exact E].
  - cbn in E. injection E as -> E. injection L as L. destruct (IH b c d L E) as [-> ->]. split; reflexivity.
Qed.

Lemma concat_inj_len {A} (x : list (list A)) : forall y,
  Forall2 (fun a b => length a = length b) x y -> concat x = concat y -> x = y.
Proof.
  induction x as [|a x IH]; intros y F E; inversion F; subst; [reflexivity|].
  cbn [concat] in E. apply app_inj_len in E as [-> E]; [|assumption].
  f_equal. apply IH; assumption.
Qed.

(** * Shape of the per-entry contributions *)

Definition entry_len (kf : cbor * N) : nat :=
  match fst kf with
  | CUint 0 => if flag_meta (snd kf) then 1%nat else 0%nat
  | _ => ((if flag_meta (snd kf) then 3 else 0) + (if flag_btsd (snd kf) then 1 else 0))%nat
  end.

Lemma block_items_length c f :
  length (block_items c f) = ((if flag_meta f then 3 else 0) + (if flag_btsd f then 1 else 0))%nat.
Proof. unfold block_items. rewrite app_length. destruct (flag_meta f), (flag_btsd f); reflexivity. Qed.

Lemma scope_entry_length b sec tgt k f e :
  scope_entry b sec tgt k f = Some e -> length e = entry_len (k, f).
Proof.
  unfold scope_entry, entry_len. cbn [fst snd]. intros H.
  destruct k as [n|n| | | | | |]; try discriminate.
  - destruct n as [|p].
    + injection H as <-. destruct (flag_meta f); reflexivity.
    + destruct (find_block b (N.pos p)); [|discriminate]. injection H as <-. apply block_items_length.
  - destruct n as [|p]; [injection H as <-; apply block_items_length|].
    destruct p; try discriminate. injection H as <-. apply block_items_length.
Qed.

Lemma scope_items_shape b sec tgt s : forall ents,
  scope_items b sec tgt s = Some ents -> Forall2 (fun kf e => length e = entry_len kf) s ents.
Proof.
  induction s as [|[k f] s IH]; intros ents H; cbn [scope_items] in H.
  - injection H as <-. constructor.
  - destruct (scope_entry b sec tgt k f) eqn:E; [|discriminate].
    destruct (scope_items b sec tgt s) eqn:R; [|discriminate].
    injection H as <-. constructor; [eapply scope_entry_length; eassumption | apply IH; reflexivity].
Qed.

(** * The authenticated input as a function of the covered content *)

Definition cov_items (c : ctx_t) : list cbor :=
  [cv_source c; scope_map (cv_scope c)] ++ concat (cv_blocks c) ++ [CBstr (cv_addl c)].

Definition mac_of_cov (x : ctx_t * bytes) : bytes :=
  encode (CArr [CTstr (cv_context (fst x)); CBstr (cv_protected (fst x));
                CBstr (encode_seq (cov_items (fst x))); CBstr (snd x)]).

Definition enc_of_cov (c : ctx_t) : bytes :=
  encode (CArr [CTstr (cv_context c); CBstr (cv_protected c); CBstr (encode_seq (cov_items c))]).

Lemma op_aad_covered o : op_aad o = option_map (fun c => encode_seq (cov_items c)) (covered_ctx o).
Proof.
  unfold op_aad, external_aad, aad_items, covered_ctx.
  destruct (scope_items (op_bundle o) (op_sec o) (op_tgt o) (canon_scope (op_scope o))); reflexivity.
Qed.

Lemma mac_input_covered o : mac_input o = option_map mac_of_cov (covered o).
Proof.
  unfold mac_input, covered. rewrite op_aad_covered. unfold covered_ctx.
  destruct (scope_items (op_bundle o) (op_sec o) (op_tgt o) (canon_scope (op_scope o))); reflexivity.
Qed.

Lemma enc_input_covered o : enc_input o = option_map enc_of_cov (covered_ctx o).
Proof.
  unfold enc_input. rewrite op_aad_covered. unfold covered_ctx.
  destruct (scope_items (op_bundle o) (op_sec o) (op_tgt o) (canon_scope (op_scope o))); reflexivity.
Qed.

(** Well-formedness: every item bound into the AAD is a well-formed CBOR item
    (integers below 2^64, octets below 256, lengths below 2^64) and the AAD,
    the protected bucket, the context string and the payload are octet
    strings shorter than 2^64. *)
Definition okbytes (x : bytes) : Prop := wf (CBstr x).

Definition wf_ctx (c : ctx_t) : Prop :=
  okbytes (cv_context c) /\ okbytes (cv_protected c) /\ Forall wf (cov_items c) /\
  okbytes (encode_seq (cov_items c)).

Definition wf_cov (x : ctx_t * bytes) : Prop := wf_ctx (fst x) /\ okbytes (snd x).

Definition cov_shape (c : ctx_t) : Prop :=
  Forall2 (fun kf e => length e = entry_len kf) (cv_scope c) (cv_blocks c).

Definition wf_op (o : secop) : Prop :=
  match covered o with Some x => wf_cov x | None => True end.

Definition wf_op_ctx (o : secop) : Prop :=
  match covered_ctx o with Some c => wf_ctx c | None => True end.

Lemma covered_ctx_shape o c : covered_ctx o = Some c -> cov_shape c.
Proof.
  unfold covered_ctx, cov_shape. intros H.
  destruct (scope_items _ _ _ _) eqn:E; [|discriminate]. injection H as <-. cbn.
  eapply scope_items_shape; eassumption.
Qed.

Lemma scope_map_inj s s' : scope_map s = scope_map s' -> s = s'.
Proof.
  unfold scope_map. intros H. injection H as H. revert s' H.
  induction s as [|[k f] s IH]; intros [|[k' f'] s'] H; cbn in H; try discriminate; [reflexivity|].
  injection H as -> -> H. f_equal. apply IH, H.
Qed.

Lemma cov_items_inj c c' :
  cov_shape c -> cov_shape c' -> cov_items c = cov_items c' ->
  cv_source c = cv_source c' /\ cv_scope c = cv_scope c' /\ cv_blocks c = cv_blocks c' /\ cv_addl c = cv_addl c'.
Proof.
  unfold cov_items, cov_shape. intros S S' E. cbn [app] in E.
  injection E as Es Em0 E.
  assert (Em : cv_scope c = cv_scope c') by (apply scope_map_inj; unfold scope_map; f_equal; exact Em0).
  apply app_inj_tail in E as [E Ea]. injection Ea as Ea.
  repeat split; try assumption.
  apply concat_inj_len; [|exact E].
  rewrite Em in S. clear - S S'.
  revert S S'. generalize (cv_blocks c) (cv_blocks c') (cv_scope c').
  intros x y s. revert x y. induction s as [|kf s IH]; intros x y S S'; inversion S; inversion S'; subst; constructor.
  - congruence.
  - apply IH; assumption.
Qed.

Lemma wf_okbytes_tstr x : okbytes x -> wf (CTstr x).
Proof. exact (fun H => H). Qed.

Lemma enc_of_cov_inj c c' :
  wf_ctx c -> wf_ctx c' -> cov_shape c -> cov_shape c' -> enc_of_cov c = enc_of_cov c' -> c = c'.
Proof.
  intros (W1 & W2 & W3 & W4) (W1' & W2' & W3' & W4') S S' E. unfold enc_of_cov in E.
  apply encode_inj in E.
  - injection E as E1 E2 E3.
    apply encode_seq_inj in E3; [|assumption|assumption].
    apply cov_items_inj in E3 as (A & B & C & D); [|assumption|assumption].
    destruct c, c'; cbn in *; subst; reflexivity.
  - apply wf_CArr. split; [cbn; lia|]. repeat (apply Forall_cons); try apply Forall_nil; assumption.
  - apply wf_CArr. split; [cbn; lia|]. repeat (apply Forall_cons); try apply Forall_nil; assumption.
Qed.

Lemma mac_of_cov_inj x y :
  wf_cov x -> wf_cov y -> cov_shape (fst x) -> cov_shape (fst y) -> mac_of_cov x = mac_of_cov y -> x = y.
Proof.
  destruct x as [c p], y as [c' p'].
  intros [(W1 & W2 & W3 & W4) Wp] [(W1' & W2' & W3' & W4') Wp'] S S' E. unfold mac_of_cov in E. cbn [fst snd] in *.
  apply encode_inj in E.
  - injection E as E1 E2 E3 E4.
    apply encode_seq_inj in E3; [|assumption|assumption].
    apply cov_items_inj in E3 as (A & B & C & D); [|assumption|assumption].
    destruct c, c'; cbn in *; subst; reflexivity.
  - apply wf_CArr. split; [cbn; lia|]. repeat (apply Forall_cons); try apply Forall_nil; assumption.
  - apply wf_CArr. split; [cbn; lia|]. repeat (apply Forall_cons); try apply Forall_nil; assumption.
Qed.

Lemma covered_shape o x : covered o = Some x -> cov_shape (fst x).
Proof.
  unfold covered. destruct (covered_ctx o) eqn:E; [|discriminate]. cbn. intros H. injection H as <-.
  cbn. eapply covered_ctx_shape; eassumption.
Qed.

(** ** Binding: the MAC / signature input is an injective function of exactly
    the covered content *)
Theorem mac_input_binding o o' :
  wf_op o -> wf_op o' -> (mac_input o = mac_input o' <-> covered o = covered o').
Proof.
  intros W W'. rewrite !mac_input_covered. unfold wf_op in *.
  split; [|intros ->; reflexivity].
  destruct (covered o) as [x|] eqn:C, (covered o') as [y|] eqn:C'; cbn [option_map]; intros H; try discriminate; [|reflexivity].
  apply some_inj in H. f_equal. apply mac_of_cov_inj; try assumption; eapply covered_shape; eassumption.
Qed.

Theorem enc_input_binding o o' :
  wf_op_ctx o -> wf_op_ctx o' -> (enc_input o = enc_input o' <-> covered_ctx o = covered_ctx o').
Proof.
  intros W W'. rewrite !enc_input_covered. unfold wf_op_ctx in *.
  split; [|intros ->; reflexivity].
  destruct (covered_ctx o) as [x|] eqn:C, (covered_ctx o') as [y|] eqn:C'; cbn [option_map]; intros H; try discriminate; [|reflexivity].
  apply some_inj in H. f_equal. apply enc_of_cov_inj; try assumption; eapply covered_ctx_shape; eassumption.
Qed.

(** * AAD agreement *)

Lemma insert_kv_In kv l x : In x (insert_kv kv l) <-> x = kv \/ In x l.
Proof.
  induction l as [|h t IH]; cbn [insert_kv].
  - cbn. intuition.
  - destruct (key_ltb _ _); cbn [In]; [intuition|]. rewrite IH. intuition.
Qed.

Lemma canon_scope_In s x : In x (canon_scope s) <-> In x s.
Proof.
  induction s as [|h t IH]; cbn [canon_scope fold_right]; [reflexivity|].
  fold (canon_scope t). rewrite insert_kv_In, IH. cbn [In]. intuition.
Qed.

Lemma scope_items_congr b sec tgt b' sec' tgt' s :
  (forall k f, In (k, f) s -> scope_entry b' sec' tgt' k f = scope_entry b sec tgt k f) ->
  scope_items b' sec' tgt' s = scope_items b sec tgt s.
Proof.
  induction s as [|[k f] s IH]; intros H; cbn [scope_items]; [reflexivity|].
  rewrite (H k f) by (left; reflexivity). rewrite IH; [reflexivity|].
  intros k0 f0 Hin. apply H. right. exact Hin.
Qed.

Lemma aad_congr b sec tgt b' sec' tgt' source s addl :
  (forall k f, In (k, f) s -> scope_entry b' sec' tgt' k f = scope_entry b sec tgt k f) ->
  external_aad b' sec' tgt' source s addl = external_aad b sec tgt source s addl.
Proof.
  intros H. unfold external_aad, aad_items.
  rewrite (scope_items_congr b sec tgt b' sec' tgt'); [reflexivity|].
  intros k f Hin. apply H. apply canon_scope_In. exact Hin.
Qed.

Lemma covered_ctx_congr o o' :
  op_kind o' = op_kind o -> op_protected o' = op_protected o -> op_source o' = op_source o ->
  op_scope o' = op_scope o -> op_addl o' = op_addl o ->
  (forall k f, In (k, f) (op_scope o) ->
     scope_entry (op_bundle o') (op_sec o') (op_tgt o') k f = scope_entry (op_bundle o) (op_sec o) (op_tgt o) k f) ->
  covered_ctx o' = covered_ctx o.
Proof.
  intros Hk Hp Hs Hsc Ha H. unfold covered_ctx. rewrite Hk, Hp, Hs, Hsc, Ha.
  rewrite (scope_items_congr (op_bundle o) (op_sec o) (op_tgt o) (op_bundle o') (op_sec o') (op_tgt o')); [reflexivity|].
  intros k f Hin. apply H. apply canon_scope_In. exact Hin.
Qed.

Lemma find_app {A} (f : A -> bool) l1 l2 :
  find f (l1 ++ l2) = match find f l1 with Some x => Some x | None => find f l2 end.
Proof. induction l1 as [|x l1 IH]; cbn; [reflexivity|]. destruct (f x); [reflexivity|exact IH]. Qed.

Lemma find_block_insert b c n : cb_num c <> n -> find_block (insert_block b c) n = find_block b n.
Proof.
  intros Hn. unfold find_block, insert_block. cbn [b_blocks].
  destruct (rev (b_blocks b)) as [|last r] eqn:E.
  - apply (f_equal (@rev _)) in E. rewrite rev_involutive in E. rewrite E. cbn.
    destruct (N.eqb_spec (cb_num c) n); [contradiction|reflexivity].
  - apply (f_equal (@rev _)) in E. rewrite rev_involutive in E. rewrite E. cbn [rev].
    rewrite !find_app. destruct (find _ (rev r)); [reflexivity|]. cbn.
    destruct (N.eqb_spec (cb_num c) n); [contradiction|reflexivity].
Qed.

Lemma block_items_same c c' f :
  meta_items c' = meta_items c -> (flag_btsd f = true -> cb_btsd c' = cb_btsd c) -> block_items c' f = block_items c f.
Proof.
  intros Hm Hb. unfold block_items. rewrite Hm. destruct (flag_btsd f); [rewrite Hb by reflexivity|]; reflexivity.
Qed.

(** The verifier recomputes, from the bundle it received (the security block
    now inserted, its BTSD now filled in), the AAD the source computed while
    the security block "is not yet part of the bundle". *)
Theorem aad_agreement b sec sec' tgt tgt' source s addl :
  meta_items sec' = meta_items sec ->
  meta_items tgt' = meta_items tgt -> cb_btsd tgt' = cb_btsd tgt ->
  (forall f, In (CNint 1, f) s -> flag_btsd f = false) ->
  ~ In (CUint (cb_num sec)) (map fst s) ->
  external_aad (insert_block b sec') sec' tgt' source s addl = external_aad b sec tgt source s addl.
Proof.
  intros Hsec Htm Htb Hself Hnum. apply aad_congr. intros k f Hin.
  unfold scope_entry. destruct k as [n|n| | | | | |]; try reflexivity.
  - destruct n as [|p]; [reflexivity|].
    rewrite find_block_insert; [reflexivity|].
    intros E. apply Hnum. apply in_map_iff. exists (CUint (N.pos p), f). split; [|exact Hin].
    cbn. f_equal. injection Hsec as _ Hn _. congruence.
  - destruct n as [|p].
    + f_equal. apply block_items_same; [exact Htm | intros _; exact Htb].
    + destruct p; try reflexivity. f_equal. apply block_items_same; [exact Hsec|].
      intros Hf. rewrite (Hself f Hin) in Hf. discriminate.
Qed.

(** * Outside the declared scope *)

(** The covered content does not change when blocks that are neither the
    target, nor the security block, nor named in the scope are altered in any
    way, nor when CRC types (of any block) change. *)
Theorem covered_outside_scope o o' :
  op_kind o' = op_kind o -> op_protected o' = op_protected o -> op_source o' = op_source o ->
  op_scope o' = op_scope o -> op_addl o' = op_addl o ->
  meta_items (op_sec o') = meta_items (op_sec o) ->
  meta_items (op_tgt o') = meta_items (op_tgt o) -> cb_btsd (op_tgt o') = cb_btsd (op_tgt o) ->
  (forall f, In (CNint 1, f) (op_scope o) -> flag_btsd f = false) ->
  (forall f, In (CUint 0, f) (op_scope o) -> flag_meta f = true -> b_pri (op_bundle o') = b_pri (op_bundle o)) ->
  (forall p f, In (CUint (N.pos p), f) (op_scope o) ->
     option_map (fun c => block_items c f) (find_block (op_bundle o') (N.pos p)) =
     option_map (fun c => block_items c f) (find_block (op_bundle o) (N.pos p))) ->
  covered o' = covered o.
Proof.
  intros Hk Hp Hs Hsc Ha Hsec Htm Htb Hself Hpri Hblk. unfold covered. rewrite Htb.
  rewrite (covered_ctx_congr o o'); try assumption; [reflexivity|].
  intros k f Hin. unfold scope_entry. destruct k as [n|n| | | | | |]; try reflexivity.
  - destruct n as [|p].
    + destruct (flag_meta f) eqn:F; [|reflexivity]. rewrite (Hpri f Hin F). reflexivity.
    + apply Hblk. exact Hin.
  - destruct n as [|p].
    + f_equal. apply block_items_same; [exact Htm | intros _; exact Htb].
    + destruct p; try reflexivity. f_equal. apply block_items_same; [exact Hsec|].
      intros Hf. rewrite (Hself f Hin) in Hf. discriminate.
Qed.

(** The primary-block item bound into the AAD (CRC recomputed) determines the
    primary block's fields: nothing of the primary block is lost by taking
    [bytes(blk)] after [update_crc]. *)
Lemma pri_crct_app p l : (3 <= length p)%nat -> pri_crct (p ++ l) = pri_crct p.
Proof. intros H. unfold pri_crct. rewrite nth_error_app1 by lia. reflexivity. Qed.

Theorem primary_item_inj p p' :
  (3 <= length p)%nat -> (3 <= length p')%nat -> primary_item p = primary_item p' -> p = p'.
Proof.
  intros L L' E. unfold primary_item in E.
  destruct (pri_crct p) as [|c] eqn:C; destruct (pri_crct p') as [|c'] eqn:C'.
  - injection E as E. exact E.
  - destruct c' as [[]|[]|]; injection E as E; try exact E;
      rewrite E, pri_crct_app in C by exact L'; congruence.
  - destruct c as [[]|[]|]; injection E as E; try exact E;
      rewrite <- E, pri_crct_app in C' by exact L; congruence.
  - destruct c as [[]|[]|], c' as [[]|[]|]; injection E as E; try exact E;
      try (apply app_inj_tail in E as [E _]; exact E);
      try (rewrite E, pri_crct_app in C by exact L'; congruence);
      try (rewrite <- E, pri_crct_app in C' by exact L; congruence);
      try (apply app_inj_tail in E as [E _]; subst; congruence).
Qed.

(** boolean form of the well-formedness premise *)
Definition wf_ctxb (c : ctx_t) : bool :=
  wfb (CBstr (cv_context c)) && wfb (CBstr (cv_protected c)) && forallb wfb (cov_items c) &&
  wfb (CBstr (encode_seq (cov_items c))).

Lemma wf_ctxb_ok c : wf_ctxb c = true -> wf_ctx c.
Proof.
  unfold wf_ctxb, wf_ctx, okbytes. intros H.
  apply andb_true_iff in H as [H H4]. apply andb_true_iff in H as [H H3]. apply andb_true_iff in H as [H1 H2].
  split; [apply (proj1 (wfb_spec _) H1)|]. split; [apply (proj1 (wfb_spec _) H2)|].
  split; [|apply (proj1 (wfb_spec _) H4)].
  apply Forall_forall. intros x Hx. apply wfb_spec. rewrite forallb_forall in H3. apply H3, Hx.
Qed.

Definition wf_opb (o : secop) : bool :=
  match covered o with Some x => wf_ctxb (fst x) && wfb (CBstr (snd x)) | None => true end.

Lemma wf_opb_ok o : wf_opb o = true -> wf_op o.
Proof.
  unfold wf_opb, wf_op. destruct (covered o) as [x|]; [|trivial]. intros H.
  apply andb_true_iff in H as [H1 H2]. split; [apply wf_ctxb_ok, H1 | apply wfb_spec, H2].
Qed.

Definition wf_op_ctxb (o : secop) : bool :=
  match covered_ctx o with Some c => wf_ctxb c | None => true end.

Lemma wf_op_ctxb_ok o : wf_op_ctxb o = true -> wf_op_ctx o.
Proof. unfold wf_op_ctxb, wf_op_ctx. destruct (covered_ctx o); [apply wf_ctxb_ok|trivial]. Qed.

(** * Codec round trips used by the completeness theorems *)

Lemma all_some_cons {A} (x : option A) l r :
  all_some (x :: l) = Some r -> exists y ys, x = Some y /\ all_some l = Some ys /\ r = y :: ys.
Proof.
  cbn [all_some]. destruct x as [y|]; [|discriminate]. destruct (all_some l) as [ys|]; [|discriminate].
  cbn. intros H. injection H as <-. exists y, ys. repeat split.
Qed.

Lemma all_some_map_id {A B} (f : A -> B) (g : B -> option A) l :
  (forall x, g (f x) = Some x) -> all_some (map g (map f l)) = Some l.
Proof.
  intros H. induction l as [|x l IH]; cbn [map all_some]; [reflexivity|]. rewrite H, IH. reflexivity.
Qed.

Lemma all_some_map_nth {A B} (f : A -> option B) (l : list A) : forall rs,
  all_some (map f l) = Some rs ->
  length rs = length l /\
  forall i x, nth_error l i = Some x -> exists y, nth_error rs i = Some y /\ f x = Some y.
Proof.
  induction l as [|a l IH]; intros rs H; cbn [map] in H.
  - injection H as <-. split; [reflexivity|]. intros [|i] x Hx; discriminate.
  - apply all_some_cons in H as (y & ys & Hy & Hys & ->). destruct (IH ys Hys) as [L N].
    split; [cbn; rewrite L; reflexivity|].
    intros [|i] x Hx; cbn [nth_error] in *.
    + injection Hx as <-. exists y. split; [reflexivity|exact Hy].
    + apply N, Hx.
Qed.

Lemma rcp_of_item r : rcp_of (rcp_item r) = Some r.
Proof. destruct r; reflexivity. Qed.

Lemma kind_of_code_code k : kind_of_code (kind_code k) = Some k.
Proof. destruct k; reflexivity. Qed.

(** a message is in the shape its kind carries on the wire *)
Definition cose_shape (k : ckind) (m : cose) : Prop :=
  match k with
  | KMac0 | KSign1 => c_recips m = []
  | KMac => True
  | KEnc0 => c_recips m = [] /\ c_tag m = []
  | KEnc => c_tag m = []
  end.

Lemma cose_of_item_item k m : cose_shape k m -> cose_of_item k (cose_item k m) = Some m.
Proof.
  destruct m as [p u t rs]. destruct k; cbn [cose_shape c_recips c_tag]; intros H;
    cbn [cose_item cose_of_item c_protected c_unprot c_tag c_recips].
  - subst. reflexivity.
  - rewrite (all_some_map_id rcp_item rcp_of rs rcp_of_item). reflexivity.
  - subst. reflexivity.
  - destruct H; subst. reflexivity.
  - subst. rewrite (all_some_map_id rcp_item rcp_of rs rcp_of_item). reflexivity.
Qed.

Lemma cose_of_result_value k m :
  wf (cose_item k m) -> (depth (cose_item k m) <= cose_fuel)%nat -> cose_shape k m ->
  cose_of_result (kind_code k) (result_value k m) = Some (k, m).
Proof.
  intros W D S. unfold cose_of_result, result_value. rewrite kind_of_code_code.
  rewrite decode_all_encode by assumption. rewrite cose_of_item_item by assumption. reflexivity.
Qed.

Lemma uint_of_CUint n : uint_of (CUint n) = Some n. Proof. reflexivity. Qed.
Lemma pair_of_item p : pair_of (pair_item p) = Some p. Proof. destruct p; reflexivity. Qed.
Lemma pairs_of_items ps : pairs_of (CArr (map pair_item ps)) = Some ps.
Proof. cbn [pairs_of]. apply all_some_map_id, pair_of_item. Qed.
Lemma results_of_items rss : results_of (CArr (map (fun rs => CArr (map pair_item rs)) rss)) = Some rss.
Proof. cbn [results_of]. apply (all_some_map_id (fun rs => CArr (map pair_item rs)) pairs_of). exact pairs_of_items. Qed.

Lemma asb_of_items_items a :
  eid_norm (a_source a) = a_source a ->
  (N.testbit (a_flags a) 0 = false -> a_params a = []) -> asb_of_items (asb_items a) = Some a.
Proof.
  destruct a as [ts cid fl src ps rss]. cbn [a_flags a_params a_source]. intros Hn H.
  unfold asb_items. cbn [a_targets a_ctxid a_flags a_source a_params a_results app asb_of_items].
  unfold targets_of. rewrite (all_some_map_id CUint uint_of ts uint_of_CUint).
  destruct (N.testbit fl 0) eqn:F; cbn [app].
  - rewrite pairs_of_items, results_of_items, Hn. reflexivity.
  - rewrite results_of_items, (H eq_refl), Hn. reflexivity.
Qed.

Theorem asb_dec_enc a :
  Forall wf (asb_items a) -> Forall (fun v => (depth v <= asb_fuel)%nat) (asb_items a) ->
  eid_norm (a_source a) = a_source a ->
  (N.testbit (a_flags a) 0 = false -> a_params a = []) ->
  asb_dec (asb_enc a) = Some a.
Proof.
  intros W D Hn H. unfold asb_dec, asb_enc. rewrite decode_seq_encode_seq by assumption.
  apply asb_of_items_items; assumption.
Qed.

(** * Block lookup under the bundle updates *)

Lemma find_block_replace_same b t d tgt :
  find_block b t = Some tgt ->
  find_block (replace_btsd b t d) t = Some (mkCB (cb_type tgt) (cb_num tgt) (cb_flags tgt) (cb_crct tgt) d).
Proof.
  unfold find_block, replace_btsd. cbn [b_blocks]. induction (b_blocks b) as [|c l IH]; cbn [find map]; [discriminate|].
  destruct (N.eqb_spec (cb_num c) t) as [E|E].
  - intros H. injection H as <-. cbn [cb_num]. rewrite E, N.eqb_refl. reflexivity.
  - destruct (N.eqb_spec (cb_num c) t); [contradiction|]. exact IH.
Qed.

Lemma find_block_replace_other b t d n : n <> t -> find_block (replace_btsd b t d) n = find_block b n.
Proof.
  intros Hn. unfold find_block, replace_btsd. cbn [b_blocks]. induction (b_blocks b) as [|c l IH]; cbn [find map]; [reflexivity|].
  destruct (N.eqb_spec (cb_num c) t) as [E|E]; cbn [cb_num].
  - destruct (N.eqb_spec (cb_num c) n) as [E'|E']; [congruence|]. exact IH.
  - destruct (N.eqb_spec (cb_num c) n); [reflexivity|exact IH].
Qed.

Lemma find_block_num b n c : find_block b n = Some c -> cb_num c = n.
Proof. unfold find_block. intros H. apply find_some in H as [_ H]. apply N.eqb_eq, H. Qed.

Lemma find_block_replace_none b t d n : find_block b n = None -> find_block (replace_btsd b t d) n = None.
Proof.
  unfold find_block, replace_btsd. cbn [b_blocks]. induction (b_blocks b) as [|c l IH]; cbn [find map]; [reflexivity|].
  destruct (N.eqb_spec (cb_num c) n) as [E|E]; [discriminate|].
  destruct (cb_num c =? t); cbn [cb_num]; destruct (N.eqb_spec (cb_num c) n); try contradiction; exact IH.
Qed.

(** * Security parameters of a block the agent produced *)

Lemma extract_sec_params tg cid fl src s addl au rss :
  scope_of_cbor (scope_map s) = Some s ->
  extract_secblk (mkASB tg cid fl src (sec_params s addl au) rss) = Some (mkSP addl au s).
Proof.
  intros Hs. unfold extract_secblk, param, sec_params. cbn [a_params].
  destruct addl as [|x addl], au as [u|]; cbn [app find fst snd N.eqb Pos.eqb option_map]; rewrite Hs; reflexivity.
Qed.

Lemma nodupb_sec_params s addl au : nodupb (map fst (sec_params s addl au)) = true.
Proof. unfold sec_params. destruct addl, au; reflexivity. Qed.

Section CryptoProofs.
  Variable key : Type.
  Variable mac : key -> bytes -> bytes.
  Variable mac_ok : key -> bytes -> bytes -> bool.
  Variable enc : key -> bytes -> bytes -> bytes -> bytes.
  Variable dec : key -> bytes -> bytes -> bytes -> option bytes.
  Variable wrap : key -> key -> bytes.
  Variable unwrap : key -> bytes -> option key.
  Variable keyring : cbor -> option key.

  (** correctness of the primitives *)
  Hypothesis mac_ok_mac : forall k m, mac_ok k m (mac k m) = true.
  Hypothesis unwrap_wrap : forall kek cek, unwrap kek (wrap kek cek) = Some cek.
  Hypothesis dec_enc : forall k iv a p, dec k iv a (enc k iv a p) = Some p.
  (** idealised MAC / signature: a tag is valid for at most one (key, message) *)
  Hypothesis mac_inj : forall k k' x y t, mac_ok k x t = true -> mac_ok k' y t = true -> k = k' /\ x = y.
  (** idealised AEAD: only genuine ciphertexts decrypt, and a ciphertext
      determines key, IV, associated data and plaintext *)
  Hypothesis aead_auth : forall k iv a c p, dec k iv a c = Some p -> c = enc k iv a p.
  Hypothesis enc_inj : forall k iv a p k' iv' a' p',
      enc k iv a p = enc k' iv' a' p' -> k = k' /\ iv = iv' /\ a = a' /\ p = p'.

  Notation verify_bib_msg := (verify_bib_msg key mac_ok unwrap keyring).
  Notation verify_bib_result := (verify_bib_result key mac_ok unwrap keyring).
  Notation verify_bib_asb := (verify_bib_asb key mac_ok unwrap keyring).
  Notation verify_bib := (verify_bib key mac_ok unwrap keyring).
  Notation resolve_content_key := (resolve_content_key key unwrap keyring).
  Notation apply_bib_target := (apply_bib_target key mac wrap).
  Notation apply_bib_asb := (apply_bib_asb key mac wrap).
  Notation apply_bib := (apply_bib key mac wrap).
  Notation apply_bcb_target := (apply_bcb_target key enc wrap).
  Notation apply_bcb := (apply_bcb key enc wrap).
  Notation decrypt_msg := (decrypt_msg key dec unwrap keyring).
  Notation decrypt_result := (decrypt_result key dec unwrap keyring).
  Notation verify_bcb_asb := (verify_bcb_asb key dec unwrap keyring).
  Notation verify_bcb := (verify_bcb key dec unwrap keyring).

  Definition auth_kind (k : ckind) : Prop := k = KMac0 \/ k = KMac \/ k = KSign1.
  Definition enc_kind (k : ckind) : Prop := k = KEnc0 \/ k = KEnc.

  (** The keying matches the message kind and the verifier's key ring resolves
      the key identification the source put in the headers. *)
  Definition keys_resolve (kind : ckind) (kg : keying key) (protected : bytes) (unprot : list (cbor * cbor))
             (source : cbor) (sp : secparams) : Prop :=
    match kg with
    | Direct _ k => (kind = KMac0 \/ kind = KSign1 \/ kind = KEnc0) /\
                    keyring (key_hint protected unprot source sp) = Some k
    | Wrapped _ kek cek u => (kind = KMac \/ kind = KEnc) /\ keyring (key_hint [] u source sp) = Some kek
    end.

  Lemma resolve_ok kind kg protected unprot source sp tag :
    keys_resolve kind kg protected unprot source sp ->
    resolve_content_key kind (mkCose protected unprot tag (recips_of key wrap kg)) source sp = [content_key key kg].
  Proof.
    unfold keys_resolve, BpSec.resolve_content_key. destruct kg as [k|kek cek u]; cbn [recips_of content_key c_recips c_protected c_unprot].
    - intros [[->|[->| ->]] H]; rewrite H; reflexivity.
    - intros [[->| ->] H]; cbn [flat_map r_protected r_unprot r_wrapped]; rewrite H, unwrap_wrap; reflexivity.
  Qed.

  (** the message the source builds is in wire shape *)
  Lemma shape_ok kind kg protected unprot source sp tag :
    keys_resolve kind kg protected unprot source sp -> auth_kind kind ->
    cose_shape kind (mkCose protected unprot tag (recips_of key wrap kg)).
  Proof.
    unfold keys_resolve, auth_kind. destruct kg as [k|kek cek u]; cbn [recips_of].
    - intros [[->|[->| ->]] _] [H|[H|H]]; try discriminate; reflexivity.
    - intros [[->| ->] _] [H|[H|H]]; try discriminate; exact I.
  Qed.

  (** ** Completeness of integrity verification *)

  (** Result values the source emits decode again: premise on the sizes. *)
  Definition results_decodable (kind : ckind) (kg : keying key) (protected : bytes) (unprot : list (cbor * cbor)) : Prop :=
    forall tag, okbytes tag ->
      wf (cose_item kind (mkCose protected unprot tag (recips_of key wrap kg))) /\
      (depth (cose_item kind (mkCose protected unprot tag (recips_of key wrap kg))) <= cose_fuel)%nat.

  Lemma bib_target_complete kind kg protected unprot b sec sec' source s addl au t rs tgt :
    auth_kind kind ->
    keys_resolve kind kg protected unprot source (mkSP addl au s) ->
    results_decodable kind kg protected unprot ->
    (forall x, okbytes (mac (content_key key kg) x)) ->
    meta_items sec' = meta_items sec ->
    (forall f, In (CNint 1, f) s -> flag_btsd f = false) ->
    ~ In (CUint (cb_num sec)) (map fst s) ->
    find_block b t = Some tgt ->
    apply_bib_target kind kg protected unprot b sec source s addl t = Some rs ->
    verify_bib_result (insert_block b sec') sec' tgt source (mkSP addl au s) rs = true.
  Proof.
    intros Hk Hkeys Hdec Hmac Hsec Hself Hnum Hfind Happ.
    unfold BpSec.apply_bib_target in Happ. rewrite Hfind in Happ.
    destruct (mac_input (mkOp kind protected b sec source s addl tgt)) as [mi|] eqn:Emi; [|discriminate].
    injection Happ as <-. unfold BpSec.verify_bib_result.
    destruct (Hdec (mac (content_key key kg) mi) (Hmac mi)) as [W D].
    rewrite cose_of_result_value; [|exact W|exact D|eapply shape_ok; eassumption].
    unfold BpSec.verify_bib_msg. cbn [c_protected c_tag sp_scope sp_addl].
    assert (Emi' : mac_input (mkOp kind protected (insert_block b sec') sec' source s addl tgt) = Some mi).
    { rewrite <- Emi. unfold mac_input, op_aad. cbn [op_bundle op_sec op_tgt op_source op_scope op_addl op_kind op_protected].
      rewrite (aad_agreement b sec sec' tgt tgt source s addl); auto. }
    rewrite Emi'. rewrite (resolve_ok kind kg protected unprot source _ _ Hkeys).
    cbn [existsb]. rewrite mac_ok_mac. destruct Hk as [->|[->| ->]]; reflexivity.
  Qed.

  Lemma bib_targets_complete kind kg protected unprot b sec sec' source s addl au :
    auth_kind kind ->
    keys_resolve kind kg protected unprot source (mkSP addl au s) ->
    results_decodable kind kg protected unprot ->
    (forall x, okbytes (mac (content_key key kg) x)) ->
    meta_items sec' = meta_items sec ->
    (forall f, In (CNint 1, f) s -> flag_btsd f = false) ->
    ~ In (CUint (cb_num sec)) (map fst s) ->
    find_block b (cb_num sec) = None ->
    forall targets rss,
    all_some (map (apply_bib_target kind kg protected unprot b sec source s addl) targets) = Some rss ->
    verify_targets (fun tgt rs => verify_bib_result (insert_block b sec') sec' tgt source (mkSP addl au s) rs)
                   (insert_block b sec') targets rss = true /\
    forallb (fun rs => nodupb (map fst rs)) rss = true.
  Proof.
    intros Hk Hkeys Hdec Hmac Hsec Hself Hnum Hfresh.
    induction targets as [|t ts IH]; intros rss H; cbn [map] in H.
    - injection H as <-. split; reflexivity.
    - apply all_some_cons in H as (rs & rss' & H1 & H2 & ->).
      destruct (IH rss' H2) as [IH1 IH2]. cbn [verify_targets forallb].
      assert (Hf : exists tgt, find_block b t = Some tgt).
      { unfold BpSec.apply_bib_target in H1. destruct (find_block b t) as [tgt|]; [eauto|discriminate]. }
      destruct Hf as [tgt Hf].
      assert (Hne : cb_num sec' <> t).
      { intros E. injection Hsec as _ Hn _. rewrite <- E, Hn, Hfresh in Hf. discriminate. }
      rewrite (find_block_insert b sec' t Hne), Hf.
      rewrite (bib_target_complete kind kg protected unprot b sec sec' source s addl au t rs tgt); auto.
      rewrite IH1, IH2. split; [reflexivity|].
      unfold BpSec.apply_bib_target in H1. rewrite Hf in H1. destruct (mac_input _); [|discriminate].
      injection H1 as <-. reflexivity.
  Qed.

  (** [verify_bib] of what [apply_bib] produced, at a verifier whose key ring
      resolves the key, succeeds. *)
  Theorem bib_complete kind kg protected unprot b num source s addl au targets a sec' :
    let sec := mkCB bib_type num 0 0 [] in
    auth_kind kind ->
    keys_resolve kind kg protected unprot source (mkSP addl au s) ->
    results_decodable kind kg protected unprot ->
    (forall x, okbytes (mac (content_key key kg) x)) ->
    scope_of_cbor (scope_map s) = Some s ->
    (forall f, In (CNint 1, f) s -> flag_btsd f = false) ->
    ~ In (CUint num) (map fst s) ->
    find_block b num = None ->
    meta_items sec' = meta_items sec ->
    apply_bib_asb kind kg protected unprot b sec source s addl au targets = Some a ->
    verify_bib_asb (insert_block b sec') sec' a = true.
  Proof.
    intros sec Hk Hkeys Hdec Hmac Hsc Hself Hnum Hfresh Hsec Happ.
    unfold BpSec.apply_bib_asb in Happ.
    destruct (all_some _) as [rss|] eqn:E; [|discriminate]. injection Happ as <-.
    destruct (bib_targets_complete kind kg protected unprot b sec sec' source s addl au Hk Hkeys Hdec Hmac Hsec Hself Hnum Hfresh targets rss E) as [V N].
    unfold BpSec.verify_bib_asb. cbn [a_ctxid a_targets a_results a_source].
    rewrite extract_sec_params by exact Hsc.
    unfold check_secblk. cbn [a_params a_results]. rewrite nodupb_sec_params, N.
    cbn [cose_ctx_id N.eqb Pos.eqb andb]. exact V.
  Qed.

  (** Pairing invariant of a BIB the source builds: the target list is the
      list of operations in the order given, there is one result per target,
      and result i is the one computed for target i.  ([verify_targets] pairs
      them the same way, which is why the unaltered block verifies.) *)
  Theorem bib_pairing kind kg protected unprot b sec source s addl au targets a :
    apply_bib_asb kind kg protected unprot b sec source s addl au targets = Some a ->
    a_targets a = targets /\ length (a_results a) = length (a_targets a) /\
    forall i t, nth_error (a_targets a) i = Some t ->
      exists rs, nth_error (a_results a) i = Some rs /\
                 apply_bib_target kind kg protected unprot b sec source s addl t = Some rs.
  Proof.
    unfold BpSec.apply_bib_asb. destruct (all_some _) as [rss|] eqn:E; [|discriminate].
    intros H. injection H as <-. cbn [a_targets a_results].
    destruct (all_some_map_nth _ _ _ E) as [L N]. repeat split; assumption.
  Qed.

  (** the same on the octets of the security block, when they decode *)
  Corollary bib_complete_wire kind kg protected unprot b num source s addl au targets a :
    let sec := mkCB bib_type num 0 0 [] in
    let sec' := mkCB bib_type num 0 0 (asb_enc a) in
    auth_kind kind ->
    keys_resolve kind kg protected unprot source (mkSP addl au s) ->
    results_decodable kind kg protected unprot ->
    (forall x, okbytes (mac (content_key key kg) x)) ->
    scope_of_cbor (scope_map s) = Some s ->
    (forall f, In (CNint 1, f) s -> flag_btsd f = false) ->
    ~ In (CUint num) (map fst s) ->
    find_block b num = None ->
    apply_bib_asb kind kg protected unprot b sec source s addl au targets = Some a ->
    asb_dec (asb_enc a) = Some a ->
    apply_bib kind kg protected unprot b num source s addl au targets = Some (insert_block b sec') /\
    verify_bib (insert_block b sec') sec' = true.
  Proof.
    intros sec sec' Hk Hkeys Hdec Hmac Hsc Hself Hnum Hfresh Happ Hrt. split.
    - unfold BpSec.apply_bib. fold sec. rewrite Happ. reflexivity.
    - unfold BpSec.verify_bib. cbn [cb_btsd sec']. rewrite Hrt.
      eapply bib_complete; try eassumption. reflexivity.
  Qed.

  (** ** Soundness of integrity verification (idealised MAC / signature) *)

  Lemma verify_bib_msg_true b sec tgt source sp kind m :
    verify_bib_msg b sec tgt source sp kind m = true ->
    auth_kind kind /\
    exists mi k, mac_input (mkOp kind (c_protected m) b sec source (sp_scope sp) (sp_addl sp) tgt) = Some mi /\
                 In k (resolve_content_key kind m source sp) /\ mac_ok k mi (c_tag m) = true.
  Proof.
    unfold BpSec.verify_bib_msg, auth_kind. intros H.
    destruct kind; try discriminate;
      (split; [auto|]);
      destruct (mac_input _) as [mi|]; try discriminate;
      apply existsb_exists in H as [k [Hin Hok]]; exists mi, k; auto.
  Qed.

  (** If the tag the source computed over [o] under key [k] is accepted by the
      verifier for its own view [o'] of the (possibly altered) bundle, then
      the covered content is unchanged and the verifier resolved the same key. *)
  Theorem bib_sound k o mi tag b' sec' tgt' source' sp' kind' m' :
    let o' := mkOp kind' (c_protected m') b' sec' source' (sp_scope sp') (sp_addl sp') tgt' in
    wf_op o -> wf_op o' ->
    mac_input o = Some mi -> mac_ok k mi tag = true ->
    c_tag m' = tag ->
    verify_bib_msg b' sec' tgt' source' sp' kind' m' = true ->
    covered o' = covered o /\ In k (resolve_content_key kind' m' source' sp').
  Proof.
    intros o' W W' Hmi Hok Htag Hv.
    apply verify_bib_msg_true in Hv as [_ (mi' & k' & Hmi' & Hin & Hok')].
    rewrite Htag in Hok'. destruct (mac_inj k k' mi mi' tag Hok Hok') as [-> ->].
    split; [|exact Hin].
    apply mac_input_binding; [exact W'|exact W|]. fold o' in Hmi'. congruence.
  Qed.

  (** Contrapositive forms: any alteration of covered content, and a wrong key,
      make verification fail. *)
  Corollary bib_altered_fails k o mi tag b' sec' tgt' source' sp' kind' m' :
    let o' := mkOp kind' (c_protected m') b' sec' source' (sp_scope sp') (sp_addl sp') tgt' in
    wf_op o -> wf_op o' ->
    mac_input o = Some mi -> mac_ok k mi tag = true -> c_tag m' = tag ->
    covered o' <> covered o \/ ~ In k (resolve_content_key kind' m' source' sp') ->
    verify_bib_msg b' sec' tgt' source' sp' kind' m' = false.
  Proof.
    intros o' W W' Hmi Hok Htag Hne.
    destruct (verify_bib_msg b' sec' tgt' source' sp' kind' m') eqn:V; [|reflexivity].
    destruct (bib_sound k o mi tag b' sec' tgt' source' sp' kind' m' W W' Hmi Hok Htag V) as [A B].
    destruct Hne as [Hne|Hne]; contradiction.
  Qed.

  (** An altered tag / signature: under the same key and for the same input at
      most one tag verifies *when the MAC is recomputed*; for the abstract
      [mac_ok] this is a property of the primitive, not of the structure. *)

  (** Verification outcome is a function of the covered content, the message
      and the key ring only. *)
  Theorem bib_outside_scope_ok b sec tgt b' sec' tgt' source sp kind m :
    covered (mkOp kind (c_protected m) b' sec' source (sp_scope sp) (sp_addl sp) tgt') =
    covered (mkOp kind (c_protected m) b sec source (sp_scope sp) (sp_addl sp) tgt) ->
    verify_bib_msg b' sec' tgt' source sp kind m = verify_bib_msg b sec tgt source sp kind m.
  Proof.
    intros H. unfold BpSec.verify_bib_msg. rewrite !mac_input_covered, H. reflexivity.
  Qed.

  (** Block level: a verified block has every target verified. *)
  Lemma verify_targets_nth vf b : forall ts rss i t,
    verify_targets vf b ts rss = true -> nth_error ts i = Some t ->
    exists tgt rs, find_block b t = Some tgt /\ nth_error rss i = Some rs /\ vf tgt rs = true.
  Proof.
    induction ts as [|t0 ts IH]; intros rss i t H Hn; [destruct i; discriminate|].
    cbn [verify_targets] in H. destruct (find_block b t0) as [tgt|] eqn:F; [|discriminate].
    destruct rss as [|rs rss]; [discriminate|]. apply andb_true_iff in H as [H1 H2].
    destruct i as [|i]; cbn [nth_error] in *.
    - injection Hn as <-. exists tgt, rs. auto.
    - apply (IH rss i t H2 Hn).
  Qed.

  Theorem bib_block_sound b sec a i t :
    verify_bib_asb b sec a = true -> nth_error (a_targets a) i = Some t ->
    exists sp tgt code v kind m,
      extract_secblk a = Some sp /\ find_block b t = Some tgt /\
      nth_error (a_results a) i = Some [(code, v)] /\ cose_of_result code v = Some (kind, m) /\
      verify_bib_msg b sec tgt (a_source a) sp kind m = true.
  Proof.
    unfold BpSec.verify_bib_asb. intros H Hn.
    apply andb_true_iff in H as [_ H]. destruct (extract_secblk a) as [sp|]; [|discriminate].
    destruct (verify_targets_nth _ _ _ _ _ _ H Hn) as (tgt & rs & F & R & V).
    unfold BpSec.verify_bib_result in V.
    destruct rs as [|[code v] [|]]; try discriminate.
    destruct (cose_of_result code v) as [[kind m]|] eqn:C; [|discriminate].
    exists sp, tgt, code, v, kind, m. auto.
  Qed.

  (** ** Confidentiality *)

  Definition no_btsd_in_scope (s : scope) (t : N) : Prop :=
    forall k f, In (k, f) s -> k = CNint 0 \/ k = CNint 1 \/ k = CUint t -> flag_btsd f = false.

  (** AAD agreement for a confidentiality operation: the verifier sees the
      target with its BTSD replaced by the ciphertext. *)
  Lemma enc_input_agreement kind protected b sec sec' source s addl t tgt ct :
    meta_items sec' = meta_items sec ->
    find_block b t = Some tgt ->
    no_btsd_in_scope s t ->
    ~ In (CUint (cb_num sec)) (map fst s) ->
    cb_num sec <> t ->
    let tgt' := mkCB (cb_type tgt) (cb_num tgt) (cb_flags tgt) (cb_crct tgt) ct in
    enc_input (mkOp kind protected (insert_block (replace_btsd b t ct) sec') sec' source s addl tgt') =
    enc_input (mkOp kind protected b sec source s addl tgt).
  Proof.
    intros Hsec Hf Hno Hnum Hne tgt'. unfold enc_input, op_aad.
    cbn [op_bundle op_sec op_tgt op_source op_scope op_addl op_kind op_protected].
    rewrite (aad_congr b sec tgt _ sec' tgt'); [reflexivity|].
    intros k f Hin. unfold scope_entry. destruct k as [n|n| | | | | |]; try reflexivity.
    - destruct n as [|p]; [reflexivity|].
      rewrite find_block_insert.
      + destruct (N.eq_dec (N.pos p) t) as [E|E].
        * rewrite E, (find_block_replace_same b t ct tgt Hf), Hf. cbn [option_map]. f_equal.
          apply block_items_same; [reflexivity|]. intros Hb.
          rewrite (Hno (CUint (N.pos p)) f Hin) in Hb; [discriminate|]. right; right. rewrite E. reflexivity.
        * rewrite find_block_replace_other by exact E. reflexivity.
      + intros E. apply Hnum. apply in_map_iff. exists (CUint (N.pos p), f). split; [|exact Hin].
        cbn. f_equal. injection Hsec as _ Hn _. congruence.
    - destruct n as [|p].
      + f_equal. apply block_items_same; [reflexivity|]. intros Hb.
        rewrite (Hno (CNint 0) f Hin) in Hb; [discriminate|]. left; reflexivity.
      + destruct p; try reflexivity. f_equal. apply block_items_same; [exact Hsec|]. intros Hb.
        rewrite (Hno (CNint 1) f Hin) in Hb; [discriminate|]. right; left; reflexivity.
  Qed.

  (** What [apply_bcb] puts on the wire as the target's BTSD is the AEAD
      output, never the stored plaintext. *)
  Theorem bcb_wire_is_ciphertext kind kg protected unprot b num source s addl au t iv b' tgt :
    let sec := mkCB bcb_type num 1 0 [] in
    apply_bcb kind kg protected unprot b num source s addl au [(t, iv)] = Some b' ->
    find_block b t = Some tgt -> num <> t ->
    exists ei,
      enc_input (mkOp kind protected b sec source s addl tgt) = Some ei /\
      option_map cb_btsd (find_block b' t) = Some (enc (content_key key kg) iv ei (cb_btsd tgt)).
  Proof.
    intros sec H Hf Hne. unfold BpSec.apply_bcb in H. fold sec in H.
    cbn [apply_bcb_targets] in H. unfold BpSec.apply_bcb_target in H. rewrite Hf in H.
    destruct (enc_input (mkOp kind protected b sec source s addl tgt)) as [ei|]; [|discriminate].
    injection H as <-. exists ei. split; [reflexivity|].
    rewrite find_block_insert by (cbn [cb_num]; exact Hne).
    rewrite (find_block_replace_same b t _ tgt Hf). reflexivity.
  Qed.

  Definition enc_results_decodable (kind : ckind) (kg : keying key) (protected : bytes) (unprot : list (cbor * cbor)) : Prop :=
    wf (cose_item kind (mkCose protected unprot [] (recips_of key wrap kg))) /\
    (depth (cose_item kind (mkCose protected unprot [] (recips_of key wrap kg))) <= cose_fuel)%nat.

  Lemma enc_shape_ok kind kg protected unprot source sp :
    keys_resolve kind kg protected unprot source sp -> enc_kind kind ->
    cose_shape kind (mkCose protected unprot [] (recips_of key wrap kg)).
  Proof.
    unfold keys_resolve, enc_kind. destruct kg as [k|kek cek u]; cbn [recips_of].
    - intros [[->|[->| ->]] _] [H|H]; try discriminate. split; reflexivity.
    - intros [[->| ->] _] [H|H]; try discriminate. reflexivity.
  Qed.

  (** The acceptor recovers exactly the original plaintext (any plaintext,
      the empty one included). *)
  Theorem bcb_roundtrip kind kg protected unprot b num source s addl au t iv tgt rs ct sec' :
    let sec := mkCB bcb_type num 1 0 [] in
    let uh := (CUint 5, CBstr iv) :: unprot in
    let b' := insert_block (replace_btsd b t ct) sec' in
    let a := mkASB [t] cose_ctx_id 1 source (sec_params s addl au) [rs] in
    enc_kind kind ->
    keys_resolve kind kg protected uh source (mkSP addl au s) ->
    enc_results_decodable kind kg protected uh ->
    scope_of_cbor (scope_map s) = Some s ->
    no_btsd_in_scope s t ->
    ~ In (CUint num) (map fst s) ->
    num <> t ->
    meta_items sec' = meta_items sec ->
    find_block b t = Some tgt ->
    apply_bcb_target kind kg protected unprot iv b sec source s addl t = Some (rs, ct) ->
    exists b'',
      verify_bcb_asb true b' sec' a = (true, b'') /\
      option_map cb_btsd (find_block b'' t) = Some (cb_btsd tgt) /\
      option_map cb_btsd (find_block b' t) = Some ct.
  Proof.
    intros sec uh b' a Hk Hkeys [W D] Hsc Hno Hnum Hne Hsec Hf Happ.
    unfold BpSec.apply_bcb_target in Happ. rewrite Hf in Happ.
    destruct (enc_input (mkOp kind protected b sec source s addl tgt)) as [ei|] eqn:Eei; [|discriminate].
    injection Happ as <- <-. subst a b'.
    set (ct := enc (content_key key kg) iv ei (cb_btsd tgt)).
    set (tgt' := mkCB (cb_type tgt) (cb_num tgt) (cb_flags tgt) (cb_crct tgt) ct).
    assert (Hne' : cb_num sec' <> t) by (injection Hsec as _ Hn _; cbn [cb_num] in Hn; congruence).
    assert (Hf' : find_block (insert_block (replace_btsd b t ct) sec') t = Some tgt').
    { rewrite find_block_insert by exact Hne'. apply find_block_replace_same, Hf. }
    exists (replace_btsd (insert_block (replace_btsd b t ct) sec') t (cb_btsd tgt)).
    split; [|split].
    - unfold BpSec.verify_bcb_asb. cbn [a_ctxid a_targets a_results a_source].
      unfold check_secblk. cbn [a_params a_results].
      rewrite nodupb_sec_params. cbn [forallb map fst nodupb existsb negb andb].
      cbn [cose_ctx_id N.eqb Pos.eqb andb].
      rewrite extract_sec_params by exact Hsc.
      cbn [decrypt_targets]. rewrite Hf'.
      unfold BpSec.decrypt_result.
      rewrite cose_of_result_value; [|exact W|exact D|eapply enc_shape_ok; eassumption].
      unfold BpSec.decrypt_msg. cbn [c_protected sp_scope sp_addl].
      assert (Eei' : enc_input (mkOp kind protected (insert_block (replace_btsd b t ct) sec') sec' source s addl tgt') = Some ei).
      { rewrite <- Eei. apply enc_input_agreement; auto. }
      rewrite Eei'. unfold msg_iv, lookup_hdr. cbn [c_unprot uh find fst snd].
      replace (cbor_key_eqb (CUint 5) (CUint 5)) with true by reflexivity. cbn [option_map snd].
      rewrite (resolve_ok kind kg protected uh source _ _ Hkeys). cbn [first_some cb_btsd tgt'].
      unfold ct. rewrite dec_enc. destruct Hk as [->| ->]; reflexivity.
    - rewrite (find_block_replace_same _ t _ tgt' Hf'). reflexivity.
    - rewrite Hf'. reflexivity.
  Qed.

  Lemma first_some_In {A B} (f : A -> option B) l y : first_some f l = Some y -> exists x, In x l /\ f x = Some y.
  Proof.
    induction l as [|x l IH]; cbn [first_some]; [discriminate|].
    destruct (f x) as [z|] eqn:E.
    - intros H. injection H as <-. exists x. split; [left; reflexivity|exact E].
    - intros H. destruct (IH H) as (x' & Hin & Hx). exists x'. split; [right; exact Hin|exact Hx].
  Qed.

  (** Soundness (idealised AEAD): if the acceptor's decryption of the BTSD it
      received succeeds, and the ciphertext the source produced for [o] is
      the one received, then authenticated context, IV, key and plaintext are
      the source's. *)
  Theorem bcb_sound k iv o ei pt b' sec' tgt' source' sp' kind' m' pt' :
    let o' := mkOp kind' (c_protected m') b' sec' source' (sp_scope sp') (sp_addl sp') tgt' in
    wf_op_ctx o -> wf_op_ctx o' ->
    enc_input o = Some ei ->
    decrypt_msg b' sec' tgt' source' sp' kind' m' = Some pt' ->
    (cb_btsd tgt' = enc k iv ei pt \/ forall k2 iv2 ei2 pt2, cb_btsd tgt' = enc k2 iv2 ei2 pt2 -> False) ->
    cb_btsd tgt' = enc k iv ei pt /\
    covered_ctx o' = covered_ctx o /\ msg_iv m' = Some iv /\
    In k (resolve_content_key kind' m' source' sp') /\ pt' = pt.
  Proof.
    intros o' W W' Hei Hd Hct. unfold BpSec.decrypt_msg in Hd.
    assert (Hx : exists ei' iv', enc_input o' = Some ei' /\ msg_iv m' = Some iv' /\
                  first_some (fun k0 => dec k0 iv' ei' (cb_btsd tgt')) (resolve_content_key kind' m' source' sp') = Some pt').
    { destruct kind'; try discriminate; fold o' in Hd;
        destruct (enc_input o') as [ei'|]; try discriminate;
        destruct (msg_iv m') as [iv'|]; try discriminate; exists ei', iv'; auto. }
    destruct Hx as (ei' & iv' & Hei' & Hiv' & Hfs).
    apply first_some_In in Hfs as (k' & Hin & Hdec).
    apply aead_auth in Hdec.
    destruct Hct as [Hct|Hct]; [|exfalso; eapply Hct; exact Hdec].
    rewrite Hct in Hdec. apply enc_inj in Hdec as (-> & -> & -> & ->).
    split; [exact Hct|]. split; [|auto].
    apply enc_input_binding; [exact W'|exact W|congruence].
  Qed.

  (** Failure releases nothing: when decryption of the (single) target fails,
      the result is failure and the bundle is returned unchanged - the
      target's BTSD is still the octets received. *)
  Theorem bcb_no_release_on_failure accept b sec a t rs tgt sp :
    a_targets a = [t] -> a_results a = [rs] ->
    extract_secblk a = Some sp ->
    find_block b t = Some tgt ->
    decrypt_result b sec tgt (a_source a) sp rs = None ->
    verify_bcb_asb accept b sec a = (false, b).
  Proof.
    intros Ht Hr He Hf Hd. unfold BpSec.verify_bcb_asb.
    destruct ((a_ctxid a =? cose_ctx_id) && check_secblk a); [|reflexivity].
    rewrite He, Ht, Hr. cbn [decrypt_targets]. rewrite Hf, Hd. reflexivity.
  Qed.

  (** In every case a failed verification returns a bundle in which blocks
      that are not targets are untouched, and without [accept] nothing is
      ever replaced. *)
  Lemma decrypt_targets_no_accept b sec source sp : forall ts rss,
    snd (decrypt_targets key dec unwrap keyring false b sec source sp ts rss) = b.
  Proof.
    induction ts as [|t ts IH]; intros rss; cbn [decrypt_targets]; [reflexivity|].
    destruct (find_block b t); [|reflexivity]. destruct rss as [|rs rss]; [reflexivity|].
    destruct (decrypt_result b sec c source sp rs); [apply IH|]. cbn [snd]. apply IH.
  Qed.
End CryptoProofs.

(** * Non-vacuity: concrete primitives satisfying the hypotheses, and a
    concrete bundle run through [apply] / [verify] *)

Module Ex.
  (** keys are numbers; the key ring resolves the one-octet KID (label 4) *)
  Definition keyring (v : cbor) : option N :=
    match v with
    | CArr [CBstr _; CMap u; _; _; _] =>
        match lookup_hdr u 4 with Some (CBstr [k]) => Some k | _ => None end
    | _ => None
    end.
  Definition wrap (kek cek : N) : bytes := [kek; cek].
  Definition unwrap (kek : N) (w : bytes) : option N :=
    match w with [a; c] => if a =? kek then Some c else None | _ => None end.

  (** (S) idealised, injective authenticator: the tag is the key and the message *)
  Definition macS (k : N) (m : bytes) : bytes := k :: m.
  Definition macS_ok (k : N) (m t : bytes) : bool := bytes_eqb t (k :: m).
  (** (C) short tag (correct but not injective), for the completeness example *)
  Definition macC (k : N) (m : bytes) : bytes := [(k + N.of_nat (length m)) mod 256].
  Definition macC_ok (k : N) (m t : bytes) : bool := bytes_eqb t (macC k m).

  (** idealised AEAD: the ciphertext spells out key, IV, associated data, plaintext *)
  Definition pack (k : N) (iv a : bytes) : bytes := k :: N.of_nat (length iv) :: iv ++ N.of_nat (length a) :: a.
  Definition enc (k : N) (iv a p : bytes) : bytes := pack k iv a ++ p.
  Definition dec (k : N) (iv a c : bytes) : option bytes :=
    if bytes_eqb (firstn (length (pack k iv a)) c) (pack k iv a) then Some (skipn (length (pack k iv a)) c) else None.

  Lemma bytes_eqb_refl x : bytes_eqb x x = true.
  Proof. apply bytes_eqb_eq. reflexivity. Qed.

  Lemma unwrap_wrap kek cek : unwrap kek (wrap kek cek) = Some cek.
  Proof. unfold unwrap, wrap. rewrite N.eqb_refl. reflexivity. Qed.

  Lemma macS_ok_mac k m : macS_ok k m (macS k m) = true.
  Proof. apply bytes_eqb_refl. Qed.

  Lemma macS_inj k k' x y t : macS_ok k x t = true -> macS_ok k' y t = true -> k = k' /\ x = y.
  Proof.
    unfold macS_ok. intros H H'. apply bytes_eqb_eq in H, H'. subst t. injection H' as -> ->. split; reflexivity.
  Qed.

  Lemma macC_ok_mac k m : macC_ok k m (macC k m) = true.
  Proof. apply bytes_eqb_refl. Qed.

  Lemma macC_okbytes k m : okbytes (macC k m).
  Proof. unfold okbytes, macC. cbn [wf length]. split; [lia|]. constructor; [unfold wf_byte; lia|constructor]. Qed.

  Lemma dec_enc k iv a p : dec k iv a (enc k iv a p) = Some p.
  Proof.
    unfold dec, enc. rewrite firstn_app, Nat.sub_diag, firstn_all. cbn [firstn]. rewrite app_nil_r, bytes_eqb_refl.
    rewrite skipn_app, Nat.sub_diag, skipn_all. reflexivity.
  Qed.

  Lemma aead_auth k iv a c p : dec k iv a c = Some p -> c = enc k iv a p.
  Proof.
    unfold dec, enc. destruct (bytes_eqb _ _) eqn:E; [|discriminate]. intros H. injection H as <-.
    apply bytes_eqb_eq in E. rewrite <- E at 1. symmetry. apply firstn_skipn.
  Qed.

  Lemma enc_inj k iv a p k' iv' a' p' : enc k iv a p = enc k' iv' a' p' -> k = k' /\ iv = iv' /\ a = a' /\ p = p'.
  Proof.
    unfold enc, pack. cbn [app]. intros H. injection H as -> Hl H.
    apply Nat2N.inj in Hl. rewrite <- !app_assoc in H. apply app_inj_len in H as [-> H]; [|exact Hl].
    cbn [app] in H. injection H as Hl' H. apply Nat2N.inj in Hl'.
    apply app_inj_len in H as [-> ->]; [|exact Hl']. repeat split.
  Qed.

  (** a small bundle: primary block (CRC-16), a type-7 block number 2, the payload *)
  Definition eid (s : bytes) : cbor := CArr [CUint 1; CTstr s].
  Definition pri : list cbor :=
    [CUint 7; CUint 0; CUint 1; eid [47;47;98;47;115]; eid [47;47;97;47]; eid [47;47;97;47];
     CArr [CUint 1000; CUint 0]; CUint 3600000].
  Definition b0 : bundle := mkB pri [mkCB 7 2 0 1 [5]; mkCB 1 1 0 2 [104; 105]].
  Definition src : cbor := eid [47;47;97;47].
  Definition sc : scope := [(CUint 0, 1); (CNint 0, 1)].
  Definition prot : bytes := [161; 1; 5].
  Definition uh : list (cbor * cbor) := [(CUint 4, CBstr [9])].

  (** *** integrity, direct key 9, COSE_Mac0 *)
  Definition b1C := apply_bib N macC wrap KMac0 (Direct N 9) prot uh b0 3 src sc [] None [1].
  Definition bibC : option cblock := match b1C with Some b => find_block b 3 | None => None end.

  Example complete_run :
    match b1C, bibC with
    | Some b, Some sec => verify_bib N macC_ok unwrap keyring b sec = true
    | _, _ => False
    end.
  Proof. vm_compute. reflexivity. Qed.

  (** the premises of the completeness theorem hold for this run *)
  Example complete_premises :
    auth_kind KMac0 /\
    keys_resolve N keyring KMac0 (Direct N 9) prot uh src (mkSP [] None sc) /\
    results_decodable N wrap KMac0 (Direct N 9) prot uh /\
    (forall x, okbytes (macC 9 x)) /\
    scope_of_cbor (scope_map sc) = Some sc /\
    (forall f, In (CNint 1, f) sc -> flag_btsd f = false) /\
    ~ In (CUint 3) (map fst sc) /\ find_block b0 3 = None /\
    exists a, apply_bib_asb N macC wrap KMac0 (Direct N 9) prot uh b0 (mkCB bib_type 3 0 0 []) src sc [] None [1] = Some a
              /\ asb_dec (asb_enc a) = Some a.
  Proof.
    split; [left; reflexivity|]. split; [split; [left; reflexivity|reflexivity]|].
    split.
    { intros tag Ht. split; [|cbn; unfold cose_fuel; lia].
      apply wf_CArr. split; [cbn; lia|].
      repeat (apply Forall_cons); try apply Forall_nil; try exact Ht.
      - apply wfb_spec. reflexivity.
      - apply wfb_spec. reflexivity.
      - cbn. lia. }
    split; [apply macC_okbytes|]. split; [reflexivity|].
    split; [intros f [H|[H|[]]]; discriminate|].
    split; [intros [H|[H|[]]]; discriminate|]. split; [reflexivity|].
    eexists. split; [vm_compute; reflexivity|vm_compute; reflexivity].
  Qed.

  (** *** soundness instance: an altered payload, an altered primary block and
      a wrong key fail; an altered block outside the scope still verifies *)
  Definition b1S := apply_bib N macS wrap KMac0 (Direct N 9) prot uh b0 3 src sc [] None [1].
  Definition vS (alter : bundle -> bundle) (kr : cbor -> option N) : option bool :=
    match b1S with
    | Some b => match find_block b 3 with
                | Some sec => Some (verify_bib N macS_ok unwrap kr (alter b) sec)
                | None => None
                end
    | None => None
    end.
  Definition alter_payload (b : bundle) := replace_btsd b 1 [104; 106].
  Definition alter_other (b : bundle) := replace_btsd b 2 [6].
  Definition alter_primary (b : bundle) := mkB (CUint 7 :: CUint 4 :: tl (tl (b_pri b))) (b_blocks b).
  Definition keyring_wrong (v : cbor) : option N := option_map (N.add 1) (keyring v).

  Example sound_run :
    vS (fun b => b) keyring = Some true /\ vS alter_payload keyring = Some false /\
    vS alter_primary keyring = Some false /\ vS alter_other keyring = Some true /\
    vS (fun b => b) keyring_wrong = Some false.
  Proof. vm_compute. repeat split. Qed.

  Example wf_op_run :
    match find_block b0 1 with
    | Some tgt => wf_op (mkOp KMac0 prot b0 (mkCB bib_type 3 0 0 []) src sc [] tgt) /\
                  covered (mkOp KMac0 prot b0 (mkCB bib_type 3 0 0 []) src sc [] tgt) <> None
    | None => False
    end.
  Proof.
    cbn [find_block b0 b_blocks find cb_num N.eqb Pos.eqb]. split; [|vm_compute; discriminate].
    apply wf_opb_ok. vm_compute. reflexivity.
  Qed.

  (** *** confidentiality, direct key 9, COSE_Encrypt0, including the empty plaintext *)
  Definition protE : bytes := [161; 1; 1].
  Definition b0e : bundle := mkB pri [mkCB 7 2 0 1 [5]; mkCB 1 1 0 2 []].
  Definition runE (b : bundle) (kr : cbor -> option N) (alter : bundle -> bundle) : option (bool * option bytes * option bytes) :=
    match apply_bcb N enc wrap KEnc0 (Direct N 9) protE uh b 4 src sc [] None [(1, [1; 2; 3])] with
    | Some b' =>
        match find_block b' 4 with
        | Some sec =>
            let r := verify_bcb N dec unwrap kr true (alter b') sec in
            Some (fst r, option_map cb_btsd (find_block b' 1), option_map cb_btsd (find_block (snd r) 1))
        | None => None
        end
    | None => None
    end.

  Example roundtrip_run :
    (exists ct, runE b0 keyring (fun b => b) = Some (true, Some ct, Some [104; 105]) /\ ct <> [104; 105]) /\
    (exists ct, runE b0e keyring (fun b => b) = Some (true, Some ct, Some [])) /\
    (exists ct, runE b0 keyring_wrong (fun b => b) = Some (false, Some ct, Some ct)) /\
    (exists ct, runE b0 keyring alter_primary = Some (false, Some ct, Some ct)).
  Proof.
    repeat split; eexists; (split; [vm_compute; reflexivity|vm_compute; discriminate]) || (vm_compute; reflexivity).
  Qed.
End Ex.

(** * The wire -> field step is not injective (finding)

    [mac_input_binding] is about decoded fields.  The decoder keeps EIDs as
    URI strings and re-encodes them through [urlsplit] ([eid_norm]), so two
    different encoded bundles can carry the same decoded content: the
    verifier authenticates exactly the same input for both.  Witnesses: a
    bundle the real agent produced (COSE_Mac0 / HMAC-256 BIB, scope
    {0:1,-1:1}); the same bundle with "?q=1" appended to the destination EID
    of the primary block (CRC value left as it was); the same bundle with one
    bit of the security source flipped ("//src/" -> "//src?").  The real
    receive path delivers both altered bundles as verified. *)
Module Wit.
  Definition orig : bytes := (unhex 148 0x9f890700018201692f2f6473742f7376638201662f2f7372632f820100821b000000ba43b74000001a0036ee8042a6b2850b020000584e810103018201662f2f7372632f818205a2000120018181821158338443a10105a104486b2d6d6163323536f65820ba03965c5ded6c48aad4b8cdf224f7caa4074928f79307f15d17817f85cf972b86010100014568656c6c6f424bf3ff).
  Definition alt_primary : bytes := (unhex 152 0x9f8907000182016d2f2f6473742f7376633f713d318201662f2f7372632f820100821b000000ba43b74000001a0036ee8042a6b2850b020000584e810103018201662f2f7372632f818205a2000120018181821158338443a10105a104486b2d6d6163323536f65820ba03965c5ded6c48aad4b8cdf224f7caa4074928f79307f15d17817f85cf972b86010100014568656c6c6f424bf3ff).
  Definition alt_source : bytes := (unhex 148 0x9f890700018201692f2f6473742f7376638201662f2f7372632f820100821b000000ba43b74000001a0036ee8042a6b2850b020000584e810103018201662f2f7372633f818205a2000120018181821158338443a10105a104486b2d6d6163323536f65820ba03965c5ded6c48aad4b8cdf224f7caa4074928f79307f15d17817f85cf972b86010100014568656c6c6f424bf3ff).

  Lemma primary_refuted :
    wire_primary_raw orig <> wire_primary_raw alt_primary /\ wire_primary_raw alt_primary <> None /\
    verdict orig alt_primary = 1.
  Proof. vm_compute. repeat split; discriminate. Qed.

  Lemma source_refuted :
    wire_sources_raw orig <> wire_sources_raw alt_source /\ wire_sources_raw alt_source <> None /\
    length orig = length alt_source /\ verdict orig alt_source = 1.
  Proof. vm_compute. repeat split; discriminate. Qed.
End Wit.

(** The same for a confidentiality block the real agent produced
    (COSE_Encrypt0 / A128GCM, scope {0:1,-1:1}): altered destination EID
    (CRC value left as it was), resp. one bit of the security source flipped;
    the acceptor computes the same Enc_structure and releases the plaintext. *)
Module WitE.
  Definition orig : bytes := (unhex 144 0x9f890700018201692f2f6473742f7376638201662f2f7372632f820100821b000000ba43b74000001a0036ee8042a6b2850c020100583a810103018201662f2f7372632f818205a20001200181818210581f8343a10101a204486b2d67636d313238054c5477656c7665313231323132f6860101000155372c8a2b9de10126a5a175e165952c587b64ff56a042d8e0ff).
  Definition alt_primary : bytes := (unhex 148 0x9f8907000182016d2f2f6473742f7376633f713d318201662f2f7372632f820100821b000000ba43b74000001a0036ee8042a6b2850c020100583a810103018201662f2f7372632f818205a20001200181818210581f8343a10101a204486b2d67636d313238054c5477656c7665313231323132f6860101000155372c8a2b9de10126a5a175e165952c587b64ff56a042d8e0ff).
  Definition alt_source : bytes := (unhex 144 0x9f890700018201692f2f6473742f7376638201662f2f7372632f820100821b000000ba43b74000001a0036ee8042a6b2850c020100583a810103018201662f2f7372633f818205a20001200181818210581f8343a10101a204486b2d67636d313238054c5477656c7665313231323132f6860101000155372c8a2b9de10126a5a175e165952c587b64ff56a042d8e0ff).

  Lemma primary_refuted :
    wire_primary_raw orig <> wire_primary_raw alt_primary /\ wire_primary_raw alt_primary <> None /\
    verdict orig alt_primary = 1.
  Proof. vm_compute. repeat split; discriminate. Qed.

  Lemma source_refuted :
    wire_sources_raw orig <> wire_sources_raw alt_source /\ wire_sources_raw alt_source <> None /\
    length orig = length alt_source /\ verdict orig alt_source = 1.
  Proof. vm_compute. repeat split; discriminate. Qed.
End WitE.
