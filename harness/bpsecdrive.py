''' Reusable BPSec (COSE context) driver on top of ``bpdrive.BpDriver`` (used by C03, C16, C12).

    import env; env.shim_oscrypto()          # FIRST
    import bpsecdrive as sd
    prof = sd.PROFILES['mac0-hmac256']
    src = sd.make_source(prof)                # SecNode with keys + policy of the profile (security source)
    wire = src.send(dict(dest='dtn://dst/svc', payload=b'hello', crc=2, blocks=[...]))   # real agent TX path
    dst = sd.make_receiver(prof)              # SecNode holding the right key (security acceptor / verifier)
    out = dst.recv(wire)                      # real agent RX path -> Outcome dict (delivered, payload, sec_failure ...)
    res = dst.verify_direct(wire)             # return values of CoseContext.verify_bcb / verify_bib per block

What is here
  * key material: ``sym_key`` (COSE symmetric keys as in the test data files), ``load_pki`` (CA + end-entity
    certificates built exactly as ``bp/test/test_app_bpsec.py`` does; generated once and cached in
    ``harness/corpus/bpsec_pki.json`` so bundle sizes are identical on every run),
  * ``SecNode``: a real ``bp.agent.Agent`` (through ``BpDriver``) with key stores, certificates and security
    policy (``SecAssociation`` / ``SecOperation``) configured the way the unit tests configure them,
  * ``PROFILES``: the supported COSE message kinds (MAC0, MAC + AES-KW, Sign1 ES256/ES384/PS512, Encrypt0,
    Encrypt + AES-KW),
  * an independent (plain ``cbor2``) reader/writer for bundles and Abstract Security Blocks, alteration
    helpers (single-bit flips, single-field changes) with CRC re-fixing, and ``diff_covered`` - the
    classification of an alteration by the content the property text lists as covered.

Nothing here imports the code under test except ``SecNode`` / key helpers.
'''
import copy
import io
import json
import os
import re

import cbor2

import bpdrive

HERE = os.path.dirname(os.path.abspath(__file__))
PKI_FILE = os.path.join(HERE, 'corpus', 'bpsec_pki.json')

FAILED_SEC = 15
UNKNOWN_SEC = 13
BIB = 11
BCB = 12

# --------------------------------------------------------------------------- key material


def sym_key(kid, k, alg, ops):
    ''' COSE symmetric key. ``alg`` a pycose algorithm class name ('HMAC256', 'A128KW', 'A256GCM' ...),
    ``ops`` names out of 'mac', 'wrap', 'enc'. '''
    from pycose import algorithms
    from pycose.keys import keyops, SymmetricKey
    opmap = dict(mac=[keyops.MacCreateOp, keyops.MacVerifyOp], wrap=[keyops.WrapOp, keyops.UnwrapOp],
                 enc=[keyops.EncryptOp, keyops.DecryptOp])
    key_ops = [op for name in ops for op in opmap[name]]
    return SymmetricKey(k=bytes(k), optional_params={'ALG': getattr(algorithms, alg), 'KID': bytes(kid), 'KEY_OPS': key_ops})


def gen_pki(node_id, kind):
    ''' CA + end-entity certificate for ``node_id`` as ``test_app_bpsec.py`` builds them (same extensions,
    id-on-bundleEID SAN, id-kp-bundleSecurity EKU); long validity so a frozen clock is inside it.
    :return: dict of PEM strings. '''
    import datetime
    import asn1
    from cryptography import x509
    from cryptography.hazmat.backends import default_backend
    from cryptography.hazmat.primitives import hashes, serialization
    from cryptography.hazmat.primitives.asymmetric import rsa, ec

    def newkey():
        if kind == 'ec256':
            return ec.generate_private_key(ec.SECP256R1(), backend=default_backend())
        if kind == 'ec384':
            return ec.generate_private_key(ec.SECP384R1(), backend=default_backend())
        if kind == 'rsa':
            return rsa.generate_private_key(0x10001, 2048, backend=default_backend())
        raise ValueError(kind)
    ca_key = newkey()
    end_key = newkey()
    not_before = datetime.datetime(2020, 1, 1, tzinfo=datetime.timezone.utc)
    not_after = datetime.datetime(2120, 1, 1, tzinfo=datetime.timezone.utc)
    ca_name = x509.Name([x509.NameAttribute(x509.oid.NameOID.COMMON_NAME, 'CA')])
    ca_cert = x509.CertificateBuilder().subject_name(ca_name).issuer_name(ca_name).public_key(
        ca_key.public_key()).serial_number(1000).not_valid_before(not_before).not_valid_after(not_after).add_extension(
        x509.BasicConstraints(ca=True, path_length=1), critical=True).add_extension(
        x509.KeyUsage(digital_signature=False, content_commitment=False, key_encipherment=False,
                      data_encipherment=False, key_agreement=False, key_cert_sign=True, crl_sign=True,
                      encipher_only=False, decipher_only=False), critical=False).add_extension(
        x509.SubjectKeyIdentifier.from_public_key(ca_key.public_key()), critical=False).add_extension(
        x509.AuthorityKeyIdentifier.from_issuer_public_key(ca_key.public_key()), critical=False).sign(
        ca_key, hashes.SHA256(), backend=default_backend())
    eid_enc = asn1.Encoder()
    eid_enc.start()
    eid_enc.write(node_id.encode('ascii'), asn1.Numbers.IA5String)
    sans = [x509.OtherName(x509.oid.ObjectIdentifier('1.3.6.1.5.5.7.8.11'), eid_enc.output())]
    end_cert = x509.CertificateBuilder().subject_name(
        x509.Name([x509.NameAttribute(x509.oid.NameOID.COMMON_NAME, 'end-entity')])).issuer_name(
        ca_cert.issuer).public_key(end_key.public_key()).serial_number(1001).not_valid_before(
        not_before).not_valid_after(not_after).add_extension(
        x509.BasicConstraints(ca=False, path_length=None), critical=True).add_extension(
        x509.SubjectAlternativeName(sans), critical=False).add_extension(
        x509.KeyUsage(digital_signature=True, content_commitment=False, key_encipherment=False,
                      data_encipherment=False, key_agreement=False, key_cert_sign=False, crl_sign=False,
                      encipher_only=False, decipher_only=False), critical=False).add_extension(
        x509.ExtendedKeyUsage([x509.oid.ObjectIdentifier('1.3.6.1.5.5.7.3.35')]), critical=False).add_extension(
        x509.SubjectKeyIdentifier.from_public_key(end_key.public_key()), critical=False).add_extension(
        x509.AuthorityKeyIdentifier.from_issuer_public_key(ca_key.public_key()), critical=False).sign(
        ca_key, hashes.SHA256(), backend=default_backend())

    def pem_key(key):
        return key.private_bytes(serialization.Encoding.PEM, serialization.PrivateFormat.PKCS8,
                                 serialization.NoEncryption()).decode('ascii')

    def pem_cert(cert):
        return cert.public_bytes(serialization.Encoding.PEM).decode('ascii')
    return dict(node_id=node_id, kind=kind, ca_key=pem_key(ca_key), ca_cert=pem_cert(ca_cert),
                end_key=pem_key(end_key), end_cert=pem_cert(end_cert))


_PKI_CACHE = {}


def load_pki(kind, node_id='dtn://src/', which='own'):
    ''' PKI of the given key kind ('ec256', 'ec384', 'rsa') from the cached corpus file (created on first
    use). ``which='other'`` is an unrelated CA + end entity for the same node id (the wrong key). '''
    name = '%s:%s:%s' % (kind, node_id, which)
    if name in _PKI_CACHE:
        return _PKI_CACHE[name]
    data = {}
    if os.path.exists(PKI_FILE):
        with open(PKI_FILE) as infile:
            data = json.load(infile)
    if name not in data:
        data[name] = gen_pki(node_id, kind)
        tmp = PKI_FILE + '.tmp.%d' % os.getpid()
        with open(tmp, 'w') as out:
            json.dump(data, out, indent=1, sort_keys=True)
        os.replace(tmp, PKI_FILE)
    _PKI_CACHE[name] = data[name]
    return data[name]


def _pki_objects(pki):
    from cryptography import x509
    from cryptography.hazmat.backends import default_backend
    from cryptography.hazmat.primitives import serialization
    return dict(
        ca_cert=x509.load_pem_x509_certificate(pki['ca_cert'].encode(), default_backend()),
        end_cert=x509.load_pem_x509_certificate(pki['end_cert'].encode(), default_backend()),
        end_key=serialization.load_pem_private_key(pki['end_key'].encode(), None, default_backend()),
    )


# --------------------------------------------------------------------------- the node


class SecNode(object):
    ''' A real BP agent with the BPSec application configured. '''

    def __init__(self, node_id, accept_after_verify=False, include_chain=True, rx_routes=None, tx_routes=None,
                 config_kwargs=None):
        cfg = dict(accept_after_verify=accept_after_verify, integrity_include_chain=include_chain)
        cfg.update(config_kwargs or {})
        if rx_routes is None:
            rx_routes = [('^' + re.escape(node_id.rstrip('/')) + '(/.*)?$', 'deliver'), ('.*', 'forward')]
        if tx_routes is None:
            tx_routes = [dict(pattern='.*')]
        self.node_id = node_id
        self.drv = bpdrive.BpDriver(node_id=node_id, rx_routes=rx_routes, tx_routes=tx_routes, config_kwargs=cfg)
        self.agent = self.drv.agent
        self.app = self.agent._app['bpsec']
        import bp.app.bpsec as bpsec_mod
        self.mod = bpsec_mod
        self.ctx = self.app.get_context(bpsec_mod.BPSEC_COSE_CONTEXT_ID)

    # ---- configuration (recipes of bp/test/test_app_bpsec.py)
    def add_sym_key(self, key):
        self.ctx.sym_key_store[key.kid] = key
        return key

    def add_pki(self, pki, signer=True, kid=b'sign'):
        ''' Trust the CA of ``pki``; with ``signer`` also install the end-entity key + chain for signing. '''
        from pycose.keys import keyops
        objs = _pki_objects(pki)
        self.ctx._ca_certs = [objs['ca_cert']]
        if signer:
            self.ctx._cert_chain = [objs['end_cert']]
            priv = self.ctx.extract_cose_key(objs['end_key'])
            priv.kid = kid
            priv.key_ops = [keyops.SignOp]
            self.ctx.asym_key_store[priv.kid] = priv
            return priv
        return None

    def add_cert_to_store(self, pki):
        ''' Make the end-entity certificate known to the verifier (needed when the source sends x5t only). '''
        from bp.crypto import encode_der_cert
        objs = _pki_objects(pki)
        for cert in (objs['ca_cert'], objs['end_cert']):
            self.ctx.cert_store.add_untrusted_cert(encode_der_cert(cert))

    def add_policy(self, sec_type, key_id, tgt_types=(1,), content_alg=None, content_key=None, content_iv=(),
                   src_pat='.*', dst_pat='.*'):
        from pycose import algorithms
        mod = self.mod
        sop = mod.SecOperation(sec_type=sec_type, role='source', priv_key_id=bytes(key_id),
                               content_alg=(getattr(algorithms, content_alg) if content_alg else None),
                               content_key=(bytes(content_key) if content_key is not None else None),
                               content_iv=[bytes(iv) for iv in content_iv])
        self.ctx.sec_assoc.append(mod.SecAssociation(src_pat=re.compile(src_pat), dst_pat=re.compile(dst_pat),
                                                     tgt_blk_types=list(tgt_types), templates=[sop]))
        return sop

    def set_ivs(self, ivs):
        ''' Refill the content IV list of every BCB template (the agent pops one per target). '''
        for assoc in self.ctx.sec_assoc:
            for sop in assoc.templates:
                if sop.sec_type == 'bcb':
                    sop.content_iv = [bytes(iv) for iv in ivs]

    # ---- running
    def reset(self):
        ''' Forget everything a previous bundle left behind (seen identities, logs, pending sources). '''
        self.agent._seen_bundle_ident.clear()
        self.drv.GLib.CTX.reset()
        for lst in (self.drv.events, self.drv.deliveries, self.drv.transmitted, self.drv.send_attempts, self.drv.recv_calls):
            del lst[:]
        frag = self.agent._app.get('fragment')
        if frag is not None and hasattr(frag, '_reassembly'):
            frag._reassembly.clear()

    def send(self, spec):
        ''' Build a bundle from ``spec`` with the real block classes and pass it through the real
        ``Agent.send_bundle`` (TX chain: BIB order 10, BCB order 11, routing, CRCs).

        spec: dest, src (default own node), report_to, flags, crc (all blocks), lifetime, payload (bytes),
        blocks=[dict(type, num, flags, crc, data)], payload_flags.
        :return: the octets handed to the convergence layer (or None). '''
        from bp.util import BundleContainer
        from bp.encoding import PrimaryBlock, CanonicalBlock
        crc = spec.get('crc', 2)
        ctr = BundleContainer()
        kwargs = dict(destination=spec['dest'], crc_type=crc, bundle_flags=int(spec.get('flags', 0)))
        if spec.get('src') is not None:
            kwargs['source'] = spec['src']
        if spec.get('report_to') is not None:
            kwargs['report_to'] = spec['report_to']
        if spec.get('lifetime'):
            kwargs['lifetime'] = int(spec['lifetime'])
        ctr.bundle.primary = PrimaryBlock(**kwargs)
        blocks = []
        for blk in spec.get('blocks', ()):
            blocks.append(CanonicalBlock(type_code=blk['type'], block_num=blk['num'], block_flags=blk.get('flags', 0),
                                         crc_type=blk.get('crc', crc), btsd=bytes(blk['data'])))
        blocks.append(CanonicalBlock(type_code=1, block_num=1, block_flags=spec.get('payload_flags', 0),
                                     crc_type=spec.get('payload_crc', crc), btsd=bytes(spec.get('payload', b''))))
        ctr.bundle.blocks = blocks
        mark = len(self.drv.transmitted)
        self.agent.send_bundle(ctr)
        self.drv.drain()
        sent = self.drv.transmitted[mark:]
        return bytes.fromhex(sent[0]['raw_hex']) if sent else None

    def recv(self, raw):
        ''' Real receive path (CL callback -> ``Agent.recv_bundle`` -> RX chain) for one encoded bundle.
        :return: outcome dict: delivered (bool: reached the application step with 'deliver'), payload (bytes of
          block 1 at that point), sec_failure (deleted with a BPSec reason), reason, rejected (how it was dropped
          before/without verification), decode_error, recv_exc, escaped, reports. '''
        self.reset()
        obs = self.drv.recv(bytes(raw))
        out = dict(delivered=bool(obs['deliveries']), payload=None, decode_error=obs['decode_error'],
                   recv_exc=obs['recv_exc'], escaped=list(obs['escaped']),
                   actions=(obs['actions'][0] if obs['actions'] else None),
                   reason=(obs['status_reason'][0] if obs['status_reason'] else None),
                   forwarded=len(obs['forwarded']), reports=[bpdrive.event_summary(('tx', ent)) for ent in obs['reports']])
        if obs['deliveries']:
            hexv = obs['deliveries'][0]['payload_hex']
            out['payload'] = bytes.fromhex(hexv) if hexv is not None else None
            out['dest'] = obs['deliveries'][0]['dest']
        acts = out['actions'] or []
        out['deleted'] = 'delete' in acts
        out['sec_failure'] = bool('delete' in acts and out['reason'] in (FAILED_SEC, UNKNOWN_SEC))
        return out

    def verify_direct(self, raw):
        ''' Decode ``raw`` with the real codec and call the context's ``verify_bcb`` then ``verify_bib`` on every
        security block (the order of the RX chain), with no CRC gate and no routing.
        :return: dict(error=..., bcb=[result...], bib=[result...], payload=bytes of block 1 afterwards) where a
          result is None (verified), an int reason code, or 'exc:<Class>'. '''
        from bp.util import BundleContainer
        from bp.encoding import Bundle
        from bp.encoding.bpsec import BlockIntegrityBlock, BlockConfidentialityBlock
        res = dict(error=None, bcb=[], bib=[], payload=None)
        try:
            ctr = BundleContainer(Bundle(bytes(raw)))
        except Exception as err:
            res['error'] = 'decode:' + err.__class__.__name__
            return res
        for (name, cls) in (('bcb', BlockConfidentialityBlock), ('bib', BlockIntegrityBlock)):
            for blk in list(ctr.block_type(cls)):
                try:
                    # context dispatch as in Bpsec._verify_bcb / _verify_bib
                    ctx = self.app._contexts.get(blk.payload.context_id)
                    if ctx is None:
                        val = UNKNOWN_SEC
                    else:
                        val = (ctx.verify_bcb if name == 'bcb' else ctx.verify_bib)(ctr, blk)
                    res[name].append(None if val is None else int(val))
                except Exception as err:
                    res[name].append('exc:' + err.__class__.__name__)
        try:
            res['payload'] = bytes(ctr.block_num(1).getfieldval('btsd') or b'')
        except Exception:
            res['payload'] = None
        return res

    def external_aad(self, raw, sec_hdr, source, scope, addl_protected, target_num, sec_btsd=b''):
        ''' ``CoseSecOpCtx.get_external_aad()`` of the real code for an arbitrary scope / target / security
        block header on the decoded bundle ``raw`` (pure function; no crypto).
        :return: bytes, or 'exc:<Class>'. '''
        from bp.util import BundleContainer
        from bp.encoding import Bundle, CanonicalBlock
        from bp.encoding.fields import EidField
        ctr = BundleContainer(Bundle(bytes(raw)))
        sec = CanonicalBlock(type_code=sec_hdr[0], block_num=sec_hdr[1], block_flags=sec_hdr[2], btsd=bytes(sec_btsd))
        try:
            ssrc_enc = cbor2.dumps(EidField('x').i2m(None, source))
            secop = self.mod.CoseSecOpCtx(ctr=ctr, sec_blk=sec, ssrc_enc=ssrc_enc, aad_scope=dict(scope),
                                          addl_protected=bytes(addl_protected))
            secop.tgt_blk = ctr.block_num(target_num)
            return bytes(secop.get_external_aad())
        except Exception as err:
            return 'exc:' + err.__class__.__name__

    def receiver_aad(self, raw, sec_num, tgt_ix):
        ''' The AAD the verifier computes for target index ``tgt_ix`` of security block ``sec_num``. '''
        from bp.util import BundleContainer
        from bp.encoding import Bundle
        try:
            ctr = BundleContainer(Bundle(bytes(raw)))
            blk = ctr.block_num(sec_num)
            secop = self.mod.CoseSecOpCtx(ctr=ctr, sec_blk=blk)
            secop.extract_secblk()
            secop.tgt_blk = ctr.block_num(blk.payload.targets[tgt_ix])
            return bytes(secop.get_external_aad())
        except Exception as err:
            return 'exc:' + err.__class__.__name__


# --------------------------------------------------------------------------- profiles

SRC_ID = 'dtn://src/'
DST_ID = 'dtn://dst/'


def _k(seed, size):
    return bytes((seed * 37 + idx * 11 + 5) % 256 for idx in range(size))


PROFILES = {
    # ---- integrity (C03)
    'mac0-hmac256': dict(sec='bib', kind='mac0', code=17, key=('k-mac256', _k(1, 32), 'HMAC256', ['mac'])),
    'mac0-hmac384': dict(sec='bib', kind='mac0', code=17, key=('k-mac384', _k(2, 32), 'HMAC384', ['mac'])),
    'mac0-hmac512': dict(sec='bib', kind='mac0', code=17, key=('k-mac512', _k(3, 32), 'HMAC512', ['mac'])),
    # COSE_Mac with an AES-KW recipient.  With the pycose installed here (stock 1.1.0, not the fork the
    # project pins) the agent can neither produce nor verify this kind; kept for the harness-built witness.
    'mac-kw-hmac256': dict(sec='bib', kind='mac', code=97, key=('k-kw128', _k(4, 16), 'A128KW', ['wrap']),
                           content_alg='HMAC256', content_key=_k(5, 32)),
    'mac-kw-hmac384': dict(sec='bib', kind='mac', code=97, key=('k-kw256', _k(6, 32), 'A256KW', ['wrap']),
                           content_alg='HMAC384', content_key=_k(7, 32)),
    'sign1-es256': dict(sec='bib', kind='sign1', code=18, pki='ec256', include_chain=True),
    'sign1-es384': dict(sec='bib', kind='sign1', code=18, pki='ec384', include_chain=True),
    'sign1-ps512': dict(sec='bib', kind='sign1', code=18, pki='rsa', include_chain=True),
    # ---- confidentiality (C16)
    'enc0-a128gcm': dict(sec='bcb', kind='enc0', code=16, key=('k-gcm128', _k(8, 16), 'A128GCM', ['enc'])),
    'enc0-a256gcm': dict(sec='bcb', kind='enc0', code=16, key=('k-gcm256', _k(9, 32), 'A256GCM', ['enc'])),
    'enc-kw-a256gcm': dict(sec='bcb', kind='enc', code=96, key=('k-kw256e', _k(10, 32), 'A256KW', ['wrap']),
                           content_alg='A256GCM', content_key=_k(11, 32)),
    'enc-kw-a128gcm': dict(sec='bcb', kind='enc', code=96, key=('k-kw128e', _k(12, 16), 'A128KW', ['wrap']),
                           content_alg='A128GCM', content_key=_k(13, 16)),
}

GCM_TAG_LEN = 16


def profile_key(prof, wrong=False):
    (kid, k, alg, ops) = prof['key']
    if wrong:
        k = bytes((octet ^ 0x5A) for octet in k)
    return sym_key(kid.encode('ascii'), k, alg, ops)


def _as_list(extra):
    if not extra:
        return []
    return list(extra) if isinstance(extra, (list, tuple)) else [extra]


def make_source(prof, node_id=SRC_ID, tgt_types=(1,), ivs=(), extra=None):
    ''' The security source of a profile: keys + one policy entry covering ``tgt_types``.
    ``extra`` = another profile (or list of profiles) whose policy is installed as well (e.g. BIB + BCB on the
    same bundle). '''
    node = SecNode(node_id, include_chain=prof.get('include_chain', True))
    for item in [prof] + _as_list(extra):
        if 'pki' in item:
            node.add_pki(load_pki(item['pki'], node_id), signer=True)
            node.add_policy(item['sec'], b'sign', tgt_types)
        else:
            key = node.add_sym_key(profile_key(item))
            node.add_policy(item['sec'], key.kid, tgt_types, content_alg=item.get('content_alg'),
                            content_key=item.get('content_key'), content_iv=ivs)
    return node


def make_receiver(prof, node_id=DST_ID, wrong_key=False, accept=None, src_id=SRC_ID, extra=None):
    ''' A receiver for bundles of ``make_source(prof)``. ``wrong_key``: True = every key wrong (same key id,
    different key material for symmetric keys / an unrelated CA for certificates); or a list of profile NAMES whose
    key alone is wrong.  ``accept`` = config accept_after_verify (default: True when a confidentiality profile is
    involved, False otherwise).  ``extra`` = further profile(s) whose keys the receiver holds as well. '''
    if accept is None:
        accept = any(item['sec'] == 'bcb' for item in [prof] + _as_list(extra))
    node = SecNode(node_id, accept_after_verify=accept)
    for item in [prof] + _as_list(extra):
        if wrong_key is True or wrong_key is False or wrong_key is None:
            wrong = bool(wrong_key)
        else:
            wrong = any(item is PROFILES[name] for name in wrong_key)
        if 'pki' in item:
            pki = load_pki(item['pki'], src_id, 'other' if wrong else 'own')
            node.add_pki(pki, signer=False)
            if not item.get('include_chain', True):
                node.add_cert_to_store(load_pki(item['pki'], src_id, 'own'))
        else:
            node.add_sym_key(profile_key(item, wrong=wrong))
    return node


# --------------------------------------------------------------------------- independent codec

def split_bundle(raw):
    ''' Plain-cbor2 split of bundle octets into [(decoded item, raw octets, offset)], primary first.
    :raise ValueError: not an indefinite array of definite items closed by a single break. '''
    raw = bytes(raw)
    if raw[:1] != b'\x9f':
        raise ValueError('not an indefinite-length array')
    stream = io.BytesIO(raw)
    stream.read(1)
    dec = cbor2.CBORDecoder(stream)
    items = []
    while True:
        start = stream.tell()
        if start >= len(raw):
            raise ValueError('missing break')
        if raw[start:start + 1] == b'\xff':
            if start + 1 != len(raw):
                raise ValueError('trailing octets')
            break
        item = dec.decode()
        items.append((item, raw[start:stream.tell()], start))
    if not items:
        raise ValueError('empty bundle')
    return items


def _is_uint(val):
    return isinstance(val, int) and not isinstance(val, bool) and val >= 0


def check_shape(items):
    ''' RFC 9171 shape of decoded blocks (what an independent receiver insists on).
    :return: None or a reason string. '''
    pri = items[0][0]
    if not isinstance(pri, list) or len(pri) < 8:
        return 'primary shape'
    if not all(_is_uint(pri[idx]) for idx in (0, 1, 2, 7)) or pri[0] != 7 or pri[2] not in (0, 1, 2):
        return 'primary fields'
    want = 8 + (2 if pri[1] & 1 else 0) + (1 if pri[2] else 0)
    if len(pri) != want:
        return 'primary length'
    if pri[2] and not (isinstance(pri[-1], bytes) and len(pri[-1]) == bpdrive.CRC_LEN[pri[2]]):
        return 'primary crc field'
    for idx in (3, 4, 5):
        eid = pri[idx]
        if not (isinstance(eid, list) and len(eid) == 2 and eid[0] in (1, 2)):
            return 'eid shape'
        if eid[0] == 1 and not (eid[1] == 0 and not isinstance(eid[1], bool) or isinstance(eid[1], str)):
            return 'eid dtn ssp'
        if eid[0] == 2 and not (isinstance(eid[1], list) and len(eid[1]) == 2 and all(_is_uint(x) for x in eid[1])):
            return 'eid ipn ssp'
    if not (isinstance(pri[6], list) and len(pri[6]) == 2 and all(_is_uint(x) for x in pri[6])):
        return 'timestamp'
    nums = set()
    for (blk, _raw, _off) in items[1:]:
        if not isinstance(blk, list) or len(blk) not in (5, 6):
            return 'block shape'
        if not all(_is_uint(blk[idx]) for idx in (0, 1, 2, 3)) or blk[3] not in (0, 1, 2):
            return 'block fields'
        if len(blk) != 5 + (1 if blk[3] else 0) or not isinstance(blk[4], bytes):
            return 'block length'
        if blk[3] and not (isinstance(blk[5], bytes) and len(blk[5]) == bpdrive.CRC_LEN[blk[3]]):
            return 'block crc field'
        if blk[1] in nums or blk[1] == 0:
            return 'block number'
        nums.add(blk[1])
    if len(items) < 2 or items[-1][0][0] != 1 or items[-1][0][1] != 1:
        return 'payload last'
    return None


def is_canonical(items):
    ''' Every block is encoded in shortest form (re-encoding the decoded item gives the same octets). '''
    try:
        return all(cbor2.dumps(item) == raw for (item, raw, _off) in items)
    except Exception:
        return False


def block_crc_type(item, primary):
    try:
        val = item[2] if primary else item[3]
        return val if val in (0, 1, 2) else None
    except Exception:
        return None


def encode_block(item, primary, fix_crc=True):
    ''' cbor2 encoding of one block item; with ``fix_crc`` the CRC value (last element) is recomputed
    when the block declares CRC type 1/2 and carries a byte-string CRC element. '''
    crc_type = block_crc_type(item, primary)
    if fix_crc and crc_type in (1, 2) and isinstance(item, list) and item and isinstance(item[-1], bytes) \
            and len(item) == ((9 if not (item[1] & 1) else 11) if primary else 6):
        return bpdrive._with_crc(list(item[:-1]), crc_type)
    return cbor2.dumps(item)


def join_bundle(block_items, fix_crc=True):
    out = b'\x9f'
    for (idx, item) in enumerate(block_items):
        out += encode_block(item, idx == 0, fix_crc)
    return out + b'\xff'


def refix_crc_raw(raw):
    ''' Recompute every block CRC over the octets as they are (no re-encoding), patching the trailing CRC
    octets in place.  Blocks whose shape does not allow it are left alone.
    :return: patched octets, or None when the bundle does not split into items. '''
    try:
        items = split_bundle(raw)
    except Exception:
        return None
    out = bytearray(raw)
    for (idx, (item, blk_raw, off)) in enumerate(items):
        primary = idx == 0
        crc_type = block_crc_type(item, primary) if isinstance(item, list) and len(item) >= 4 else None
        if crc_type not in (1, 2) or not isinstance(item[-1], bytes):
            continue
        size = bpdrive.CRC_LEN[crc_type]
        if len(item[-1]) != size or blk_raw[-size - 1] != 0x40 + size:
            continue
        zeroed = blk_raw[:-size] + b'\x00' * size
        val = bpdrive.CRC_FUN[crc_type](zeroed).to_bytes(size, 'big')
        out[off + len(blk_raw) - size:off + len(blk_raw)] = val
    return bytes(out)


def asb_decode(btsd):
    ''' Abstract Security Block (RFC 9172 section 3.6) with plain cbor2.
    :return: dict(targets, ctx_id, flags, source, params (list of [id, value]) or None, results). '''
    stream = io.BytesIO(bytes(btsd))
    dec = cbor2.CBORDecoder(stream)
    seq = []
    while stream.tell() < len(btsd):
        seq.append(dec.decode())
    if len(seq) < 5:
        raise ValueError('ASB too short')
    (targets, ctx_id, flags, source) = seq[:4]
    if not (isinstance(targets, list) and all(_is_uint(x) for x in targets) and _is_uint(ctx_id) and _is_uint(flags)):
        raise ValueError('ASB head')
    if not (isinstance(source, list) and len(source) == 2 and source[0] in (1, 2)):
        raise ValueError('ASB source')
    if source[0] == 1 and not (isinstance(source[1], str) or (source[1] == 0 and not isinstance(source[1], bool))):
        raise ValueError('ASB source dtn SSP')
    if source[0] == 2 and not (isinstance(source[1], list) and len(source[1]) == 2 and all(_is_uint(x) for x in source[1])):
        raise ValueError('ASB source ipn SSP')
    rest = seq[4:]
    params = None
    if flags & 1:
        params = rest.pop(0)
        if not (isinstance(params, list) and all(isinstance(p, list) and len(p) == 2 and _is_uint(p[0]) for p in params)):
            raise ValueError('ASB parameters')
        for (pid, pval) in params:
            # COSE context parameter types (draft-ietf-bpsec-cose): 3, 4 = bstr; 5 = map int -> uint
            if pid in (3, 4) and not isinstance(pval, bytes):
                raise ValueError('ASB parameter %d type' % pid)
            if pid == 5 and not (isinstance(pval, dict) and all(isinstance(k, int) and not isinstance(k, bool) and _is_uint(v) for (k, v) in pval.items())):
                raise ValueError('ASB parameter 5 type')
    if len(rest) != 1:
        raise ValueError('ASB length')
    results = rest[0]
    if not (isinstance(results, list) and all(
            isinstance(rs, list) and all(isinstance(r, list) and len(r) == 2 and _is_uint(r[0]) for r in rs) for rs in results)):
        raise ValueError('ASB results')
    return dict(targets=targets, ctx_id=ctx_id, flags=flags, source=source, params=params, results=results)


def asb_encode(asb):
    out = cbor2.dumps(asb['targets']) + cbor2.dumps(asb['ctx_id']) + cbor2.dumps(asb['flags']) + cbor2.dumps(asb['source'])
    if asb['flags'] & 1 and asb['params'] is not None:
        out += cbor2.dumps(asb['params'])
    return out + cbor2.dumps(asb['results'])


def sec_params(asb):
    ''' (addl_protected, addl_unprotected, scope dict) of a decoded ASB; scope default per the COSE context. '''
    addl = b''
    addl_un = None
    scope = {0: 1, -1: 1, -2: 1}
    for (pid, val) in (asb['params'] or []):
        if pid == 3:
            addl = val
        elif pid == 4:
            addl_un = val
        elif pid == 5:
            scope = val
    return (addl, addl_un, scope)


# --------------------------------------------------------------------------- covered content (the property text)

def _hashable(val):
    try:
        return cbor2.dumps(val, canonical=True)
    except Exception:
        return repr(val).encode('utf-8')      # cbor2 break marker / undefined objects from odd flips


def covered_view(raw, sec_type):
    ''' What the property lists as covered, per security operation of every security block of type
    ``sec_type`` (11/12) in the bundle, read with plain cbor2:

      key   (ordinal of the security block among those of its type, target index)
      value dict: target (number), payload (target BTSD), primary (items without CRC value) iff scope[0]&1,
            tgt_meta iff scope[-1]&1, tgt_btsd_in_aad iff scope[-1]&2, sec_meta/.. iff scope[-2], other blocks
            named in the scope, source, scope (the map itself), addl_protected, protected (COSE protected
            bucket), code (COSE message kind), tag (MAC / signature; None for encryption),
      plus 'keyinfo' (unprotected buckets, recipients, additional unprotected) which is NOT covered.

    :return: (views dict or None when the bundle / a security block does not decode, reason) '''
    try:
        items = split_bundle(raw)
    except Exception as err:
        return (None, 'split:' + err.__class__.__name__)
    why = check_shape(items)
    if why:
        return (None, 'shape:' + why)
    pri = items[0][0]
    blocks = {blk[1]: blk for (blk, _r, _o) in items[1:]}
    views = {}
    ordinal = -1
    for (blk, _r, _o) in items[1:]:
        if blk[0] != sec_type:
            continue
        ordinal += 1
        try:
            asb = asb_decode(blk[4])
        except Exception as err:
            return (None, 'asb:' + err.__class__.__name__)
        (addl, addl_un, scope) = sec_params(asb)
        for (ix, tnum) in enumerate(asb['targets']):
            view = dict(target=tnum, source=asb['source'], scope=scope, addl_protected=addl, ctx_id=asb['ctx_id'])
            tgt = blocks.get(tnum)
            view['payload'] = tgt[4] if tgt is not None else None
            bound = {}
            if isinstance(scope, dict):
                for (key, flags) in scope.items():
                    if not isinstance(flags, int):
                        bound[_hashable(key)] = ('badflags', _hashable(flags))
                        continue
                    if key == 0:
                        ent = [pri[:-1] if pri[2] else list(pri)] if flags & 1 else []
                    else:
                        ref = tgt if key == -1 else (blk if key == -2 else blocks.get(key))
                        if ref is None:
                            ent = 'missing'
                        else:
                            ent = ([ref[0], ref[1], ref[2]] if flags & 1 else []) + ([ref[4]] if flags & 2 else [])
                    bound[_hashable(key)] = ent
            view['bound'] = bound
            res = asb['results'][ix] if ix < len(asb['results']) else None
            view['n_results'] = len(res) if res is not None else None
            view['code'] = None
            view['protected'] = None
            view['tag'] = None
            view['keyinfo'] = None
            view['iv'] = None
            view['wrapped'] = None
            if res is not None and len(res) == 1:
                (code, val) = res[0]
                view['code'] = code
                try:
                    msg = cbor2.loads(val)
                    view['protected'] = msg[0]
                    view['iv'] = msg[1].get(5) if isinstance(msg[1], dict) else None
                    recips = msg[4] if code == 97 and len(msg) > 4 else (msg[3] if code == 96 and len(msg) > 3 else [])
                    view['wrapped'] = [rcp[2] if isinstance(rcp, list) and len(rcp) > 2 else None for rcp in recips] if isinstance(recips, list) else None
                    if code in (17, 18, 97):
                        view['tag'] = msg[3]
                        view['keyinfo'] = [msg[1], msg[4:], addl_un, msg[2], asb['flags'], asb['params'] is None]
                    else:
                        view['keyinfo'] = [msg[1], msg[3:], addl_un, msg[2], asb['flags'], asb['params'] is None]
                except Exception:
                    view['code'] = ('undecodable', code)
            views[(ordinal, ix)] = view
    return (views, None)


COVERED_KEYS = ('target', 'source', 'scope', 'addl_protected', 'ctx_id', 'payload', 'bound', 'n_results', 'code',
                'protected', 'tag', 'iv', 'wrapped')


def diff_covered(orig_raw, alt_raw, sec_type):
    ''' Classification of an alteration by the property text.

    :return: (cls, detail) with cls one of
       'must_fail'  covered content (or the MAC/signature) of some operation differs, or an operation
                    appeared / vanished (other than by cutting the target list short);
       'asb_malformed' a block of the type is present but its BTSD is not a well-formed RFC 9172 Abstract Security
                    Block any more (a lenient decoder may still read it; property C12 says it must not be delivered);
       'must_pass'  every operation has identical covered content, tag and key information;
       'either'     covered content and tags identical, key information differs (key resolution decides);
       'no_secblk'  no block of type ``sec_type`` is present any more;
       'stripped'   the target list of a security block was cut short, the remaining operations are unchanged;
       'malformed'  the altered octets are not a well-formed RFC 9171 bundle. '''
    (vo, _why) = covered_view(orig_raw, sec_type)
    if vo is None:
        raise ValueError('original does not decode')
    try:
        items = split_bundle(alt_raw)
        why = check_shape(items)
    except Exception as err:
        return ('malformed', 'split:' + err.__class__.__name__)
    if why:
        return ('malformed', why)
    if not any(blk[0] == sec_type for (blk, _r, _o) in items[1:]):
        return ('no_secblk', '')
    (va, why) = covered_view(alt_raw, sec_type)
    if va is None:
        return ('asb_malformed', 'security block undecodable: ' + str(why))
    def block_sigs(views):
        sigs = {}
        for key in sorted(views.keys()):
            sigs.setdefault(key[0], []).append(_hashable([views[key].get(name) for name in COVERED_KEYS]))
        return [tuple(sigs[ordinal]) for ordinal in sorted(sigs.keys())]
    (so, sa) = (block_sigs(vo), block_sigs(va))
    if len(sa) < len(so):
        # whole security blocks removed (or re-typed), the remaining ones unchanged: those targets are simply no
        # longer protected
        pos = 0
        for sig in sa:
            while pos < len(so) and so[pos] != sig:
                pos += 1
            if pos == len(so):
                break
            pos += 1
        else:
            return ('stripped', 'security block removed')
    if set(va.keys()) < set(vo.keys()):
        same = all(_hashable([vo[key].get(name) for name in COVERED_KEYS]) == _hashable([va[key].get(name) for name in COVERED_KEYS])
                   for key in va.keys())
        prefix = all((key[0], idx) in va for key in va.keys() for idx in range(key[1]))
        if same and prefix:
            return ('stripped', 'trailing targets removed')
    if set(vo.keys()) != set(va.keys()):
        return ('must_fail', 'operations differ')
    cls = 'must_pass'
    for key in sorted(vo.keys()):
        for name in COVERED_KEYS:
            if _hashable(vo[key].get(name)) != _hashable(va[key].get(name)):
                return ('must_fail', '%s of op %s' % (name, key))
        if _hashable(vo[key].get('keyinfo')) != _hashable(va[key].get('keyinfo')):
            cls = 'either'
    return (cls, '')


# --------------------------------------------------------------------------- alterations

def locate_fields(raw):
    ''' Byte ranges of the encoded bundle: list of (start, end, label) covering every octet, labels like
    'pri.3' (primary item index), 'blk<num>.<idx>', 'frame'. '''
    items = split_bundle(raw)
    spans = [(0, 1, 'frame.start')]
    for (idx, (item, blk_raw, off)) in enumerate(items):
        name = 'pri' if idx == 0 else 'blk%s' % (item[1] if isinstance(item, list) and len(item) > 1 else '?')
        pos = off
        # array head
        stream = io.BytesIO(blk_raw)
        first = blk_raw[0]
        head_len = 1 + {24: 1, 25: 2, 26: 4, 27: 8}.get(first & 0x1F, 0)
        spans.append((pos, pos + head_len, name + '.head'))
        pos += head_len
        stream.seek(head_len)
        dec = cbor2.CBORDecoder(stream)
        fidx = 0
        while stream.tell() < len(blk_raw):
            start = stream.tell()
            dec.decode()
            spans.append((off + start, off + stream.tell(), '%s.%d' % (name, fidx)))
            fidx += 1
    spans.append((len(raw) - 1, len(raw), 'frame.break'))
    return spans


def flip_bit(raw, bitpos, fix_crc=True):
    ''' Flip one bit of the encoded bundle. With ``fix_crc`` the block CRCs are recomputed over the altered
    octets when the bundle still splits into blocks (so a flip inside a CRC value is undone - such
    positions are reported as None). '''
    alt = bytearray(raw)
    alt[bitpos // 8] ^= (0x80 >> (bitpos % 8))
    alt = bytes(alt)
    if fix_crc:
        fixed = refix_crc_raw(alt)
        if fixed is not None:
            alt = fixed
        if alt == bytes(raw):
            return None
    return alt


def sample_bit_positions(raw, per_field, rng):
    ''' Deterministic sample: for every field span of the bundle, its first bit, its last bit and up to
    ``per_field`` further bits chosen by ``rng`` (all bits when the span is short). '''
    out = []
    for (start, end, label) in locate_fields(raw):
        # long spans (BTSD of a security block, certificates) are sampled window by window
        step = 12 if end - start > 24 else end - start
        for wstart in range(start, end, step):
            wend = min(end, wstart + step)
            bits = list(range(wstart * 8, wend * 8))
            if len(bits) <= per_field + 2:
                pick = bits
            else:
                pick = sorted(set([bits[0], bits[-1]] + rng.sample(bits[1:-1], per_field)))
            out.extend((pos, label) for pos in pick)
    return out


def _alt_value(val, rng):
    ''' A different value of the same CBOR kind. '''
    if isinstance(val, bool):
        return not val
    if isinstance(val, int):
        return val + 1 if val >= 0 else val - 1
    if isinstance(val, bytes):
        if not val:
            return b'\x00'
        idx = rng.randrange(len(val))
        return val[:idx] + bytes([val[idx] ^ (1 << rng.randrange(8))]) + val[idx + 1:]
    if isinstance(val, str):
        return val + 'x' if not val else val[:-1] + chr((ord(val[-1]) - 0x60) % 26 + 0x61)
    if val is None:
        return b''
    raise TypeError(type(val))


def field_alterations(raw, sec_type, rng, fix_crc=True):
    ''' Every single-FIELD alteration of the encoded bundle: decode with cbor2, change one item to another
    value of the same kind (or drop / add one element of a list or map), re-encode, CRCs re-fixed.

    Walks the primary block, every canonical block header and BTSD, and - inside security blocks of
    ``sec_type`` - the ASB (targets, context id, flags, source, every parameter incl. the AAD scope map and the
    additional header maps, every result: type code, protected bucket, unprotected map entries, tag, recipients).
    :return: list of (label, altered octets). '''
    items = [copy.deepcopy(item) for (item, _r, _o) in split_bundle(raw)]
    out = []

    def emit(label, blocks):
        try:
            alt = join_bundle(blocks, fix_crc)
        except Exception:
            return
        if alt != bytes(raw):
            out.append((label, alt))

    def with_block(bidx, newblk):
        blocks = [copy.deepcopy(item) for item in items]
        blocks[bidx] = newblk
        return blocks

    def walk(val, path, setter):
        ''' yield (label, replacement for the root) for every leaf / structural change below ``val`` '''
        if isinstance(val, list):
            for (idx, sub) in enumerate(val):
                def set_sub(new, idx=idx):
                    cp = list(val)
                    cp[idx] = new
                    return setter(cp)
                for ent in walk(sub, path + [idx], set_sub):
                    yield ent
            if val:
                yield ('/'.join(map(str, path)) + ':drop-last', setter(list(val[:-1])))
            yield ('/'.join(map(str, path)) + ':append', setter(list(val) + [0]))
        elif isinstance(val, dict):
            for key in list(val.keys()):
                def set_val(new, key=key):
                    cp = dict(val)
                    cp[key] = new
                    return setter(cp)
                for ent in walk(val[key], path + ['k%r' % (key,)], set_val):
                    yield ent
                cp = dict(val)
                del cp[key]
                yield ('/'.join(map(str, path)) + ':del-key%r' % (key,), setter(cp))
                if isinstance(key, int):
                    cp = {(key + 7 if k == key else k): v for (k, v) in val.items()}
                    yield ('/'.join(map(str, path)) + ':rekey%r' % (key,), setter(cp))
            cp = dict(val)
            cp[99] = 1
            yield ('/'.join(map(str, path)) + ':add-key', setter(cp))
        else:
            try:
                yield ('/'.join(map(str, path)), setter(_alt_value(val, rng)))
            except TypeError:
                return

    for (bidx, item) in enumerate(items):
        primary = bidx == 0
        name = 'pri' if primary else 'blk%d' % item[1]
        has_crc = bool(block_crc_type(item, primary))
        fields = item[:-1] if has_crc else item
        for (fidx, val) in enumerate(fields):
            if not primary and fidx == 4:
                continue   # BTSD handled below
            def set_field(new, fidx=fidx):
                cp = list(item)
                cp[fidx] = new
                return cp
            for (label, newblk) in walk(val, [name, fidx], set_field):
                if not primary and fidx == 3:
                    # CRC type change: add / drop the CRC element accordingly
                    newblk = list(newblk[:5]) + ([b'\x00' * bpdrive.CRC_LEN[newblk[3]]] if newblk[3] in (1, 2) else [])
                if primary and fidx == 2:
                    base = list(newblk[:-1]) if has_crc else list(newblk)
                    newblk = base + ([b'\x00' * bpdrive.CRC_LEN[newblk[2]]] if newblk[2] in (1, 2) else [])
                emit(label, with_block(bidx, newblk))
        if primary:
            continue
        # other CRC type for the block
        for other in (0, 1, 2):
            if other != item[3]:
                newblk = list(item[:3]) + [other, item[4]] + ([b'\x00' * bpdrive.CRC_LEN[other]] if other else [])
                emit('%s/crc-type->%d' % (name, other), with_block(bidx, newblk))
        btsd = item[4]
        if item[0] != sec_type:
            def set_btsd(new):
                cp = list(item)
                cp[4] = new
                return cp
            emit('%s/btsd' % name, with_block(bidx, set_btsd(_alt_value(btsd, rng))))
            emit('%s/btsd:append' % name, with_block(bidx, set_btsd(btsd + b'\x00')))
            if btsd:
                emit('%s/btsd:truncate' % name, with_block(bidx, set_btsd(btsd[:-1])))
            continue
        # inside the security block
        try:
            asb = asb_decode(btsd)
        except Exception:
            continue

        def set_asb(new_asb):
            cp = list(item)
            cp[4] = asb_encode(new_asb)
            return cp
        for part in ('targets', 'ctx_id', 'flags', 'source', 'params'):
            if asb[part] is None:
                continue
            def set_part(new, part=part):
                cp = dict(asb)
                cp[part] = new
                return set_asb(cp)
            for (label, newblk) in walk(asb[part], [name, 'asb', part], set_part):
                emit(label, with_block(bidx, newblk))
        # parameters whose value is an encoded map (additional protected / unprotected)
        for (pidx, (pid, pval)) in enumerate(asb['params'] or []):
            if pid in (3, 4) and isinstance(pval, bytes):
                try:
                    inner = cbor2.loads(pval)
                except Exception:
                    continue

                def set_inner(new, pidx=pidx, pid=pid):
                    cp = dict(asb)
                    cp['params'] = [list(p) for p in asb['params']]
                    cp['params'][pidx] = [pid, cbor2.dumps(new)]
                    return set_asb(cp)
                for (label, newblk) in walk(inner, [name, 'asb', 'param%d' % pid], set_inner):
                    emit(label, with_block(bidx, newblk))
        # results
        for (tix, rs) in enumerate(asb['results']):
            for (rix, (code, val)) in enumerate(rs):
                def set_result(new_code, new_val, tix=tix, rix=rix):
                    cp = dict(asb)
                    cp['results'] = [[list(r) for r in rs2] for rs2 in asb['results']]
                    cp['results'][tix][rix] = [new_code, new_val]
                    return set_asb(cp)
                for other in (16, 17, 18, 96, 97, 98):
                    if other != code:
                        emit('%s/asb/results/%d/%d/code->%d' % (name, tix, rix, other),
                             with_block(bidx, set_result(other, val)))
                try:
                    msg = cbor2.loads(val)
                except Exception:
                    continue

                def set_msg(new, code=code, set_result=set_result):
                    return set_result(code, cbor2.dumps(new))
                for (label, newblk) in walk(msg, [name, 'asb', 'results', tix, rix, 'msg'], set_msg):
                    emit(label, with_block(bidx, newblk))
                # protected bucket: the header map inside
                if isinstance(msg, list) and msg and isinstance(msg[0], bytes) and msg[0]:
                    try:
                        phdr = cbor2.loads(msg[0])
                    except Exception:
                        phdr = None
                    if isinstance(phdr, dict):
                        def set_phdr(new, msg=msg, set_msg=set_msg):
                            cp = list(msg)
                            cp[0] = cbor2.dumps(new)
                            return set_msg(cp)
                        for (label, newblk) in walk(phdr, [name, 'asb', 'results', tix, rix, 'protected'], set_phdr):
                            emit(label, with_block(bidx, newblk))
            # a second result for the target / no result
            cp = dict(asb)
            cp['results'] = [list(rs2) for rs2 in asb['results']]
            cp['results'][tix] = list(rs) + [list(rs[0])] if rs else [[17, b'']]
            emit('%s/asb/results/%d:dup-result' % (name, tix), with_block(bidx, set_asb(cp)))
    # EID text within the same field: query / fragment part appended, trailing slash removed
    def eid_variants(text):
        outv = [text + '?q=1', text + '#f']
        if text.endswith('/') and text.count('/') == 3:
            outv.append(text[:-1])
            outv.append(text[:-1] + '?')
        return outv
    pri = items[0]
    for fidx in (3, 4, 5):
        eid = pri[fidx]
        if isinstance(eid, list) and len(eid) == 2 and eid[0] == 1 and isinstance(eid[1], str):
            for (vidx, text) in enumerate(eid_variants(eid[1])):
                newpri = list(pri)
                newpri[fidx] = [1, text]
                emit('pri/%d:eid-syntax%d' % (fidx, vidx), [newpri] + items[1:])
                try:
                    stale = join_bundle([newpri] + items[1:], fix_crc=False)
                    out.append(('pri/%d:eid-syntax%d:stale-crc' % (fidx, vidx), stale))
                except Exception:
                    pass
    for (bidx, item) in enumerate(items):
        if bidx and item[0] == sec_type:
            try:
                asb = asb_decode(item[4])
            except Exception:
                continue
            src_eid = asb['source']
            if src_eid[0] == 1 and isinstance(src_eid[1], str):
                for (vidx, text) in enumerate(eid_variants(src_eid[1])):
                    cp = dict(asb)
                    cp['source'] = [1, text]
                    newblk = list(item)
                    newblk[4] = asb_encode(cp)
                    emit('blk%d/asb/source:eid-syntax%d' % (item[1], vidx), with_block(bidx, newblk))
    # whole-block changes: drop the security block, duplicate a block number
    for (bidx, item) in enumerate(items):
        if bidx and item[0] == sec_type:
            emit('blk%d:removed' % item[1], items[:bidx] + items[bidx + 1:])
    return out


# --------------------------------------------------------------------------- independent security source
#
# A security source written from draft-ietf-bpsec-cose / RFC 9052 with cbor2 + `cryptography` only (no pycose,
# no bp.*).  Used (a) to produce security blocks with AAD scopes the agent itself never emits, (b) as the
# executable reading of the Coq model on the Python side (its AAD octets are compared with the model's).

COSE_ALG = dict(HMAC256=5, HMAC384=6, HMAC512=7, A128GCM=1, A192GCM=2, A256GCM=3, A128KW=-3, A192KW=-4, A256KW=-5,
                ES256=-7, ES384=-35, PS512=-39)
HMAC_HASH = dict(HMAC256='sha256', HMAC384='sha384', HMAC512='sha512')


def py_external_aad(block_items, sec_hdr, source, scope, addl_protected, target_num):
    ''' External AAD of section 2.5.1 of draft-ietf-bpsec-cose: security source, canonical scope map, per
    scope entry the primary block (with CRC) / the first three items of the block / its BTSD, then
    bstr(additional protected).  ``sec_hdr`` = [type, number, flags] of the security block. '''
    blocks = {blk[1]: blk for blk in block_items[1:]}
    enc = cbor2.dumps(scope, canonical=True)
    out = cbor2.dumps(source) + enc
    for (key, flags) in cbor2.loads(enc).items():
        if key == 0:
            if flags & 1:
                out += encode_block(block_items[0], True)
            continue
        ref = blocks[target_num] if key == -1 else (list(sec_hdr) + [0, b''] if key == -2 else blocks[key])
        if flags & 1:
            out += b''.join(cbor2.dumps(item) for item in ref[:3])
        if flags & 2:
            out += cbor2.dumps(ref[4])
    return out + cbor2.dumps(bytes(addl_protected))


def py_mac(alg, key, data):
    import hashlib
    import hmac
    return hmac.new(key, data, getattr(hashlib, HMAC_HASH[alg])).digest()


def build_security_block(raw, sec, kind, alg, key, kid, targets, scope=None, addl_protected=b'', sec_num=None,
                         kek=None, kek_alg=None, ivs=(), sec_flags=None, source=None, crc=0):
    ''' Insert a BIB ('bib': kind 'mac0' | 'mac') or BCB ('bcb': kind 'enc0' | 'enc') built by the independent
    source into the encoded bundle ``raw`` (just before the payload block).

    :param scope: AAD scope dict, or None to omit parameter 5 (receiver default {0:1,-1:1,-2:1}).
    :param key: the MAC / content-encryption key; for 'mac' / 'enc' it is wrapped under ``kek`` (AES-KW).
    :return: encoded bundle. '''
    from cryptography.hazmat.primitives.keywrap import aes_key_wrap
    from cryptography.hazmat.primitives.ciphers.aead import AESGCM
    items = [copy.deepcopy(item) for (item, _r, _o) in split_bundle(raw)]
    nums = [blk[1] for blk in items[1:]]
    if sec_num is None:
        sec_num = max(nums) + 1
    sec_type = BIB if sec == 'bib' else BCB
    if sec_flags is None:
        sec_flags = 0 if sec == 'bib' else 1
    if source is None:
        source = items[0][4]
    eff_scope = scope if scope is not None else {0: 1, -1: 1, -2: 1}
    prot = cbor2.dumps({1: COSE_ALG[alg]})
    results = []
    ivs = list(ivs)
    for tnum in targets:
        aad = py_external_aad(items, [sec_type, sec_num, sec_flags], source, eff_scope, addl_protected, tnum)
        tgt = [blk for blk in items[1:] if blk[1] == tnum][0]
        recips = []
        if kind in ('mac', 'enc'):
            recips = [[[b'', {1: COSE_ALG[kek_alg], 4: bytes(kid)}, aes_key_wrap(kek, key)]]]
        if sec == 'bib':
            ctx = 'MAC0' if kind == 'mac0' else 'MAC'
            tag = py_mac(alg, key, cbor2.dumps([ctx, prot, aad, tgt[4]]))
            uhdr = {4: bytes(kid)} if kind == 'mac0' else {}
            msg = [prot, uhdr, None, tag] + recips
            results.append([[17 if kind == 'mac0' else 97, cbor2.dumps(msg)]])
        else:
            ctx = 'Encrypt0' if kind == 'enc0' else 'Encrypt'
            iv = bytes(ivs.pop(0))
            tgt[4] = AESGCM(key).encrypt(iv, tgt[4], cbor2.dumps([ctx, prot, aad]))
            uhdr = {4: bytes(kid), 5: iv} if kind == 'enc0' else {5: iv}
            msg = [prot, uhdr, None] + recips
            results.append([[16 if kind == 'enc0' else 96, cbor2.dumps(msg)]])
    params = []
    if scope is not None:
        params.append([5, scope])
    if addl_protected:
        params.append([3, bytes(addl_protected)])
    asb = dict(targets=list(targets), ctx_id=3, flags=1 if params else 0, source=source,
               params=params if params else None, results=results)
    blk = [sec_type, sec_num, sec_flags, crc, asb_encode(asb)] + ([b'\x00' * bpdrive.CRC_LEN[crc]] if crc else [])
    return join_bundle(items[:-1] + [blk] + items[-1:])


# --------------------------------------------------------------------------- Coq term rendering

def coq_cbor(val):
    ''' cbor2-decoded python value -> term of type Lib.Cbor.cbor. '''
    if isinstance(val, bool):
        return '(CSimple %d)' % (21 if val else 20)
    if val is None:
        return '(CSimple 22)'
    if isinstance(val, int):
        return '(CUint %d)' % val if val >= 0 else '(CNint %d)' % (-1 - val)
    if isinstance(val, bytes):
        return '(CBstr %s)' % coq_octets(val)
    if isinstance(val, str):
        return '(CTstr %s)' % coq_octets(val.encode('utf-8'))
    if isinstance(val, (list, tuple)):
        return '(CArr [%s])' % '; '.join(coq_cbor(item) for item in val) if val else '(CArr [])'
    if isinstance(val, dict):
        return '(CMap [%s])' % '; '.join('(%s, %s)' % (coq_cbor(k), coq_cbor(v)) for (k, v) in val.items()) if val else '(CMap [])'
    raise TypeError(type(val))


def coq_octets(data):
    ''' Octet string as an explicit list literal (Lib.Bytes.unhex costs ~1 s per 150 octets inside
    vm_compute: big-number division per octet). '''
    data = bytes(data)
    if not data:
        return '(@nil N)'
    return '[' + ';'.join(str(octet) for octet in data) + ']'


def coq_scope(scope):
    return '[%s]' % '; '.join('(%s, %d)' % (coq_cbor(key), flags) for (key, flags) in scope.items()) if scope else '(@nil (cbor * N))'


# --------------------------------------------------------------------------- parallel sweeps

_WORKER = {}


def receiver_from_spec(spec):
    ''' spec = dict(profile=name, extra=name | [names] | None, accept=None|bool, wrong_key=bool | [profile names]) '''
    extra = spec.get('extra')
    names = [] if not extra else (list(extra) if isinstance(extra, (list, tuple)) else [extra])
    return make_receiver(PROFILES[spec['profile']], wrong_key=spec.get('wrong_key') or False, accept=spec.get('accept'),
                         extra=[PROFILES[name] for name in names])


def _worker_receiver(spec):
    key = json.dumps(spec, sort_keys=True)
    if key not in _WORKER:
        _WORKER[key] = receiver_from_spec(spec)
    return _WORKER[key]


def _sweep_chunk(args):
    (spec, alts, direct) = args
    node = _worker_receiver(spec)
    out = []
    for alt in alts:
        res = node.recv(alt)
        ent = dict(delivered=res['delivered'], payload=(res['payload'].hex() if res['payload'] is not None else None),
                   sec_failure=res['sec_failure'], deleted=res['deleted'],
                   reason=(res['reason'] if isinstance(res['reason'], int) or res['reason'] is None else 'str'),
                   decode_error=res['decode_error'], recv_exc=res['recv_exc'], escaped=res['escaped'],
                   forwarded=res['forwarded'], dest=res.get('dest'))
        if direct:
            vd = node.verify_direct(alt)
            ent['direct'] = dict(error=vd['error'], bib=vd['bib'], bcb=vd['bcb'],
                                 payload=(vd['payload'].hex() if vd['payload'] is not None else None))
        out.append(ent)
    return out


def sweep(recv_spec, alts, procs=16, direct=True, chunk=64):
    ''' Run every altered bundle of ``alts`` (list of bytes) through a receiver described by ``recv_spec``
    (dict(profile=..., wrong_key=False, accept=None, extra=None)) on the real RX path (and directly through
    verify_bcb / verify_bib when ``direct``), ``procs`` processes, results in input order. '''
    import multiprocessing
    alts = [bytes(alt) for alt in alts]
    chunks = [(recv_spec, alts[idx:idx + chunk], direct) for idx in range(0, len(alts), chunk)]
    if procs <= 1 or len(chunks) <= 1:
        parts = [_sweep_chunk(item) for item in chunks]
    else:
        ctx = multiprocessing.get_context('fork')
        with ctx.Pool(min(procs, len(chunks))) as pool:
            parts = pool.map(_sweep_chunk, chunks, chunksize=1)
    return [ent for part in parts for ent in part]
