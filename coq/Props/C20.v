(** C20 -- BTP-U messages round-trip and segmented transfers reassemble.

    "Every BTP-U message set the agent builds (bundle PDU, transfer
    segment/end with length hints, padding) decodes to the same messages,
    with declared lengths equal to actual lengths, and decoding then
    re-encoding any valid frame reproduces it.  A bundle that does not fit
    the MTU is sent as segments each within the MTU whose data, concatenated
    by index, equals the bundle, and a receiver that gets each segment once
    in any order queues exactly that bundle once."

    Model: Model/Btpu.v (tied to /repo by harness/check_C20.py).
    Hypotheses are boolean predicates of the model ([wf_msgb], [wf_frameb],
    [mtu_feasible], [fits], [send_okb]); each has a non-vacuity [Example]
    beside the lemma in Proofs/Btpu*Proofs.v.

    Guards, and what lies behind them on the unchanged code:
      - total message length < 2^20 ([wf_msgb], [send_okb], [blen data <? LEN_MOD]):
        without it the declared length is wrong -- [C20_declared_lengths_refuted]
        (known finding: 20-bit length field overflow);
      - [mtu_feasible mtu] (mtu > 18): otherwise the real sender loops forever;
      - field widths (octets < 256, xfer_num and indices < 2^32, hint data <= 255):
        the real code raises outside them;
      - the receiver clause quantifies over this sender's segments, which are
        always >= 2 ([C20_send_ge_2_segments]); a peer's single-segment
        transfer is never completed ([C20_note_end_index_zero_never_completes]). *)
From Coq Require Import NArith List Permutation.
From DTN Require Import Lib.Bytes Model.Btpu.
From Coq Require Import ZArith.
From DTN Require Import Gen.BtpuBudget.
From DTN Require Import Proofs.BtpuProofs Proofs.BtpuSendProofs Proofs.BtpuRecvProofs Proofs.BtpuTopProofs Proofs.BtpuBudgetProofs Proofs.BtpuIndepProofs.
Import ListNotations.
Local Open Scope N_scope.

(** ** Codec *)

Theorem C20_roundtrip : forall (m : msg) (rest : bytes),
  wf_msgb m = true -> decode_msg (encode_msg m ++ rest) = Some (m, rest).
Proof. exact decode_msg_encode. Qed.
Print Assumptions C20_roundtrip.

(** Full statement: for every message the agent builds, the length field
    equals the number of octets that follow the 4-octet header.  Proved under
    the guard "hints + payload < 2^20" (part of [wf_msgb]); without it the
    statement is false, see [C20_declared_lengths_refuted]. *)
Theorem C20_declared_lengths_partial : forall (m : msg) (rest : bytes),
  wf_msgb m = true ->
  declared_len (encode_msg m ++ rest) = Some (blen (encode_hints (m_hints m)) + blen (m_body m))
  /\ blen (encode_msg m) = 4 + (blen (encode_hints (m_hints m)) + blen (m_body m)).
Proof. exact declared_len_encode. Qed.
Print Assumptions C20_declared_lengths_partial.

Theorem C20_declared_lengths_refuted :
  exists d : bytes,
    wf_bytesb d = true /\ blen d = 1048576
    /\ declared_len (encode_msg (mk_bundle d)) = Some 0
    /\ option_map (fun f => (map (fun m => blen (m_body m)) (f_msgs f), blen (f_pad f)))
                  (decode_frame (encode_frame (mkFrame [mk_bundle d] [])))
       = Some ([0], 1048576).
Proof. exact declared_len_refuted. Qed.
Print Assumptions C20_declared_lengths_refuted.

Theorem C20_frame_roundtrip : forall f : frame,
  wf_frameb f = true -> decode_frame (encode_frame f) = Some f.
Proof. exact decode_frame_encode. Qed.
Print Assumptions C20_frame_roundtrip.

(** Every octet string that decodes at all re-encodes to itself (and what
    it decodes to is well-formed, so decoding is injective on valid frames). *)
Theorem C20_reencode : forall (bs : bytes) (f : frame),
  wf_bytesb bs = true -> decode_frame bs = Some f -> encode_frame f = bs /\ wf_frameb f = true.
Proof. exact decode_frame_inv. Qed.
Print Assumptions C20_reencode.

(** ** What the sender builds decodes to what it built *)

Theorem C20_sent_unsegmented_partial : forall (mtu : option N) (xid : N) (data : bytes),
  fits mtu (blen data) = true -> wf_bytesb data = true -> blen data <? LEN_MOD = true ->
  let f := encode_frame (mkFrame [mk_bundle data] []) in
  send_transfer mtu xid data = [f]
  /\ decode_frame f = Some (mkFrame [mk_bundle data] [])
  /\ declared_len f = Some (blen data) /\ blen f = 4 + blen data
  /\ (data <> [] -> view (mk_bundle data) = CBundle data).
Proof. exact sent_unsegmented. Qed.
Print Assumptions C20_sent_unsegmented_partial.

Theorem C20_sent_segments_decode : forall (mtu xid : N) (data : bytes),
  send_okb mtu xid data = true ->
  let hs := xfer_hints (blen data) in
  send_transfer (Some mtu) xid data = map (seg_frame hs xid) (segments hs mtu data)
  /\ Forall (fun s =>
       decode_frame (seg_frame hs xid s) = Some (mkFrame [seg_msg hs xid s] [])
       /\ view (seg_msg hs xid s)
          = (if seg_last s then CEnd xid (seg_idx s) (seg_data s) else CSeg xid (seg_idx s) (seg_data s))
       /\ declared_len (seg_frame hs xid s) = Some (blen (seg_frame hs xid s) - 4)
       /\ m_hints (seg_msg hs xid s) = hs)
     (segments hs mtu data).
Proof. exact sent_segments. Qed.
Print Assumptions C20_sent_segments_decode.

(** ** Segmentation: for ALL bundle lengths and MTUs *)

Theorem C20_within_mtu : forall (mtu xid : N) (data : bytes),
  mtu_feasible mtu = true \/ fits (Some mtu) (blen data) = true ->
  Forall (fun f => blen f <= mtu) (send_transfer (Some mtu) xid data).
Proof. exact within_mtu. Qed.
Print Assumptions C20_within_mtu.

(** For any hint list in place of the code's one total-length hint. *)
Theorem C20_within_mtu_any_hints : forall (hs : list hint) (mtu xid : N) (data : bytes),
  mtu_feasible_h hs mtu = true ->
  Forall (fun f => blen f <= mtu) (send_transfer_h hs (Some mtu) xid data).
Proof. exact within_mtu_h. Qed.
Print Assumptions C20_within_mtu_any_hints.

(** [shape 0 segs]: indices 0,1,2,... in order, every segment non-empty,
    the end marker exactly on the last one. *)
Theorem C20_concat : forall (mtu xid : N) (data : bytes),
  mtu_feasible mtu = true -> fits (Some mtu) (blen data) = false ->
  let hs := xfer_hints (blen data) in
  let segs := segments hs mtu data in
  send_transfer (Some mtu) xid data = map (seg_frame hs xid) segs
  /\ shape 0 segs
  /\ concat (map seg_data segs) = data
  /\ (2 <= length segs)%nat.
Proof. exact segmented_send. Qed.
Print Assumptions C20_concat.

Theorem C20_send_ge_2_segments : forall (hs : list hint) (mtu : N) (data : bytes),
  mtu_feasible_h hs mtu = true -> fits (Some mtu) (blen data) = false ->
  (2 <= length (segments hs mtu data))%nat.
Proof. exact segments_ge2. Qed.
Print Assumptions C20_send_ge_2_segments.

(** ** Reassembly: every arrival order, each frame exactly once *)

(** From any receiver state [st] that has no transfer in progress under the
    same (conversation, transfer number): after all frames the queue and the
    emitted signals have grown by exactly this bundle, the transfer entry is
    gone, and after any proper prefix of the arrivals nothing was queued or
    signalled. *)
Theorem C20_reassembly_any_order_once :
  forall (mtu xid : N) (conv : chan) (st : rx) (data : bytes) (p : list bytes),
  send_okb mtu xid data = true ->
  plookup (conv, xid) (r_prog st) = None ->
  Permutation p (send_transfer (Some mtu) xid data) ->
  let fin := fold_left (recv_frame conv) p st in
  r_queue fin = r_queue st ++ [(r_next st, data)]
  /\ r_signals fin = r_signals st ++ [(r_next st, blen data, c_peer conv)]
  /\ plookup (conv, xid) (r_prog fin) = None
  /\ (forall p1 p2 : list bytes, p = p1 ++ p2 -> p2 <> [] ->
        r_queue (fold_left (recv_frame conv) p1 st) = r_queue st
        /\ r_signals (fold_left (recv_frame conv) p1 st) = r_signals st).
Proof. exact reassembly_any_order_once. Qed.
Print Assumptions C20_reassembly_any_order_once.

(** The same for any hint list. *)
Theorem C20_reassembly_any_hints :
  forall (hs : list hint) (mtu xid : N) (conv : chan) (st : rx) (data : bytes) (p : list bytes),
  xfer_okb hs mtu xid data = true ->
  plookup (conv, xid) (r_prog st) = None ->
  Permutation p (send_transfer_h hs (Some mtu) xid data) ->
  let fin := fold_left (recv_frame conv) p st in
  r_queue fin = r_queue st ++ [(r_next st, data)]
  /\ r_signals fin = r_signals st ++ [(r_next st, blen data, c_peer conv)]
  /\ plookup (conv, xid) (r_prog fin) = None
  /\ (forall p1 p2 : list bytes, p = p1 ++ p2 -> p2 <> [] ->
        r_queue (fold_left (recv_frame conv) p1 st) = r_queue st
        /\ r_signals (fold_left (recv_frame conv) p1 st) = r_signals st).
Proof. exact reassembly_h. Qed.
Print Assumptions C20_reassembly_any_hints.

(** ** Several transfers at once: different keys do not interact *)

(** The table of transfers in progress is keyed by the channel -- local
    interface, PEER address, local address, VLAN tag -- and the transfer
    number.  For every key [k], every receiver state and every sequence of
    arriving transfer messages [l] (of any transfers, complete or not,
    interleaved in any way): what is held for [k] afterwards and the bundles
    completed for [k] are what they are when only the messages of key [k]
    arrive ([for_key k l] = those messages, in their order). *)
Theorem C20_transfers_of_different_peers_independent :
  forall (k : key) (l : list item) (st : rx),
  plookup k (r_prog (fold_left recv_item l st)) = plookup k (r_prog (fold_left recv_item (for_key k l) st))
  /\ completions k st l = completions k st (for_key k l).
Proof. exact independent. Qed.
Print Assumptions C20_transfers_of_different_peers_independent.

Theorem C20_key_tells_peers_apart : forall (a b : chan) (x y : N),
  c_peer a <> c_peer b -> key_eqb (a, x) (b, y) = false.
Proof. exact key_eqb_peer. Qed.
Print Assumptions C20_key_tells_peers_apart.

(** Hence: whatever else arrives in between, if the segments of one transfer
    are among the arrivals each exactly once in any order (and nothing was in
    progress under its key), exactly that bundle is completed for the key,
    exactly once, and its entry is gone. *)
Theorem C20_interleaved_transfer_reassembles :
  forall (hs : list hint) (mtu xid : N) (conv : chan) (data : bytes) (st : rx)
         (l : list item) (p : list (N * bytes * bool)),
  xfer_okb hs mtu xid data = true ->
  plookup (conv, xid) (r_prog st) = None ->
  Permutation p (segments hs mtu data) ->
  for_key (conv, xid) l = map (seg_item conv xid) p ->
  completions (conv, xid) st l = [data]
  /\ plookup (conv, xid) (r_prog (fold_left recv_item l st)) = None.
Proof. exact interleaved_transfer. Qed.
Print Assumptions C20_interleaved_transfer_reassembles.

(** ** Tie to the source: Gen/BtpuBudget.v is regenerated from btpu/agent.py
    and btpu/messages.py on every run; the model's sender is what it says. *)

Theorem C20_tie_fits : forall total mtu : N,
  BtpuBudget.unsegmented (Z.of_N total) (Z.of_N mtu) = fits (Some mtu) total.
Proof. exact tie_fits. Qed.
Print Assumptions C20_tie_fits.

Theorem C20_tie_hint : forall total : N,
  xfer_hints total = [mkHint BtpuBudget.hint_type (be BtpuBudget.hint_width total)].
Proof. exact tie_hint. Qed.
Print Assumptions C20_tie_hint.

Theorem C20_tie_remain : forall (hs : list hint) (mtu : N),
  Z.to_N (BtpuBudget.remain_size (Z.of_N mtu) (Z.of_N (head_len hs))) = Btpu.remain_size hs mtu.
Proof. exact tie_remain. Qed.
Print Assumptions C20_tie_remain.

Theorem C20_tie_types_widths : forall hs x i d,
  (m_type (mk_bundle d) = BtpuBudget.type_pdu
   /\ m_type (mk_padding d) = BtpuBudget.type_padding
   /\ m_type (mk_seg hs false x i d) = BtpuBudget.type_more
   /\ m_type (mk_seg hs true x i d) = BtpuBudget.type_last
   /\ m_type (mk_cancel x) = BtpuBudget.type_cancel)
  /\ (LEN_MOD = 2 ^ BtpuBudget.len_bits
      /\ 16 = 2 ^ BtpuBudget.flags_bits
      /\ 128 = 2 ^ BtpuBudget.hint_type_bits
      /\ 2 = 2 ^ BtpuBudget.h_flag_bits
      /\ BtpuBudget.flags_bits + BtpuBudget.len_bits = 24).
Proof. intros. split; [apply tie_types|exact tie_widths]. Qed.
Print Assumptions C20_tie_types_widths.

(** [EthernetChannel.key] (regenerated) is the tuple of all four dataclass
    fields, each exactly once, and [_recv_msg] keys its table by it and the
    transfer number; the model's key equality is equality of exactly these. *)
Theorem C20_tie_key :
  BtpuBudget.chan_nfields = 4%nat
  /\ length BtpuBudget.key_fields = BtpuBudget.chan_nfields
  /\ forallb (fun i => existsb (Nat.eqb i) BtpuBudget.key_fields) (seq 0 BtpuBudget.chan_nfields) = true
  /\ BtpuBudget.rx_key_is_conv_key_and_xfer_num = true
  /\ (forall a b x y, key_eqb (a, x) (b, y) = true <->
        c_if a = c_if b /\ c_peer a = c_peer b /\ c_local a = c_local b /\ c_vlan a = c_vlan b /\ x = y).
Proof. exact tie_key. Qed.
Print Assumptions C20_tie_key.

(** One iteration of the code's loop at offset [off] is one step of [chunk]
    on the remainder [skipn off data]. *)
Theorem C20_tie_loop_step : forall (data : bytes) (off rs : nat),
  (off <= length data)%nat ->
  let total := Z.of_nat (length data) in
  let o := Z.of_nat off in
  let r := Z.of_nat rs in
  let rem := skipn off data in
  BtpuBudget.loop_test o total = negb (is_nil rem)
  /\ firstn (Z.to_nat (BtpuBudget.slice_hi o r) - Z.to_nat (BtpuBudget.slice_lo o r))
            (skipn (Z.to_nat (BtpuBudget.slice_lo o r)) data) = firstn rs rem
  /\ skipn (Z.to_nat (BtpuBudget.next_offset o r)) data = skipn rs rem
  /\ BtpuBudget.more_test (BtpuBudget.next_offset o r) total = negb (is_nil (skipn rs rem))
  /\ BtpuBudget.next_idx 0 = 1%Z /\ BtpuBudget.init_idx = 0%Z /\ BtpuBudget.init_offset = 0%Z.
Proof. exact tie_loop_step. Qed.
Print Assumptions C20_tie_loop_step.

(** ** Noted behaviour outside C20's quantifier (what the guards exclude) *)

Theorem C20_note_end_index_zero_never_completes :
  let f := seg_frame (xfer_hints 3) 9 (0, [1; 2; 3], true) in
  decode_frame f = Some (mkFrame [mk_seg (xfer_hints 3) true 9 0 [1; 2; 3]] [])
  /\ queued (recv_frame chan1 rx_init f) = []
  /\ map (fun e => (fst e, x_end (snd e), x_segs (snd e))) (r_prog (recv_frame chan1 rx_init f))
     = [((chan1, 9), Some 0, [(0, [1; 2; 3])])].
Proof. exact note_end_index_zero_never_completes. Qed.
Print Assumptions C20_note_end_index_zero_never_completes.

Theorem C20_note_zero_length_bundle_not_queued :
  send_transfer None 0 [] = [[2; 0; 0; 0]]
  /\ decode_frame [2; 0; 0; 0] = Some (mkFrame [mk_bundle []] [])
  /\ view (mk_bundle []) = COther
  /\ queued (recv_frame chan1 rx_init [2; 0; 0; 0]) = [].
Proof. exact note_zero_length_bundle_not_queued. Qed.
Print Assumptions C20_note_zero_length_bundle_not_queued.

Theorem C20_note_infeasible_mtu :
  mtu_feasible 18 = false
  /\ map seg_data (segments (xfer_hints 14) 18 (mkdata 1 14)) = repeat [] 14.
Proof. exact note_infeasible_mtu. Qed.
Print Assumptions C20_note_infeasible_mtu.
