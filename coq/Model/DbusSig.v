(** D-Bus marshalling conformance for the values the TCPCL contact handler
    hands to dbus-python, following dbus-python's rules for the basic types
    used here:
      's'  accepts a Python str (or dbus.String);
      't'  accepts a Python int in [0, 2^64);
      'v'  (variant) accepts any value whose own type can be guessed: str,
           dbus.String, int in the signed 32-bit range (a plain int in a
           variant is sent as 'i')  -- larger ints raise OverflowError;
      'b'  accepts anything truthy/falsy (bool here).
    The declared signatures are regenerated from the decorators in
    tcpcl/session.py into Gen/DBusSigs.v. *)
From Coq Require Import List NArith Bool.
From DTN Require Import Model.TcpclSess Gen.DBusSigs.
Import ListNotations.
Local Open Scope N_scope.

Definition CH_s : N := 115.
Definition CH_t : N := 116.
Definition CH_v : N := 118.

Definition conforms1 (v : pyval) (ch : N) : bool :=
  if ch =? CH_s then
    match v with PStr _ | PStrNum _ | PDbusStr => true | PInt _ => false end
  else if ch =? CH_t then
    match v with PInt n => n <? 2^64 | _ => false end
  else if ch =? CH_v then
    match v with PStr _ | PStrNum _ | PDbusStr => true | PInt n => n <? 2^31 end
  else false.

Fixpoint conforms (args : list pyval) (sig : list N) : bool :=
  match args, sig with
  | [], [] => true
  | v :: args', ch :: sig' => conforms1 v ch && conforms args' sig'
  | _, _ => false
  end.

(** Declared signature of each signal, by name, from the generated table. *)
Definition sig_of (s : signame) : list N :=
  match s with
  | SigState => sig_session_state_changed
  | SigSendStarted => sig_send_bundle_started
  | SigSendInter => sig_send_bundle_intermediate
  | SigSendFinished => sig_send_bundle_finished
  | SigRecvStarted => sig_recv_bundle_started
  | SigRecvInter => sig_recv_bundle_intermediate
  | SigRecvFinished => sig_recv_bundle_finished
  end.

Definition event_conforms (e : event) : bool :=
  match e with
  | ESig s args => conforms args (sig_of s)
  | ERet 1 v => conforms [v] ret_send_bundle_data
  | _ => true
  end.
