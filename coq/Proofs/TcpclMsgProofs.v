(** Codec lemmas for Model/TcpclMsg.v.

    Three core facts about each probe ([parse_msg], [parse_contact],
    [parse_frame]) from which everything else follows:
      [*_parse_encode] : wf x -> parse (encode x ++ rest) = Some (x, rest)
      [*_parse_sound]  : wf_bytes b -> parse b = Some (x, r) -> b = encode x ++ r /\ wf x
      [*_parse_app]    : parse b = Some (x, r) -> parse (b ++ e) = Some (x, r ++ e)
    Derived: non-emptiness, prefix-freeness / injectivity of the encoder, and
    "a strict prefix of an encoding is never complete". *)
From Coq Require Import ZArith NArith List Bool Lia ZifyBool ZifyN ZifyNat Arith.
From DTN Require Import Lib.Bytes Model.TcpclMsg.
Import ListNotations.
Local Open Scope N_scope.
Ltac Zify.zify_post_hook ::= Z.div_mod_to_equations.

(** * Fixed-width fields *)

Lemma unbe_bound : forall a, wf_bytes a -> unbe a < 256 ^ N.of_nat (length a).
Proof.
  induction a as [|b a IH] using rev_ind; intros W.
  - cbn. unfold unbe. cbn. lia.
  - apply wf_bytes_app in W. destruct W as [Wa Wb]. inversion Wb as [|? ? Hb _]; subst.
    unfold wf_byte in Hb. specialize (IH Wa).
    rewrite unbe_app, app_length. cbn [length]. rewrite Nat.add_1_r.
    rewrite Nnat.Nat2N.inj_succ, N.pow_succ_r'. lia.
Qed.

Lemma be_unbe : forall a, wf_bytes a -> be (length a) (unbe a) = a.
Proof.
  induction a as [|b a IH] using rev_ind; intros W.
  - reflexivity.
  - apply wf_bytes_app in W. destruct W as [Wa Wb]. inversion Wb as [|? ? Hb _]; subst.
    unfold wf_byte in Hb. specialize (IH Wa).
    rewrite unbe_app, app_length. cbn [length]. rewrite Nat.add_1_r. cbn [be].
    replace ((unbe a * 256 + b) / 256) with (unbe a) by lia.
    replace ((unbe a * 256 + b) mod 256) with b by lia.
    rewrite IH. reflexivity.
Qed.

Lemma wf_bytes_firstn n l : wf_bytes l -> wf_bytes (firstn n l).
Proof. intros W. rewrite <- (firstn_skipn n l) in W. apply wf_bytes_app in W. tauto. Qed.

Lemma wf_bytes_skipn n l : wf_bytes l -> wf_bytes (skipn n l).
Proof. intros W. rewrite <- (firstn_skipn n l) in W. apply wf_bytes_app in W. tauto. Qed.

Lemma take_be_sound k l n r :
  wf_bytes l -> take_be k l = Some (n, r) ->
  l = be k n ++ r /\ n < 256 ^ N.of_nat k /\ wf_bytes r.
Proof.
  unfold take_be. intros W H.
  destruct (Nat.ltb_spec (length l) k) as [L|L]; [discriminate|].
  injection H as <- <-.
  assert (Lf : length (firstn k l) = k) by (rewrite firstn_length; lia).
  pose proof (wf_bytes_firstn k l W) as Wf.
  split; [|split].
  - rewrite <- Lf at 1. rewrite be_unbe by exact Wf. symmetry. apply firstn_skipn.
  - rewrite <- Lf at 2. apply unbe_bound. exact Wf.
  - apply wf_bytes_skipn. exact W.
Qed.

Lemma take_be_ext k l n r e :
  take_be k l = Some (n, r) -> take_be k (l ++ e) = Some (n, r ++ e).
Proof.
  unfold take_be. intros H.
  destruct (Nat.ltb_spec (length l) k) as [L|L]; [discriminate|].
  injection H as <- <-.
  destruct (Nat.ltb_spec (length (l ++ e)) k) as [L2|L2]; [rewrite app_length in L2; lia|].
  rewrite firstn_app, skipn_app. replace (k - length l)%nat with 0%nat by lia.
  cbn [firstn skipn]. rewrite app_nil_r. reflexivity.
Qed.

Lemma take_n_app a rest : take_n (length a) (a ++ rest) = Some (a, rest).
Proof.
  unfold take_n. rewrite app_length.
  destruct (Nat.ltb_spec (length a + length rest) (length a)) as [L|L]; [lia|].
  rewrite firstn_app, skipn_app, Nat.sub_diag, firstn_all, skipn_all. cbn [firstn skipn app].
  rewrite app_nil_r. reflexivity.
Qed.

Lemma take_n_sound n l a r :
  take_n n l = Some (a, r) -> l = a ++ r /\ length a = n.
Proof.
  unfold take_n. intros H.
  destruct (Nat.ltb_spec (length l) n) as [L|L]; [discriminate|].
  injection H as <- <-. split; [symmetry; apply firstn_skipn | rewrite firstn_length; lia].
Qed.

Lemma take_n_ext n l a r e :
  take_n n l = Some (a, r) -> take_n n (l ++ e) = Some (a, r ++ e).
Proof.
  unfold take_n. intros H.
  destruct (Nat.ltb_spec (length l) n) as [L|L]; [discriminate|].
  injection H as <- <-.
  destruct (Nat.ltb_spec (length (l ++ e)) n) as [L2|L2]; [rewrite app_length in L2; lia|].
  rewrite firstn_app, skipn_app. replace (n - length l)%nat with 0%nat by lia.
  cbn [firstn skipn]. rewrite app_nil_r. reflexivity.
Qed.

(** Widths as they appear in [wf_msg]. *)
Lemma p1 : 256 ^ N.of_nat 1 = 256. Proof. reflexivity. Qed.
Lemma p2 : 256 ^ N.of_nat 2 = 65536. Proof. reflexivity. Qed.
Lemma p4 : 256 ^ N.of_nat 4 = 2 ^ 32. Proof. reflexivity. Qed.
Lemma p8 : 256 ^ N.of_nat 8 = 2 ^ 64. Proof. reflexivity. Qed.

Lemma tb1 n rest : n < 256 -> take_be 1 (be 1 n ++ rest) = Some (n, rest).
Proof. intros H. apply take_be_app. rewrite p1. exact H. Qed.
Lemma tb2 n rest : n < 65536 -> take_be 2 (be 2 n ++ rest) = Some (n, rest).
Proof. intros H. apply take_be_app. rewrite p2. exact H. Qed.
Lemma tb4 n rest : n < 2 ^ 32 -> take_be 4 (be 4 n ++ rest) = Some (n, rest).
Proof. intros H. apply take_be_app. rewrite p4. exact H. Qed.
Lemma tb8 n rest : n < 2 ^ 64 -> take_be 8 (be 8 n ++ rest) = Some (n, rest).
Proof. intros H. apply take_be_app. rewrite p8. exact H. Qed.

Lemma tn_len a rest : take_n (N.to_nat (N.of_nat (length a))) (a ++ rest) = Some (a, rest).
Proof. rewrite Nnat.Nat2N.id. apply take_n_app. Qed.

(** * The extension region *)

Lemma region_parse_encode known ext rest :
  wf_region known ext ->
  parse_ext_region known (be 4 (N.of_nat (length ext)) ++ ext ++ rest) = Some (ext, rest).
Proof.
  intros (L & _ & C). unfold parse_ext_region.
  rewrite tb4 by exact L. rewrite tn_len, C. reflexivity.
Qed.

Lemma region_parse_sound known l ext r :
  wf_bytes l -> parse_ext_region known l = Some (ext, r) ->
  l = be 4 (N.of_nat (length ext)) ++ ext ++ r /\ wf_region known ext /\ wf_bytes r.
Proof.
  unfold parse_ext_region. intros W H.
  destruct (take_be 4 l) as [[size l1]|] eqn:E1; [|discriminate].
  destruct (take_n (N.to_nat size) l1) as [[region l2]|] eqn:E2; [|discriminate].
  destruct (ext_count_ok known region) eqn:C; [|discriminate].
  injection H as <- <-.
  apply take_be_sound in E1; [|exact W]. destruct E1 as (-> & B & W1). rewrite p4 in B.
  apply take_n_sound in E2. destruct E2 as (-> & Ln).
  apply wf_bytes_app in W1. destruct W1 as [Wr W2].
  assert (N.of_nat (length region) = size) as <- by lia.
  repeat split; assumption.
Qed.

Lemma region_parse_app known l ext r e :
  parse_ext_region known l = Some (ext, r) -> parse_ext_region known (l ++ e) = Some (ext, r ++ e).
Proof.
  unfold parse_ext_region. intros H.
  destruct (take_be 4 l) as [[size l1]|] eqn:E1; [|discriminate].
  destruct (take_n (N.to_nat size) l1) as [[region l2]|] eqn:E2; [|discriminate].
  destruct (ext_count_ok known region) eqn:C; [|discriminate].
  injection H as <- <-.
  rewrite (take_be_ext _ _ _ _ e E1), (take_n_ext _ _ _ _ e E2), C. reflexivity.
Qed.

(** * Messages *)

Ltac body_id := unfold parse_body; cbn [N.eqb Pos.eqb]; cbv iota.

Theorem parse_encode : forall m rest,
  wf_msg m -> parse_msg (encode_msg m ++ rest) = Some (m, rest).
Proof.
  intros m rest W. destruct m; cbn [wf_msg] in W; unfold encode_msg.
  - (* XFER_SEGMENT *)
    destruct W as (Hf & Hx & Hr & Hs & Hl & Hd).
    destruct (has_start flags) eqn:HS.
    + rewrite <- !app_assoc. cbn [app parse_msg]. body_id.
      rewrite tb1 by exact Hf. rewrite tb8 by exact Hx. rewrite HS.
      rewrite region_parse_encode by exact Hr.
      rewrite tb8 by exact Hl. rewrite tn_len. reflexivity.
    + rewrite (Hs eq_refl). rewrite <- !app_assoc. cbn [app parse_msg]. body_id.
      rewrite tb1 by exact Hf. rewrite tb8 by exact Hx. rewrite HS.
      rewrite tb8 by exact Hl. rewrite tn_len. reflexivity.
  - destruct W as (Hf & Hx & Hl). rewrite <- !app_assoc. cbn [app parse_msg]. body_id.
    rewrite tb1 by exact Hf. rewrite tb8 by exact Hx. rewrite tb8 by exact Hl. reflexivity.
  - destruct W as (Hr & Hx). rewrite <- !app_assoc. cbn [app parse_msg]. body_id.
    rewrite tb1 by exact Hr. rewrite tb8 by exact Hx. reflexivity.
  - cbn [app parse_msg]. body_id. reflexivity.
  - destruct W as (Hf & Hr). rewrite <- !app_assoc. cbn [app parse_msg]. body_id.
    rewrite tb1 by exact Hf. rewrite tb1 by exact Hr. reflexivity.
  - destruct W as (Hf & Hr). rewrite <- !app_assoc. cbn [app parse_msg]. body_id.
    rewrite tb1 by exact Hf. rewrite tb1 by exact Hr. reflexivity.
  - destruct W as (Hk & Hs & Hx & Hn & Hw & Hr). rewrite <- !app_assoc. cbn [app parse_msg]. body_id.
    rewrite tb2 by exact Hk. rewrite tb8 by exact Hs. rewrite tb8 by exact Hx.
    rewrite tb2 by exact Hn. rewrite tn_len.
    rewrite region_parse_encode by exact Hr. reflexivity.
Qed.

(** One parse step on a hypothesis [H : match take_.. with .. end = Some _];
    the well-formedness of the buffer being read is found in the context. *)
Ltac sstep H :=
  match type of H with
  | match take_be ?k ?l with _ => _ end = Some _ =>
      let n := fresh "n" in let r := fresh "r" in let E := fresh "E" in
      let B := fresh "B" in let W' := fresh "W" in
      destruct (take_be k l) as [[n r]|] eqn:E; [|discriminate H];
      apply take_be_sound in E; [|assumption]; destruct E as (-> & B & W');
      try rewrite p1 in B; try rewrite p2 in B; try rewrite p4 in B; try rewrite p8 in B
  | match take_n ?k ?l with _ => _ end = Some _ =>
      let a := fresh "a" in let r := fresh "r" in let E := fresh "E" in
      let L := fresh "L" in let Wa := fresh "Wa" in let Wr := fresh "Wr" in
      destruct (take_n k l) as [[a r]|] eqn:E; [|discriminate H];
      apply take_n_sound in E; destruct E as (-> & L);
      match goal with Wx : wf_bytes (a ++ r) |- _ =>
        pose proof (proj1 (proj1 (wf_bytes_app a r) Wx)) as Wa;
        pose proof (proj2 (proj1 (wf_bytes_app a r) Wx)) as Wr end
  | match parse_ext_region ?k ?l with _ => _ end = Some _ =>
      let a := fresh "ext" in let r := fresh "r" in let E := fresh "E" in
      let WR := fresh "WR" in let W' := fresh "W" in
      destruct (parse_ext_region k l) as [[a r]|] eqn:E; [|discriminate H];
      apply region_parse_sound in E; [|assumption]; destruct E as (-> & WR & W')
  end.

Theorem parse_sound : forall b m r,
  wf_bytes b -> parse_msg b = Some (m, r) -> b = encode_msg m ++ r /\ wf_msg m /\ wf_bytes r.
Proof.
  intros b m r W H. destruct b as [|id l]; [discriminate|]. cbn [parse_msg] in H.
  inversion W as [|? ? _ Wl]; subst. clear W. change (wf_bytes l) in Wl. unfold parse_body in H.
  destruct (N.eqb_spec id 1) as [->|_].
  { do 2 sstep H.
    destruct (has_start n) eqn:HS.
    - do 3 sstep H. injection H as <- <-.
      assert (N.of_nat (length a) = n1) as <- by lia.
      split; [|split].
      + unfold encode_msg. rewrite HS. rewrite <- !app_assoc. reflexivity.
      + cbn [wf_msg]. destruct WR as (R1 & R2 & R3). repeat split; try assumption; try lia; congruence.
      + assumption.
    - do 2 sstep H. injection H as <- <-.
      assert (N.of_nat (length a) = n1) as <- by lia.
      split; [|split].
      + unfold encode_msg. rewrite HS. rewrite <- !app_assoc. reflexivity.
      + cbn [wf_msg].
        assert (WR0 : wf_region xfer_ext_len []) by (repeat split; try (cbn; lia); try constructor).
        destruct WR0 as (R1 & R2 & R3). repeat split; try assumption; lia.
      + assumption. }
  destruct (N.eqb_spec id 2) as [->|_].
  { do 3 sstep H. injection H as <- <-.
    split; [|split]; [unfold encode_msg; rewrite <- !app_assoc; reflexivity | cbn [wf_msg]; auto | assumption]. }
  destruct (N.eqb_spec id 3) as [->|_].
  { do 2 sstep H. injection H as <- <-.
    split; [|split]; [unfold encode_msg; rewrite <- !app_assoc; reflexivity | cbn [wf_msg]; auto | assumption]. }
  destruct (N.eqb_spec id 4) as [->|_].
  { injection H as <- <-. split; [|split]; [reflexivity | exact I | assumption]. }
  destruct (N.eqb_spec id 5) as [->|_].
  { do 2 sstep H. injection H as <- <-.
    split; [|split]; [unfold encode_msg; rewrite <- !app_assoc; reflexivity | cbn [wf_msg]; auto | assumption]. }
  destruct (N.eqb_spec id 6) as [->|_].
  { do 2 sstep H. injection H as <- <-.
    split; [|split]; [unfold encode_msg; rewrite <- !app_assoc; reflexivity | cbn [wf_msg]; auto | assumption]. }
  destruct (N.eqb_spec id 7) as [->|_]; [|discriminate].
  do 6 sstep H. injection H as <- <-.
  assert (N.of_nat (length a) = n2) as <- by lia.
  split; [|split].
  - unfold encode_msg. rewrite <- !app_assoc. reflexivity.
  - cbn [wf_msg]. destruct WR as (R1 & R2 & R3). repeat split; try assumption; lia.
  - assumption.
Qed.

Ltac estep H e :=
  match type of H with
  | match take_be ?k ?l with _ => _ end = Some _ =>
      let n := fresh "n" in let r := fresh "r" in let E := fresh "E" in
      destruct (take_be k l) as [[n r]|] eqn:E; [|discriminate H];
      rewrite (take_be_ext _ _ _ _ e E)
  | match take_n ?k ?l with _ => _ end = Some _ =>
      let a := fresh "a" in let r := fresh "r" in let E := fresh "E" in
      destruct (take_n k l) as [[a r]|] eqn:E; [|discriminate H];
      rewrite (take_n_ext _ _ _ _ e E)
  | match parse_ext_region ?k ?l with _ => _ end = Some _ =>
      let a := fresh "a" in let r := fresh "r" in let E := fresh "E" in
      destruct (parse_ext_region k l) as [[a r]|] eqn:E; [|discriminate H];
      rewrite (region_parse_app _ _ _ _ e E)
  end.

Theorem parse_app : forall b e m r,
  parse_msg b = Some (m, r) -> parse_msg (b ++ e) = Some (m, r ++ e).
Proof.
  intros b e m r H. destruct b as [|id l]; [discriminate|]. cbn [parse_msg app] in *.
  unfold parse_body in *.
  destruct (id =? 1).
  { estep H e. estep H e. destruct (has_start n).
    - estep H e. estep H e. estep H e. injection H as <- <-. reflexivity.
    - estep H e. estep H e. injection H as <- <-. reflexivity. }
  destruct (id =? 2). { do 3 estep H e. injection H as <- <-. reflexivity. }
  destruct (id =? 3). { do 2 estep H e. injection H as <- <-. reflexivity. }
  destruct (id =? 4). { injection H as <- <-. reflexivity. }
  destruct (id =? 5). { do 2 estep H e. injection H as <- <-. reflexivity. }
  destruct (id =? 6). { do 2 estep H e. injection H as <- <-. reflexivity. }
  destruct (id =? 7); [|discriminate].
  do 6 estep H e. injection H as <- <-. reflexivity.
Qed.

(** * Contact header *)

Theorem contact_parse_encode : forall c rest,
  wf_contact c -> parse_contact (encode_contact c ++ rest) = Some (c, rest).
Proof.
  intros [magic ver flags] rest (Lm & _ & Hv & Hf). cbn [ch_magic ch_version ch_flags] in *.
  unfold encode_contact, parse_contact. cbn [ch_magic ch_version ch_flags].
  rewrite <- !app_assoc. rewrite <- Lm at 1. rewrite take_n_app.
  rewrite tb1 by exact Hv. rewrite tb1 by exact Hf. reflexivity.
Qed.

Theorem contact_parse_sound : forall b c r,
  wf_bytes b -> parse_contact b = Some (c, r) -> b = encode_contact c ++ r /\ wf_contact c /\ wf_bytes r.
Proof.
  intros b c r W H. unfold parse_contact in H.
  do 3 sstep H. injection H as <- <-.
  split; [|split].
  - unfold encode_contact. cbn [ch_magic ch_version ch_flags]. rewrite <- !app_assoc. reflexivity.
  - unfold wf_contact. cbn [ch_magic ch_version ch_flags]. auto.
  - assumption.
Qed.

Theorem contact_parse_app : forall b e c r,
  parse_contact b = Some (c, r) -> parse_contact (b ++ e) = Some (c, r ++ e).
Proof.
  intros b e c r H. unfold parse_contact in *.
  do 3 estep H e. injection H as <- <-. reflexivity.
Qed.

Lemma encode_contact_length c : wf_contact c -> length (encode_contact c) = 6%nat.
Proof.
  intros (Lm & _). unfold encode_contact. rewrite !app_length, !be_length, Lm. reflexivity.
Qed.

(** * Frames, by phase *)

(** Frame [f] is well-formed and is what phase [ph] expects. *)
Definition accepts (ph : bool) (f : frame) : Prop :=
  wf_frame f /\ match f with FContact _ => ph = false | FMsg _ => ph = true end.

Theorem frame_parse_encode : forall ph f rest,
  accepts ph f -> parse_frame ph (encode_frame f ++ rest) = Some (f, rest).
Proof.
  intros ph [c|m] rest [W P]; subst ph; cbn [parse_frame encode_frame wf_frame] in *.
  - rewrite contact_parse_encode by exact W. reflexivity.
  - rewrite parse_encode by exact W. reflexivity.
Qed.

Theorem frame_parse_sound : forall ph b f r,
  wf_bytes b -> parse_frame ph b = Some (f, r) -> b = encode_frame f ++ r /\ accepts ph f /\ wf_bytes r.
Proof.
  intros [|] b f r W H; cbn [parse_frame] in H.
  - destruct (parse_msg b) as [[m r']|] eqn:E; [|discriminate]. injection H as <- <-.
    apply parse_sound in E; [|exact W]. destruct E as (-> & Wm & Wr).
    split; [reflexivity|]. split; [split; [exact Wm|reflexivity]|exact Wr].
  - destruct (parse_contact b) as [[c r']|] eqn:E; [|discriminate]. injection H as <- <-.
    apply contact_parse_sound in E; [|exact W]. destruct E as (-> & Wm & Wr).
    split; [reflexivity|]. split; [split; [exact Wm|reflexivity]|exact Wr].
Qed.

Theorem frame_parse_app : forall ph b e f r,
  parse_frame ph b = Some (f, r) -> parse_frame ph (b ++ e) = Some (f, r ++ e).
Proof.
  intros [|] b e f r H; cbn [parse_frame] in *.
  - destruct (parse_msg b) as [[m r']|] eqn:E; [|discriminate]. injection H as <- <-.
    rewrite (parse_app _ e _ _ E). reflexivity.
  - destruct (parse_contact b) as [[c r']|] eqn:E; [|discriminate]. injection H as <- <-.
    rewrite (contact_parse_app _ e _ _ E). reflexivity.
Qed.

(** A complete frame consumes at least one octet (in either phase, on any
    buffer). *)
Lemma take_be_len k x y z : take_be k x = Some (y, z) -> length x = (k + length z)%nat.
Proof.
  unfold take_be. destruct (Nat.ltb_spec (length x) k); [discriminate|].
  intros T. injection T as <- <-. rewrite skipn_length. lia.
Qed.

Lemma take_n_len k x y z : take_n k x = Some (y, z) -> length x = (k + length z)%nat.
Proof.
  unfold take_n. destruct (Nat.ltb_spec (length x) k); [discriminate|].
  intros T. injection T as <- <-. rewrite skipn_length. lia.
Qed.

Lemma region_len k x y z : parse_ext_region k x = Some (y, z) -> (length z <= length x)%nat.
Proof.
  unfold parse_ext_region. intros T.
  destruct (take_be 4 x) as [[s x1]|] eqn:T1; [|discriminate].
  destruct (take_n (N.to_nat s) x1) as [[g x2]|] eqn:T2; [|discriminate].
  destruct (ext_count_ok k g); [|discriminate]. injection T as <- <-.
  apply take_be_len in T1. apply take_n_len in T2. lia.
Qed.

Lemma parse_msg_shrinks : forall b m r, parse_msg b = Some (m, r) -> (length r < length b)%nat.
Proof.
  intros b m r E. destruct b as [|id l]; [discriminate|]. cbn [parse_msg] in E. cbn [length].
  unfold parse_body in E.
  repeat match type of E with
  | (if ?c then _ else _) = Some _ => destruct c
  | match take_be ?k ?x with _ => _ end = Some _ =>
      let T := fresh "T" in destruct (take_be k x) as [[? ?]|] eqn:T; [apply take_be_len in T|discriminate E]
  | match take_n ?k ?x with _ => _ end = Some _ =>
      let T := fresh "T" in destruct (take_n k x) as [[? ?]|] eqn:T; [apply take_n_len in T|discriminate E]
  | match parse_ext_region ?k ?x with _ => _ end = Some _ =>
      let T := fresh "T" in destruct (parse_ext_region k x) as [[? ?]|] eqn:T; [apply region_len in T|discriminate E]
  | match (if ?c then _ else _) with _ => _ end = Some _ => destruct c; cbv iota beta in E
  end; try discriminate E; injection E as <- <-; lia.
Qed.

Lemma parse_contact_shrinks : forall b c r, parse_contact b = Some (c, r) -> (length r < length b)%nat.
Proof.
  intros b c r E. unfold parse_contact in E.
  destruct (take_n 4 b) as [[mg l1]|] eqn:T1; [|discriminate].
  destruct (take_be 1 l1) as [[v l2]|] eqn:T2; [|discriminate].
  destruct (take_be 1 l2) as [[fl l3]|] eqn:T3; [|discriminate].
  injection E as <- <-.
  apply take_n_len in T1. apply take_be_len in T2. apply take_be_len in T3. lia.
Qed.

Theorem frame_parse_shrinks : forall ph b f r,
  parse_frame ph b = Some (f, r) -> (length r < length b)%nat.
Proof.
  intros [|] b f r H; cbn [parse_frame] in H.
  - destruct (parse_msg b) as [[m r']|] eqn:E; [|discriminate H]. injection H as <- <-.
    eapply parse_msg_shrinks; exact E.
  - destruct (parse_contact b) as [[c r']|] eqn:E; [|discriminate H]. injection H as <- <-.
    eapply parse_contact_shrinks; exact E.
Qed.

(** * Derived facts (generic in the three core lemmas) *)

Section Derived.
  Variables (T : Type) (enc : T -> bytes) (par : bytes -> option (T * bytes)) (wf : T -> Prop).
  Hypothesis PE : forall x rest, wf x -> par (enc x ++ rest) = Some (x, rest).
  Hypothesis PA : forall b e x r, par b = Some (x, r) -> par (b ++ e) = Some (x, r ++ e).

  (** Prefix-freeness / unique decodability. *)
  Lemma gen_prefix_free : forall a b x y, wf a -> wf b -> enc a ++ x = enc b ++ y -> a = b /\ x = y.
  Proof.
    intros a b x y Wa Wb E. pose proof (PE a x Wa) as P1. rewrite E, (PE b y Wb) in P1.
    injection P1 as -> ->. split; reflexivity.
  Qed.

  Lemma gen_inj : forall a b, wf a -> wf b -> enc a = enc b -> a = b.
  Proof.
    intros a b Wa Wb E. apply (gen_prefix_free a b [] [] Wa Wb). rewrite E. reflexivity.
  Qed.

  (** A strict prefix of an encoding is never complete. *)
  Lemma gen_prefix_none : forall x p q, wf x -> enc x = p ++ q -> q <> [] -> par p = None.
  Proof.
    intros x p q W E NE. destruct (par p) as [[y r]|] eqn:P; [|reflexivity].
    pose proof (PA _ q _ _ P) as P2. rewrite <- E in P2.
    pose proof (PE x [] W) as P3. rewrite app_nil_r in P3. rewrite P3 in P2.
    injection P2 as _ E2. destruct r; destruct q; try discriminate. congruence.
  Qed.
End Derived.

Theorem encode_prefix_free : forall a b x y,
  wf_msg a -> wf_msg b -> encode_msg a ++ x = encode_msg b ++ y -> a = b /\ x = y.
Proof. exact (gen_prefix_free msg encode_msg parse_msg wf_msg parse_encode). Qed.

Theorem encode_inj : forall a b, wf_msg a -> wf_msg b -> encode_msg a = encode_msg b -> a = b.
Proof. exact (gen_inj msg encode_msg parse_msg wf_msg parse_encode). Qed.

Theorem C07_prefix : forall m p q,
  wf_msg m -> encode_msg m = p ++ q -> q <> [] -> parse_msg p = None.
Proof. exact (gen_prefix_none msg encode_msg parse_msg wf_msg parse_encode parse_app). Qed.

Theorem encode_nonempty : forall m, encode_msg m <> [].
Proof. intros m. destruct m; unfold encode_msg; cbn [app]; discriminate. Qed.

Theorem contact_prefix_free : forall a b x y,
  wf_contact a -> wf_contact b -> encode_contact a ++ x = encode_contact b ++ y -> a = b /\ x = y.
Proof. exact (gen_prefix_free contact encode_contact parse_contact wf_contact contact_parse_encode). Qed.

Theorem contact_prefix : forall c p q,
  wf_contact c -> encode_contact c = p ++ q -> q <> [] -> parse_contact p = None.
Proof. exact (gen_prefix_none contact encode_contact parse_contact wf_contact contact_parse_encode contact_parse_app). Qed.

Theorem frame_prefix : forall ph f p q,
  accepts ph f -> encode_frame f = p ++ q -> q <> [] -> parse_frame ph p = None.
Proof.
  intros ph f p q A.
  exact (gen_prefix_none frame encode_frame (parse_frame ph) (accepts ph)
           (frame_parse_encode ph) (frame_parse_app ph) f p q A).
Qed.

Theorem frame_prefix_free : forall ph a b x y,
  accepts ph a -> accepts ph b -> encode_frame a ++ x = encode_frame b ++ y -> a = b /\ x = y.
Proof.
  intros ph. exact (gen_prefix_free frame encode_frame (parse_frame ph) (accepts ph) (frame_parse_encode ph)).
Qed.

Ltac wfb :=
  repeat match goal with
  | |- wf_bytes (_ ++ _) => apply wf_bytes_app; split
  | |- wf_bytes (be _ _) => apply be_wf
  | |- wf_bytes [] => constructor
  | |- wf_bytes [_] => constructor; [unfold wf_byte; lia|constructor]
  | |- wf_bytes _ => assumption
  end.

Lemma encode_msg_wf : forall m, wf_msg m -> wf_bytes (encode_msg m).
Proof.
  intros m W. destruct m; cbn [wf_msg] in W; unfold encode_msg.
  - destruct W as (_ & _ & (_ & Wr & _) & _ & _ & Wd). destruct (has_start flags); wfb.
  - wfb.
  - wfb.
  - wfb.
  - wfb.
  - wfb.
  - destruct W as (_ & _ & _ & _ & Wn & (_ & Wr & _)). wfb.
Qed.

Lemma encode_contact_wf : forall c, wf_contact c -> wf_bytes (encode_contact c).
Proof. intros c (_ & Wm & _). unfold encode_contact. wfb. Qed.

Lemma encode_frame_wf : forall f, wf_frame f -> wf_bytes (encode_frame f).
Proof. intros [c|m] W; [apply encode_contact_wf|apply encode_msg_wf]; exact W. Qed.

(** * Extension items inside a region *)

(** RFC reading of a well-formed item list: exact round trip. *)
Lemma ext_encode_length known e : wf_ext known e -> (5 <= length (encode_ext e))%nat.
Proof. intros _. unfold encode_ext. rewrite !app_length, !be_length. lia. Qed.

Lemma parse_exts_S known f l : l <> [] ->
  parse_exts known (S f) l =
  match take_be 1 l with None => None | Some (fl, l1) =>
  match take_be 2 l1 with None => None | Some (ty, l2) =>
  match take_be 2 l2 with None => None | Some (len, l3) =>
  match take_n (N.to_nat len) l3 with None => None | Some (val, l4) =>
    if ext_len_ok known ty (N.to_nat len) then
      match parse_exts known f l4 with Some items => Some (mkExt fl ty val :: items) | None => None end
    else None
  end end end end.
Proof. destruct l; [congruence|reflexivity]. Qed.

Lemma len5_nonempty (l : bytes) : (5 <= length l)%nat -> l <> [].
Proof. destruct l; cbn [length]; [lia|discriminate]. Qed.

Lemma parse_exts_encode known : forall items fuel,
  Forall (wf_ext known) items -> (length (encode_exts items) < fuel)%nat ->
  parse_exts known fuel (encode_exts items) = Some items.
Proof.
  induction items as [|it items IH]; intros fuel W F.
  - destruct fuel; reflexivity.
  - inversion W as [|? ? Wi Ws]; subst.
    pose proof (ext_encode_length known it Wi) as L5.
    destruct Wi as (Hf & Ht & Hl & Hv & Hk).
    unfold encode_exts in *. cbn [map concat] in *. rewrite app_length in F.
    destruct fuel as [|fuel]; [lia|].
    rewrite parse_exts_S by (apply len5_nonempty; rewrite app_length; lia).
    destruct it as [fl ty val]. cbn [ei_flags ei_type ei_val] in *.
    unfold encode_ext in *. cbn [ei_flags ei_type ei_val] in *. rewrite <- !app_assoc.
    rewrite tb1 by exact Hf. rewrite tb2 by exact Ht. rewrite tb2 by exact Hl. rewrite tn_len.
    rewrite Nnat.Nat2N.id, Hk.
    rewrite IH; [reflexivity|exact Ws|lia].
Qed.

Theorem spec_exts_encode known items :
  Forall (wf_ext known) items -> spec_exts known (encode_exts items) = Some items.
Proof. intros W. unfold spec_exts. apply parse_exts_encode; [exact W|lia]. Qed.

Lemma parse_exts_sound known : forall fuel l items,
  wf_bytes l -> parse_exts known fuel l = Some items ->
  l = encode_exts items /\ Forall (wf_ext known) items.
Proof.
  induction fuel as [|fuel IH]; intros l items W H.
  - destruct l; [|discriminate]. injection H as <-. split; [reflexivity|constructor].
  - destruct l as [|b0 l']; [injection H as <-; split; [reflexivity|constructor]|].
    rewrite parse_exts_S in H by discriminate.
    do 4 sstep H.
    destruct (ext_len_ok known n0 (N.to_nat n1)) eqn:K; [|discriminate].
    destruct (parse_exts known fuel r0) as [its|] eqn:P; [|discriminate].
    injection H as <-. apply IH in P; [|assumption]. destruct P as (-> & Ws).
    assert (EL : N.of_nat (length a) = n1) by lia.
    split.
    + unfold encode_exts. cbn [map concat]. unfold encode_ext. cbn [ei_flags ei_type ei_val].
      rewrite EL, <- !app_assoc. reflexivity.
    + constructor; [|exact Ws]. unfold wf_ext. cbn [ei_flags ei_type ei_val].
      rewrite L in *. repeat split; try assumption; lia.
Qed.

Theorem spec_exts_sound known region items :
  wf_bytes region -> spec_exts known region = Some items ->
  region = encode_exts items /\ Forall (wf_ext known) items.
Proof. apply parse_exts_sound. Qed.

(** What the implementation's dissector reports.  A single well-formed item
    (what the implementation sends by default: the Transfer Length
    extension) is seen as that item ... *)
Lemma scapy_exts_S known f l : l <> [] ->
  scapy_exts known (S f) l =
  match take_be 1 l with None => [XRaw l] | Some (fl, l1) =>
  match take_be 2 l1 with None => [XRaw l] | Some (ty, l2) =>
  match take_be 2 l2 with None => [XRaw l] | Some (len, rest) =>
    if N.of_nat (length rest) =? len then
      match known ty with
      | None => [XItem fl ty len rest]
      | Some k =>
          if (length rest <=? k)%nat then [XItem fl ty len rest]
          else XItem fl ty len (firstn k rest) :: scapy_exts known f (skipn k rest)
      end
    else [XRaw l]
  end end end.
Proof. destruct l; [congruence|reflexivity]. Qed.

Theorem scapy_view_single known it :
  wf_ext known it ->
  scapy_view known (encode_exts [it])
  = [XItem (ei_flags it) (ei_type it) (N.of_nat (length (ei_val it))) (ei_val it)].
Proof.
  intros Wi. pose proof (ext_encode_length known it Wi) as L5.
  destruct Wi as (Hf & Ht & Hl & Hv & Hk). destruct it as [fl ty val]. cbn [ei_flags ei_type ei_val] in *.
  unfold scapy_view, encode_exts. cbn [map concat]. rewrite app_nil_r.
  rewrite scapy_exts_S by (apply len5_nonempty; exact L5).
  unfold encode_ext. cbn [ei_flags ei_type ei_val].
  rewrite tb1 by exact Hf. rewrite tb2 by exact Ht.
  rewrite tb2 by exact Hl.
  rewrite N.eqb_refl. unfold ext_len_ok in Hk.
  destruct (known ty) as [k|]; [|reflexivity].
  apply Nat.eqb_eq in Hk. rewrite Hk, Nat.leb_refl. reflexivity.
Qed.

(** ... the empty list as the empty list ... *)
Theorem scapy_view_nil known : scapy_view known (encode_exts []) = [].
Proof. reflexivity. Qed.

(** ... but two or more well-formed items come out as one Raw blob holding
    the whole region (TlvHead's length check sees the following items as
    part of the first item's payload). *)
Theorem scapy_view_many known it1 it2 items :
  Forall (wf_ext known) (it1 :: it2 :: items) ->
  scapy_view known (encode_exts (it1 :: it2 :: items)) = [XRaw (encode_exts (it1 :: it2 :: items))].
Proof.
  intros W. inversion W as [|? ? W1 W']; subst. inversion W' as [|? ? W2 _]; subst.
  pose proof (ext_encode_length known it2 W2) as L2.
  destruct W1 as (Hf & Ht & Hl & Hv & Hk).
  unfold scapy_view, encode_exts. cbn [map concat].
  set (tail := encode_ext it2 ++ concat (map encode_ext items)).
  assert (LT : (5 <= length tail)%nat) by (unfold tail; rewrite app_length; lia).
  clearbody tail.
  destruct it1 as [fl ty val]. cbn [ei_flags ei_type ei_val] in *.
  unfold encode_ext. cbn [ei_flags ei_type ei_val]. rewrite <- !app_assoc.
  rewrite scapy_exts_S by (apply len5_nonempty; rewrite !app_length, !be_length; lia).
  rewrite tb1 by exact Hf. rewrite tb2 by exact Ht. rewrite tb2 by exact Hl.
  destruct (N.eqb_spec (N.of_nat (length (val ++ tail))) (N.of_nat (length val))) as [E|_]; [|reflexivity].
  rewrite app_length in E. lia.
Qed.

(** * The receive loop over [parse_frame]: instances of Proofs/FrameProofs.v *)
From DTN Require Import Proofs.FrameProofs.

Lemma rx_loop_eq St phase alive handle : forall fuel s buf,
  rx_loop St phase alive handle fuel s buf = loop N St frame phase alive parse_frame handle fuel s buf.
Proof. reflexivity. Qed.

Lemma rx_recv_eq St phase alive handle : forall st c,
  rx_recv St phase alive handle st c = recv N St frame phase alive parse_frame handle st c.
Proof. reflexivity. Qed.

(** The frame sequence is legal for the handler: when a frame arrives the
    handler has not closed the connection, and the frame is well-formed and is
    what the phase the handler is in expects (contact header first, then
    messages, for a handler that sets [_in_conn] on the contact header). *)
Section RxConsistent.
  Variable St : Type.
  Variable phase : St -> bool.
  Variable alive : St -> bool.
  Variable handle : St -> frame -> St.
  Fixpoint rx_consistent (s : St) (fs : list frame) : Prop :=
    match fs with
    | [] => True
    | f :: fs' => alive s = true /\ accepts (phase s) f /\ rx_consistent (handle s f) fs'
    end.
End RxConsistent.

Section Inst.
  Variable St : Type.
  Variable phase : St -> bool.
  Variable alive : St -> bool.
  Variable handle : St -> frame -> St.
  Notation rcv := (rx_recv St phase alive handle).

  Theorem rx_recv_recv : forall st c1 c2, rcv (rcv st c1) c2 = rcv st (c1 ++ c2).
  Proof. exact (recv_recv N St frame phase alive parse_frame handle frame_parse_shrinks frame_parse_app). Qed.

  Theorem rx_split_invariance : forall chunks c st,
    fold_left rcv chunks (rcv st c) = rcv st (c ++ concat chunks).
  Proof. exact (split_invariance N St frame phase alive parse_frame handle frame_parse_shrinks frame_parse_app). Qed.

  Lemma rx_recv_empty : forall s, rcv (s, []) [] = (s, []).
  Proof. reflexivity. Qed.

  Theorem rx_stream_only : forall chunks1 chunks2 s,
    concat chunks1 = concat chunks2 ->
    fold_left rcv chunks1 (s, []) = fold_left rcv chunks2 (s, []).
  Proof.
    intros chunks1 chunks2 s E. rewrite <- (rx_recv_empty s).
    exact (split_invariance_any N St frame phase alive parse_frame handle frame_parse_shrinks frame_parse_app
             chunks1 chunks2 (s, []) E).
  Qed.

  Theorem rx_stream : forall fs s,
    rx_consistent St phase alive handle s fs ->
    rcv (s, []) (concat (map encode_frame fs)) = (fold_left handle fs s, []).
  Proof.
    exact (stream_theorem N St frame phase alive parse_frame handle frame_parse_shrinks
             encode_frame accepts frame_parse_encode).
  Qed.

  Theorem rx_stream_cut : forall fs1 f fs2 s q q',
    rx_consistent St phase alive handle s (fs1 ++ f :: fs2) -> encode_frame f = q ++ q' -> q' <> [] ->
    rcv (s, []) (concat (map encode_frame fs1) ++ q) = (fold_left handle fs1 s, q).
  Proof.
    exact (stream_cut N St frame phase alive parse_frame handle frame_parse_shrinks frame_parse_app
             encode_frame accepts frame_parse_encode frame_prefix).
  Qed.

  Theorem rx_stream_any_cut : forall fs1 f fs2 s q q' chunks,
    rx_consistent St phase alive handle s (fs1 ++ f :: fs2) -> encode_frame f = q ++ q' -> q' <> [] ->
    concat chunks = concat (map encode_frame fs1) ++ q ->
    fold_left rcv chunks (s, []) = (fold_left handle fs1 s, q).
  Proof.
    intros fs1 f fs2 s q q' chunks C E NE EC. rewrite <- (rx_recv_empty s).
    exact (stream_any_cut N St frame phase alive parse_frame handle frame_parse_shrinks frame_parse_app
             encode_frame accepts frame_parse_encode frame_prefix fs1 f fs2 s q q' chunks C E NE EC).
  Qed.

  Theorem rx_stream_any_cut_all : forall fs s chunks,
    rx_consistent St phase alive handle s fs -> concat chunks = concat (map encode_frame fs) ->
    fold_left rcv chunks (s, []) = (fold_left handle fs s, []).
  Proof.
    intros fs s chunks C EC. rewrite <- (rx_recv_empty s).
    exact (stream_any_cut_all N St frame phase alive parse_frame handle frame_parse_shrinks frame_parse_app
             encode_frame accepts frame_parse_encode fs s chunks C EC).
  Qed.

  (** The final octets of a frame arrive: it is acted on in that very read. *)
  Theorem rx_complete_acted_on : forall s f p q,
    alive s = true -> accepts (phase s) f -> encode_frame f = p ++ q ->
    rcv (s, p) q = (handle s f, []).
  Proof.
    intros s f p q AL A E.
    change (rcv (s, p) q) with (rcv (s, []) (p ++ q)). rewrite <- E.
    pose proof (rx_stream [f] s (conj AL (conj A I))) as R. cbn [map concat fold_left] in R.
    rewrite app_nil_r in R. exact R.
  Qed.

  (** Any strict prefix of a frame is left untouched in the buffer, whatever
      way it arrives. *)
  Theorem rx_prefix_untouched : forall s f p q,
    accepts (phase s) f -> encode_frame f = p ++ q -> q <> [] ->
    rcv (s, []) p = (s, p).
  Proof.
    intros s f p q A E NE. unfold rx_recv. cbn [fst snd app]. cbn [rx_loop].
    destruct p as [|x p]; [reflexivity|].
    rewrite (frame_prefix _ _ _ _ A E NE). destruct (alive s); reflexivity.
  Qed.

  (** Once the handler has closed the connection nothing more is handled. *)
  Theorem rx_closed_inert : forall s buf c, alive s = false -> rcv (s, buf) c = (s, buf ++ c).
  Proof.
    intros s buf c AL. unfold rx_recv. cbn [fst snd]. cbn [rx_loop].
    destruct (buf ++ c); [reflexivity|]. rewrite AL. reflexivity.
  Qed.
End Inst.

(** The logging handler. *)
Lemma log_fold : forall fs fl lg,
  fold_left log_handle fs (fl, lg) = (fold_left log_flags fs fl, lg ++ fs).
Proof.
  induction fs as [|f fs IH]; intros fl lg; cbn [fold_left].
  - rewrite app_nil_r. reflexivity.
  - unfold log_handle at 2. cbn [fst snd]. rewrite IH. rewrite <- app_assoc. reflexivity.
Qed.

Lemma log_flags_msgs : forall ms fl, fold_left log_flags (map FMsg ms) fl = fl.
Proof. induction ms as [|m ms IH]; intros fl; [reflexivity|]. cbn [map fold_left log_flags]. apply IH. Qed.

Lemma log_consistent_msgs : forall ms lg,
  Forall wf_msg ms -> rx_consistent log_state log_phase log_alive log_handle ((true, true), lg) (map FMsg ms).
Proof.
  induction ms as [|m ms IH]; intros lg W; cbn [map rx_consistent]; [exact I|].
  inversion W; subst. split; [reflexivity|]. split; [split; [assumption|reflexivity]|]. apply IH. assumption.
Qed.

Lemma log_consistent : forall c ms,
  wf_contact c -> contact_ok c = true -> Forall wf_msg ms ->
  rx_consistent log_state log_phase log_alive log_handle ((false, true), []) (FContact c :: map FMsg ms).
Proof.
  intros c ms Wc Ok Wm. cbn [rx_consistent]. split; [reflexivity|]. split; [split; [exact Wc|reflexivity]|].
  unfold log_handle, log_flags. cbn [fst snd app]. rewrite Ok.
  apply log_consistent_msgs. exact Wm.
Qed.

Lemma log_flags_stream : forall c ms,
  contact_ok c = true -> fold_left log_flags (FContact c :: map FMsg ms) (false, true) = (true, true).
Proof. intros c ms Ok. cbn [fold_left log_flags]. rewrite Ok. cbn [snd]. apply log_flags_msgs. Qed.

Theorem rx_log_stream : forall c ms,
  wf_contact c -> contact_ok c = true -> Forall wf_msg ms ->
  rx_log_recv rx_init (concat (map encode_frame (FContact c :: map FMsg ms)))
  = (((true, true), FContact c :: map FMsg ms), []).
Proof.
  intros c ms Wc Ok Wm.
  pose proof (rx_stream log_state log_phase log_alive log_handle _ _ (log_consistent c ms Wc Ok Wm)) as R.
  rewrite log_fold, (log_flags_stream c ms Ok) in R. exact R.
Qed.

(** A prefix of [FContact c :: map FMsg ms] is empty or again of that shape. *)
Lemma prefix_shape : forall (c : contact) (ms : list msg) (fs1 : list frame) (f : frame) (fs2 : list frame),
  FContact c :: map FMsg ms = fs1 ++ f :: fs2 ->
  fs1 = [] \/ exists ms1, fs1 = FContact c :: map FMsg ms1.
Proof.
  intros c ms fs1 f fs2 E. destruct fs1 as [|g fs1]; [left; reflexivity|right].
  cbn [app] in E. injection E as <- E. revert ms E.
  induction fs1 as [|h fs1 IH]; intros ms E.
  - exists []. reflexivity.
  - destruct ms as [|m ms]; [discriminate|]. cbn [map app] in E. injection E as <- E.
    destruct (IH ms E) as [ms1 E1]. injection E1 as ->. exists (m :: ms1). reflexivity.
Qed.

(** Any way of cutting any prefix of a well-formed stream into reads: exactly
    the frames whose final octet has arrived have been acted on, in order, and
    the octets of the next, incomplete one are kept. *)
Theorem rx_log_any_cut : forall c ms fs1 f fs2 q q' chunks,
  wf_contact c -> contact_ok c = true -> Forall wf_msg ms ->
  FContact c :: map FMsg ms = fs1 ++ f :: fs2 ->
  encode_frame f = q ++ q' -> q' <> [] ->
  concat chunks = concat (map encode_frame fs1) ++ q ->
  fold_left rx_log_recv chunks rx_init
  = (((match fs1 with [] => false | _ => true end, true), fs1), q).
Proof.
  intros c ms fs1 f fs2 q q' chunks Wc Ok Wm EF E NE EC.
  pose proof (log_consistent c ms Wc Ok Wm) as C. rewrite EF in C.
  pose proof (rx_stream_any_cut log_state log_phase log_alive log_handle fs1 f fs2 ((false, true), []) q q' chunks C E NE EC) as R.
  rewrite log_fold in R.
  destruct (prefix_shape c ms fs1 f fs2 EF) as [->|[ms1 ->]]; [exact R|].
  rewrite (log_flags_stream c ms1 Ok) in R. exact R.
Qed.

Theorem rx_log_any_cut_all : forall c ms chunks,
  wf_contact c -> contact_ok c = true -> Forall wf_msg ms ->
  concat chunks = concat (map encode_frame (FContact c :: map FMsg ms)) ->
  fold_left rx_log_recv chunks rx_init = (((true, true), FContact c :: map FMsg ms), []).
Proof.
  intros c ms chunks Wc Ok Wm EC.
  pose proof (rx_stream_any_cut_all log_state log_phase log_alive log_handle _ ((false, true), []) chunks (log_consistent c ms Wc Ok Wm) EC) as R.
  rewrite log_fold, (log_flags_stream c ms Ok) in R. exact R.
Qed.

(** The log only grows: frames already acted on are never revised. *)
Theorem rx_log_mono : forall st c, exists more,
  snd (fst (rx_log_recv st c)) = snd (fst st) ++ more.
Proof.
  assert (G : forall fuel fl lg buf, exists more,
            snd (fst (rx_loop log_state log_phase log_alive log_handle fuel (fl, lg) buf)) = lg ++ more).
  { induction fuel as [|fuel IH]; intros fl lg buf; cbn [rx_loop].
    - exists []. rewrite app_nil_r. reflexivity.
    - destruct buf as [|x buf]; [exists []; rewrite app_nil_r; reflexivity|].
      destruct (log_alive (fl, lg)); [|exists []; rewrite app_nil_r; reflexivity].
      destruct (parse_frame (log_phase (fl, lg)) (x :: buf)) as [[f r]|]; [|exists []; rewrite app_nil_r; reflexivity].
      change (log_handle (fl, lg) f) with (log_flags fl f, lg ++ [f]).
      destruct (IH (log_flags fl f) (lg ++ [f]) r) as [more E].
      exists (f :: more). rewrite E, <- app_assoc. reflexivity. }
  intros [[fl lg] buf] c. unfold rx_log_recv, rx_recv. cbn [fst snd]. apply G.
Qed.

(** Boolean reflection of well-formedness (for the concrete examples). *)
Lemma wf_msgb_wf : forall m, wf_msgb m = true -> wf_msg m.
Proof.
  intros m H. destruct m; cbn [wf_msgb wf_msg] in *; unfold wf_regionb, wf_region in *;
    repeat match goal with
    | H : _ && _ = true |- _ => apply andb_true_iff in H; destruct H
    end;
    repeat match goal with
    | H : (_ <? _) = true |- _ => apply N.ltb_lt in H
    | H : wf_bytesb _ = true |- _ => apply wf_bytesb_spec in H
    end; repeat split; try assumption.
  intros HS. match goal with H : has_start _ || _ = true |- _ => rewrite HS in H; cbn [orb] in H end.
  destruct ext; [reflexivity|discriminate].
Qed.

Lemma wf_extb_wf known e : wf_extb known e = true -> wf_ext known e.
Proof.
  unfold wf_extb, wf_ext. intros H.
  repeat match goal with
  | H : _ && _ = true |- _ => apply andb_true_iff in H; destruct H
  end;
  repeat match goal with
  | H : (_ <? _) = true |- _ => apply N.ltb_lt in H
  | H : wf_bytesb _ = true |- _ => apply wf_bytesb_spec in H
  end; repeat split; assumption.
Qed.

Lemma wf_exts_forallb known items : forallb (wf_extb known) items = true -> Forall (wf_ext known) items.
Proof.
  intros H. apply Forall_forall. intros e He. apply wf_extb_wf.
  rewrite forallb_forall in H. apply H. exact He.
Qed.

Lemma wf_msgs_forallb ms : forallb wf_msgb ms = true -> Forall wf_msg ms.
Proof.
  intros H. apply Forall_forall. intros e He. apply wf_msgb_wf.
  rewrite forallb_forall in H. apply H. exact He.
Qed.

(** Item-level statements in the shape used by Props/C07.v *)
Theorem scapy_view_le1 known items :
  Forall (wf_ext known) items -> (length items <= 1)%nat ->
  scapy_view known (encode_exts items) = map item_view items.
Proof.
  intros W L. destruct items as [|it [|it2 items]].
  - reflexivity.
  - inversion W; subst. rewrite scapy_view_single by assumption. reflexivity.
  - cbn [length] in L. lia.
Qed.

Theorem scapy_view_ge2 known items :
  Forall (wf_ext known) items -> (2 <= length items)%nat ->
  scapy_view known (encode_exts items) = [XRaw (encode_exts items)].
Proof.
  intros W L. destruct items as [|it [|it2 items]]; cbn [length] in L; try lia.
  apply scapy_view_many. exact W.
Qed.

(** The witness: private dummy (0xFF, 10 octets) + Transfer Length (0x01, 8
    octets), the two items the implementation itself puts on a START segment
    when enable_test contains private_extensions. *)
Theorem scapy_exts_refuted :
  exists items : list extitem,
    Forall (wf_ext xfer_ext_len) items
    /\ scapy_view xfer_ext_len (encode_exts items) <> map item_view items.
Proof.
  exists [mkExt 1 255 [0;0;0;0;0;0;0;0;0;0]; mkExt 0 1 [0;0;0;0;0;0;0;2]]. split.
  - apply wf_exts_forallb. reflexivity.
  - vm_compute. discriminate.
Qed.

(** One message of every type, for the non-vacuity examples of Props/C07.v:
    SESS_INIT with a node id and the private session extension item, a START
    segment carrying the Transfer Length item, a zero-length END segment, a
    zero-length START|END segment, and the five fixed-size messages. *)
Definition example_msgs : list msg :=
  [ MSessInit 30 65536 1048576 [100;116;110;58;47;47;97;47] (encode_exts [mkExt 1 255 [0;0;0;0;0;0;0;1;0;2]]);
    MXferSeg 2 1 (encode_exts [mkExt 1 1 [0;0;0;0;0;0;0;3]]) [1;2;3];
    MXferSeg 1 1 [] [];
    MXferSeg 3 2 [] [];
    MXferAck 1 1 3;
    MXferRefuse 2 5;
    MKeepalive;
    MReject 9 1;
    MSessTerm 1 3 ].
