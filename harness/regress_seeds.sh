#!/bin/sh
# regress_seeds.sh <seed dir names...>: re-apply stored seeded changes (seeded/<name>/patch.diff) to fresh worktrees of /repo HEAD under /tmp/seed and run the property check against each (via run_seed.sh, on a private copy of /verif); results in /tmp/regress.log; worktrees are removed afterwards
mkdir -p /tmp/seed
for S in "$@"; do
  P=$(echo $S | cut -c1-3); SUF=$(echo $S | cut -c4-)
  WT=/tmp/seed/$S
  git -C /repo worktree add --detach $WT HEAD > /dev/null 2>&1
  if ! git -C $WT apply /verif/seeded/$S/patch.diff 2>/tmp/seed/$S.apply.err; then
    echo "$S: patch does not apply to HEAD" >> /tmp/regress.log
  else
    /verif/harness/run_seed.sh $P "$SUF" > /dev/null 2>&1
    V=$(grep -c "^VIOLATION" /tmp/seed/$S.run.log); N=$(grep -c "no-failing-input-found" /tmp/seed/$S.run.log)
    echo "$S: VIOLATION lines $V (without input: $N) $(grep 'quick:' /tmp/seed/$S.run.log | cut -c1-90)" >> /tmp/regress.log
  fi
  git -C /repo worktree remove --force $WT > /dev/null 2>&1
done
