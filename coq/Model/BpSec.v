(** BPSec COSE context (bp/app/bpsec.py) at the CBOR-tree level: the external
    AAD of [CoseSecOpCtx.get_external_aad], the COSE MAC / Sig / Enc structures,
    the Abstract Security Block codec, and [apply_bib]/[verify_bib]/
    [apply_bcb]/[verify_bcb] over abstract cryptographic primitives.
    Definitions only; the theorems are in [Proofs/BpSecProofs.v], the property
    statements in [Props/C03.v] and [Props/C16.v].

    Level of the model.  [Model/Bundle.v] (the full bundle codec of C02) did
    not exist when this file was written, so the bundle is kept at the CBOR
    tree level: the primary block is the list of its array items WITHOUT the
    CRC value (the CRC is recomputed, exactly as [blk.update_crc()] does before
    [bytes(blk)]), a canonical block is (type, number, flags, CRC type, BTSD).
    [parse_bundle] reads that structure off wire octets with [Lib.Cbor.decode]
    (CRC values are dropped: the CRC gate is property C08's).

    What is abstract: the MAC / signature primitive ([mac], [mac_ok]), the AEAD
    ([enc], [dec]), the key wrap ([wrap], [unwrap]) and key resolution from
    header parameters / certificates ([keyring]).  They are Section variables;
    their idealised properties are Section hypotheses of the proofs file. *)
From Coq Require Import List NArith ZArith Arith Bool Lia ZifyBool ZifyN ZifyNat.
From DTN Require Import Lib.Bytes Lib.Cbor Lib.Crc.
Import ListNotations.
Local Open Scope N_scope.

(** * Bundle (CBOR-tree level) *)

Record cblock := mkCB {
  cb_type : N; cb_num : N; cb_flags : N; cb_crct : N; cb_btsd : bytes }.

Record bundle := mkB {
  b_pri : list cbor;          (* primary block array items, CRC value excluded *)
  b_blocks : list cblock }.

Definition find_block (b : bundle) (n : N) : option cblock :=
  find (fun c => cb_num c =? n) (b_blocks b).

(** CRC type = third item of the primary block *)
Definition pri_crct (p : list cbor) : N :=
  match nth_error p 2 with Some (CUint n) => n | _ => 0 end.

(** [blk.update_crc(); bytes(blk)] for the primary block: the array with the
    CRC computed over the encoding that carries a zeroed CRC field. *)
Definition primary_item (p : list cbor) : cbor :=
  match pri_crct p with
  | 1 => CArr (p ++ [CBstr (crc16_x25_field (encode (CArr (p ++ [CBstr [0; 0]]))))])
  | 2 => CArr (p ++ [CBstr (crc32c_field (encode (CArr (p ++ [CBstr [0; 0; 0; 0]]))))])
  | _ => CArr p
  end.

(** [blk.build()[:3]]: block type code, block number, block processing flags *)
Definition meta_items (c : cblock) : list cbor :=
  [CUint (cb_type c); CUint (cb_num c); CUint (cb_flags c)].

(** * AAD scope *)

(** AadScopeFlag.METADATA = 0x01, AadScopeFlag.BTSD = 0x02 *)
Definition flag_meta (f : N) : bool := N.testbit f 0.
Definition flag_btsd (f : N) : bool := N.testbit f 1.

(** The scope map as (key, flags) pairs; keys are CBOR integers
    ([CUint 0] primary, [CNint 0] = -1 target, [CNint 1] = -2 security block,
    [CUint n] block number n). *)
Definition scope := list (cbor * N).

(** [cbor2.dumps(.., canonical=True)] orders map keys by (length of encoded
    key, encoded key). *)
Fixpoint bytes_ltb (a b : bytes) : bool :=
  match a, b with
  | [], [] => false
  | [], _ :: _ => true
  | _ :: _, [] => false
  | x :: a', y :: b' => if x <? y then true else if y <? x then false else bytes_ltb a' b'
  end.

Definition key_ltb (a b : bytes) : bool :=
  if (length a <? length b)%nat then true
  else if (length b <? length a)%nat then false
  else bytes_ltb a b.

Fixpoint insert_kv (kv : cbor * N) (l : scope) : scope :=
  match l with
  | [] => [kv]
  | h :: t => if key_ltb (encode (fst kv)) (encode (fst h)) then kv :: l else h :: insert_kv kv t
  end.

Definition canon_scope (s : scope) : scope := fold_right insert_kv [] s.

Definition scope_map (s : scope) : cbor := CMap (map (fun kf => (fst kf, CUint (snd kf))) s).

(** What one (block, flags) entry of the scope contributes, for a non-primary block *)
Definition block_items (c : cblock) (f : N) : list cbor :=
  (if flag_meta f then meta_items c else []) ++ (if flag_btsd f then [CBstr (cb_btsd c)] else []).

(** One iteration of the loop in [get_external_aad].  [None] = the real code
    raises (KeyError from [ctr.block_num]). *)
Definition scope_entry (b : bundle) (sec tgt : cblock) (k : cbor) (f : N) : option (list cbor) :=
  match k with
  | CUint 0 => Some (if flag_meta f then [primary_item (b_pri b)] else [])
  | CNint 0 => Some (block_items tgt f)
  | CNint 1 => Some (block_items sec f)
  | CUint n => option_map (fun c => block_items c f) (find_block b n)
  | _ => None
  end.

Fixpoint scope_items (b : bundle) (sec tgt : cblock) (s : scope) : option (list (list cbor)) :=
  match s with
  | [] => Some []
  | (k, f) :: t =>
      match scope_entry b sec tgt k f, scope_items b sec tgt t with
      | Some e, Some r => Some (e :: r)
      | _, _ => None
      end
  end.

(** The external AAD as a CBOR sequence: security source, scope map in
    canonical order, the per-entry items in that order, bstr of the
    additional protected parameters. *)
Definition aad_items (b : bundle) (sec tgt : cblock) (source : cbor) (s : scope) (addl : bytes)
  : option (list cbor) :=
  let cs := canon_scope s in
  match scope_items b sec tgt cs with
  | Some ents => Some ([source; scope_map cs] ++ concat ents ++ [CBstr addl])
  | None => None
  end.

Definition external_aad (b : bundle) (sec tgt : cblock) (source : cbor) (s : scope) (addl : bytes)
  : option bytes :=
  option_map encode_seq (aad_items b sec tgt source s addl).

(** * COSE structures *)

Inductive ckind := KMac0 | KMac | KSign1 | KEnc0 | KEnc.

Definition kind_code (k : ckind) : N :=
  match k with KMac0 => 17 | KMac => 97 | KSign1 => 18 | KEnc0 => 16 | KEnc => 96 end.

Definition kind_of_code (c : N) : option ckind :=
  match c with 17 => Some KMac0 | 97 => Some KMac | 18 => Some KSign1 | 16 => Some KEnc0 | 96 => Some KEnc | _ => None end.

(** context strings "MAC0", "MAC", "Signature1", "Encrypt0", "Encrypt" *)
Definition kind_ctx (k : ckind) : bytes :=
  match k with
  | KMac0 => [77; 65; 67; 48]
  | KMac => [77; 65; 67]
  | KSign1 => [83; 105; 103; 110; 97; 116; 117; 114; 101; 49]
  | KEnc0 => [69; 110; 99; 114; 121; 112; 116; 48]
  | KEnc => [69; 110; 99; 114; 121; 112; 116]
  end.

(** pycose [_base_structure]: a protected bucket that decodes to the empty map
    enters the structures as the zero-length string. *)
Definition norm_protected (p : bytes) : bytes :=
  match decode_all 4 p with
  | Some (CMap []) => []
  | _ => p
  end.

(** MAC_structure / Sig_structure: [context, protected, external_aad, payload] *)
Definition auth_structure (k : ckind) (protected aad payload : bytes) : bytes :=
  encode (CArr [CTstr (kind_ctx k); CBstr (norm_protected protected); CBstr aad; CBstr payload]).

(** Enc_structure: [context, protected, external_aad] *)
Definition enc_structure (k : ckind) (protected aad : bytes) : bytes :=
  encode (CArr [CTstr (kind_ctx k); CBstr (norm_protected protected); CBstr aad]).

(** * One security operation and the content it covers *)

Record secop := mkOp {
  op_kind : ckind;
  op_protected : bytes;       (* protected bucket of the COSE message *)
  op_bundle : bundle;
  op_sec : cblock;            (* the security block (only type, number, flags are used) *)
  op_source : cbor;           (* security source EID item *)
  op_scope : scope;           (* AAD scope parameter (any order) *)
  op_addl : bytes;            (* additional protected parameters (parameter 3) *)
  op_tgt : cblock }.          (* the target block *)

(** The authenticated context: exactly what the property lists as bound in. *)
Record ctx_t := mkCtx {
  cv_context : bytes;             (* COSE context string *)
  cv_protected : bytes;           (* protected header parameters *)
  cv_source : cbor;               (* security source *)
  cv_scope : scope;               (* AAD scope, canonical order *)
  cv_blocks : list (list cbor);   (* per scope entry, in that order: key 0 -> the primary block
                                     (iff METADATA bit); key -1 / -2 / n -> type, number, flags of the
                                     target / security block / block n (iff METADATA bit) followed by
                                     its BTSD (iff BTSD bit) *)
  cv_addl : bytes }.              (* additional protected parameters *)

Definition covered_ctx (o : secop) : option ctx_t :=
  let cs := canon_scope (op_scope o) in
  match scope_items (op_bundle o) (op_sec o) (op_tgt o) cs with
  | Some ents => Some (mkCtx (kind_ctx (op_kind o)) (norm_protected (op_protected o)) (op_source o) cs ents (op_addl o))
  | None => None
  end.

(** Covered content of an integrity operation: the context plus the target's BTSD. *)
Definition covered (o : secop) : option (ctx_t * bytes) :=
  option_map (fun c => (c, cb_btsd (op_tgt o))) (covered_ctx o).

Definition op_aad (o : secop) : option bytes :=
  external_aad (op_bundle o) (op_sec o) (op_tgt o) (op_source o) (op_scope o) (op_addl o).

(** What is MACed / signed (payload re-attached from the target's CURRENT BTSD) *)
Definition mac_input (o : secop) : option bytes :=
  option_map (fun aad => auth_structure (op_kind o) (op_protected o) aad (cb_btsd (op_tgt o))) (op_aad o).

(** The AEAD associated data *)
Definition enc_input (o : secop) : option bytes :=
  option_map (fun aad => enc_structure (op_kind o) (op_protected o) aad) (op_aad o).

(** * Endpoint IDs as the decoder keeps them

    A received EID item is turned into a URI string ([EidField.m2i]) and is
    re-encoded from that string whenever the block is built again
    ([EidField.i2m], through [urllib.parse.urlsplit]): the fragment ('#'...)
    and query ('?'...) parts are dropped, an authority with an empty path gets
    the path "/", an empty authority is dropped, and the SSP text "none"
    becomes the integer 0.  Everything computed from a *decoded* block (the
    primary block bound into the AAD, the security source) sees only this
    normal form. *)
Fixpoint cut_at (c : N) (s : bytes) : bytes :=
  match s with
  | [] => []
  | x :: t => if x =? c then [] else x :: cut_at c t
  end.

Fixpoint span_not_slash (s : bytes) : bytes * bytes :=
  match s with
  | [] => ([], [])
  | x :: t => if x =? 47 then ([], s) else let (a, r) := span_not_slash t in (x :: a, r)
  end.

Definition norm_dtn_ssp (s : bytes) : bytes :=
  let s1 := cut_at 63 (cut_at 35 s) in
  match s1 with
  | 47 :: 47 :: rest =>
      let (auth, path) := span_not_slash rest in
      match auth with
      | [] => path
      | _ => 47 :: 47 :: auth ++ (match path with [] => [47] | _ => path end)
      end
  | _ => s1
  end.

Definition eid_norm (v : cbor) : cbor :=
  match v with
  | CArr [CUint 1; CTstr s] =>
      if bytes_eqb s [110; 111; 110; 101] then CArr [CUint 1; CUint 0]
      else CArr [CUint 1; CTstr (norm_dtn_ssp s)]
  | _ => v
  end.

(** * COSE messages and the Abstract Security Block *)

Record recipient := mkRcp { r_protected : bytes; r_unprot : list (cbor * cbor); r_wrapped : bytes }.

Record cose := mkCose {
  c_protected : bytes;
  c_unprot : list (cbor * cbor);
  c_tag : bytes;                   (* MAC tag / signature; unused for Enc0/Enc *)
  c_recips : list recipient }.

Record asb := mkASB {
  a_targets : list N;
  a_ctxid : N;
  a_flags : N;
  a_source : cbor;
  a_params : list (N * cbor);
  a_results : list (list (N * cbor)) }.   (* per target: (result id, value) *)

Definition pair_item (p : N * cbor) : cbor := CArr [CUint (fst p); snd p].

(** CBOR sequence of RFC 9172 section 3.6 *)
Definition asb_items (a : asb) : list cbor :=
  [CArr (map CUint (a_targets a)); CUint (a_ctxid a); CUint (a_flags a); a_source a]
  ++ (if N.testbit (a_flags a) 0 then [CArr (map pair_item (a_params a))] else [])
  ++ [CArr (map (fun rs => CArr (map pair_item rs)) (a_results a))].

Definition asb_enc (a : asb) : bytes := encode_seq (asb_items a).

Fixpoint all_some {A} (l : list (option A)) : option (list A) :=
  match l with
  | [] => Some []
  | Some x :: t => option_map (cons x) (all_some t)
  | None :: _ => None
  end.

Definition uint_of (v : cbor) : option N := match v with CUint n => Some n | _ => None end.
Definition pair_of (v : cbor) : option (N * cbor) :=
  match v with CArr [CUint n; w] => Some (n, w) | _ => None end.
Definition pairs_of (v : cbor) : option (list (N * cbor)) :=
  match v with CArr l => all_some (map pair_of l) | _ => None end.
Definition results_of (v : cbor) : option (list (list (N * cbor))) :=
  match v with CArr l => all_some (map pairs_of l) | _ => None end.
Definition targets_of (v : cbor) : option (list N) :=
  match v with CArr l => all_some (map uint_of l) | _ => None end.

Definition asb_of_items (l : list cbor) : option asb :=
  match l with
  | t :: CUint cid :: CUint fl :: src :: rest =>
      match targets_of t with
      | None => None
      | Some ts =>
          if N.testbit fl 0 then
            match rest with
            | [ps; rs] =>
                match pairs_of ps, results_of rs with
                | Some p, Some r => Some (mkASB ts cid fl (eid_norm src) p r)
                | _, _ => None
                end
            | _ => None
            end
          else
            match rest with
            | [rs] =>
                match results_of rs with
                | Some r => Some (mkASB ts cid fl (eid_norm src) [] r)
                | None => None
                end
            | _ => None
            end
      end
  | _ => None
  end.

(** fuel 8: nesting depth of an ASB item is at most 6 (results / target /
    result pair / value) plus headers kept inside byte strings *)
Definition asb_fuel : nat := 8%nat.

Definition asb_dec (bs : bytes) : option asb :=
  match decode_seq asb_fuel bs with
  | Some l => asb_of_items l
  | None => None
  end.

(** COSE message <-> result value (a bstr holding the untagged message with
    the payload detached = null) *)
Definition rcp_item (r : recipient) : cbor :=
  CArr [CBstr (r_protected r); CMap (r_unprot r); CBstr (r_wrapped r)].

Definition cose_item (k : ckind) (m : cose) : cbor :=
  match k with
  | KMac0 | KSign1 => CArr [CBstr (c_protected m); CMap (c_unprot m); CSimple 22; CBstr (c_tag m)]
  | KMac => CArr [CBstr (c_protected m); CMap (c_unprot m); CSimple 22; CBstr (c_tag m);
                  CArr (map rcp_item (c_recips m))]
  | KEnc0 => CArr [CBstr (c_protected m); CMap (c_unprot m); CSimple 22]
  | KEnc => CArr [CBstr (c_protected m); CMap (c_unprot m); CSimple 22; CArr (map rcp_item (c_recips m))]
  end.

Definition result_value (k : ckind) (m : cose) : cbor := CBstr (encode (cose_item k m)).

Definition rcp_of (v : cbor) : option recipient :=
  match v with
  | CArr (CBstr p :: CMap u :: CBstr w :: _) => Some (mkRcp p u w)   (* further items are ignored *)
  | _ => None
  end.

(** [decode_msg]: the third item (payload) is overwritten with the target's
    BTSD whatever it was, so it is not inspected here; pycose pops the items it
    needs and ignores further ones. *)
Definition cose_of_item (k : ckind) (v : cbor) : option cose :=
  match k, v with
  | KMac0, CArr (CBstr p :: CMap u :: _ :: CBstr t :: _) => Some (mkCose p u t [])
  | KSign1, CArr (CBstr p :: CMap u :: _ :: CBstr t :: _) => Some (mkCose p u t [])
  | KMac, CArr (CBstr p :: CMap u :: _ :: CBstr t :: CArr rs :: _) =>
      option_map (mkCose p u t) (all_some (map rcp_of rs))
  | KEnc0, CArr (CBstr p :: CMap u :: _ :: _) => Some (mkCose p u [] [])
  | KEnc, CArr (CBstr p :: CMap u :: _ :: CArr rs :: _) =>
      option_map (mkCose p u []) (all_some (map rcp_of rs))
  | _, _ => None
  end.

Definition cose_fuel : nat := 8%nat.

Definition cose_of_result (code : N) (v : cbor) : option (ckind * cose) :=
  match kind_of_code code, v with
  | Some k, CBstr bs =>
      match decode_all cose_fuel bs with
      | Some it => option_map (fun m => (k, m)) (cose_of_item k it)
      | None => None
      end
  | _, _ => None
  end.

(** * [check_secblk] / [extract_secblk] *)

Fixpoint nodupb (l : list N) : bool :=
  match l with
  | [] => true
  | x :: t => negb (existsb (N.eqb x) t) && nodupb t
  end.

(** A block without the parameters-present flag makes the real code iterate
    over [None] (TypeError, mapped to failure). *)
Definition check_secblk (a : asb) : bool :=
  N.testbit (a_flags a) 0 &&
  nodupb (map fst (a_params a)) && forallb (fun rs => nodupb (map fst rs)) (a_results a).

Definition param (a : asb) (id : N) : option cbor :=
  option_map snd (find (fun p => fst p =? id) (a_params a)).

Definition cbor_key_eqb (x y : cbor) : bool := bytes_eqb (encode x) (encode y).

(** python [dict(param.value)] from cbor2: a later duplicate key wins *)
Fixpoint dedup_last (l : list (cbor * cbor)) : list (cbor * cbor) :=
  match l with
  | [] => []
  | kv :: t => if existsb (fun kv' => cbor_key_eqb (fst kv) (fst kv')) t then dedup_last t else kv :: dedup_last t
  end.

Definition scope_of_cbor (v : cbor) : option scope :=
  match v with
  | CMap kvs => all_some (map (fun kv => match snd kv with CUint f => Some (fst kv, f) | _ => None end) (dedup_last kvs))
  | _ => None
  end.

(** default when parameter 5 is absent: {0:1, -1:1, -2:1} *)
Definition default_scope : scope := [(CUint 0, 1); (CNint 0, 1); (CNint 1, 1)].

Record secparams := mkSP { sp_addl : bytes; sp_addl_unprot : option bytes; sp_scope : scope }.

Definition extract_secblk (a : asb) : option secparams :=
  match (match param a 3 with None => Some [] | Some (CBstr x) => Some x | Some _ => None end),
        (match param a 4 with None => Some None | Some (CBstr x) => Some (Some x) | Some _ => None end),
        (match param a 5 with None => Some default_scope | Some v => scope_of_cbor v end) with
  | Some ad, Some au, Some sc => Some (mkSP ad au sc)
  | _, _, _ => None
  end.

(** Everything key resolution may look at, packaged as one CBOR value:
    [protected, unprotected, security source, additional protected,
     additional unprotected or null]. *)
Definition key_hint (protected : bytes) (unprot : list (cbor * cbor)) (source : cbor) (sp : secparams) : cbor :=
  CArr [CBstr protected; CMap unprot; source; CBstr (sp_addl sp);
        match sp_addl_unprot sp with Some x => CBstr x | None => CSimple 22 end].

Definition lookup_hdr (u : list (cbor * cbor)) (label : N) : option cbor :=
  option_map snd (find (fun kv => cbor_key_eqb (fst kv) (CUint label)) u).

(** COSE header label 5 = IV *)
Definition msg_iv (m : cose) : option bytes :=
  match lookup_hdr (c_unprot m) 5 with Some (CBstr iv) => Some iv | _ => None end.

Definition replace_btsd (b : bundle) (n : N) (data : bytes) : bundle :=
  mkB (b_pri b)
      (map (fun c => if cb_num c =? n then mkCB (cb_type c) (cb_num c) (cb_flags c) (cb_crct c) data else c)
           (b_blocks b)).

(** [ctr.add_block]: inserted just before the last block (the payload) *)
Definition insert_block (b : bundle) (c : cblock) : bundle :=
  mkB (b_pri b)
      (match rev (b_blocks b) with
       | [] => [c]
       | last :: r => rev r ++ [c; last]
       end).

Section Crypto.
  Variable key : Type.
  (** MAC tag computation / signing, and verification *)
  Variable mac : key -> bytes -> bytes.
  Variable mac_ok : key -> bytes -> bytes -> bool.
  (** AEAD: key, IV, associated data, plaintext / ciphertext *)
  Variable enc : key -> bytes -> bytes -> bytes -> bytes.
  Variable dec : key -> bytes -> bytes -> bytes -> option bytes.
  (** key wrap of a content key under a key-encryption key *)
  Variable wrap : key -> key -> bytes.
  Variable unwrap : key -> bytes -> option key.
  (** key resolution from header parameters (KID lookup, x5t / x5chain
      validation and node-id binding) *)
  Variable keyring : cbor -> option key.

  (** ** Integrity: source *)

  Definition bib_type : N := 11.
  Definition bcb_type : N := 12.
  Definition cose_ctx_id : N := 3.

  (** Key used for the content: direct, or a content key wrapped for one recipient. *)
  Inductive keying :=
  | Direct (k : key)
  | Wrapped (kek cek : key) (r_unprotected : list (cbor * cbor)).

  Definition content_key (kg : keying) : key :=
    match kg with Direct k => k | Wrapped _ cek _ => cek end.

  Definition recips_of (kg : keying) : list recipient :=
    match kg with
    | Direct _ => []
    | Wrapped kek cek u => [mkRcp [] u (wrap kek cek)]
    end.

  (** one target of [apply_bib] *)
  Definition apply_bib_target (kind : ckind) (kg : keying) (protected : bytes) (unprot : list (cbor * cbor))
             (b : bundle) (sec : cblock) (source : cbor) (s : scope) (addl : bytes) (t : N)
    : option (list (N * cbor)) :=
    match find_block b t with
    | None => None
    | Some tgt =>
        match mac_input (mkOp kind protected b sec source s addl tgt) with
        | None => None
        | Some mi =>
            Some [(kind_code kind,
                   result_value kind (mkCose protected unprot (mac (content_key kg) mi) (recips_of kg)))]
        end
    end.

  Definition sec_params (s : scope) (addl : bytes) (addl_unprot : option bytes) : list (N * cbor) :=
    [(5, scope_map s)]
    ++ (match addl with [] => [] | _ => [(3, CBstr addl)] end)
    ++ (match addl_unprot with Some x => [(4, CBstr x)] | None => [] end).

  Definition apply_bib_asb (kind : ckind) (kg : keying) (protected : bytes) (unprot : list (cbor * cbor))
             (b : bundle) (sec : cblock) (source : cbor) (s : scope) (addl : bytes) (addl_unprot : option bytes)
             (targets : list N) : option asb :=
    match all_some (map (apply_bib_target kind kg protected unprot b sec source s addl) targets) with
    | None => None
    | Some rs => Some (mkASB targets cose_ctx_id 1 source (sec_params s addl addl_unprot) rs)
    end.

  (** [apply_bib]: [num] is the fresh block number from [ctr.get_block_num()] *)
  Definition apply_bib (kind : ckind) (kg : keying) (protected : bytes) (unprot : list (cbor * cbor))
             (b : bundle) (num : N) (source : cbor) (s : scope) (addl : bytes) (addl_unprot : option bytes)
             (targets : list N) : option bundle :=
    let sec := mkCB bib_type num 0 0 [] in
    match apply_bib_asb kind kg protected unprot b sec source s addl addl_unprot targets with
    | None => None
    | Some a => Some (insert_block b (mkCB bib_type num 0 0 (asb_enc a)))
    end.

  (** ** Integrity: verifier *)

  Definition resolve_content_key (kind : ckind) (m : cose) (source : cbor) (sp : secparams) : list key :=
    match kind with
    | KMac | KEnc =>
        flat_map (fun r =>
                    match keyring (key_hint (r_protected r) (r_unprot r) source sp) with
                    | Some kek => match unwrap kek (r_wrapped r) with Some cek => [cek] | None => [] end
                    | None => []
                    end) (c_recips m)
    | _ =>
        match keyring (key_hint (c_protected m) (c_unprot m) source sp) with
        | Some k => [k]
        | None => []
        end
    end.

  (** [verify_bib_target] for a parsed message *)
  Definition verify_bib_msg (b : bundle) (sec tgt : cblock) (source : cbor) (sp : secparams)
             (kind : ckind) (m : cose) : bool :=
    match kind with
    | KMac0 | KMac | KSign1 =>
        match mac_input (mkOp kind (c_protected m) b sec source (sp_scope sp) (sp_addl sp) tgt) with
        | None => false
        | Some mi => existsb (fun k => mac_ok k mi (c_tag m)) (resolve_content_key kind m source sp)
        end
    | _ => false
    end.

  Definition verify_bib_result (b : bundle) (sec tgt : cblock) (source : cbor) (sp : secparams)
             (rs : list (N * cbor)) : bool :=
    match rs with
    | [(code, v)] =>
        match cose_of_result code v with
        | Some (kind, m) => verify_bib_msg b sec tgt source sp kind m
        | None => false
        end
    | _ => false      (* not exactly one result *)
    end.

  Fixpoint verify_targets (vf : cblock -> list (N * cbor) -> bool) (b : bundle)
           (ts : list N) (rss : list (list (N * cbor))) : bool :=
    match ts with
    | [] => true
    | t :: ts' =>
        match find_block b t, rss with
        | Some tgt, rs :: rss' => vf tgt rs && verify_targets vf b ts' rss'
        | _, _ => false      (* missing target block / fewer results than targets *)
        end
    end.

  (** [verify_bib] on the decoded security block: [true] = verified
      (python [None]); [false] = FAILED_SEC or an exception mapped to failure *)
  Definition verify_bib_asb (b : bundle) (sec : cblock) (a : asb) : bool :=
    (a_ctxid a =? cose_ctx_id) && check_secblk a &&
    match extract_secblk a with
    | None => false
    | Some sp =>
        verify_targets (fun tgt rs => verify_bib_result b sec tgt (a_source a) sp rs) b (a_targets a) (a_results a)
    end.

  Definition verify_bib (b : bundle) (sec : cblock) : bool :=
    match asb_dec (cb_btsd sec) with
    | Some a => verify_bib_asb b sec a
    | None => false
    end.

  (** ** Confidentiality: source *)

  (** one target of [apply_bcb]: returns the result and the ciphertext that
      replaces the target's BTSD *)
  Definition apply_bcb_target (kind : ckind) (kg : keying) (protected : bytes) (unprot : list (cbor * cbor))
             (iv : bytes) (b : bundle) (sec : cblock) (source : cbor) (s : scope) (addl : bytes) (t : N)
    : option (list (N * cbor) * bytes) :=
    match find_block b t with
    | None => None
    | Some tgt =>
        match enc_input (mkOp kind protected b sec source s addl tgt) with
        | None => None
        | Some ei =>
            Some ([(kind_code kind,
                    result_value kind (mkCose protected ((CUint 5, CBstr iv) :: unprot) [] (recips_of kg)))],
                  enc (content_key kg) iv ei (cb_btsd tgt))
        end
    end.

  (** targets are processed in order, each on the bundle left by the previous one *)
  Fixpoint apply_bcb_targets (kind : ckind) (kg : keying) (protected : bytes) (unprot : list (cbor * cbor))
           (b : bundle) (sec : cblock) (source : cbor) (s : scope) (addl : bytes)
           (tivs : list (N * bytes)) : option (list (list (N * cbor)) * bundle) :=
    match tivs with
    | [] => Some ([], b)
    | (t, iv) :: rest =>
        match apply_bcb_target kind kg protected unprot iv b sec source s addl t with
        | None => None
        | Some (r, ct) =>
            match apply_bcb_targets kind kg protected unprot (replace_btsd b t ct) sec source s addl rest with
            | None => None
            | Some (rs, b') => Some (r :: rs, b')
            end
        end
    end.

  Definition apply_bcb (kind : ckind) (kg : keying) (protected : bytes) (unprot : list (cbor * cbor))
             (b : bundle) (num : N) (source : cbor) (s : scope) (addl : bytes) (addl_unprot : option bytes)
             (tivs : list (N * bytes)) : option bundle :=
    let sec := mkCB bcb_type num 1 0 [] in
    match apply_bcb_targets kind kg protected unprot b sec source s addl tivs with
    | None => None
    | Some (rs, b') =>
        Some (insert_block b' (mkCB bcb_type num 1 0
                (asb_enc (mkASB (map fst tivs) cose_ctx_id 1 source (sec_params s addl addl_unprot) rs))))
    end.

  (** ** Confidentiality: acceptor *)

  Fixpoint first_some {A B} (f : A -> option B) (l : list A) : option B :=
    match l with
    | [] => None
    | x :: t => match f x with Some y => Some y | None => first_some f t end
    end.

  (** [verify_bcb_target]: the recovered plaintext, or [None] *)
  Definition decrypt_msg (b : bundle) (sec tgt : cblock) (source : cbor) (sp : secparams)
             (kind : ckind) (m : cose) : option bytes :=
    match kind with
    | KEnc0 | KEnc =>
        match enc_input (mkOp kind (c_protected m) b sec source (sp_scope sp) (sp_addl sp) tgt), msg_iv m with
        | Some ei, Some iv =>
            first_some (fun k => dec k iv ei (cb_btsd tgt)) (resolve_content_key kind m source sp)
        | _, _ => None
        end
    | _ => None
    end.

  Definition decrypt_result (b : bundle) (sec tgt : cblock) (source : cbor) (sp : secparams)
             (rs : list (N * cbor)) : option bytes :=
    match rs with
    | [(code, v)] =>
        match cose_of_result code v with
        | Some (kind, m) => decrypt_msg b sec tgt source sp kind m
        | None => None
        end
    | _ => None
    end.

  (** Targets in order; a successful decryption replaces the target's BTSD
      when [accept] (config [accept_after_verify]); a failed one leaves the
      bundle as it is and the overall result is failure. *)
  Fixpoint decrypt_targets (accept : bool) (b : bundle) (sec : cblock) (source : cbor) (sp : secparams)
           (ts : list N) (rss : list (list (N * cbor))) : bool * bundle :=
    match ts with
    | [] => (true, b)
    | t :: ts' =>
        match find_block b t, rss with
        | Some tgt, rs :: rss' =>
            match decrypt_result b sec tgt source sp rs with
            | Some pt =>
                decrypt_targets accept (if accept then replace_btsd b t pt else b) sec source sp ts' rss'
            | None =>
                let r := decrypt_targets accept b sec source sp ts' rss' in (false, snd r)
            end
        | _, _ => (false, b)
        end
    end.

  Definition verify_bcb_asb (accept : bool) (b : bundle) (sec : cblock) (a : asb) : bool * bundle :=
    if (a_ctxid a =? cose_ctx_id) && check_secblk a then
      match extract_secblk a with
      | None => (false, b)
      | Some sp => decrypt_targets accept b sec (a_source a) sp (a_targets a) (a_results a)
      end
    else (false, b).

  Definition verify_bcb (accept : bool) (b : bundle) (sec : cblock) : bool * bundle :=
    match asb_dec (cb_btsd sec) with
    | Some a => verify_bcb_asb accept b sec a
    | None => (false, b)
    end.
End Crypto.

(** * Reading a bundle off wire octets (for the correspondence runs) *)

Definition cblock_of (v : cbor) : option cblock :=
  match v with
  | CArr [CUint t; CUint n; CUint f; CUint 0; CBstr d] => Some (mkCB t n f 0 d)
  | CArr [CUint t; CUint n; CUint f; CUint c; CBstr d; CBstr _] => if c =? 0 then None else Some (mkCB t n f c d)
  | _ => None
  end.

Definition norm_primary (l : list cbor) : list cbor :=
  match l with
  | v :: f :: c :: d :: s :: r :: rest => v :: f :: c :: eid_norm d :: eid_norm s :: eid_norm r :: rest
  | _ => l
  end.

(** the primary block items as the receiver holds them (CRC value dropped,
    EIDs in decoded normal form) and as they are on the wire *)
Definition primary_raw_of (v : cbor) : option (list cbor) :=
  match v with
  | CArr l =>
      match pri_crct l with
      | 0 => Some l
      | _ => match rev l with
             | CBstr _ :: r => Some (rev r)
             | _ => None
             end
      end
  | _ => None
  end.

Definition primary_of (v : cbor) : option (list cbor) := option_map norm_primary (primary_raw_of v).

Definition bundle_of_cbor (v : cbor) : option bundle :=
  match v with
  | CArr (p :: blks) =>
      match primary_of p, all_some (map cblock_of blks) with
      | Some pri, Some bs => Some (mkB pri bs)
      | _, _ => None
      end
  | _ => None
  end.

Definition parse_bundle (wire : bytes) : option bundle :=
  match decode_all 12 wire with
  | Some v => bundle_of_cbor v
  | None => None
  end.

(** the primary block items exactly as on the wire (no EID normalisation) *)
Definition wire_primary_raw (wire : bytes) : option (list cbor) :=
  match decode_all 12 wire with
  | Some (CArr (p :: _)) => primary_raw_of p
  | _ => None
  end.

(** the security-source items of the security blocks exactly as on the wire *)
Definition wire_sources_raw (wire : bytes) : option (list cbor) :=
  match decode_all 12 wire with
  | Some (CArr (_ :: blks)) =>
      Some (flat_map (fun v =>
                        match cblock_of v with
                        | Some c =>
                            if (cb_type c =? 11) || (cb_type c =? 12) then
                              match decode_seq asb_fuel (cb_btsd c) with
                              | Some (_ :: _ :: _ :: src :: _) => [src]
                              | _ => []
                              end
                            else []
                        | None => []
                        end) blks)
  | _ => None
  end.

(** ** Observations used by the harness *)

Definition sec_blocks (b : bundle) (ty : N) : list cblock :=
  filter (fun c => cb_type c =? ty) (b_blocks b).

(** The AAD the receiver computes for target index [ix] of security block
    number [secnum] of the bundle on the wire. *)
Definition wire_aad (wire : bytes) (secnum : N) (ix : nat) : option bytes :=
  match parse_bundle wire with
  | None => None
  | Some b =>
      match find_block b secnum with
      | None => None
      | Some sec =>
          match asb_dec (cb_btsd sec) with
          | None => None
          | Some a =>
              match extract_secblk a, nth_error (a_targets a) ix with
              | Some sp, Some t =>
                  match find_block b t with
                  | Some tgt => external_aad b sec tgt (a_source a) (sp_scope sp) (sp_addl sp)
                  | None => None
                  end
              | _, _ => None
              end
          end
      end
  end.

(** Direct form of [get_external_aad] for an arbitrary scope / target /
    security block header (the pure-function correspondence). *)
Definition direct_aad (wire : bytes) (sec : cblock) (source : cbor) (s : scope) (addl : bytes) (t : N)
  : option bytes :=
  match parse_bundle wire with
  | None => None
  | Some b =>
      match find_block b t with
      | Some tgt => external_aad b sec tgt source s addl
      | None => None
      end
  end.

(** One security operation as the verifier sees it: what is authenticated
    ([mac_input] or [enc_input]), the tag, and everything key resolution and
    decryption look at besides (unprotected buckets, recipients, additional
    unprotected parameters). *)
Record opview := mkOV {
  ov_input : bytes; ov_tag : bytes; ov_keyinfo : bytes; ov_data : bytes }.

(** the (detached) payload slot of the message as received: not authenticated,
    but pycose may reject what it finds there *)
Definition cose_slot (v : cbor) : cbor :=
  match v with
  | CBstr bs => match decode_all cose_fuel bs with
                | Some (CArr (_ :: _ :: x :: _)) => x
                | _ => CSimple 22
                end
  | _ => CSimple 22
  end.

Definition has_x5 (u : list (cbor * cbor)) : bool :=
  match lookup_hdr u 33, lookup_hdr u 34 with
  | None, None => false
  | _, _ => true
  end.

Definition uses_cert (u : list (cbor * cbor)) (addl_unprot : option bytes) : bool :=
  has_x5 u ||
  match addl_unprot with
  | Some x => match decode_all 8 x with Some (CMap kvs) => has_x5 kvs | _ => false end
  | None => false
  end.

Definition opview_of (b : bundle) (sec : cblock) (a : asb) (sp : secparams) (t : N) (rs : list (N * cbor))
  : option opview :=
  match find_block b t, rs with
  | Some tgt, [(code, v)] =>
      match cose_of_result code v with
      | Some (kind, m) =>
          let o := mkOp kind (c_protected m) b sec (a_source a) (sp_scope sp) (sp_addl sp) tgt in
          let ki := encode (CArr [CMap (c_unprot m); CArr (map rcp_item (c_recips m)); cose_slot v;
                                  match sp_addl_unprot sp with Some x => CBstr x | None => CSimple 22 end;
                                  (* key resolution by certificate (x5chain 33 / x5t 34 present)
                                     compares the security source as received (not normalised)
                                     with the certificate's node id *)
                                  if uses_cert (c_unprot m) (sp_addl_unprot sp) then
                                    match decode_seq asb_fuel (cb_btsd sec) with
                                    | Some (_ :: _ :: _ :: src :: _) => src
                                    | _ => CSimple 22
                                    end
                                  else CSimple 22]) in
          match kind with
          | KMac0 | KMac | KSign1 =>
              if cb_type sec =? 11 then option_map (fun i => mkOV i (c_tag m) ki []) (mac_input o) else None
          | KEnc0 | KEnc =>
              if cb_type sec =? 12 then option_map (fun i => mkOV i [] ki (cb_btsd tgt)) (enc_input o) else None
          end
      | None => None
      end
  | _, _ => None
  end.

Fixpoint opviews_of (b : bundle) (sec : cblock) (a : asb) (sp : secparams) (ts : list N)
         (rss : list (list (N * cbor))) : option (list opview) :=
  match ts with
  | [] => Some []
  | t :: ts' =>
      match rss with
      | rs :: rss' =>
          match opview_of b sec a sp t rs, opviews_of b sec a sp ts' rss' with
          | Some v, Some r => Some (v :: r)
          | _, _ => None
          end
      | [] => None
      end
  end.

(** All operations of one security block; [None] = the structural checks of
    the verifier fail. *)
Definition block_views (b : bundle) (sec : cblock) : option (list opview) :=
  match asb_dec (cb_btsd sec) with
  | None => None
  | Some a =>
      if (a_ctxid a =? 3) && check_secblk a then
        match extract_secblk a with
        | Some sp => opviews_of b sec a sp (a_targets a) (a_results a)
        | None => None
        end
      else None
  end.

Definition bundle_views (b : bundle) : option (list (N * list opview)) :=
  all_some (map (fun sec => option_map (fun v => (cb_num sec, v)) (block_views b sec))
                (filter (fun c => (cb_type c =? 11) || (cb_type c =? 12)) (b_blocks b))).

Definition opview_eqb (x y : opview) : N :=
  if bytes_eqb (ov_input x) (ov_input y) && bytes_eqb (ov_tag x) (ov_tag y) && bytes_eqb (ov_data x) (ov_data y)
  then (if bytes_eqb (ov_keyinfo x) (ov_keyinfo y) then 1 else 2)
  else 0.

Fixpoint views_cmp (x y : list opview) : N :=
  match x, y with
  | [], [] => 1
  | _ :: _, [] => 6
  | a :: x', b :: y' =>
      match opview_eqb a b, views_cmp x' y' with
      | 0, _ | _, 0 => 0
      | 1, r => r
      | _, 6 => 6
      | _, _ => 2
      end
  | _, _ => 0
  end.

Fixpoint blocks_cmp (x y : list (N * list opview)) : N :=
  match x, y with
  | [], [] => 1
  | (_, a) :: x', (_, b) :: y' =>
      (* security blocks are paired by position: the block number is covered
         only through scope key -2 *)
      match views_cmp a b, blocks_cmp x' y' with
      | 0, _ | _, 0 => 0
      | 1, r => r
      | 6, _ | _, 6 => 6
      | _, _ => 2
      end
  | _, _ => 0
  end.

Definition is_sec (c : cblock) : bool := (cb_type c =? 11) || (cb_type c =? 12).

(** The model's verdict on an altered bundle, relative to the bundle the
    source produced:
      0 = some security operation authenticates different content, a
          different tag / ciphertext, or fails the structural checks:
          verification must fail;
      1 = every operation authenticates exactly the same input with the same
          tag / ciphertext and the same key information: must verify;
      2 = same authenticated input and tag, but key information (unprotected
          buckets, recipients) differs: outcome is decided by key resolution;
      3 = the altered bundle carries no security block of type 11 / 12 any
          more (nothing is verified);
      4 = the altered bundle does not parse;
      7 = the number of security blocks changed (a block was removed, added
          or re-typed): not judged;
      5 = the Abstract Security Block of a security block does not decode;
      6 = trailing operations of a security block were removed (its target
          list was cut short), the remaining ones are unchanged: nothing
          fails, the removed targets are simply no longer protected. *)
Definition verdict (orig alt : bytes) : N :=
  match parse_bundle orig, parse_bundle alt with
  | Some bo, Some ba =>
      match filter is_sec (b_blocks ba) with
      | [] => 3
      | secs =>
          if negb (length secs =? length (filter is_sec (b_blocks bo)))%nat then 7 else
          if existsb (fun c => match asb_dec (cb_btsd c) with None => true | Some _ => false end) secs then 5
          else
            match bundle_views bo, bundle_views ba with
            | Some vo, Some va => blocks_cmp vo va
            | _, _ => 0
            end
      end
  | _, None => 4
  | None, _ => 4
  end.

(** The authenticated inputs of every operation of every security block
    (block number, then per target (input, tag)), for the tie to the real
    HMAC / AES-GCM / signature primitives. *)
Definition wire_inputs (wire : bytes) : option (list (N * list (bytes * bytes))) :=
  match parse_bundle wire with
  | None => None
  | Some b => option_map (map (fun nv => (fst nv, map (fun v => (ov_input v, ov_tag v)) (snd nv)))) (bundle_views b)
  end.
