BUS_SESSION = 0
BUS_SYSTEM = 1
BUS_STARTER = 2


class _ProxyObject(object):
    def __init__(self, conn, name, path):
        self._conn = conn
        self._name = name
        self._path = path
        self.signals = []

    def connect_to_signal(self, name, func, **kwargs):
        self.signals.append((name, func))

    def NameHasOwner(self, name):
        return False

    def __getattr__(self, name):
        def _call(*args, **kwargs):
            self._conn.calls.append((self._name, self._path, name, args))
            return None
        return _call


class BusConnection(object):
    def __init__(self, address_or_type=BUS_SESSION, mainloop=None):
        self.calls = []
        self.objects = {}

    def get_object(self, bus_name=None, object_path=None, **kwargs):
        key = (bus_name, object_path)
        if key not in self.objects:
            self.objects[key] = _ProxyObject(self, bus_name, object_path)
        return self.objects[key]

    def add_signal_receiver(self, *args, **kwargs):
        pass

    def close(self):
        pass
