(** Tie between Model/Btpu.v and the definitions regenerated from the source
    on every run (Gen/BtpuBudget.v, translate/targets/btpubudget.py): the
    model's fit test, hint, segment budget, message types and field widths
    are what the code says now, and one iteration of the code's while loop
    (slice, advance the offset, then decide more/last) is one step of the
    model's [chunk] recursion on the data still to send. *)
From Coq Require Import ZArith NArith List Bool Lia ZifyBool ZifyN ZifyNat Arith.
From DTN Require Import Lib.Bytes Model.Btpu Gen.BtpuBudget.
Import ListNotations.
Local Open Scope N_scope.

Ltac Zify.zify_post_hook ::= Z.div_mod_to_equations.

Theorem tie_fits : forall total mtu : N,
  BtpuBudget.unsegmented (Z.of_N total) (Z.of_N mtu) = fits (Some mtu) total.
Proof.
  intros total mtu. unfold BtpuBudget.unsegmented, fits.
  destruct (Z.ltb_spec (Z.of_N total) (Z.of_N mtu - 4)), (N.ltb_spec total (mtu - 4)); try reflexivity; lia.
Qed.

Theorem tie_hint : forall total : N,
  xfer_hints total = [mkHint BtpuBudget.hint_type (be BtpuBudget.hint_width total)].
Proof. reflexivity. Qed.

(** Python integers may go negative; the model's [N] subtraction stops at 0
    (both are outside [mtu_feasible_h]). *)
Theorem tie_remain : forall (hs : list hint) (mtu : N),
  Z.to_N (BtpuBudget.remain_size (Z.of_N mtu) (Z.of_N (head_len hs))) = Btpu.remain_size hs mtu.
Proof. intros hs mtu. unfold BtpuBudget.remain_size, Btpu.remain_size. lia. Qed.

Theorem tie_types : forall hs x i d,
  m_type (mk_bundle d) = BtpuBudget.type_pdu
  /\ m_type (mk_padding d) = BtpuBudget.type_padding
  /\ m_type (mk_seg hs false x i d) = BtpuBudget.type_more
  /\ m_type (mk_seg hs true x i d) = BtpuBudget.type_last
  /\ m_type (mk_cancel x) = BtpuBudget.type_cancel.
Proof. intros. repeat split. Qed.

Theorem tie_widths :
  LEN_MOD = 2 ^ BtpuBudget.len_bits
  /\ 16 = 2 ^ BtpuBudget.flags_bits
  /\ 128 = 2 ^ BtpuBudget.hint_type_bits
  /\ 2 = 2 ^ BtpuBudget.h_flag_bits
  /\ BtpuBudget.flags_bits + BtpuBudget.len_bits = 24.
Proof. repeat split. Qed.

Lemma skipn_add {A} (a b : nat) : forall l : list A, skipn (a + b) l = skipn b (skipn a l).
Proof.
  induction a as [|a IH]; intros l; [reflexivity|]. destruct l as [|x l]; [destruct b; reflexivity|].
  cbn [Nat.add skipn]. apply IH.
Qed.

(** One iteration of the loop at offset [off], with [rem = data[off:]]:
    the loop runs iff something remains; the slice is the next [rs] octets of
    the remainder; after advancing, the remainder is [skipn rs rem] and "more
    remaining" holds iff that is non-empty -- exactly [chunk]'s step
    [(idx, firstn rs rem, is_nil rem') :: chunk .. rem' (idx + 1)]. *)
Theorem tie_loop_step : forall (data : bytes) (off rs : nat),
  (off <= length data)%nat ->
  let total := Z.of_nat (length data) in
  let o := Z.of_nat off in
  let r := Z.of_nat rs in
  let rem := skipn off data in
  BtpuBudget.loop_test o total = negb (is_nil rem)
  /\ firstn (Z.to_nat (BtpuBudget.slice_hi o r) - Z.to_nat (BtpuBudget.slice_lo o r))
            (skipn (Z.to_nat (BtpuBudget.slice_lo o r)) data) = firstn rs rem
  /\ skipn (Z.to_nat (BtpuBudget.next_offset o r)) data = skipn rs rem
  /\ BtpuBudget.more_test (BtpuBudget.next_offset o r) total = negb (is_nil (skipn rs rem))
  /\ BtpuBudget.next_idx 0 = 1%Z /\ BtpuBudget.init_idx = 0%Z /\ BtpuBudget.init_offset = 0%Z.
Proof.
  intros data off rs Hoff. cbn zeta.
  unfold BtpuBudget.loop_test, BtpuBudget.slice_hi, BtpuBudget.slice_lo, BtpuBudget.next_offset, BtpuBudget.more_test.
  assert (Hnil : forall k, (k <= length data)%nat \/ True ->
                 negb (is_nil (skipn k data)) = (Z.of_nat k <? Z.of_nat (length data))%Z).
  { intros k _. pose proof (skipn_length k data) as Hl.
    destruct (skipn k data) as [|x t] eqn:E; cbn [is_nil negb length] in *;
      destruct (Z.ltb_spec (Z.of_nat k) (Z.of_nat (length data))); try reflexivity; lia. }
  replace (Z.to_nat (Z.of_nat off + Z.of_nat rs)) with (off + rs)%nat by lia.
  rewrite Nat2Z.id. replace (off + rs - off)%nat with rs by lia.
  split; [symmetry; apply Hnil; left; exact Hoff|]. split; [reflexivity|].
  split; [apply skipn_add|]. split; [|repeat split].
  rewrite <- skipn_add. rewrite Hnil by (right; exact I). rewrite Nat2Z.inj_add. reflexivity.
Qed.

(** [EthernetChannel.key] is the tuple of ALL dataclass fields, each exactly
    once (in any order), and the receive table is keyed by it and the
    transfer number: the model's [key_eqb] compares exactly these. *)
Theorem tie_key :
  BtpuBudget.chan_nfields = 4%nat
  /\ length BtpuBudget.key_fields = BtpuBudget.chan_nfields
  /\ forallb (fun i => existsb (Nat.eqb i) BtpuBudget.key_fields) (seq 0 BtpuBudget.chan_nfields) = true
  /\ BtpuBudget.rx_key_is_conv_key_and_xfer_num = true
  /\ (forall a b x y, key_eqb (a, x) (b, y) = true <->
        c_if a = c_if b /\ c_peer a = c_peer b /\ c_local a = c_local b /\ c_vlan a = c_vlan b /\ x = y).
Proof.
  split; [reflexivity|]. split; [reflexivity|]. split; [reflexivity|]. split; [reflexivity|].
  intros a b x y. unfold key_eqb, chan_eqb. cbn [fst snd]. rewrite !andb_true_iff, !N.eqb_eq. split.
  - intros [[[[H1 H2] H3] H4] H5]. repeat split; try assumption.
    destruct (c_vlan a), (c_vlan b); cbn in H4; try discriminate; [apply N.eqb_eq in H4; congruence|reflexivity].
  - intros (H1 & H2 & H3 & H4 & H5). repeat split; try assumption. rewrite H4.
    destruct (c_vlan b); cbn; [apply N.eqb_refl|reflexivity].
Qed.
