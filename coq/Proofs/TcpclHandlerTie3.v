(** Tie between the endpoint model's handling of XFER_SEGMENT and the function
    that translate/targets/tcpclhandlers.py regenerates from
    ContactHandler.recv_xfer_data (with the Messenger base guard, _rx_setup and
    _rx_teardown) of tcpcl/session.py on every run.  The octet string of the
    segment is represented by its length in the abstract handler state. *)
From Coq Require Import ZArith NArith List Bool Lia ZifyBool ZifyN ZifyNat Arith.
From RecordUpdate Require Import RecordSet.
From DTN Require Import Lib.Bytes Model.TcpclMsg Model.TcpclSess Model.TcpclHandlerSt Gen.TcpclHandlers
  Proofs.TcpclSessBasics Proofs.TcpclSentProofs1.
Import ListNotations RecordSetNotations.
Local Open Scope N_scope.

Ltac h_cbn := cbn [h_in_sess h_in_conn h_ack_final h_ack_inter h_modulate h_tx_map h_pend_start h_pend_ack
  h_tx_tmp h_tx_len h_pq h_rx_tmp h_rx_map h_sent h_events h_check set_h_tx_map set_h_pend_start set_h_pend_ack
  set_h_tx_tmp set_h_tx_len set_h_pq set_h_rx_tmp set_h_rx_map set_h_check h_emit h_send habs outcome_code
  gen_rx_setup gen_rx_teardown fst snd app map negb andb orb].
Ltac hp_norm := h_cbn; p_norm; h_cbn.
Ltac hp_split := repeat (hp_norm; first [known_step | case_step]); hp_norm.
(** A close decided by _check_sess_term happens on an idle endpoint: the queue of
    unstarted transfers is empty there, so the report-on-close loop adds nothing. *)
Ltac idle_facts :=
  repeat match goal with E : _ && _ = true |- _ =>
           let a := fresh "Ei" in let b := fresh "Ei" in apply andb_true_iff in E; destruct E as [a b] end;
  repeat match goal with E : is_nil ?l = true |- _ => let El := fresh "El" in destruct l eqn:El; [|discriminate E]; clear E end.
Ltac close_norm :=
  unfold close_txmap, close_pend, close_trace; hp_split; idle_facts;
  cbn [flush_map fold_left flush_events map app].
Ltac hh_unfold :=
  c_handle_msg; unfold check_sess_term, is_sess_idle, raise, ok, send_msg; opq.

Definition rabs (l : list (N * bytes)) : list (N * N) := map (fun it => (fst it, N.of_nat (length (snd it)))) l.

Lemma rabs_dict_set k a l : dict_set k (N.of_nat (length a)) (rabs l) = rabs (dict_set k a l).
Proof.
  induction l as [|[k' v] l IH]; [reflexivity|]. cbn [rabs map fst snd dict_set]. fold (rabs l).
  destruct (k' =? k); [reflexivity|]. cbn [map fst snd]. fold (rabs (dict_set k a l)). rewrite IH. reflexivity.
Qed.

Ltac data_leaf :=
  repeat match goal with E : (_ =? _) = true |- _ => apply N.eqb_eq in E; try subst end;
  cbn [app]; rewrite ?app_length, ?Nat2N.inj_add, ?N.add_0_l; try reflexivity; try congruence.

Section Data.
  Variables (s : ep) (fl xid : N) (ext data : bytes).
  Let g := gen_recv_xfer_data xid fl (N.of_nat (length data)) 0 (habs s).
  Let r := handle_msg (MXferSeg fl xid ext data) s.
  Ltac data_start := subst g r; unfold gen_recv_xfer_data, is_none, rx_id, rx_is, rx_len, rx_write; hh_unfold.

  Lemma data_outcome : snd g = outcome_code (snd r).
  Proof. data_start. hp_split; close_norm; data_leaf. Qed.
  Lemma data_rx_tmp : h_rx_tmp (fst g) = h_rx_tmp (habs (fst r)).
  Proof. data_start. hp_split; close_norm; data_leaf. Qed.
  Lemma data_rx_map : h_rx_map (fst g) = rabs (rx_map (fst r)).
  Proof.
    data_start. unfold rabs. hp_split; close_norm; data_leaf.
    all: repeat match goal with
                | |- context [map (fun it : N * bytes => (fst it, N.of_nat (length (snd it)))) ?l] =>
                    change (map (fun it : N * bytes => (fst it, N.of_nat (length (snd it)))) l) with (rabs l)
                end;
      rewrite <- ?rabs_dict_set; rewrite ?app_length, ?Nat2N.inj_add, ?N.add_0_l; reflexivity.
  Qed.
  Lemma data_sent : sent (fst r) = sent s ++ map FMsg (h_sent (fst g)).
  Proof. data_start. hp_split; close_norm; rewrite ?app_nil_r; data_leaf. Qed.
  Lemma data_flags : h_in_sess (fst g) = in_sess (fst r) /\ h_in_conn (fst g) = in_conn (fst r)
    /\ h_tx_map (fst g) = tx_map (fst r) /\ h_pend_ack (fst g) = pend_ack (fst r)
    /\ h_tx_len (fst g) = tx_len (fst r) /\ h_pq (fst g) = pq_set (fst r).
  Proof. data_start. hp_split; close_norm; repeat split; data_leaf. Qed.
  Lemma data_events : exists tail, trace (fst r) = trace s ++ h_events (fst g) ++ tail
    /\ (tail = [] \/ (tail = [EClosed] /\ h_check (fst g) = true)).
  Proof.
    data_start. hp_split; close_norm;
      repeat match goal with E : (_ =? _) = true |- _ => apply N.eqb_eq in E; try subst end;
      rewrite ?app_length, ?Nat2N.inj_add, ?N.add_0_l;
      first [ exists []; rewrite ?app_nil_r, <- ?app_assoc; split; [reflexivity|left; reflexivity]
            | exists [EClosed]; rewrite ?app_nil_r, <- ?app_assoc; split; [reflexivity|right; split; reflexivity] ].
  Qed.
  Lemma data_closed : h_check (fst g) = false -> closed (fst r) = closed s.
  Proof. data_start. hp_split; close_norm; intros H; data_leaf. Qed.
End Data.

Theorem tie_xfer_data s fl xid ext data :
  let g := gen_recv_xfer_data xid fl (N.of_nat (length data)) 0 (habs s) in
  let r := handle_msg (MXferSeg fl xid ext data) s in
  snd g = outcome_code (snd r)
  /\ h_in_sess (fst g) = in_sess (fst r) /\ h_in_conn (fst g) = in_conn (fst r)
  /\ h_rx_tmp (fst g) = match rx_tmp (fst r) with Some (i, a) => Some (i, N.of_nat (length a)) | None => None end
  /\ h_rx_map (fst g) = map (fun it => (fst it, N.of_nat (length (snd it)))) (rx_map (fst r))
  /\ sent (fst r) = sent s ++ map FMsg (h_sent (fst g))
  /\ h_tx_map (fst g) = tx_map (fst r) /\ h_pend_ack (fst g) = pend_ack (fst r)
  /\ h_tx_len (fst g) = tx_len (fst r) /\ h_pq (fst g) = pq_set (fst r)
  /\ (exists tail, trace (fst r) = trace s ++ h_events (fst g) ++ tail
                   /\ (tail = [] \/ (tail = [EClosed] /\ h_check (fst g) = true)))
  /\ (h_check (fst g) = false -> closed (fst r) = closed s).
Proof.
  cbv zeta. destruct (data_flags s fl xid ext data) as (F1&F2&F3&F4&F5&F6).
  split; [apply data_outcome|]. split; [exact F1|]. split; [exact F2|]. split; [apply data_rx_tmp|].
  split; [apply data_rx_map|]. split; [apply data_sent|]. split; [exact F3|]. split; [exact F4|].
  split; [exact F5|]. split; [exact F6|]. split; [apply data_events|apply data_closed].
Qed.
