''' Implementation-side runner of C15: drives the REAL tcpcl.session code
(ContactHandler / Messenger / match_id) of the current /repo working tree with
fake sockets, real X.509 certificates built with `cryptography`, and a
simulated TLS handshake (only `secure()` is replaced: the handshake itself is
runtime behaviour of the ssl module, outside the model).

Nothing here decides what is right or wrong: the functions return canonical
observations (closed?, messages emitted per channel, state, SESS_TERM reason,
authn fields of get_session_parameters()).
'''
import env  # noqa: F401  (first: sys.path for stubs and /repo/src)
import datetime
import ipaddress
import ssl

from cryptography import x509
from cryptography.hazmat.primitives import serialization
from cryptography.hazmat.primitives.asymmetric import ed25519
from cryptography.x509.oid import NameOID

from gi.repository import GLib
import dbus.bus
from tcpcl import session, contact, messages, formats
from tcpcl.config import Config

# ---------------------------------------------------------------- concrete identifiers
# family -> (peer address, some other address)
ADDRS = {
    'v4': ('192.0.2.10', '192.0.2.99'),
    'v6': ('2001:db8::10', '2001:db8::99'),
}
DNS_OK = 'peer.example'      # the name an active endpoint connects to
DNS_OTHER = 'other.example'
NODE_OK = 'dtn://peer/'      # the node ID the peer announces in SESS_INIT
NODE_OTHER = 'dtn://other/'
LOCAL_NODE = 'dtn://local/'
PORT = 4556

SAN_TAGS = ('ip_ok', 'ip_other', 'dns_ok', 'dns_other', 'uri_ok', 'uri_other')
ROLES = ('passive', 'active-addr', 'active-name')

# abstract identifiers used on the Coq side (one namespace per SAN kind)
ID_ADDR, ID_ADDR_OTHER = 1, 2
ID_DNS, ID_DNS_OTHER = 11, 12
ID_NODE, ID_NODE_OTHER = 21, 22
ID_EMPTY = 0  # the empty string (node ID '' / connect name '' / empty SAN value)

_KEY = ed25519.Ed25519PrivateKey.from_private_bytes(bytes(range(1, 33)))
_CERT_CACHE = {}


def make_cert(fam, san):
    ''' Deterministic self-signed certificate (Ed25519 signatures are
    deterministic).  `san` is None (no subjectAltName extension at all) or a
    sequence of tags out of SAN_TAGS + ('email',); the empty sequence gives an
    extension holding only an rfc822Name (so every kind is "not presented"
    although the extension exists). '''
    key = (fam, None if san is None else tuple(san))
    if key in _CERT_CACHE:
        return _CERT_CACHE[key]
    name = x509.Name([x509.NameAttribute(NameOID.COMMON_NAME, 'c15-peer')])
    bld = (x509.CertificateBuilder().subject_name(name).issuer_name(name)
           .public_key(_KEY.public_key()).serial_number(0xC15)
           .not_valid_before(datetime.datetime(2020, 1, 1))
           .not_valid_after(datetime.datetime(2040, 1, 1)))
    if san is not None:
        (addr_ok, addr_other) = ADDRS[fam]
        table = {
            'ip_ok': x509.IPAddress(ipaddress.ip_address(addr_ok)),
            'ip_other': x509.IPAddress(ipaddress.ip_address(addr_other)),
            'dns_ok': x509.DNSName(DNS_OK),
            'dns_other': x509.DNSName(DNS_OTHER),
            'uri_ok': x509.UniformResourceIdentifier(NODE_OK),
            'uri_other': x509.UniformResourceIdentifier(NODE_OTHER),
            'email': x509.RFC822Name('ops@peer.example'),
            # empty identifiers (cryptography encodes and decodes them unchanged)
            'dns_empty': x509.DNSName(''),
            'uri_empty': x509.UniformResourceIdentifier(''),
        }
        names = [table[tag] for tag in san]
        if not names:
            names = [table['email']]
        bld = bld.add_extension(x509.SubjectAlternativeName(names), critical=False)
    der = bld.sign(_KEY, None).public_bytes(serialization.Encoding.DER)
    _CERT_CACHE[key] = der
    return der


# ---------------------------------------------------------------- fake sockets
class FakeSock(object):
    ''' Stands for the TCP socket (channel "clear") or for the ssl-wrapped
    socket (channel "tls"). '''

    def __init__(self, log, channel, peer, der=None):
        self.log = log
        self.channel = channel
        self.peer = peer
        self.der = der
        self.closed = False
        self.blocking = None

    def setblocking(self, flag):
        self.blocking = flag

    def fileno(self):
        return -1 if self.closed else 7

    def send(self, data):
        if self.closed:
            raise OSError('send on closed socket')
        self.log.append((self.channel, bytes(data)))
        return len(data)

    def recv(self, size):
        return b''

    def shutdown(self, how):
        self.log.append((self.channel, None))

    def close(self):
        self.closed = True

    def getpeername(self):
        return self.peer

    # ssl.SSLSocket part
    def getpeercert(self, binary_form=False):
        if binary_form:
            return self.der
        return {}

    def cipher(self):
        return ('TLS_FAKE', 'TLSv1.3', 256)

    def unwrap(self):
        raise ssl.SSLError('fake')


class Driven(object):
    ''' One real ContactHandler on fake sockets. '''

    def __init__(self, role, fam, cfg_kwargs, der, hs_ok=True, peer_name=None):
        GLib.CTX.reset()
        self.log = []
        self.secure_calls = 0
        self.hs_ok = hs_ok
        self.der = der
        addr = ADDRS[fam][0]
        self.peer = (addr, PORT) if fam == 'v4' else (addr, PORT, 0, 0)
        self.sock = FakeSock(self.log, 'clear', self.peer)
        self.tls = None
        self.states = []
        self.escaped = []
        cfg = Config(node_id=LOCAL_NODE, keepalive_time=0, idle_time=0, **cfg_kwargs)
        cfg.get_ssl_context = lambda: None  # the context is only handed to the replaced secure()
        self.cfg = cfg
        hdl_kwargs = dict(config=cfg, sock=self.sock)
        if role == 'passive':
            hdl_kwargs['fromaddr'] = self.peer
        else:
            if peer_name is None:
                peer_name = addr if role == 'active-addr' else DNS_OK
            hdl_kwargs['toaddr'] = (peer_name, PORT)
        self.h = session.ContactHandler(
            hdl_kwargs=hdl_kwargs,
            bus_kwargs=dict(conn=dbus.bus.BusConnection(), object_path='/c15'))
        self.h.set_on_state_change(self.states.append)
        self.h.secure = self._secure

    # replacement of Connection.secure(): same externally visible effect
    # (on success the connection reports is_secure() and talks through the
    # TLS socket; on failure ssl.SSLError), no handshake.
    def _secure(self, ssl_ctx):
        self.secure_calls += 1
        if not self.hs_ok:
            raise ssl.SSLError('simulated handshake failure')
        self.tls = FakeSock(self.log, 'tls', self.peer, self.der)
        self.install_tls()

    def install_tls(self):
        hdl = self.h
        if self.tls is None:
            self.tls = FakeSock(self.log, 'tls', self.peer, self.der)
        if hasattr(hdl, '_Connection__s_tls'):
            hdl._Connection__s_tls = self.tls
        if session.Connection.is_secure(hdl) is not True or hdl.get_secure_socket() is not self.tls:
            # refactored storage: fall back to overriding the public accessors
            hdl.is_secure = lambda: True
            hdl.get_secure_socket = lambda: self.tls
            hdl.get_app_socket = lambda: self.tls

    def drain(self):
        ''' Run pending idle / writable sources until nothing is left to send. '''
        for _ in range(50):
            todo = [src for src in list(GLib.CTX.sources.values())
                    if src.kind == 'idle' or (src.kind == 'io' and src.cond == GLib.IO_OUT)]
            if not todo:
                break
            for src in todo:
                GLib.CTX.run(src)
        self.escaped.extend(GLib.CTX.escaped)
        GLib.CTX.escaped = []

    def feed(self, data):
        ''' Deliver received octets as the socket watcher would. '''
        try:
            self.h.recv_raw(data)
        except Exception as err:  # the GLib callback would print it and go on
            self.escaped.append(err)
        self.drain()

    def closed(self):
        return bool(self.sock.closed)

    def emitted(self):
        ''' [(channel, message name, reason or None)] for everything sent. '''
        out = []
        for chan in ('clear', 'tls'):
            data = b''.join(dat for (ch, dat) in self.log if ch == chan and dat is not None)
            first = (chan == 'clear')
            while data:
                if first and data[:4] == contact.MAGIC_HEAD:
                    pkt = contact.Head(data)
                    name = 'CONTACT'
                    # for the contact header the third field is the flags octet on the wire
                    reason = int(pkt.payload.flags)
                else:
                    pkt = messages.MessageHead(data)
                    cls = pkt.guess_payload_class(b'')
                    name = {messages.SessionInit: 'SESS_INIT', messages.SessionTerm: 'SESS_TERM',
                            messages.RejectMsg: 'MSG_REJECT', messages.Keepalive: 'KEEPALIVE'}.get(cls, cls.__name__)
                    reason = int(pkt.payload.reason) if cls is messages.SessionTerm else None
                first = False
                formats.remove_padding(pkt)
                size = len(bytes(pkt))
                if size == 0:
                    break
                data = data[size:]
                out.append((chan, name, reason))
        return out


def peer_contact_header(flags):
    ''' The peer's TCPCLv4 contact header as raw octets: magic, version 4, flags octet (any value,
    reserved bits included). '''
    return contact.MAGIC_HEAD + bytes([4, int(flags) & 0xFF])


def peer_sess_init(nodeid=NODE_OK):
    return bytes(messages.MessageHead() / messages.SessionInit(keepalive=0, nodeid_data=nodeid))


def _canon_param(val):
    ''' authn_* value of get_session_parameters(): absent key -> 'absent',
    False -> 'mismatch', anything else -> ('matched', str). '''
    if val is None:
        return 'absent'
    if val is False:
        return 'mismatch'
    return ['matched', str(val)]


def _observe(drv):
    hdl = drv.h
    emitted = drv.emitted()
    params = {}
    try:
        got = hdl.get_session_parameters()
        for key in ('authn_ipaddrid', 'authn_dnsid', 'authn_nodeid'):
            params[key] = _canon_param(got.get(key))
        params['peer_dnsid'] = got.get('peer_dnsid')
        params['has_params'] = bool(len(got))
    except Exception as err:
        params = dict(error=err.__class__.__name__)
    terms = [reason for (_c, name, reason) in emitted if name == 'SESS_TERM']
    return dict(
        closed=drv.closed(),
        secure=bool(hdl.is_secure()),
        secure_calls=drv.secure_calls,
        state=str(hdl.get_session_state()),
        established=('established' in drv.states),
        sessinit_clear=any(name == 'SESS_INIT' and chan == 'clear' for (chan, name, _r) in emitted),
        sessinit_tls=any(name == 'SESS_INIT' and chan == 'tls' for (chan, name, _r) in emitted),
        contact_sent=any(name == 'CONTACT' for (_c, name, _r) in emitted),
        contact_flags=[flag for (_c, name, flag) in emitted if name == 'CONTACT'],
        term_reasons=terms,
        clear_after_tls=_clear_after_tls(drv.log),
        params=params,
        escaped=[err.__class__.__name__ for err in drv.escaped],
    )


def _clear_after_tls(log):
    ''' Any octets written to the plain socket after TLS traffic started. '''
    seen_tls = False
    for (chan, dat) in log:
        if dat is None:
            continue
        if chan == 'tls':
            seen_tls = True
        elif seen_tls:
            return True
    return False


# ---------------------------------------------------------------- row runners
def run_contact_row(row):
    ''' Contact-header exchange through the real recv_message, then (if the
    connection is still open) the peer's SESS_INIT.
    row: role ('passive'|'active'), tls_enable, peer_flags (octet), require_tls
    (None|True|False), hs_ok. '''
    role = 'passive' if row['role'] == 'passive' else 'active-name'
    der = make_cert('v4', ('ip_ok', 'dns_ok', 'uri_ok'))
    drv = Driven(role, 'v4', dict(tls_enable=row['tls_enable'], require_tls=row['require_tls']),
                 der, hs_ok=row['hs_ok'])
    drv.h.start()
    drv.drain()
    drv.feed(peer_contact_header(row['peer_flags']))
    mid = dict(closed=drv.closed(), secure=bool(drv.h.is_secure()), state=str(drv.h.get_session_state()))
    if not drv.closed():
        drv.feed(peer_sess_init())
    obs = _observe(drv)
    obs['after_contact'] = mid
    return obs


def run_authn_row(row, mode='e2e'):
    ''' Session negotiation under (simulated) TLS with a real certificate.
    row: role, fam, san (None | list of tags), require_host, require_node,
    optional tls (default True), nodeid (announced by the peer, default NODE_OK),
    peer_name (override of the connect name). '''
    fam = row.get('fam', 'v4')
    san = row['san']
    use_tls = row.get('tls', True)
    der = make_cert(fam, san) if row.get('cert', True) else None
    cfg_kwargs = dict(tls_enable=use_tls, require_tls=None,
                      require_host_authn=row['require_host'], require_node_authn=row['require_node'])
    drv = Driven(row['role'], fam, cfg_kwargs, der, peer_name=row.get('peer_name'))
    nodeid = row.get('nodeid', NODE_OK)
    if mode == 'e2e':
        drv.h.start()
        drv.drain()
        drv.feed(peer_contact_header(1 if use_tls else 0))
        if not drv.closed():
            drv.feed(peer_sess_init(nodeid))
        return _observe(drv)
    # direct: only merge_session_params() on a handler whose sockets are faked
    hdl = drv.h
    if use_tls:
        drv.install_tls()
    hdl._sessinit_this = messages.SessionInit(keepalive=0, nodeid_data=LOCAL_NODE)
    hdl._sessinit_peer = messages.SessionInit(keepalive=0, nodeid_data=nodeid)
    try:
        hdl.merge_session_params()
        refused = None
    except session.TerminateError as err:
        refused = int(err.reason)
    except Exception as err:
        refused = 'EXC:' + err.__class__.__name__
    got = hdl.get_session_parameters()
    return dict(
        refused=refused,
        params={key: _canon_param(got.get(key)) for key in ('authn_ipaddrid', 'authn_dnsid', 'authn_nodeid')},
        peer_dnsid=got.get('peer_dnsid'),
    )


def run_match_id(ref, cert_ids_spec):
    ''' The real match_id() on a real certificate.
    ref: None or a DNS name; cert_ids_spec: None (no SAN extension) or list of
    DNS names (possibly empty -> extension without dNSName).  Returns
    'matched' | 'mismatch' | 'absent'. '''
    import logging
    name = x509.Name([x509.NameAttribute(NameOID.COMMON_NAME, 'c15-mid')])
    bld = (x509.CertificateBuilder().subject_name(name).issuer_name(name)
           .public_key(_KEY.public_key()).serial_number(0xC16)
           .not_valid_before(datetime.datetime(2020, 1, 1))
           .not_valid_after(datetime.datetime(2040, 1, 1)))
    if cert_ids_spec is not None:
        names = [x509.DNSName(item) for item in cert_ids_spec] or [x509.RFC822Name('ops@peer.example')]
        bld = bld.add_extension(x509.SubjectAlternativeName(names), critical=False)
    cert = bld.sign(_KEY, None)
    res = session.match_id(ref, cert, x509.DNSName, logging.getLogger('c15'), 'DNS-ID')
    if res is None:
        return 'absent'
    if res is False:
        return 'mismatch'
    return 'matched'


if __name__ == '__main__':
    import json
    import sys
    print(json.dumps(run_authn_row(json.loads(sys.argv[1])), indent=1, sort_keys=True))
