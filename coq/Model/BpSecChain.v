(** The BPSec part of the BP agent's receive chain, for a bundle routed to local delivery
    (/repo/src/bp/agent.py [recv_bundle]: chain runner and the 'delete' / 'deliver' tail;
     /repo/src/bp/app/bpsec.py [Bpsec._verify_bcb] (order 19), [Bpsec._verify_bib] (order 20),
     [CoseContext.verify_bib] / [verify_bcb]: target loop, accept-after-verify removal;
     application steps at order 30: bp/app/admin.py, sand.py, safe.py).

    Definitions only.  The model follows the CODE as of the "fix:" commit that iterates over a copy of
    the BIB/BCB list ([recv_sec]); the iteration of the original tree over the live list is kept as
    [recv_sec_live] so that the difference can be stated.

    Inputs decided elsewhere (C03 / C16 give them their cryptographic meaning):
      per security block  [s_visible]  whether the block-type-specific data dissected as an Abstract
                                       Security Block, i.e. whether [ctr.block_type(BlockIntegrityBlock)]
                                       / [(BlockConfidentialityBlock)] lists the block at all
                                       ([CanonicalBlock.post_dissect] swallows the dissection error);
                          [s_ctx]      whether [Bpsec._contexts] has the block's security context id;
                          [s_pre]      [check_secblk] / [extract_secblk]: passes, answers a failure
                                       code (duplicate ids), or raises;
      per target          [TOk p]      the operation verifies ([p] = id of the plaintext, used for a
                                       BCB target only), [TFail c] it does not (reason code [c]),
                          [TRaise]     an exception escapes the target loop at this target (e.g.
                                       KeyError of [ctr.block_num] for a target that does not exist).
    Block-type-specific data are abstract ids (numbers); blocks are named by their block numbers.

    A raised exception: [_verify_bib] / [_verify_bcb] catch it, log it and put
    StatusReport.ReasonCode.FAILED_SEC into the [failure] list (since the "fix:" commit d956b1c; before
    it a TEXT went into the list, [max()] of texts gave a text reason and [max()] of mixed texts and
    numbers raised TypeError after 'deliver' had been removed - property C12's regression witnesses
    harness/corpus/C12_text_reason.json and C12_mixed_reasons_dropped.json).  The recorded reason is
    [max(failure)], the largest code. *)
From Coq Require Import NArith List Bool.
Import ListNotations.
Local Open Scope N_scope.

(** StatusReport.ReasonCode *)
Definition UNKNOWN_SEC : N := 13.
Definition FAILED_SEC : N := 15.
Definition sec_reason (c : N) : bool := (12 <=? c) && (c <=? 16).

Inductive tres := TOk (plain : N) | TFail (code : N) | TRaise.
Inductive pre := PreOk | PreFail (code : N) | PreRaise.

Record secblk := mkSec {
  s_bcb : bool;                 (* false: block type 11 (BIB), true: block type 12 (BCB) *)
  s_num : N;                    (* block number *)
  s_visible : bool;
  s_ctx : bool;
  s_pre : pre;
  s_tgts : list (N * tres)      (* target block numbers in ASB order, each with its verdict *)
}.

Record cfg := mkCfg { accept_after_verify : bool }.

(** What is left of the bundle: BTSD id of every block that is not a visible security block (wire
    order), and the visible security blocks still present with the targets they still list. *)
Definition datamap := list (N * N).
Definition secview := list (N * list N).
Record view := mkView { v_data : datamap; v_secs : secview }.

Definition view_of (secs : list secblk) (data : datamap) : view :=
  mkView data (map (fun s => (s_num s, map fst (s_tgts s))) (filter s_visible secs)).

Definition set_btsd (t p : N) (d : datamap) : datamap :=
  map (fun e => if fst e =? t then (t, p) else e) d.

Definition btsd_of (t : N) (d : datamap) : N :=
  match find (fun e => fst e =? t) d with Some e => snd e | None => 0 end.

(** Result of one [ctx.verify_bib] / [ctx.verify_bcb] call as [_verify_bib] sees it. *)
Inductive vres := VNone | VCode (c : N) | VRaised.

(** The target loop of [verify_bib] / [verify_bcb].  Answers the data map (a verified BCB target is
    replaced by its plaintext at once when acceptance is on) and, unless an exception escaped,
    ([failure] = the LAST failing target's code, the targets that stay in the block). *)
Fixpoint run_tgts (accept bcb : bool) (tg : list (N * tres)) (d : datamap)
  : datamap * option (option N * list N) :=
  match tg with
  | [] => (d, Some (None, []))
  | (t, r) :: rest =>
    match r with
    | TRaise => (d, None)
    | TFail c =>
      match run_tgts accept bcb rest d with
      | (d', Some (f, kept)) => (d', Some (match f with Some x => Some x | None => Some c end, t :: kept))
      | (d', None) => (d', None)
      end
    | TOk p =>
      match run_tgts accept bcb rest (if accept && bcb then set_btsd t p d else d) with
      | (d', Some (f, kept)) => (d', Some (f, if accept then kept else t :: kept))
      | (d', None) => (d', None)
      end
    end
  end.

(** [targets.pop(ix)] for the accepted targets, then [ctr.remove_block] when none is left. *)
Definition set_targets (n : N) (kept : list N) (sv : secview) : secview :=
  match kept with
  | [] => filter (fun e => negb (fst e =? n)) sv
  | _ => map (fun e => if fst e =? n then (n, kept) else e) sv
  end.

(** One iteration of the loop in [_verify_bib] / [_verify_bcb]. *)
Definition verify_block (c : cfg) (s : secblk) (v : view) : view * vres :=
  if negb (s_ctx s) then (v, VCode UNKNOWN_SEC)
  else match s_pre s with
       | PreFail code => (v, VCode code)
       | PreRaise => (v, VRaised)
       | PreOk =>
         match run_tgts (accept_after_verify c) (s_bcb s) (s_tgts s) (v_data v) with
         | (d, None) => (mkView d (v_secs v), VRaised)
         | (d, Some (f, kept)) =>
           (mkView d (set_targets (s_num s) kept (v_secs v)),
            match f with Some code => VCode code | None => VNone end)
         end
       end.

(** The verdict alone (it does not depend on the state of the bundle). *)
Fixpoint tgts_result (tg : list (N * tres)) : vres :=
  match tg with
  | [] => VNone
  | (_, TRaise) :: _ => VRaised
  | (_, TFail c) :: rest =>
    match tgts_result rest with VNone => VCode c | other => other end
  | (_, TOk _) :: rest => tgts_result rest
  end.

Definition blk_result (s : secblk) : vres :=
  if negb (s_ctx s) then VCode UNKNOWN_SEC
  else match s_pre s with
       | PreFail code => VCode code
       | PreRaise => VRaised
       | PreOk => tgts_result (s_tgts s)
       end.

(** What [_verify_bib] / [_verify_bcb] append to [failure] for one block: nothing for a verified
    block, the code the context answered, FAILED_SEC for an exception that escaped the context. *)
Definition step_code (r : vres) : option N :=
  match r with VNone => None | VCode code => Some code | VRaised => Some FAILED_SEC end.

Definition push (r : vres) (rs : list N) : list N :=
  match step_code r with Some code => code :: rs | None => rs end.

(** Iteration over a COPY of the block list (fixed code): every listed block is visited. *)
Fixpoint verify_all (c : cfg) (l : list secblk) (v : view) : view * list N :=
  match l with
  | [] => (v, [])
  | s :: rest =>
    let '(v1, r) := verify_block c s v in
    let '(v2, rs) := verify_all c rest v1 in
    (v2, push r rs)
  end.

(** [max(failure)] *)
Fixpoint max_code (l : list N) : option N :=
  match l with
  | [] => None
  | code :: rest => Some (match max_code rest with Some m => N.max code m | None => code end)
  end.

(** [BundleContainer.actions] as far as it matters here ('delete' with its reason), and the bundle. *)
Record cstate := mkCS { c_deliver : bool; c_delete : option N; c_view : view }.

Inductive flow := Continue | Interrupt.

Definition of_kind (bcb : bool) (secs : list secblk) : list secblk :=
  filter (fun s => s_visible s && Bool.eqb (s_bcb s) bcb) secs.

(** Tail of [_verify_bib] / [_verify_bcb] once the [failure] list is known: remove 'deliver', record
    'delete' with the largest code, interrupt the chain. *)
Definition conclude (st : cstate) (v : view) (failure : list N) : cstate * flow :=
  match max_code failure with
  | None => (mkCS (c_deliver st) (c_delete st) v, Continue)
  | Some code => (mkCS false (Some code) v, Interrupt)
  end.

(** [Bpsec._verify_bcb] ([bcb = true]) / [Bpsec._verify_bib] ([bcb = false]). *)
Definition sec_step (c : cfg) (bcb : bool) (secs : list secblk) (st : cstate) : cstate * flow :=
  if negb (c_deliver st) then (st, Continue)
  else let '(v, failure) := verify_all c (of_kind bcb secs) (c_view st) in conclude st v failure.

Inductive outcome :=
| Delivered (payload : N) (blocks : view)
| Deleted (reason : N)
| Dropped.                     (* neither delivered nor marked deleted (not reached by [recv_sec], see C12) *)

Record result := mkRes {
  r_reached : bool;             (* the chain got as far as the order-30 application steps *)
  r_app : option (N * view);    (* what an application step found with 'deliver' recorded: payload, bundle *)
  r_out : outcome
}.

Definition PAYLOAD_NUM : N := 1.

(** Tail of [recv_bundle]: 'delete' first, then 'deliver'. *)
Definition finish (st : cstate) : outcome :=
  match c_delete st with
  | Some r => Deleted r
  | None => if c_deliver st then Delivered (btsd_of PAYLOAD_NUM (v_data (c_view st))) (c_view st) else Dropped
  end.

Definition app_step (st : cstate) : option (N * view) :=
  if c_deliver st then Some (btsd_of PAYLOAD_NUM (v_data (c_view st)), c_view st) else None.

(** The receive chain from order 19 on, entered with 'deliver' recorded by the routing steps. *)
Definition chain (step : bool -> cstate -> cstate * flow) (st0 : cstate) : result :=
  match step true st0 with
  | (st1, Continue) =>
    match step false st1 with
    | (st2, Continue) => mkRes true (app_step st2) (finish st2)
    | (st2, _) => mkRes false None (finish st2)
    end
  | (st1, _) => mkRes false None (finish st1)
  end.

Definition recv_sec (c : cfg) (secs : list secblk) (data : datamap) : result :=
  chain (fun bcb => sec_step c bcb secs) (mkCS true None (view_of secs data)).

(** What an accepted, fully verifying bundle looks like afterwards: every verified BCB target replaced by
    its plaintext (in block order, target order). *)
Definition plains (tg : list (N * tres)) : list (N * N) :=
  flat_map (fun tr => match snd tr with TOk p => [(fst tr, p)] | _ => [] end) tg.

Definition decrypt_block (d : datamap) (s : secblk) : datamap :=
  fold_left (fun d' tp => set_btsd (fst tp) (snd tp) d') (plains (s_tgts s)) d.

Definition decrypted (secs : list secblk) (d : datamap) : datamap :=
  fold_left decrypt_block (of_kind true secs) d.

(** * The original tree: iteration over the LIVE list that [remove_block] shrinks

    [for bib in ctr.block_type(BlockIntegrityBlock)] walks the list by index; when the block just
    verified is removed from it, the element that follows moves into the visited position and is
    skipped.  [idx] is the index of the iterator, [live] the list of block numbers. *)
Definition find_blk (secs : list secblk) (n : N) : option secblk :=
  find (fun s => s_num s =? n) secs.

Fixpoint verify_live (fuel : nat) (c : cfg) (secs : list secblk) (bcb : bool) (idx : nat) (v : view)
  : view * list N :=
  match fuel with
  | O => (v, [])
  | S fuel' =>
    let live := filter (fun n => match find_blk secs n with
                                 | Some s => Bool.eqb (s_bcb s) bcb
                                 | None => false
                                 end) (map fst (v_secs v)) in
    match nth_error live idx with
    | None => (v, [])
    | Some n =>
      match find_blk secs n with
      | None => (v, [])
      | Some s =>
        let '(v1, r) := verify_block c s v in
        let '(v2, rs) := verify_live fuel' c secs bcb (S idx) v1 in
        (v2, push r rs)
      end
    end
  end.

Definition sec_step_live (c : cfg) (bcb : bool) (secs : list secblk) (st : cstate) : cstate * flow :=
  if negb (c_deliver st) then (st, Continue)
  else let '(v, failure) := verify_live (S (length secs)) c secs bcb 0 (c_view st) in conclude st v failure.

Definition recv_sec_live (c : cfg) (secs : list secblk) (data : datamap) : result :=
  chain (fun bcb => sec_step_live c bcb secs) (mkCS true None (view_of secs data)).

(** * Where a per-target verdict comes from: the detached-payload rule

    [CoseSecOpCtx.decode_msg] ALWAYS overwrites the payload / ciphertext slot of the received COSE
    structure with the target block's CURRENT block-type-specific data before the message is verified or
    decrypted ("replace detached payload"); whatever a sender put into that slot is ignored.
    [m_auth] stands for everything else in the result (headers, tag / signature, recipients), [open] for the
    cryptographic check with the receiver's keys and the external AAD: [Some p] = verifies, [p] the plaintext
    (for a BIB the data itself); its meaning is C03 / C16. *)
Record cose_msg := mkMsg { m_auth : N; m_slot : option N }.

Definition decode_msg (target_btsd : N) (m : cose_msg) : cose_msg := mkMsg (m_auth m) (Some target_btsd).

Definition target_verdict (open : N -> N -> option N) (data : datamap) (t : N) (m : cose_msg) : tres :=
  match m_slot (decode_msg (btsd_of t data) m) with
  | Some payload =>
    match open (m_auth (decode_msg (btsd_of t data) m)) payload with
    | Some p => TOk p
    | None => TFail FAILED_SEC
    end
  | None => TFail FAILED_SEC
  end.

(** * Rendering for the correspondence check (numbers, lists and pairs only) *)
Definition ren_view (v : view) : datamap * secview := (v_data v, v_secs v).

Definition ren_out (o : outcome) : N * N * (datamap * secview) :=
  match o with
  | Delivered p v => (0, p, ren_view v)
  | Deleted code => (1, code, ([], []))
  | Dropped => (3, 0, ([], []))
  end.

Definition render (r : result) : bool * list (N * (datamap * secview)) * (N * N * (datamap * secview)) :=
  (r_reached r,
   match r_app r with Some (p, v) => [(p, ren_view v)] | None => [] end,
   ren_out (r_out r)).

(** Input of one correspondence case: accept-after-verify, the type-11/12 blocks in wire order, the
    data map. *)
Definition run_case (x : bool * list secblk * datamap) : _ :=
  let '(a, secs, d) := x in render (recv_sec (mkCfg a) secs d).
Definition run_case_live (x : bool * list secblk * datamap) : _ :=
  let '(a, secs, d) := x in render (recv_sec_live (mkCfg a) secs d).
