''' Fail-closed Python-ast -> Coq translator driver.

Every module ``translate/targets/<name>.py`` exposes

    generate(repo_src: str) -> Dict[str, str]     # {'Gen/<File>.v': coq_text}

and must raise :class:`TranslateError` (or any exception) when the source no
longer has the whitelisted shape.  This driver runs all targets against the
*current* /repo working tree, writes each generated file only when its text
changed (so make's timestamps stay meaningful), and records the outcome per
target in build/translate_status.json, which the checks read: a failed
target means the translator tie is broken for the properties that use it.
'''
import argparse
import importlib
import json
import os
import sys
import traceback

HERE = os.path.dirname(os.path.abspath(__file__))
VERIF = os.path.dirname(HERE)
sys.path.insert(0, HERE)


class TranslateError(Exception):
    pass


def main():
    parser = argparse.ArgumentParser()
    parser.add_argument('--all', action='store_true')
    parser.add_argument('--repo', default=os.environ.get('VERIF_REPO', '/repo'))
    parser.add_argument('targets', nargs='*')
    args = parser.parse_args()
    repo_src = os.path.join(args.repo, 'src')
    tdir = os.path.join(HERE, 'targets')
    names = sorted(name[:-3] for name in os.listdir(tdir) if name.endswith('.py') and not name.startswith('_'))
    if not args.all:
        names = [name for name in names if name in args.targets]
    status = {}
    failed = False
    for name in names:
        try:
            mod = importlib.import_module('targets.' + name)
            files = mod.generate(repo_src)
            for (rel, text) in files.items():
                path = os.path.join(VERIF, 'coq', rel)
                os.makedirs(os.path.dirname(path), exist_ok=True)
                old = None
                if os.path.exists(path):
                    with open(path, 'r') as infile:
                        old = infile.read()
                if old != text:
                    with open(path, 'w') as out:
                        out.write(text)
            status[name] = dict(ok=True, files=sorted(files.keys()))
        except Exception as err:  # fail closed
            failed = True
            status[name] = dict(ok=False, error='%s: %s' % (err.__class__.__name__, err),
                                trace=traceback.format_exc()[-1500:])
    os.makedirs(os.path.join(VERIF, 'build'), exist_ok=True)
    with open(os.path.join(VERIF, 'build', 'translate_status.json'), 'w') as out:
        json.dump(status, out, indent=1)
    for (name, stat) in status.items():
        if not stat['ok']:
            print('translate: target %s FAILED: %s' % (name, stat['error']))
    return 1 if failed else 0


if __name__ == '__main__':
    sys.exit(main())
