''' Translator target `btpubudget`: regenerates coq/Gen/BtpuBudget.v from the
CURRENT src/btpu/agent.py and src/btpu/messages.py (property C20).

Translated fragments:

 agent.py  ``Agent._send_transfer``
   (a) the fit test       ``mtu is None or total_len <op> <arith over mtu>``   -> unsegmented
   (b) the hint           ``HintHead(hint_type=<int>)/Raw(total_len.to_bytes(<int>, 'big'))``
                                                                              -> hint_type, hint_width
   (c) ``remain_size = <arith over mtu, len(msg_head)>``                       -> remain_size
   (d) ``seg_idx = <int>``, ``seg_offset = <int>``                             -> init_idx, init_offset
   (e) ``while seg_offset <op> total_len:``                                    -> loop_test
   (f) ``seg_data = data[<lo>:<hi>]``                                          -> slice_lo, slice_hi
   (g) ``seg_offset += <expr>`` placed BEFORE the more/last decision           -> next_offset
   (h) ``if seg_offset <op> total_len:`` TransferSeg else TransferEnd          -> more_test, class names
   (i) ``seg_idx += <int>``                                                    -> next_idx
 agent.py  ``EthernetChannel`` (a dataclass) and ``Agent._recv_msg``
   (l) the annotated fields (ClassVars excluded), which must be exactly
       local_if, peer_address, local_address, vlan_tag                          -> chan_nfields, field_*
   (m) the ``key`` property: ``astuple(self)`` or a tuple of ``self.<field>``  -> key_fields (field index per position)
   (n) the receive table key ``key = (conv.key, msg.payload.xfer_num)``        -> rx_key_is_conv_key_and_xfer_num
 messages.py
   (j) ``bind_layers(MessageHead, <cls>, msg_type=<int>)``                     -> type_* (by class name)
   (k) field widths of MessageHead / HintHead / _Transfer                      -> *_bits

The scapy machinery itself is not translated: the hand-written Model/Btpu.v
stands for it and is compared octet by octet with the real frames by the C20
correspondence run.  Proofs/BtpuBudgetProofs.v proves that the model's
arithmetic and one step of its loop are what these definitions say.

FAIL CLOSED: every statement of the function must match the whitelisted shape
(logging calls are skipped); anything else raises TranslateError, py2coq.py
records the target as failed and leaves the previous Gen file in place.
'''
import ast
import os


class TranslateError(Exception):
    pass


AGENT = os.path.join('btpu', 'agent.py')
MESSAGES = os.path.join('btpu', 'messages.py')


def _fail(node, msg):
    line = getattr(node, 'lineno', '?')
    what = ast.dump(node)[:160] if isinstance(node, ast.AST) else repr(node)
    raise TranslateError('btpu:%s: %s [%s]' % (line, msg, what))


def dotted(node):
    parts = []
    while isinstance(node, ast.Attribute):
        parts.append(node.attr)
        node = node.value
    if isinstance(node, ast.Name):
        parts.append(node.id)
        return '.'.join(reversed(parts))
    return None


def is_logging(stmt):
    if not isinstance(stmt, ast.Expr) or not isinstance(stmt.value, ast.Call):
        return False
    return 'logger' in (dotted(stmt.value.func) or '').lower()


def strip(stmts):
    ''' Drop the docstring and logging calls. '''
    out = []
    for (pos, stmt) in enumerate(stmts):
        if pos == 0 and isinstance(stmt, ast.Expr) and isinstance(stmt.value, ast.Constant) and isinstance(stmt.value.value, str):
            continue
        if is_logging(stmt):
            continue
        out.append(stmt)
    return out


def assign_of(stmt, name):
    if not isinstance(stmt, ast.Assign) or len(stmt.targets) != 1 or dotted(stmt.targets[0]) != name:
        _fail(stmt, 'expected an assignment to %s' % name)
    return stmt.value


def is_call(node, name, nargs, kwnames=()):
    return (isinstance(node, ast.Call) and dotted(node.func) == name and len(node.args) == nargs
            and sorted(kw.arg or '**' for kw in node.keywords) == sorted(kwnames))


def int_const(node):
    if isinstance(node, ast.Constant) and type(node.value) is int:
        return node.value
    _fail(node, 'expected an integer constant')


CMP = {ast.Lt: '<?', ast.LtE: '<=?', ast.Gt: '>?', ast.GtE: '>=?'}


def arith(node, env):
    ''' Integer expression over the names of ``env`` (python expression source -> Coq name),
    int constants, + - * and unary minus. '''
    if isinstance(node, ast.Constant) and type(node.value) is int:
        return '(%d)' % node.value
    if isinstance(node, ast.Name) and node.id in env:
        return env[node.id]
    if isinstance(node, ast.Call) and is_call(node, 'len', 1) and ('len(%s)' % dotted(node.args[0])) in env:
        return env['len(%s)' % dotted(node.args[0])]
    if isinstance(node, ast.UnaryOp) and isinstance(node.op, ast.USub):
        return '(- %s)' % arith(node.operand, env)
    if isinstance(node, ast.BinOp) and isinstance(node.op, (ast.Add, ast.Sub, ast.Mult)):
        sym = {ast.Add: '+', ast.Sub: '-', ast.Mult: '*'}[type(node.op)]
        return '(%s %s %s)' % (arith(node.left, env), sym, arith(node.right, env))
    _fail(node, 'expression outside the whitelisted integer arithmetic')


def compare(node, env):
    if not isinstance(node, ast.Compare) or len(node.ops) != 1 or type(node.ops[0]) not in CMP:
        _fail(node, 'expected one of < <= > >= between two integers')
    return '(%s %s %s)' % (arith(node.left, env), CMP[type(node.ops[0])], arith(node.comparators[0], env))


def div_chain(node):
    ''' ``a/b/c`` -> [a, b, c] '''
    if isinstance(node, ast.BinOp) and isinstance(node.op, ast.Div):
        return div_chain(node.left) + [node.right]
    return [node]


def seg_message(stmt):
    ''' ``msg = msg_head/<Cls>(**fields)/Raw(seg_data)`` -> class name '''
    parts = div_chain(assign_of(stmt, 'msg'))
    if len(parts) != 3 or dotted(parts[0]) != 'msg_head':
        _fail(stmt, 'expected msg_head/<Transfer class>(**fields)/Raw(seg_data)')
    mid = parts[1]
    if not (isinstance(mid, ast.Call) and isinstance(mid.func, ast.Name) and not mid.args and len(mid.keywords) == 1
            and mid.keywords[0].arg is None and dotted(mid.keywords[0].value) == 'fields'):
        _fail(mid, 'expected <Transfer class>(**fields)')
    if not (is_call(parts[2], 'Raw', 1) and dotted(parts[2].args[0]) == 'seg_data'):
        _fail(parts[2], 'expected Raw(seg_data)')
    return mid.func.id


def translate_agent(tree):
    func = None
    for node in tree.body:
        if isinstance(node, ast.ClassDef) and node.name == 'Agent':
            for sub in node.body:
                if isinstance(sub, ast.FunctionDef) and sub.name == '_send_transfer':
                    func = sub
    if func is None:
        raise TranslateError('Agent._send_transfer not found')
    if [arg.arg for arg in func.args.args] != ['self', 'item']:
        _fail(func, 'unexpected parameters')
    body = strip(func.body)
    if len(body) != 4:
        _fail(func, 'expected 4 top-level statements (mtu, data, total_len, if), found %d' % len(body))
    if dotted(assign_of(body[0], 'mtu')) != 'self._config.mtu_default':
        _fail(body[0], 'mtu is not self._config.mtu_default')
    if not is_call(assign_of(body[1], 'data'), 'item.file.read', 0):
        _fail(body[1], 'data is not item.file.read()')
    val = assign_of(body[2], 'total_len')
    if not (is_call(val, 'len', 1) and dotted(val.args[0]) == 'data'):
        _fail(body[2], 'total_len is not len(data)')

    # ---- (a) the fit test and the unsegmented branch
    cond = body[3]
    if not isinstance(cond, ast.If):
        _fail(cond, 'expected the if statement')
    test = cond.test
    if not (isinstance(test, ast.BoolOp) and isinstance(test.op, ast.Or) and len(test.values) == 2):
        _fail(test, 'expected "mtu is None or <comparison>"')
    none_test = test.values[0]
    if not (isinstance(none_test, ast.Compare) and len(none_test.ops) == 1 and isinstance(none_test.ops[0], ast.Is)
            and dotted(none_test.left) == 'mtu' and isinstance(none_test.comparators[0], ast.Constant)
            and none_test.comparators[0].value is None):
        _fail(none_test, 'expected "mtu is None"')
    if dotted(test.values[1].left if isinstance(test.values[1], ast.Compare) else None) != 'total_len':
        _fail(test.values[1], 'expected total_len on the left of the fit test')
    unseg = compare(test.values[1], {'total_len': 'total', 'mtu': 'mtu'})
    then = strip(cond.body)
    if len(then) != 2:
        _fail(cond, 'expected two statements in the unsegmented branch')
    parts = div_chain(assign_of(then[0], 'msg'))
    if not (len(parts) == 2 and is_call(parts[0], 'MessageHead', 0) and isinstance(parts[1], ast.Call)
            and isinstance(parts[1].func, ast.Name) and len(parts[1].args) == 1 and dotted(parts[1].args[0]) == 'data'
            and not parts[1].keywords):
        _fail(then[0], 'expected msg = MessageHead()/<Pdu class>(data)')
    pdu_cls = parts[1].func.id
    if not (isinstance(then[1], ast.Expr) and isinstance(then[1].value, ast.Yield) and dotted(then[1].value.value) == 'msg'):
        _fail(then[1], 'expected "yield msg"')

    # ---- segmented branch
    seg = strip(cond.orelse)
    if len(seg) != 5:
        _fail(cond, 'expected 5 statements in the segmented branch, found %d' % len(seg))
    # (b) the common heading
    head = assign_of(seg[0], 'msg_head')
    if not (is_call(head, 'MessageHead', 0, ['hints']) and isinstance(head.keywords[0].value, ast.List)
            and len(head.keywords[0].value.elts) == 1):
        _fail(seg[0], 'expected MessageHead(hints=[<one hint>])')
    parts = div_chain(head.keywords[0].value.elts[0])
    if not (len(parts) == 2 and is_call(parts[0], 'HintHead', 0, ['hint_type']) and is_call(parts[1], 'Raw', 1)):
        _fail(seg[0], 'expected HintHead(hint_type=<int>)/Raw(...)')
    hint_type = int_const(parts[0].keywords[0].value)
    tob = parts[1].args[0]
    if not (is_call(tob, 'total_len.to_bytes', 2) and isinstance(tob.args[1], ast.Constant) and tob.args[1].value == 'big'):
        _fail(tob, "expected total_len.to_bytes(<int>, 'big')")
    hint_width = int_const(tob.args[0])
    # (c)
    remain = arith(assign_of(seg[1], 'remain_size'), {'mtu': 'mtu', 'len(msg_head)': 'head_len'})
    # (d)
    init_idx = int_const(assign_of(seg[2], 'seg_idx'))
    init_offset = int_const(assign_of(seg[3], 'seg_offset'))
    # (e)
    loop = seg[4]
    if not isinstance(loop, ast.While) or loop.orelse:
        _fail(loop, 'expected the while loop')
    env = {'seg_offset': 'seg_offset', 'total_len': 'total', 'remain_size': 'remain_size'}
    loop_test = compare(loop.test, {'seg_offset': 'seg_offset', 'total_len': 'total'})
    lbody = strip(loop.body)
    if len(lbody) != 6:
        _fail(loop, 'expected 6 statements in the loop body, found %d' % len(lbody))
    # (f)
    sub = assign_of(lbody[0], 'seg_data')
    if not (isinstance(sub, ast.Subscript) and dotted(sub.value) == 'data' and isinstance(sub.slice, ast.Slice)
            and sub.slice.step is None and sub.slice.lower is not None and sub.slice.upper is not None):
        _fail(lbody[0], 'expected seg_data = data[<lo>:<hi>]')
    slice_lo = arith(sub.slice.lower, env)
    slice_hi = arith(sub.slice.upper, env)
    # (g) the offset is advanced BEFORE the more/last decision
    step = lbody[1]
    if not (isinstance(step, ast.AugAssign) and dotted(step.target) == 'seg_offset' and isinstance(step.op, (ast.Add, ast.Sub))):
        _fail(step, 'expected seg_offset += <expr>')
    next_offset = '(seg_offset %s %s)' % ('+' if isinstance(step.op, ast.Add) else '-', arith(step.value, env))
    # common fields
    fld = assign_of(lbody[2], 'fields')
    if not (is_call(fld, 'dict', 0, ['xfer_num', 'seg_idx'])
            and dict((kw.arg, dotted(kw.value)) for kw in fld.keywords) == {'xfer_num': 'item.transfer_id', 'seg_idx': 'seg_idx'}):
        _fail(lbody[2], 'expected fields = dict(xfer_num=item.transfer_id, seg_idx=seg_idx)')
    # (h)
    more = lbody[3]
    if not isinstance(more, ast.If):
        _fail(more, 'expected the more/last decision')
    more_test = compare(more.test, {'seg_offset': 'seg_offset', 'total_len': 'total'})
    (mthen, melse) = (strip(more.body), strip(more.orelse))
    if len(mthen) != 1 or len(melse) != 1:
        _fail(more, 'expected one statement per branch of the more/last decision')
    more_cls = seg_message(mthen[0])
    last_cls = seg_message(melse[0])
    # (i)
    inc = lbody[4]
    if not (isinstance(inc, ast.AugAssign) and dotted(inc.target) == 'seg_idx' and isinstance(inc.op, ast.Add)):
        _fail(inc, 'expected seg_idx += <int>')
    idx_step = int_const(inc.value)
    out = lbody[5]
    if not (isinstance(out, ast.Expr) and isinstance(out.value, ast.Yield) and is_call(out.value.value, 'bytes', 1)
            and dotted(out.value.value.args[0]) == 'msg'):
        _fail(out, 'expected "yield bytes(msg)"')
    return dict(unseg=unseg, hint_type=hint_type, hint_width=hint_width, remain=remain, init_idx=init_idx,
                init_offset=init_offset, loop_test=loop_test, slice_lo=slice_lo, slice_hi=slice_hi,
                next_offset=next_offset, more_test=more_test, idx_step=idx_step,
                pdu_cls=pdu_cls, more_cls=more_cls, last_cls=last_cls)


MODEL_FIELDS = ['local_if', 'peer_address', 'local_address', 'vlan_tag']


def translate_channel(tree):
    cls = None
    for node in tree.body:
        if isinstance(node, ast.ClassDef) and node.name == 'EthernetChannel':
            cls = node
    if cls is None:
        raise TranslateError('class EthernetChannel not found')
    if not any((dotted(dec) or dotted(getattr(dec, 'func', None))) == 'dataclass' for dec in cls.decorator_list):
        _fail(cls, 'EthernetChannel is not a dataclass')
    fields = []
    key_fn = None
    for stmt in cls.body:
        if isinstance(stmt, ast.AnnAssign) and isinstance(stmt.target, ast.Name):
            ann = ast.dump(stmt.annotation)
            if 'ClassVar' in ann:
                continue
            fields.append(stmt.target.id)
        elif isinstance(stmt, ast.FunctionDef) and stmt.name == 'key':
            key_fn = stmt
    if fields != MODEL_FIELDS:
        raise TranslateError('EthernetChannel fields are %r, the model mirrors %r' % (fields, MODEL_FIELDS))
    if key_fn is None or [dotted(dec) for dec in key_fn.decorator_list] != ['property']:
        raise TranslateError('EthernetChannel.key is not a property')
    body = strip(key_fn.body)
    if len(body) != 1 or not isinstance(body[0], ast.Return):
        _fail(key_fn, 'expected a single return statement in EthernetChannel.key')
    val = body[0].value
    if is_call(val, 'astuple', 1) and dotted(val.args[0]) == 'self':
        key_fields = list(range(len(fields)))
    elif isinstance(val, ast.Tuple):
        key_fields = []
        for elt in val.elts:
            name = dotted(elt) or ''
            if not name.startswith('self.') or name[5:] not in fields:
                _fail(elt, 'element of the key tuple is not self.<dataclass field>')
            key_fields.append(fields.index(name[5:]))
    else:
        _fail(val, 'EthernetChannel.key is neither astuple(self) nor a tuple of fields')
    # (n) the receive table key
    found = []
    for node in tree.body:
        if isinstance(node, ast.ClassDef) and node.name == 'Agent':
            for sub in node.body:
                if isinstance(sub, ast.FunctionDef) and sub.name == '_recv_msg':
                    for stmt in ast.walk(sub):
                        if isinstance(stmt, ast.Assign) and len(stmt.targets) == 1 and dotted(stmt.targets[0]) == 'key':
                            found.append(stmt)
    if len(found) != 1:
        raise TranslateError('expected exactly one assignment to key in Agent._recv_msg, found %d' % len(found))
    val = found[0].value
    if not (isinstance(val, ast.Tuple) and [dotted(elt) for elt in val.elts] == ['conv.key', 'msg.payload.xfer_num']):
        _fail(found[0], 'receive table key is not (conv.key, msg.payload.xfer_num)')
    return dict(nfields=len(fields), key_fields='; '.join(str(idx) for idx in key_fields))


def field_list(tree, clsname):
    ''' [(field class, name, keywords as {name: constant})] of ``fields_desc`` of a class '''
    for node in tree.body:
        if isinstance(node, ast.ClassDef) and node.name == clsname:
            for stmt in node.body:
                if (isinstance(stmt, ast.Assign) and len(stmt.targets) == 1 and dotted(stmt.targets[0]) == 'fields_desc'
                        and isinstance(stmt.value, ast.List)):
                    out = []
                    for elt in stmt.value.elts:
                        if not (isinstance(elt, ast.Call) and elt.args and isinstance(elt.args[0], ast.Constant)):
                            _fail(elt, 'unexpected field declaration')
                        kws = dict((kw.arg, kw.value.value) for kw in elt.keywords if isinstance(kw.value, ast.Constant))
                        out.append((dotted(elt.func), elt.args[0].value, kws))
                    return out
    raise TranslateError('fields_desc of %s not found' % clsname)


def translate_messages(tree):
    types = {}
    for node in tree.body:
        if isinstance(node, ast.Expr) and isinstance(node.value, ast.Call) and dotted(node.value.func) == 'packet.bind_layers':
            call = node.value
            if not (len(call.args) == 2 and dotted(call.args[0]) == 'MessageHead' and isinstance(call.args[1], ast.Name)
                    and len(call.keywords) == 1 and call.keywords[0].arg == 'msg_type'):
                _fail(call, 'expected bind_layers(MessageHead, <cls>, msg_type=<int>)')
            types[call.args[1].id] = int_const(call.keywords[0].value)
    head = field_list(tree, 'MessageHead')
    if [(f[0], f[1]) for f in head] != [('fields.ByteField', 'msg_type'), ('fields.FlagsField', 'flags'),
                                        ('fields.BitFieldLenField', 'length'), ('fields.PacketListField', 'hints')]:
        raise TranslateError('MessageHead fields are not msg_type/flags/length/hints: %r' % head)
    hint = field_list(tree, 'HintHead')
    if [(f[0], f[1]) for f in hint] != [('fields.BitField', 'hint_type'), ('fields.BitField', 'h_flag'), ('fields.LenField', 'length')]:
        raise TranslateError('HintHead fields are not hint_type/h_flag/length: %r' % hint)
    if hint[2][2].get('fmt') != 'B':
        raise TranslateError('HintHead.length is not one octet')
    xfer = field_list(tree, '_Transfer')
    if [(f[0], f[1]) for f in xfer] != [('fields.IntField', 'xfer_num'), ('fields.IntField', 'seg_idx')]:
        raise TranslateError('_Transfer fields are not two IntFields xfer_num/seg_idx: %r' % xfer)
    try:
        bits = dict(flags_bits=int(head[1][2]['size']), len_bits=int(head[2][2]['size']),
                    hint_type_bits=int(hint[0][2]['size']), h_flag_bits=int(hint[1][2]['size']))
    except KeyError as err:
        raise TranslateError('field width missing: %s' % err)
    return (types, bits)


def generate(repo_src):
    with open(os.path.join(repo_src, AGENT), 'r') as infile:
        agent_tree = ast.parse(infile.read())
    agent = translate_agent(agent_tree)
    channel = translate_channel(agent_tree)
    with open(os.path.join(repo_src, MESSAGES), 'r') as infile:
        (types, bits) = translate_messages(ast.parse(infile.read()))
    for cls in (agent['pdu_cls'], agent['more_cls'], agent['last_cls'], 'DefinitePadding', 'TransferCancel'):
        if cls not in types:
            raise TranslateError('class %s is not bound to a msg_type' % cls)
    text = '''(** GENERATED by translate/targets/btpubudget.py from src/btpu/agent.py
    (Agent._send_transfer) and src/btpu/messages.py (bind_layers, field
    widths) -- do not edit; regenerated on every check run from the current
    working tree. *)
From Coq Require Import ZArith NArith List.
Import ListNotations.
Local Open Scope Z_scope.

(** "mtu is None or total_len ... mtu ...": the bundle is sent as one PDU *)
Definition unsegmented (total mtu : Z) : bool := %(unseg)s.

(** HintHead(hint_type=..)/Raw(total_len.to_bytes(.., 'big')) *)
Definition hint_type : N := %(hint_type)d%%N.
Definition hint_width : nat := %(hint_width)d%%nat.

(** remain_size, [head_len] standing for len(msg_head) *)
Definition remain_size (mtu head_len : Z) : Z := %(remain)s.

Definition init_idx : Z := (%(init_idx)d).
Definition init_offset : Z := (%(init_offset)d).

(** while-loop test *)
Definition loop_test (seg_offset total : Z) : bool := %(loop_test)s.

(** seg_data = data[slice_lo:slice_hi] *)
Definition slice_lo (seg_offset remain_size : Z) : Z := %(slice_lo)s.
Definition slice_hi (seg_offset remain_size : Z) : Z := %(slice_hi)s.

(** seg_offset after "seg_offset += ..." (before the more/last decision) *)
Definition next_offset (seg_offset remain_size : Z) : Z := %(next_offset)s.

(** "more remaining", evaluated on the ADVANCED offset: true -> %(more_cls)s, false -> %(last_cls)s *)
Definition more_test (seg_offset total : Z) : bool := %(more_test)s.

Definition next_idx (seg_idx : Z) : Z := (seg_idx + (%(idx_step)d)).

(** bind_layers(MessageHead, <cls>, msg_type=..) *)
Definition type_padding : N := %(t_pad)d%%N.   (* DefinitePadding *)
Definition type_pdu : N := %(t_pdu)d%%N.       (* %(pdu_cls)s: the unsegmented branch *)
Definition type_more : N := %(t_more)d%%N.      (* %(more_cls)s: a segment with more remaining *)
Definition type_last : N := %(t_last)d%%N.      (* %(last_cls)s: the last segment *)
Definition type_cancel : N := %(t_cancel)d%%N.    (* TransferCancel *)

(** field widths in bits *)
Definition flags_bits : N := %(flags_bits)d%%N.
Definition len_bits : N := %(len_bits)d%%N.
Definition hint_type_bits : N := %(hint_type_bits)d%%N.
Definition h_flag_bits : N := %(h_flag_bits)d%%N.

(** EthernetChannel: number of dataclass fields (local_if, peer_address,
    local_address, vlan_tag at positions 0..3) and, for each position of the
    tuple its [key] property returns, the index of the field found there *)
Definition chan_nfields : nat := %(nfields)d%%nat.
Definition key_fields : list nat := [%(key_fields)s]%%nat.
(** _recv_msg keys its table by (conv.key, msg.payload.xfer_num) *)
Definition rx_key_is_conv_key_and_xfer_num : bool := true.
''' % dict(agent, nfields=channel['nfields'], key_fields=channel['key_fields'], t_pad=types['DefinitePadding'], t_pdu=types[agent['pdu_cls']], t_more=types[agent['more_cls']],
           t_last=types[agent['last_cls']], t_cancel=types['TransferCancel'], **bits)
    return {'Gen/BtpuBudget.v': text}
