''' C04 -- TCPCL endpoints only emit RFC 9174-legal message sequences. '''
import env  # noqa: F401
import json

import tcpcl_corr as TC
import tcpcl_suite as TS


def build(chk):
    recs = []
    nruns = 30 if chk.quick() else 400
    for idx in range(nruns):
        runner = TS.gen_coop(chk.rng, nops=chk.rng.choice([40, 90, 160]), with_term=(idx % 3 != 0),
                             full_io=(idx % 5 == 0))
        if idx % 2 == 0:
            TC.drain(runner)
        recs.append(TS.finish(runner, 'coop-term' if idx % 3 != 0 else 'coop'))
    # adaptive segment sizing on: whatever the controller computes, no segment may exceed the peer's MRU
    import check_C14
    for (mru, length) in ([(1000, 30000), (500, 9000), (10239, 40000)] if chk.quick()
                          else [(m, n) for m in (1, 100, 1000, 5000, 10239, 10240, 20000) for n in (3000, 30000, 90000)]):
        recs.append(check_C14.modulated(chk, chk.rng, mru, length, chk.rng.choice([1, 2]))[0])
        recs.append(check_C14.modulated(chk, chk.rng, mru, length, 1, slow=True)[0])
    return recs


def evaluate(chk, recs):
    for rec in recs:
        frames = {e: TS.decode_stream(rec.wire[e])[0] for e in 'AB'}
        kinds = sorted(set(f['t'] for e in 'AB' for f in frames[e]))
        nmsg = sum(len(frames[e]) for e in 'AB')
        chk.count('frames_per_run', min(nmsg, 100) // 10 * 10)
        for kind in kinds:
            chk.count('frame_kinds_seen', kind)
        chk.case(ident=json.dumps(rec.replay_obj(), sort_keys=True), nontrivial=(len(kinds) >= 4),
                 sample=dict(cfg_a=rec.runner.cfg_a, cfg_b=rec.runner.cfg_b, ops=len(rec.runner.applied),
                             frames={e: [f['t'] for f in frames[e]][:12] for e in 'AB'}))
        for (sig, what) in TS.oracle_c04(rec):
            chk.fail(sig, what, rec.replay_obj())


if __name__ == '__main__':
    TS.run_check('C04', build, evaluate,
                 rule='two cooperating real endpoints; random interleavings/chunkings/back-pressure, bundle workloads in both '
                      'directions, terminate() at random positions in two thirds of the runs; both octet streams parsed by an '
                      'independent struct-based RFC 9174 decoder and checked against the grammar, segment structure, id freshness, '
                      'MRU bound and ACK echo; non-trivial = at least 4 distinct message kinds on the wire; distinct by op list')
