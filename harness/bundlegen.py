''' Random well-formed BPv7 bundles, an INDEPENDENT RFC 9171 codec (plain ``cbor2`` only, written from the
CDDL of RFC 9171 appendix B - it never touches ``bp.encoding`` / ``scapy_cbor``), and renderers of the same
bundle description into (i) the real ``bp.encoding.Bundle`` object and (ii) a Coq term of
``DTN.Model.Bundle.bundle``.  Used by C02; meant to be reused by C05 / C08 / C11.

The bundle description ("spec") is a plain JSON-able dict:

    spec = {
      'version': 7, 'flags': int, 'crc_type': 0|1|2,
      'dest': eid, 'src': eid, 'report_to': eid,      # EID text: 'dtn:none' | 'dtn:<ssp>' | 'ipn:a.b[.c]'
      'time': int, 'seq': int, 'lifetime': int,
      'frag': [offset, total] | None,                  # present iff flags & 1
      'crc': hex | None,                               # CRC field octets (None iff crc_type == 0)
      'blocks': [ {'type': int, 'num': int, 'flags': int, 'crc_type': int, 'data': hex, 'crc': hex | None,
                   'view': optional typed description of the BTSD (see below)} ... ]   # wire order
    }

    view (only informative; 'data' is authoritative):
      {'kind': 'prev_node', 'eid': eid} | {'kind': 'age', 'ms': int} | {'kind': 'hop', 'limit': int, 'count': int}
      | {'kind': 'admin', 'record': rec} | {'kind': 'asb', ...} | {'kind': 'raw'}
    rec (administrative record, RFC 9171 section 6.1):
      {'type': 1, 'status': [[bool, time|None] x4], 'reason': int, 'src': eid, 'time': int, 'seq': int,
       'frag_off': int|None, 'pay_len': int|None}
      | {'type': n != 1, 'content': <json-able CBOR value: ints, hex-tagged bytes {"h": hex}, text, lists, None>}

API (all deterministic given the ``random.Random`` passed in):
    gen_bundle(rng, **opts) -> spec            boundary-directed random well-formed bundle (CRCs filled in)
    gen_eid(rng, kinds=...) / gen_status_report(rng, ...) / gen_admin_record(rng)
    BOUNDARY                                   CBOR head boundary integers
    BLOCK_COUNT_BOUNDARY                       numbers of extension blocks around the item-count head boundaries
    fill_crc(spec) -> spec                     (re)compute every CRC field independently (bitwise CRC)
    encode(spec) -> bytes                      independent encoder (uses the CRC octets stored in the spec)
    decode(raw) -> spec                        independent strict decoder (raises ValueError on anything that
                                               is not the RFC 9171 structure in shortest-form CBOR)
    shape_problems(raw, want_canonical=True) -> [str]   the RFC 9171 structure as plain ``cbor2.loads`` reads it
    encode_admin(rec) -> bytes / decode_admin(data) -> rec
    crc_ok(spec) -> {block_num: bool}          CRC check over the octets the independent encoder emits
    build_real(spec, via_payload=False, update_crc=False, time_as='int') -> bp.encoding.Bundle   (imports /repo lazily)
    dtn_datetime(ms) / dtn_ms(datetime) / time_value(ms, 'int'|'datetime'|'iso') / gen_time_sweep()   exact DTN time helpers
    spec_of_real(bundle) -> spec               field values of a real (decoded) Bundle object
    coq_bundle(spec) -> str                    Coq term of type Model.Bundle.bundle
    coq_status_report(rec) -> str              Coq term of type Model.Bundle.status_report
'''
import io

import cbor2

# --------------------------------------------------------------------------- constants (RFC 9171)

FLAG_IS_FRAGMENT = 0x000001
FLAG_PAYLOAD_ADMIN = 0x000002
FLAG_NO_FRAGMENT = 0x000004
FLAG_USER_APP_ACK = 0x000020
FLAG_REQ_STATUS_TIME = 0x000040
FLAG_REQ_RECEPTION = 0x004000
FLAG_REQ_FORWARDING = 0x010000
FLAG_REQ_DELIVERY = 0x020000
FLAG_REQ_DELETION = 0x040000
PRIMARY_FLAGS = [FLAG_IS_FRAGMENT, FLAG_PAYLOAD_ADMIN, FLAG_NO_FRAGMENT, FLAG_USER_APP_ACK, FLAG_REQ_STATUS_TIME,
                 FLAG_REQ_RECEPTION, FLAG_REQ_FORWARDING, FLAG_REQ_DELIVERY, FLAG_REQ_DELETION]
BLOCK_FLAGS = [0x01, 0x02, 0x04, 0x10]

BLOCK_PAYLOAD = 1
BLOCK_PREV_NODE = 6
BLOCK_AGE = 7
BLOCK_HOP = 10
BLOCK_BIB = 11
BLOCK_BCB = 12
KNOWN_TYPES = (BLOCK_PREV_NODE, BLOCK_AGE, BLOCK_HOP, BLOCK_BIB, BLOCK_BCB)

# integers around every CBOR head-size boundary
BOUNDARY = [0, 1, 23, 24, 25, 255, 256, 257, 65535, 65536, 65537, 2 ** 32 - 1, 2 ** 32, 2 ** 32 + 1, 2 ** 64 - 1]

# numbers of extension blocks around the array-head boundaries of the bundle's item count (2 + n_ext = 23/24, 255/256)
BLOCK_COUNT_BOUNDARY = [21, 22, 23, 24, 25, 253, 254, 255, 256, 257]

# status-report reason codes assigned by RFC 9171 section 9.5 (0..11) and RFC 9172 (12..16)
REASONS_RFC9171 = list(range(0, 12))
REASONS_RFC9172 = list(range(12, 17))

CRC_LEN = {1: 2, 2: 4}


# --------------------------------------------------------------------------- DTN time <-> datetime, integers only

import datetime as _dt

DTN_EPOCH = _dt.datetime(2000, 1, 1, tzinfo=_dt.timezone.utc)
# largest DTN time (ms) a datetime can hold; timedelta // timedelta is exact integer arithmetic
MAX_DATETIME_MS = (_dt.datetime.max.replace(tzinfo=_dt.timezone.utc) - DTN_EPOCH) // _dt.timedelta(milliseconds=1)


def dtn_datetime(ms):
    """ The instant ``ms`` milliseconds after the DTN epoch (RFC 9171 section 4.2.6), by integer arithmetic. """
    (secs, rem) = divmod(int(ms), 1000)
    (days, secs) = divmod(secs, 86400)
    return DTN_EPOCH + _dt.timedelta(days=days, seconds=secs, microseconds=rem * 1000)


def dtn_ms(when):
    """ Exact integer milliseconds since the DTN epoch of an aware datetime (floor). """
    return (when - DTN_EPOCH) // _dt.timedelta(milliseconds=1)


def time_value(ms, time_as):
    """ How a DTN time is handed to the implementation: the integer, an aware ``datetime`` or ISO text (both
    accepted by ``DtnTimeField.any2i``).  Instants a datetime cannot hold stay integers. """
    if time_as == 'int' or not 0 <= ms <= MAX_DATETIME_MS:
        return ms
    when = dtn_datetime(ms)
    assert dtn_ms(when) == ms
    if time_as == 'datetime':
        return when
    return when.replace(tzinfo=None).isoformat(timespec='milliseconds')


def gen_time_sweep(offsets=(-2, -1, 0, 1, 2, 3, 4, 5, 6, 7, 8, 9), kmax=45):
    """ Deterministic ms instants around every power of two of BOTH milliseconds and seconds since 2000
    (binary floating point conversions go wrong just above 2^k seconds, where ms needs k+10 bits). """
    out = []
    seen = set()
    for k in range(kmax + 1):
        for centre in (2 ** k, 2 ** k * 1000):
            for off in offsets:
                val = centre + off
                if val >= 0 and val not in seen:
                    seen.add(val)
                    out.append(val)
    return out


# --------------------------------------------------------------------------- independent CRCs (bitwise)

def _crc_reflected(data, poly, width):
    mask = (1 << width) - 1
    crc = mask
    for octet in bytes(data):
        crc ^= octet
        for _ in range(8):
            crc = (crc >> 1) ^ poly if crc & 1 else crc >> 1
    return (crc ^ mask) & mask


def crc16_x25(data):
    return _crc_reflected(data, 0x8408, 16)


def crc32c(data):
    return _crc_reflected(data, 0x82F63B78, 32)


assert crc16_x25(b'123456789') == 0x906E
assert crc32c(b'123456789') == 0xE3069283
CRC_FUN = {1: crc16_x25, 2: crc32c}


# --------------------------------------------------------------------------- EIDs (RFC 9171 section 4.2.5.1)

def eid_to_item(eid):
    ''' EID text -> CBOR item, by prefix only (no URI library): ``[1, 0]`` for dtn:none, ``[1, ssp-text]``
    for any other dtn URI, ``[2, [ints]]`` for ipn. '''
    if eid == 'dtn:none':
        return [1, 0]
    if eid.startswith('dtn:'):
        return [1, eid[4:]]
    if eid.startswith('ipn:'):
        return [2, [int(part) for part in eid[4:].split('.')]]
    raise ValueError('unsupported EID %r' % (eid,))


def _is_uint(val):
    return isinstance(val, int) and not isinstance(val, bool) and 0 <= val < 2 ** 64


def eid_of_item(item):
    if not isinstance(item, list) or len(item) != 2 or not _is_uint(item[0]):
        raise ValueError('EID is not [uint, ssp]: %r' % (item,))
    (scheme, ssp) = item
    if scheme == 1:
        if _is_uint(ssp):
            if ssp != 0:
                raise ValueError('dtn integer SSP other than 0')
            return 'dtn:none'
        if not isinstance(ssp, str) or ssp == 'none':
            raise ValueError('dtn SSP not 0 / text (or the text "none")')
        return 'dtn:' + ssp
    if scheme == 2:
        if not isinstance(ssp, list) or len(ssp) not in (2, 3) or not all(_is_uint(part) for part in ssp):
            raise ValueError('ipn SSP is not 2 or 3 uints')
        return 'ipn:' + '.'.join(str(part) for part in ssp)
    raise ValueError('unknown EID scheme %r' % (scheme,))


NODE_CHARS = 'abcdefghijklmnopqrstuvwxyzABCDEFGHIJKLMNOPQRSTUVWXYZ0123456789-._'
# demux = *VCHAR (RFC 9171 section 4.2.5.1.1); '?' and '#' are VCHARs but are generated only on request
DEMUX_PLAIN = [chr(c) for c in range(0x21, 0x7f) if chr(c) not in '?#']


def gen_dtn_ssp(rng, query_chars=False, demux_len=None):
    ''' SSP per the RFC 9171 ABNF:  "//" node-name "/" demux. '''
    node = ''.join(rng.choice(NODE_CHARS) for _ in range(rng.choice([1, 1, 2, 4, 8, 20])))
    if demux_len is None:
        demux_len = rng.choice([0, 0, 1, 3, 3, 7, 12, 19, 30])
    chars = DEMUX_PLAIN + (['?', '#'] * 8 if query_chars else [])
    demux = ''.join(rng.choice(chars) for _ in range(demux_len))
    if query_chars and '?' not in demux and '#' not in demux:
        pos = rng.randrange(len(demux) + 1)
        demux = demux[:pos] + rng.choice('?#') + demux[pos:]
    return '//' + node + '/' + demux


def gen_eid(rng, kinds=('none', 'dtn', 'ipn', 'ipn3'), query_chars=False):
    kind = rng.choice(list(kinds))
    if kind == 'none':
        return 'dtn:none'
    if kind == 'dtn':
        return 'dtn:' + gen_dtn_ssp(rng, query_chars)
    count = 3 if kind == 'ipn3' else 2
    return 'ipn:' + '.'.join(str(gen_uint(rng)) for _ in range(count))


def gen_uint(rng, small=0.35):
    roll = rng.random()
    if roll < small:
        return rng.randrange(0, 24)
    if roll < 0.8:
        return rng.choice(BOUNDARY)
    return rng.randrange(0, 2 ** rng.choice([8, 16, 32, 40, 64]))


# --------------------------------------------------------------------------- administrative records

def _content_to_cbor(val):
    if isinstance(val, dict) and set(val) == {'h'}:
        return bytes.fromhex(val['h'])
    if isinstance(val, list):
        return [_content_to_cbor(item) for item in val]
    return val


def _content_of_cbor(val):
    if isinstance(val, bytes):
        return {'h': val.hex()}
    if isinstance(val, list):
        return [_content_of_cbor(item) for item in val]
    if val is None or isinstance(val, (int, str)):
        return val
    raise ValueError('administrative record content outside the generated subset: %r' % (val,))


def admin_item(rec):
    ''' rec -> CBOR item  [record type, content]. '''
    if rec['type'] != 1:
        return [rec['type'], _content_to_cbor(rec['content'])]
    status = [[bool(flag)] + ([] if when is None else [when]) for (flag, when) in rec['status']]
    body = [status, rec['reason'], eid_to_item(rec['src']), [rec['time'], rec['seq']]]
    if rec.get('frag_off') is not None:
        body.append(rec['frag_off'])
        if rec.get('pay_len') is not None:
            body.append(rec['pay_len'])
    elif rec.get('pay_len') is not None:
        raise ValueError('payload length without fragment offset is not encodable')
    return [1, body]


def encode_admin(rec):
    return cbor2.dumps(admin_item(rec))


def admin_of_item(item):
    if not isinstance(item, list) or len(item) != 2 or not _is_uint(item[0]):
        raise ValueError('administrative record is not [uint, content]')
    if item[0] != 1:
        return dict(type=item[0], content=_content_of_cbor(item[1]))
    body = item[1]
    if not isinstance(body, list) or not 4 <= len(body) <= 6:
        raise ValueError('status report has %r items' % (len(body) if isinstance(body, list) else None,))
    stat = body[0]
    if not isinstance(stat, list) or len(stat) != 4:
        raise ValueError('status information is not a 4-array')
    status = []
    for ent in stat:
        if not isinstance(ent, list) or len(ent) not in (1, 2) or not isinstance(ent[0], bool):
            raise ValueError('status item malformed: %r' % (ent,))
        if len(ent) == 2 and not _is_uint(ent[1]):
            raise ValueError('status time malformed: %r' % (ent,))
        status.append([ent[0], ent[1] if len(ent) == 2 else None])
    if not _is_uint(body[1]):
        raise ValueError('reason code malformed')
    if not isinstance(body[3], list) or len(body[3]) != 2 or not all(_is_uint(val) for val in body[3]):
        raise ValueError('subject timestamp malformed')
    for val in body[4:]:
        if not _is_uint(val):
            raise ValueError('fragment field malformed')
    return dict(type=1, status=status, reason=body[1], src=eid_of_item(body[2]), time=body[3][0], seq=body[3][1],
                frag_off=(body[4] if len(body) > 4 else None), pay_len=(body[5] if len(body) > 5 else None))


def decode_admin(data):
    ''' Strict: exactly one shortest-form item. '''
    item = _loads_canonical(bytes(data))
    return admin_of_item(item)


def gen_status_report(rng, reasons=None, pattern=None, eid_kinds=('none', 'dtn', 'ipn')):
    ''' ``pattern`` = (p0, p1, p2, p3, nfrag): presence of each status time, number of trailing optional
    fields (0, 1 or 2); random when None. '''
    if pattern is None:
        pattern = tuple(rng.random() < 0.5 for _ in range(4)) + (rng.choice([0, 1, 2]),)
    status = []
    for has_time in pattern[:4]:
        status.append([rng.random() < 0.6, (gen_uint(rng) if has_time else None)])
    reasons = list(reasons if reasons is not None else (REASONS_RFC9171 + REASONS_RFC9172))
    rec = dict(type=1, status=status, reason=rng.choice(reasons), src=gen_eid(rng, eid_kinds),
               time=gen_uint(rng), seq=gen_uint(rng), frag_off=None, pay_len=None)
    if pattern[4] >= 1:
        rec['frag_off'] = gen_uint(rng)
    if pattern[4] >= 2:
        rec['pay_len'] = gen_uint(rng)
    return rec


def _gen_content(rng, depth=0):
    roll = rng.random()
    if roll < 0.3 or depth >= 2:
        return gen_uint(rng)
    if roll < 0.5:
        return {'h': bytes(rng.randrange(256) for _ in range(rng.choice([0, 1, 5, 24]))).hex()}
    if roll < 0.6:
        return ''.join(rng.choice(NODE_CHARS) for _ in range(rng.choice([0, 3, 25])))
    return [_gen_content(rng, depth + 1) for _ in range(rng.choice([0, 1, 2, 4]))]


def gen_admin_record(rng, **kwargs):
    if rng.random() < 0.8:
        return gen_status_report(rng, **kwargs)
    # record types not bound by the implementation (the content must be a non-empty/truthy item or an array:
    # see check_C02 lax stream for [type, 0]-style contents)
    content = _gen_content(rng)
    if isinstance(content, dict):
        # a bare byte string as record content is (mis)read by the implementation as *encoded* CBOR
        # (check_C02 lax stream: "administrative record of unbound type with byte-string content")
        content = [content]
    return dict(type=rng.choice([2, 3, 4, 23, 24, 255, 65536]), content=content)


# --------------------------------------------------------------------------- block-type-specific data

def asb_items(view):
    ''' RFC 9172 section 3.6 abstract security block as the list of items of its CBOR sequence. '''
    items = [list(view['targets']), view['context'], view['ctx_flags'], eid_to_item(view['source'])]
    if view['ctx_flags'] & 1:
        items.append([[pid, _content_to_cbor(val)] for (pid, val) in view['params']])
    items.append([[[rid, _content_to_cbor(val)] for (rid, val) in tgt] for tgt in view['results']])
    return items


def view_data(view):
    ''' Encode a typed BTSD view. '''
    kind = view['kind']
    if kind == 'prev_node':
        return cbor2.dumps(eid_to_item(view['eid']))
    if kind == 'age':
        return cbor2.dumps(view['ms'])
    if kind == 'hop':
        return cbor2.dumps([view['limit'], view['count']])
    if kind == 'admin':
        return encode_admin(view['record'])
    if kind == 'asb':
        return b''.join(cbor2.dumps(item) for item in asb_items(view))
    raise ValueError(kind)


def gen_view(rng, btype):
    if btype == BLOCK_PREV_NODE:
        return dict(kind='prev_node', eid=gen_eid(rng, ('dtn', 'ipn', 'none')))
    if btype == BLOCK_AGE:
        return dict(kind='age', ms=gen_uint(rng))
    if btype == BLOCK_HOP:
        return dict(kind='hop', limit=gen_uint(rng), count=gen_uint(rng))
    if btype in (BLOCK_BIB, BLOCK_BCB):
        ntgt = rng.choice([1, 1, 2])
        has_par = rng.random() < 0.6
        return dict(kind='asb', targets=[rng.choice([0, 1, 2, 3]) for _ in range(ntgt)], context=rng.choice([1, 2, 3, 99]),
                    ctx_flags=(1 if has_par else 0), source=gen_eid(rng, ('dtn', 'ipn')),
                    params=([[rng.randrange(1, 6), _gen_content(rng, 1)] for _ in range(rng.choice([0, 1, 2]))] if has_par else []),
                    results=[[[rng.randrange(1, 4), {'h': bytes(rng.randrange(256) for _ in range(rng.choice([0, 8, 32]))).hex()}]
                              for _ in range(rng.choice([1, 2]))] for _ in range(ntgt)])
    return dict(kind='raw')


def gen_data(rng, sizes=(0, 1, 2, 5, 23, 24, 25, 60, 255, 256, 300)):
    size = rng.choice(list(sizes))
    return bytes(rng.randrange(256) for _ in range(size))


# --------------------------------------------------------------------------- the bundle generator

def gen_bundle(rng, flags=None, crc_types=None, admin=None, n_ext=None, eid_kinds=('none', 'dtn', 'ipn', 'ipn3'),
               payload_sizes=(0, 1, 2, 5, 23, 24, 25, 60, 255, 256, 300), reasons=None, unknown_flag_bits=True,
               version=7, tiny_ext=False):
    ''' One well-formed bundle (RFC 9171): unique block numbers, payload block (type 1, number 1) last,
    fragment fields iff IS_FRAGMENT, CRC values present and correct iff CRC type != 0.

    :param flags: primary flags (None = a random subset of the defined flags, sometimes plus unassigned bits).
    :param crc_types: list of CRC types, [primary, ext..., payload] (None = random per block).
    :param admin: True / False / None(random): payload is an administrative record (sets PAYLOAD_ADMIN).
    :param n_ext: number of extension blocks before the payload block.  The block COUNT is a dimension with its own
        CBOR head boundaries: the bundle array has 2 + n_ext items, so n_ext = 21/22 (23/24 items) and
        n_ext = 253/254 (255/256 items) straddle the 1/2- and 2/3-octet array heads a definite-length framing
        would have (BLOCK_COUNT_BOUNDARY).
    :param tiny_ext: extension blocks of unknown type with 0..3 octets of BTSD and mostly no CRC (cheap bundles
        with hundreds of blocks).
    '''
    if flags is None:
        flags = 0
        for bit in PRIMARY_FLAGS:
            if rng.random() < 0.35:
                flags |= bit
        if unknown_flag_bits and rng.random() < 0.15:
            flags |= rng.choice([0x8, 0x80, 0x100000, 2 ** 40, 2 ** 63])
    if admin is None:
        admin = bool(flags & FLAG_PAYLOAD_ADMIN)
    flags = (flags | FLAG_PAYLOAD_ADMIN) if admin else (flags & ~FLAG_PAYLOAD_ADMIN)
    if n_ext is None:
        n_ext = rng.choice([0, 0, 1, 1, 2, 3, 5])

    def crc_for(idx):
        if crc_types is not None:
            return crc_types[idx % len(crc_types)]
        return rng.choice([0, 1, 2])

    spec = dict(version=version, flags=flags, crc_type=crc_for(0),
                dest=gen_eid(rng, eid_kinds), src=gen_eid(rng, eid_kinds), report_to=gen_eid(rng, eid_kinds),
                time=gen_uint(rng), seq=gen_uint(rng), lifetime=gen_uint(rng),
                frag=([gen_uint(rng), gen_uint(rng)] if flags & FLAG_IS_FRAGMENT else None), crc=None, blocks=[])
    nums = rng.sample(range(2, max(40, 2 * n_ext + 4)), n_ext)
    if n_ext and rng.random() < 0.3:
        nums[0] = rng.choice([65536, 2 ** 32, 2 ** 64 - 1])
    for (idx, num) in enumerate(nums):
        if tiny_ext:
            btype = rng.choice([2, 3, 5, 8, 9, 13, 23, 24, 191, 192, 255, 256])
        elif rng.random() < 0.6:
            btype = rng.choice(KNOWN_TYPES)
        else:
            btype = rng.choice([2, 3, 5, 8, 9, 13, 23, 24, 191, 192, 255, 256, 65535, 65536, 2 ** 32, 2 ** 64 - 1])
        view = gen_view(rng, btype)
        data = view_data(view) if view['kind'] != 'raw' else gen_data(rng, (0, 1, 2, 3) if tiny_ext else (0, 1, 2, 5, 23, 24, 25, 60, 255, 256, 300))
        bflags = 0
        for bit in BLOCK_FLAGS:
            if rng.random() < 0.3:
                bflags |= bit
        if rng.random() < 0.1:
            bflags |= rng.choice([0x08, 0x20, 0x40, 2 ** 32])
        bcrc = crc_for(1 + idx) if not (tiny_ext and crc_types is None and rng.random() < 0.8) else 0
        spec['blocks'].append(dict(type=btype, num=num, flags=bflags, crc_type=bcrc, data=data.hex(), crc=None, view=view))
    if admin:
        view = dict(kind='admin', record=gen_admin_record(rng, reasons=reasons))
        data = view_data(view)
    else:
        view = dict(kind='raw')
        data = gen_data(rng, payload_sizes)
    spec['blocks'].append(dict(type=BLOCK_PAYLOAD, num=1, flags=rng.choice([0, 0, 0, 1, 4]), crc_type=crc_for(1 + n_ext),
                               data=data.hex(), crc=None, view=view))
    if not admin and len(data) > 5000:
        seed = rng.randrange(2 ** 31)
        spec['blocks'][-1]['mk'] = [seed, len(data)]
        spec['blocks'][-1]['data'] = mkdata(seed, len(data)).hex()
    return fill_crc(spec)


# --------------------------------------------------------------------------- independent encoder

def primary_items(spec, crc=None):
    items = [spec['version'], spec['flags'], spec['crc_type'], eid_to_item(spec['dest']), eid_to_item(spec['src']),
             eid_to_item(spec['report_to']), [spec['time'], spec['seq']], spec['lifetime']]
    if spec['frag'] is not None:
        items += [spec['frag'][0], spec['frag'][1]]
    crc = spec['crc'] if crc is None else crc
    if crc is not None:
        items.append(bytes.fromhex(crc))
    return items


def block_items(blk, crc=None):
    items = [blk['type'], blk['num'], blk['flags'], blk['crc_type'], bytes.fromhex(blk['data'])]
    crc = blk['crc'] if crc is None else crc
    if crc is not None:
        items.append(bytes.fromhex(crc))
    return items


def _crc_of(items_fun, obj):
    ctype = obj['crc_type']
    if ctype == 0:
        return None
    size = CRC_LEN[ctype]
    pre = cbor2.dumps(items_fun(obj, crc=(b'\x00' * size).hex()))
    return CRC_FUN[ctype](pre).to_bytes(size, 'big').hex()


def fill_crc(spec):
    ''' RFC 9171 section 4.2.1: the CRC is computed over the block's encoding with the CRC field zeroed. '''
    spec['crc'] = _crc_of(primary_items, spec)
    for blk in spec['blocks']:
        blk['crc'] = _crc_of(block_items, blk)
    return spec


def crc_ok(spec):
    out = {0: spec['crc'] == _crc_of(primary_items, spec)}
    for blk in spec['blocks']:
        out[blk['num']] = blk['crc'] == _crc_of(block_items, blk)
    return out


def encode(spec):
    ''' RFC 9171 section 4.1: an indefinite-length array of definite-length block arrays, then "break". '''
    out = b'\x9f' + cbor2.dumps(primary_items(spec))
    for blk in spec['blocks']:
        out += cbor2.dumps(block_items(blk))
    return out + b'\xff'


# --------------------------------------------------------------------------- independent decoder / shape

def _loads_canonical(data):
    ''' Exactly one item, nothing after it, in the shortest definite-length form. '''
    stream = io.BytesIO(data)
    try:
        item = cbor2.CBORDecoder(stream).decode()
    except Exception as err:
        raise ValueError('not CBOR: %s' % err)
    if stream.tell() != len(data):
        raise ValueError('trailing octets after the item')
    if cbor2.dumps(item) != data:
        raise ValueError('item is not in shortest definite-length form')
    return item


def split_items(raw):
    ''' Octets of each top-level item of an indefinite-length array. '''
    raw = bytes(raw)
    if raw[:1] != b'\x9f':
        raise ValueError('bundle is not an indefinite-length array')
    stream = io.BytesIO(raw)
    stream.read(1)
    dec = cbor2.CBORDecoder(stream)
    parts = []
    while True:
        start = stream.tell()
        if start >= len(raw):
            raise ValueError('missing break')
        if raw[start:start + 1] == b'\xff':
            if start + 1 != len(raw):
                raise ValueError('trailing octets after break')
            return parts
        try:
            item = dec.decode()
        except Exception as err:   # cbor2 raises several unrelated classes
            raise ValueError('not CBOR at offset %d: %s' % (start, err))
        parts.append((item, raw[start:stream.tell()]))


def decode(raw):
    parts = split_items(raw)
    if not parts:
        raise ValueError('no primary block')
    for (item, octets) in parts:
        if cbor2.dumps(item) != octets:
            raise ValueError('block is not in shortest definite-length form')
    pri = parts[0][0]
    if not isinstance(pri, list) or not 8 <= len(pri) <= 11:
        raise ValueError('primary block shape')
    for idx in (0, 1, 2, 7):
        if not _is_uint(pri[idx]):
            raise ValueError('primary field %d is not a uint' % idx)
    (version, flags, ctype) = pri[:3]
    if ctype not in (0, 1, 2):
        raise ValueError('CRC type')
    want = 8 + (2 if flags & FLAG_IS_FRAGMENT else 0) + (1 if ctype else 0)
    if len(pri) != want:
        raise ValueError('primary block has %d items, expected %d' % (len(pri), want))
    if not isinstance(pri[6], list) or len(pri[6]) != 2 or not all(_is_uint(val) for val in pri[6]):
        raise ValueError('creation timestamp')
    spec = dict(version=version, flags=flags, crc_type=ctype, dest=eid_of_item(pri[3]), src=eid_of_item(pri[4]),
                report_to=eid_of_item(pri[5]), time=pri[6][0], seq=pri[6][1], lifetime=pri[7], frag=None, crc=None, blocks=[])
    pos = 8
    if flags & FLAG_IS_FRAGMENT:
        if not (_is_uint(pri[8]) and _is_uint(pri[9])):
            raise ValueError('fragment fields')
        spec['frag'] = [pri[8], pri[9]]
        pos = 10
    if ctype:
        if not isinstance(pri[pos], bytes):
            raise ValueError('primary CRC is not a bstr')
        spec['crc'] = pri[pos].hex()
    for (blk, _octets) in parts[1:]:
        if not isinstance(blk, list) or len(blk) not in (5, 6):
            raise ValueError('canonical block shape')
        if not all(_is_uint(val) for val in blk[:4]) or blk[3] not in (0, 1, 2):
            raise ValueError('canonical block integer fields')
        if len(blk) != 5 + (1 if blk[3] else 0):
            raise ValueError('canonical block CRC presence')
        if not isinstance(blk[4], bytes) or (blk[3] and not isinstance(blk[5], bytes)):
            raise ValueError('canonical block bstr fields')
        spec['blocks'].append(dict(type=blk[0], num=blk[1], flags=blk[2], crc_type=blk[3], data=blk[4].hex(),
                                   crc=(blk[5].hex() if blk[3] else None)))
    return spec


def shape_problems(raw, want_canonical=True):
    ''' The RFC 9171 section 4.1 / 4.3 structure as an independent decoder (plain cbor2) reads it. '''
    raw = bytes(raw)
    probs = []
    if raw[:1] != b'\x9f':
        probs.append('first octet is not 0x9f (indefinite-length array)')
    if raw[-1:] != b'\xff':
        probs.append('last octet is not the break 0xff')
    try:
        stream = io.BytesIO(raw)
        top = cbor2.CBORDecoder(stream).decode()
        if stream.tell() != len(raw):
            probs.append('octets after the bundle array')
    except Exception as err:
        return probs + ['cbor2 cannot decode: %s' % err]
    if not isinstance(top, list) or not top:
        return probs + ['not a non-empty array']
    pri = top[0]
    if not isinstance(pri, list) or not 8 <= len(pri) <= 11:
        probs.append('primary block is not an array of 8..11 items')
    else:
        want = 8
        if _is_uint(pri[1]) and pri[1] & FLAG_IS_FRAGMENT:
            want += 2
        if pri[2] != 0:
            want += 1
        if len(pri) != want:
            probs.append('primary block has %d items, flags/CRC type call for %d' % (len(pri), want))
    if len(top) < 2:
        probs.append('no canonical block (payload block missing)')
    for (idx, blk) in enumerate(top[1:]):
        if not isinstance(blk, list) or len(blk) not in (5, 6):
            probs.append('block #%d is not an array of 5..6 items' % (idx + 1))
            continue
        if len(blk) != 5 + (1 if blk[3] != 0 else 0):
            probs.append('block #%d item count does not match its CRC type' % (idx + 1))
        if not isinstance(blk[4], bytes):
            probs.append('block #%d BTSD is not a byte string' % (idx + 1))
    if len(top) >= 2 and isinstance(top[-1], list) and top[-1] and top[-1][0] != BLOCK_PAYLOAD:
        probs.append('last block is not the payload block')
    if want_canonical and not probs:
        try:
            for (item, octets) in split_items(raw):
                if cbor2.dumps(item) != octets:
                    probs.append('a block is not encoded in definite-length shortest form')
        except ValueError as err:
            probs.append(str(err))
    return probs


# --------------------------------------------------------------------------- real objects (lazy /repo import)

def _real_payload(view, time_as='int'):
    import bp.encoding as enc
    from scapy_cbor.packets import CborItem
    kind = view['kind']
    if kind == 'prev_node':
        return enc.PreviousNodeBlock(node=view['eid'])
    if kind == 'age':
        return enc.BundleAgeBlock(age=view['ms'])
    if kind == 'hop':
        return enc.HopCountBlock(limit=view['limit'], count=view['count'])
    if kind == 'admin':
        rec = view['record']
        if rec['type'] != 1:
            return enc.AdminRecord(type_code=rec['type']) / CborItem(item=_content_to_cbor(rec['content']))
        names = ('received', 'forwarded', 'delivered', 'deleted')
        infos = {}
        for (name, (flag, when)) in zip(names, rec['status']):
            infos[name] = enc.StatusInfo(status=flag, at=time_value(when, time_as)) if when is not None else enc.StatusInfo(status=flag)
        kwargs = dict(status=enc.StatusInfoArray(**infos), reason_code=rec['reason'], subj_source=rec['src'],
                      subj_ts=enc.Timestamp(dtntime=time_value(rec['time'], time_as), seqno=rec['seq']))
        if rec['frag_off'] is not None:
            kwargs['fragment_offset'] = rec['frag_off']
        if rec['pay_len'] is not None:
            kwargs['payload_len'] = rec['pay_len']
        return enc.AdminRecord() / enc.StatusReport(**kwargs)
    return None


def build_real(spec, via_payload=False, update_crc=False, time_as='int'):
    ''' The real ``bp.encoding.Bundle`` for a spec.

    :param via_payload: give typed blocks (previous node, age, hop count, administrative record) as scapy
        payload objects instead of BTSD octets (exercises ``ensure_block_type_specific_data`` and the
        administrative-record path of ``Bundle``).
    :param time_as: 'int' | 'datetime' | 'iso' - how DTN times (creation time, status times, subject time) are
        given to the implementation (``time_value``); exercises ``DtnTimeField.datetime_to_dtntime``.
    :param update_crc: leave the CRC fields unset and let the implementation's ``update_all_crc`` fill them;
        otherwise the CRC octets of the spec are given as field values.
    '''
    import bp.encoding as enc
    pri = dict(bp_version=spec['version'], bundle_flags=spec['flags'], crc_type=spec['crc_type'],
               destination=spec['dest'], source=spec['src'], report_to=spec['report_to'],
               create_ts=enc.Timestamp(dtntime=time_value(spec['time'], time_as), seqno=spec['seq']), lifetime=spec['lifetime'])
    if spec['frag'] is not None:
        pri.update(fragment_offset=spec['frag'][0], total_app_data_len=spec['frag'][1])
    if spec['crc'] is not None and not update_crc:
        pri['crc_value'] = bytes.fromhex(spec['crc'])
    blocks = []
    for blk in spec['blocks']:
        kwargs = dict(type_code=blk['type'], block_num=blk['num'], block_flags=blk['flags'], crc_type=blk['crc_type'])
        if blk['crc'] is not None and not update_crc:
            kwargs['crc_value'] = bytes.fromhex(blk['crc'])
        pay = _real_payload(blk.get('view') or dict(kind='raw'), time_as) if via_payload else None
        if pay is None:
            kwargs['btsd'] = bytes.fromhex(blk['data'])
            blocks.append(enc.CanonicalBlock(**kwargs))
        else:
            blocks.append(enc.CanonicalBlock(**kwargs) / pay)
    bundle = enc.Bundle(primary=enc.PrimaryBlock(**pri), blocks=blocks)
    if update_crc:
        bundle.update_all_crc()
    return bundle


def _hex_or_none(val):
    return None if val is None else bytes(val).hex()


def spec_of_real(bundle):
    ''' Field values of a real Bundle (as decoded), in spec form (no 'view'). '''
    pri = bundle.primary
    flags = int(pri.getfieldval('bundle_flags'))
    ctype = int(pri.getfieldval('crc_type'))
    spec = dict(version=pri.getfieldval('bp_version'), flags=flags, crc_type=ctype,
                dest=pri.getfieldval('destination'), src=pri.getfieldval('source'), report_to=pri.getfieldval('report_to'),
                time=pri.getfieldval('create_ts').getfieldval('dtntime'), seq=pri.getfieldval('create_ts').getfieldval('seqno'),
                lifetime=pri.getfieldval('lifetime'),
                frag=([pri.getfieldval('fragment_offset'), pri.getfieldval('total_app_data_len')] if flags & FLAG_IS_FRAGMENT else None),
                crc=(_hex_or_none(pri.fields.get('crc_value')) if ctype else None), blocks=[])
    for blk in bundle.blocks:
        bct = int(blk.getfieldval('crc_type'))
        spec['blocks'].append(dict(type=blk.getfieldval('type_code'), num=blk.getfieldval('block_num'),
                                   flags=int(blk.getfieldval('block_flags')), crc_type=bct,
                                   data=_hex_or_none(blk.getfieldval('btsd')),
                                   crc=(_hex_or_none(blk.fields.get('crc_value')) if bct else None)))
    return spec


def admin_of_real(blk):
    ''' The administrative record the implementation parsed out of a payload block, as ``rec`` (or None). '''
    import bp.encoding as enc
    pay = blk.payload
    if not isinstance(pay, enc.AdminRecord):
        return None
    rtype = pay.getfieldval('type_code')
    body = pay.payload
    if isinstance(body, enc.StatusReport):
        stat = body.getfieldval('status')
        status = []
        for name in ('received', 'forwarded', 'delivered', 'deleted'):
            info = stat.getfieldval(name)
            status.append([bool(info.getfieldval('status')), info.getfieldval('at')])
        ts = body.getfieldval('subj_ts')
        return dict(type=rtype, status=status, reason=int(body.getfieldval('reason_code')), src=body.getfieldval('subj_source'),
                    time=ts.getfieldval('dtntime'), seq=ts.getfieldval('seqno'),
                    frag_off=body.getfieldval('fragment_offset'), pay_len=body.getfieldval('payload_len'))
    try:
        return dict(type=rtype, content=_content_of_cbor(body.getfieldval('item')))
    except Exception:
        return dict(type=rtype, content='<unparsed %s>' % body.__class__.__name__)


# --------------------------------------------------------------------------- Coq terms (Model.Bundle)

def _coq_bytes(data):
    ''' Octets as a plain list literal.  (Lib.Bytes.unhex costs a long division per octet of a number of 8*len
    bits - cubic in the length - so it is not used; elaborating the literal is what dominates a case.) '''
    data = bytes(data)
    if len(data) == 0:
        return '(@nil N)'
    return '[' + ';'.join(str(b) for b in data) + ']%N'


def coq_eid(eid):
    if eid == 'dtn:none':
        return 'EidDtnNone'
    if eid.startswith('dtn:'):
        return '(EidDtn %s)' % _coq_bytes(eid[4:].encode('utf8'))
    parts = [int(part) for part in eid[4:].split('.')]
    return '(EidIpn [%s]%%N)' % '; '.join(str(part) for part in parts)


def _coq_opt_bytes(hexval):
    return '(@None bytes)' if hexval is None else '(Some %s)' % _coq_bytes(bytes.fromhex(hexval))


def coq_primary(spec):
    frag = '(@None (N * N))' if spec['frag'] is None else '(Some (%d%%N, %d%%N))' % tuple(spec['frag'])
    return '(mkPrimary %d %d %d %s %s %s %d %d %d %s %s)' % (
        spec['version'], spec['flags'], spec['crc_type'], coq_eid(spec['dest']), coq_eid(spec['src']),
        coq_eid(spec['report_to']), spec['time'], spec['seq'], spec['lifetime'], frag, _coq_opt_bytes(spec['crc']))


def mkdata(seed, length):
    ''' Same LCG as Lib/Bytes.mkdata / common.mkdata (big payloads are never written as literals). '''
    out = bytearray()
    state = seed
    for _ in range(length):
        state = (state * 1103515245 + 12345) % 4294967296
        out.append((state >> 16) & 0xFF)
    return bytes(out)


def _coq_mk(blk):
    (seed, length) = blk['mk']
    return '(mkdata %d%%N (N.to_nat %d%%N))' % (seed, length)


def coq_block(blk):
    ''' A block whose BTSD was produced by ``mkdata(seed, len)`` carries ``'mk': [seed, len]`` and is rendered
    through Lib.Bytes.mkdata instead of a literal. '''
    data = _coq_mk(blk) if blk.get('mk') else _coq_bytes(bytes.fromhex(blk['data']))
    return '(mkCBlock %d %d %d %d %s %s)' % (blk['type'], blk['num'], blk['flags'], blk['crc_type'], data, _coq_opt_bytes(blk['crc']))


def coq_encoded(spec):
    ''' Coq term (bytes) of ``encode(spec)``; BTSD given by ``mk`` is spliced in through mkdata. '''
    raw = encode(spec)
    parts = []
    pos = 0
    for blk in spec['blocks']:
        if not blk.get('mk'):
            continue
        data = bytes.fromhex(blk['data'])
        idx = raw.index(data, pos)
        parts.append(_coq_bytes(raw[pos:idx]))
        parts.append(_coq_mk(blk))
        pos = idx + len(data)
    parts.append(_coq_bytes(raw[pos:]))
    return '(' + ' ++ '.join(parts) + ')'


def coq_bundle(spec):
    blocks = '; '.join(coq_block(blk) for blk in spec['blocks'])
    return '(mkBundle %s %s)' % (coq_primary(spec), ('[' + blocks + ']') if blocks else '(@nil cblock)')


def coq_status_report(rec):
    def item(ent):
        (flag, when) = ent
        return '(%s, %s)' % ('true' if flag else 'false', '(@None N)' if when is None else '(Some %d%%N)' % when)

    def opt(val):
        return '(@None N)' if val is None else '(Some %d%%N)' % val
    return '(mkStatusReport %s %s %s %s %d %s %d %d %s %s)' % (
        item(rec['status'][0]), item(rec['status'][1]), item(rec['status'][2]), item(rec['status'][3]),
        rec['reason'], coq_eid(rec['src']), rec['time'], rec['seq'], opt(rec['frag_off']), opt(rec['pay_len']))


# --------------------------------------------------------------------------- parsing what the model prints

def eid_of_model(val):
    ''' Model rendering (kind, octets-or-parts) -> EID text. '''
    (kind, body) = val
    if kind == 0:
        return 'dtn:none'
    if kind == 1:
        return 'dtn:' + bytes(body).decode('utf8')
    return 'ipn:' + '.'.join(str(part) for part in body)


def _opt(val):
    """ model options are rendered as 0/1-element lists """
    return val[0] if val else None


def spec_of_model(val):
    ''' ``Model.Bundle.ren_bundle`` output (Coq prints the left-nested pairs flat:
    ``(scalars, eids, frag, crc, blocks, ...)``) -> spec (no 'view'). '''
    (scal, eids, frag, crc, blocks) = val[:5]
    (version, flags, ctype, time, seq, lifetime) = scal
    frag = _opt(frag)
    crc = _opt(crc)
    spec = dict(version=version, flags=flags, crc_type=ctype, dest=eid_of_model(eids[0]), src=eid_of_model(eids[1]),
                report_to=eid_of_model(eids[2]), time=time, seq=seq, lifetime=lifetime,
                frag=(None if frag is None else list(frag)), crc=(None if crc is None else bytes(crc).hex()), blocks=[])
    for (bscal, data, bcrc) in blocks:
        (btype, num, bflags, bct) = bscal
        bcrc = _opt(bcrc)
        spec['blocks'].append(dict(type=btype, num=num, flags=bflags, crc_type=bct, data=bytes(data).hex(),
                                   crc=(None if bcrc is None else bytes(bcrc).hex())))
    return spec


def rec_of_model(val):
    ''' ``Model.Bundle.ren_status_report`` output -> rec. '''
    (status, scal, src, opts) = val
    (reason, time, seq) = scal
    return dict(type=1, status=[[bool(flag), _opt(when)] for (flag, when) in status], reason=reason,
                src=eid_of_model(src), time=time, seq=seq, frag_off=_opt(opts[0]), pay_len=_opt(opts[1]))


def strip_views(spec):
    out = dict(spec)
    out['blocks'] = [dict((key, val) for (key, val) in blk.items() if key not in ('view', 'mk')) for blk in spec['blocks']]
    return out
