(** Proofs about the BPv7 bundle codec model [Model/Bundle.v]: per-field
    round trips (EID, primary block, canonical block), the tree-level and
    octet-level bundle round trip, re-encoding of decoded canonical octets, the
    RFC 9171 shape of the output, item counts, status reports. *)
From Coq Require Import List NArith ZArith Arith Bool Lia ZifyBool ZifyN ZifyNat.
From DTN Require Import Lib.Bytes Lib.Cbor Lib.CborProofs Lib.Crc Model.Bundle.
Import ListNotations.
Local Open Scope N_scope.

Ltac Zify.zify_post_hook ::= Z.div_mod_to_equations.

Notation two64 := 18446744073709551616%N (only parsing).

(** * Small facts *)

Lemma bytes_eqb_refl a : bytes_eqb a a = true.
Proof. apply bytes_eqb_eq. reflexivity. Qed.

Lemma bytes_eqb_neq a b : a <> b -> bytes_eqb a b = false.
Proof. intros H. destruct (bytes_eqb a b) eqn:E; [|reflexivity]. apply bytes_eqb_eq in E. contradiction. Qed.

Lemma uints_of_map l : uints_of (map CUint l) = Some l.
Proof. induction l as [|x l IH]; cbn [map uints_of uint_of]; [reflexivity|]. rewrite IH. reflexivity. Qed.

Lemma uints_of_inv : forall l ps, uints_of l = Some ps -> l = map CUint ps.
Proof.
  induction l as [|c l IH]; intros ps H; cbn [uints_of] in H.
  - injection H as <-. reflexivity.
  - destruct c; cbn [uint_of] in H; try discriminate.
    destruct (uints_of l) as [r|] eqn:E; [|discriminate]. injection H as <-.
    cbn [map]. f_equal. apply IH. reflexivity.
Qed.

Lemma ipn_len_ok_spec n : ipn_len_ok n = true <-> (n = 2 \/ n = 3)%nat.
Proof. unfold ipn_len_ok. rewrite orb_true_iff, !Nat.eqb_eq. reflexivity. Qed.

(** * Endpoint IDs *)

Lemma eid_roundtrip e : wf_eid e -> eid_of_cbor (cbor_of_eid e) = Some e.
Proof.
  destruct e as [|ssp|parts]; cbn [wf_eid cbor_of_eid eid_of_cbor eid_of_ssp].
  - intros _. reflexivity.
  - intros (_ & _ & Hne). cbn. rewrite bytes_eqb_neq by exact Hne. reflexivity.
  - intros [Hlen _]. cbn. rewrite uints_of_map.
    apply ipn_len_ok_spec in Hlen. rewrite Hlen. reflexivity.
Qed.

Lemma eid_of_cbor_inv c e : eid_of_cbor c = Some e -> cbor_of_eid e = c.
Proof.
  unfold eid_of_cbor.
  destruct c as [| | | |l| | |]; try discriminate.
  destruct l as [|h l]; [discriminate|]. destruct h as [scheme| | | | | | |]; try discriminate.
  destruct l as [|ssp l]; [discriminate|]. destruct l; [|discriminate].
  unfold eid_of_ssp.
  destruct (N.eqb_spec scheme 1) as [->|H1].
  - destruct ssp as [z| | |s| | | |]; try discriminate.
    + destruct (N.eqb_spec z 0) as [->|]; [|discriminate]. intros H. injection H as <-. reflexivity.
    + destruct (bytes_eqb s text_none); [discriminate|]. intros H. injection H as <-. reflexivity.
  - destruct (N.eqb_spec scheme 2) as [->|H2]; [|discriminate].
    destruct ssp as [| | | |parts| | |]; try discriminate.
    destruct (uints_of parts) as [ps|] eqn:E; [|discriminate].
    destruct (ipn_len_ok (length ps)); [|discriminate].
    intros H. injection H as <-. apply uints_of_inv in E. subst parts. reflexivity.
Qed.

(** what the strict conversion accepts is a well-formed EID *)
Lemma eid_of_cbor_wf c e : Cbor.wf c -> eid_of_cbor c = Some e -> wf_eid e.
Proof.
  intros Hwf H. pose proof (eid_of_cbor_inv c e H) as <-.
  destruct e as [|ssp|parts]; cbn [wf_eid]; [exact I| |].
  - cbn [cbor_of_eid] in *. apply wf_CArr in Hwf as [_ Hf].
    inversion Hf as [|? ? _ Hf2]; subst. inversion Hf2 as [|? ? Hs _]; subst.
    cbn [Cbor.wf] in Hs. destruct Hs as [Hl Hb]. split; [exact Hl|]. split; [exact Hb|].
    intros ->. cbn in H. discriminate.
  - cbn [cbor_of_eid] in *. cbn [eid_of_cbor eid_of_ssp] in H. cbn in H.
    rewrite uints_of_map in H. destruct (ipn_len_ok (length parts)) eqn:E; [|discriminate].
    split; [apply ipn_len_ok_spec, E|].
    apply wf_CArr in Hwf as [_ Hf]. inversion Hf as [|? ? _ Hf2]; subst. inversion Hf2 as [|? ? Hs _]; subst.
    apply wf_CArr in Hs as [_ Hs]. rewrite Forall_map in Hs. exact Hs.
Qed.

Lemma cbor_of_eid_wf e : wf_eid e -> Cbor.wf (cbor_of_eid e).
Proof.
  destruct e as [|ssp|parts]; cbn [wf_eid cbor_of_eid].
  - intros _. cbn. lia.
  - intros (Hl & Hb & _). apply wf_CArr. split; [cbn; lia|].
    constructor; [cbn; lia|]. constructor; [|constructor]. cbn [Cbor.wf]. split; assumption.
  - intros [Hlen Hf]. apply wf_CArr. split; [cbn; lia|].
    constructor; [cbn; lia|]. constructor; [|constructor].
    apply wf_CArr. rewrite map_length. split; [lia|]. rewrite Forall_map. exact Hf.
Qed.

Lemma depth_uints l : (fold_right (fun x acc => Nat.max (depth x) acc) O (map CUint l) <= 1)%nat.
Proof. induction l as [|x l IH]; cbn [map fold_right depth]; lia. Qed.

Lemma cbor_of_eid_depth e : (depth (cbor_of_eid e) <= 3)%nat.
Proof.
  destruct e as [|ssp|parts]; cbn [cbor_of_eid depth fold_right]; try lia.
  pose proof (depth_uints parts). lia.
Qed.

Lemma wf_eidb_spec e : wf_eidb e = true <-> wf_eid e.
Proof.
  destruct e as [|ssp|parts]; cbn [wf_eidb wf_eid].
  - split; auto.
  - rewrite !andb_true_iff, negb_true_iff, N.ltb_lt, wf_bytesb_spec. split.
    + intros [[Hl Hb] Hn]. repeat split; try assumption. intros ->. rewrite bytes_eqb_refl in Hn. discriminate.
    + intros (Hl & Hb & Hn). repeat split; try assumption. apply bytes_eqb_neq, Hn.
  - rewrite andb_true_iff, ipn_len_ok_spec, forallb_forall, Forall_forall.
    split; intros [Hl Hf]; (split; [exact Hl|]); intros x Hx; specialize (Hf x Hx); lia.
Qed.

(** * Item-list parsers *)

Lemma pop_uint_inv l n t : pop_uint l = Some (n, t) -> l = CUint n :: t.
Proof. destruct l as [|c l]; [discriminate|]. destruct c; try discriminate. cbn. intros H. injection H as <- <-. reflexivity. Qed.

Lemma pop_bstr_inv l b t : pop_bstr l = Some (b, t) -> l = CBstr b :: t.
Proof. destruct l as [|c l]; [discriminate|]. destruct c; try discriminate. cbn. intros H. injection H as <- <-. reflexivity. Qed.

Lemma pop_eid_inv l e t : pop_eid l = Some (e, t) -> l = cbor_of_eid e :: t.
Proof.
  destruct l as [|c l]; [discriminate|]. cbn [pop_eid].
  destruct (eid_of_cbor c) as [e'|] eqn:E; [|discriminate].
  intros H. injection H as <- <-. apply eid_of_cbor_inv in E. rewrite E. reflexivity.
Qed.

Lemma pop_eid_ok e t : wf_eid e -> pop_eid (cbor_of_eid e :: t) = Some (e, t).
Proof. intros H. cbn [pop_eid]. rewrite eid_roundtrip by exact H. reflexivity. Qed.

Lemma pop_ts_inv l a b t : pop_ts l = Some (a, b, t) -> l = CArr [CUint a; CUint b] :: t.
Proof.
  destruct l as [|c l]; [discriminate|]. destruct c as [| | | |l0| | |]; try discriminate.
  destruct l0 as [|x l0]; [discriminate|]. destruct x; try discriminate.
  destruct l0 as [|y l0]; [discriminate|]. destruct y; try discriminate.
  destruct l0; [|discriminate]. cbn. intros H. injection H as <- <- <-. reflexivity.
Qed.

Lemma end_crc_inv ct l c : end_crc ct l = Some c -> l = crc_items c /\ (c = None <-> ct = 0).
Proof.
  unfold end_crc. destruct (N.eqb_spec ct 0) as [->|Hne].
  - destruct l; [|discriminate]. intros H. injection H as <-. split; [reflexivity|]. split; reflexivity.
  - destruct l as [|x l]; [discriminate|]. destruct x; try discriminate. destruct l; [|discriminate].
    intros H. injection H as <-. split; [reflexivity|]. split; [discriminate|contradiction].
Qed.

Lemma end_crc_ok ct c :
  match c with Some _ => ct <> 0 | None => ct = 0 end -> end_crc ct (crc_items c) = Some c.
Proof.
  unfold end_crc. destruct c as [v|]; cbn [crc_items].
  - intros H. destruct (N.eqb_spec ct 0); [contradiction|reflexivity].
  - intros ->. reflexivity.
Qed.

Lemma pop_frag_inv isf l fr t :
  pop_frag isf l = Some (fr, t) -> l = frag_items fr ++ t /\ (fr = None <-> isf = false).
Proof.
  unfold pop_frag. destruct isf.
  - destruct l as [|x l]; [discriminate|]. destruct x; try discriminate.
    destruct l as [|y l]; [discriminate|]. destruct y; try discriminate.
    intros H. injection H as <- <-. split; [reflexivity|]. split; discriminate.
  - intros H. injection H as <- <-. split; [reflexivity|]. split; reflexivity.
Qed.

Lemma pop_frag_ok isf fr t :
  match fr with Some _ => isf = true | None => isf = false end ->
  pop_frag isf (frag_items fr ++ t) = Some (fr, t).
Proof.
  unfold pop_frag. destruct fr as [[o tt]|]; intros ->; reflexivity.
Qed.

(** * Primary block *)

Lemma primary_roundtrip p : wf_primary p -> primary_of_items (primary_items p) = Some p.
Proof.
  destruct p as [v f ct d s r t q lt fr c].
  unfold wf_primary, is_fragment. cbn [version flags crc_type dest src report_to create_time create_seq lifetime frag crc].
  intros (_ & _ & Hct & Hd & Hs & Hr & _ & _ & _ & Hfr & Hc).
  unfold primary_of_items, primary_items.
  cbn [version flags crc_type dest src report_to create_time create_seq lifetime frag crc app pop_uint].
  rewrite (pop_eid_ok d) by exact Hd. rewrite (pop_eid_ok s) by exact Hs. rewrite (pop_eid_ok r) by exact Hr.
  cbn [pop_ts pop_uint].
  unfold crc_type_ok. destruct (N.ltb_spec ct 3) as [_|]; [|lia].
  rewrite pop_frag_ok.
  - rewrite end_crc_ok; [reflexivity|]. destruct c as [cv|]; [apply Hc|exact Hc].
  - destruct fr as [[o tt]|]; [apply Hfr|exact Hfr].
Qed.

Lemma primary_of_items_inv l p : primary_of_items l = Some p -> primary_items p = l.
Proof.
  unfold primary_of_items.
  destruct (pop_uint l) as [[v l1]|] eqn:E1; [|discriminate]. apply pop_uint_inv in E1.
  destruct (pop_uint l1) as [[f l2]|] eqn:E2; [|discriminate]. apply pop_uint_inv in E2.
  destruct (pop_uint l2) as [[ct l3]|] eqn:E3; [|discriminate]. apply pop_uint_inv in E3.
  destruct (pop_eid l3) as [[d l4]|] eqn:E4; [|discriminate]. apply pop_eid_inv in E4.
  destruct (pop_eid l4) as [[s l5]|] eqn:E5; [|discriminate]. apply pop_eid_inv in E5.
  destruct (pop_eid l5) as [[r l6]|] eqn:E6; [|discriminate]. apply pop_eid_inv in E6.
  destruct (pop_ts l6) as [[[t q] l7]|] eqn:E7; [|discriminate]. apply pop_ts_inv in E7.
  destruct (pop_uint l7) as [[lt l8]|] eqn:E8; [|discriminate]. apply pop_uint_inv in E8.
  destruct (crc_type_ok ct); [|discriminate].
  destruct (pop_frag (N.testbit f 0) l8) as [[fr l9]|] eqn:E9; [|discriminate]. apply pop_frag_inv in E9 as [E9 _].
  destruct (end_crc ct l9) as [c|] eqn:E10; [|discriminate]. apply end_crc_inv in E10 as [E10 _].
  intros H. injection H as <-. subst. reflexivity.
Qed.

(** the strict conversion only yields records with consistent conditional fields *)
Lemma primary_of_items_consistent l p :
  primary_of_items l = Some p ->
  crc_type p < 3 /\ (frag p = None <-> is_fragment p = false) /\ (crc p = None <-> crc_type p = 0).
Proof.
  unfold primary_of_items.
  destruct (pop_uint l) as [[v l1]|]; [|discriminate].
  destruct (pop_uint l1) as [[f l2]|]; [|discriminate].
  destruct (pop_uint l2) as [[ct l3]|]; [|discriminate].
  destruct (pop_eid l3) as [[d l4]|]; [|discriminate].
  destruct (pop_eid l4) as [[s l5]|]; [|discriminate].
  destruct (pop_eid l5) as [[r l6]|]; [|discriminate].
  destruct (pop_ts l6) as [[[t q] l7]|]; [|discriminate].
  destruct (pop_uint l7) as [[lt l8]|]; [|discriminate].
  unfold crc_type_ok. destruct (N.ltb_spec ct 3) as [Hct|]; [|discriminate].
  destruct (pop_frag (N.testbit f 0) l8) as [[fr l9]|] eqn:E9; [|discriminate]. apply pop_frag_inv in E9 as [_ E9].
  destruct (end_crc ct l9) as [c|] eqn:E10; [|discriminate]. apply end_crc_inv in E10 as [_ E10].
  intros H. injection H as <-. unfold is_fragment. cbn. repeat split; try assumption; try apply E9; try apply E10.
Qed.

Lemma frag_items_length fr : length (frag_items fr) = match fr with Some _ => 2%nat | None => 0%nat end.
Proof. destruct fr as [[? ?]|]; reflexivity. Qed.
Lemma crc_items_length c : length (crc_items c) = match c with Some _ => 1%nat | None => 0%nat end.
Proof. destruct c; reflexivity. Qed.

Lemma primary_items_length p :
  length (primary_items p) =
  (8 + (match frag p with Some _ => 2 | None => 0 end) + (match crc p with Some _ => 1 | None => 0 end))%nat.
Proof.
  unfold primary_items. rewrite !app_length, frag_items_length, crc_items_length. cbn [length]. lia.
Qed.

Lemma primary_items_length_bounds p : (8 <= length (primary_items p) <= 11)%nat.
Proof. rewrite primary_items_length. destruct (frag p), (crc p); lia. Qed.

(** exact case split in terms of the flag and the CRC type *)
Lemma primary_items_length_wf p :
  wf_primary p ->
  length (primary_items p) =
  (8 + (if is_fragment p then 2 else 0) + (if N.eqb (crc_type p) 0%N then 0 else 1))%nat.
Proof.
  intros (_ & _ & _ & _ & _ & _ & _ & _ & _ & Hfr & Hc). rewrite primary_items_length.
  destruct (frag p) as [[o t]|].
  - destruct Hfr as [-> _]. destruct (crc p).
    + destruct Hc as [Hc _]. destruct (N.eqb_spec (crc_type p) 0); [contradiction|reflexivity].
    + rewrite Hc. reflexivity.
  - rewrite Hfr. destruct (crc p).
    + destruct Hc as [Hc _]. destruct (N.eqb_spec (crc_type p) 0); [contradiction|reflexivity].
    + rewrite Hc. reflexivity.
Qed.

Lemma frag_items_wf fr :
  match fr with Some (o, t) => o < two64 /\ t < two64 | None => True end -> Forall Cbor.wf (frag_items fr).
Proof. destruct fr as [[o t]|]; cbn [frag_items]; [intros [? ?]; repeat constructor; assumption|constructor]. Qed.

Lemma crc_items_wf c : opt_bytes_ok c -> Forall Cbor.wf (crc_items c).
Proof. destruct c; cbn [crc_items opt_bytes_ok]; [intros [? ?]; repeat constructor; assumption|constructor]. Qed.

Lemma primary_items_wf p : wf_primary p -> Cbor.wf (CArr (primary_items p)).
Proof.
  intros (Hv & Hf & Hct & Hd & Hs & Hr & Ht & Hq & Hl & Hfr & Hc).
  apply wf_CArr. split.
  - pose proof (primary_items_length_bounds p). lia.
  - unfold primary_items. apply Forall_app. split.
    + repeat constructor; cbn [Cbor.wf]; try lia; try (apply cbor_of_eid_wf; assumption).
    + apply Forall_app. split.
      * apply frag_items_wf. destruct (frag p) as [[o t]|]; [tauto|exact I].
      * apply crc_items_wf. destruct (crc p); cbn [opt_bytes_ok]; [tauto|exact I].
Qed.

Lemma depth_list_le (l : list cbor) n :
  Forall (fun v => (depth v <= n)%nat) l -> (depth (CArr l) <= S n)%nat.
Proof. apply depth_CArr_le. Qed.

Lemma frag_items_depth fr : Forall (fun v => (depth v <= 3)%nat) (frag_items fr).
Proof. destruct fr as [[o t]|]; cbn [frag_items]; repeat constructor; cbn [depth]; lia. Qed.
Lemma crc_items_depth c : Forall (fun v => (depth v <= 3)%nat) (crc_items c).
Proof. destruct c; cbn [crc_items]; repeat constructor; cbn [depth]; lia. Qed.

Lemma primary_items_depth p : (depth (CArr (primary_items p)) <= 4)%nat.
Proof.
  apply depth_list_le. unfold primary_items. apply Forall_app. split.
  - repeat (apply Forall_cons; [first [apply cbor_of_eid_depth | cbn [depth fold_right]; lia]|]). apply Forall_nil.
  - apply Forall_app. split; [apply frag_items_depth|apply crc_items_depth].
Qed.

(** * Canonical blocks *)

Lemma cblock_roundtrip b : wf_cblock b -> cblock_of_cbor (CArr (cblock_items b)) = Some b.
Proof.
  destruct b as [t n f ct d c]. unfold wf_cblock.
  cbn [btype bnum bflags bcrc_type btsd bcrc].
  intros (_ & _ & _ & Hct & _ & _ & Hc).
  cbn [cblock_of_cbor]. unfold cblock_of_items, cblock_items.
  cbn [btype bnum bflags bcrc_type btsd bcrc app pop_uint pop_bstr].
  unfold crc_type_ok. destruct (N.ltb_spec ct 3) as [_|]; [|lia].
  rewrite end_crc_ok; [reflexivity|]. destruct c; [apply Hc|exact Hc].
Qed.

Lemma cblock_of_items_inv l b : cblock_of_items l = Some b -> cblock_items b = l.
Proof.
  unfold cblock_of_items.
  destruct (pop_uint l) as [[t l1]|] eqn:E1; [|discriminate]. apply pop_uint_inv in E1.
  destruct (pop_uint l1) as [[n l2]|] eqn:E2; [|discriminate]. apply pop_uint_inv in E2.
  destruct (pop_uint l2) as [[f l3]|] eqn:E3; [|discriminate]. apply pop_uint_inv in E3.
  destruct (pop_uint l3) as [[ct l4]|] eqn:E4; [|discriminate]. apply pop_uint_inv in E4.
  destruct (pop_bstr l4) as [[d l5]|] eqn:E5; [|discriminate]. apply pop_bstr_inv in E5.
  destruct (crc_type_ok ct); [|discriminate].
  destruct (end_crc ct l5) as [c|] eqn:E6; [|discriminate]. apply end_crc_inv in E6 as [E6 _].
  intros H. injection H as <-. subst. reflexivity.
Qed.

Lemma cblock_of_cbor_inv c b : cblock_of_cbor c = Some b -> CArr (cblock_items b) = c.
Proof.
  destruct c; try discriminate. cbn [cblock_of_cbor]. intros H. apply cblock_of_items_inv in H. rewrite H. reflexivity.
Qed.

Lemma cblock_items_length b :
  length (cblock_items b) = (5 + match bcrc b with Some _ => 1 | None => 0 end)%nat.
Proof. unfold cblock_items. rewrite app_length, crc_items_length. cbn [length]. lia. Qed.

Lemma cblock_items_length_bounds b : (5 <= length (cblock_items b) <= 6)%nat.
Proof. rewrite cblock_items_length. destruct (bcrc b); lia. Qed.

Lemma cblock_items_length_wf b :
  wf_cblock b -> length (cblock_items b) = (5 + (if N.eqb (bcrc_type b) 0%N then 0 else 1))%nat.
Proof.
  intros (_ & _ & _ & _ & _ & _ & Hc). rewrite cblock_items_length. destruct (bcrc b).
  - destruct Hc as [Hc _]. destruct (N.eqb_spec (bcrc_type b) 0); [contradiction|reflexivity].
  - rewrite Hc. reflexivity.
Qed.

Lemma cblock_items_wf b : wf_cblock b -> Cbor.wf (CArr (cblock_items b)).
Proof.
  intros (Ht & Hn & Hf & Hct & Hdl & Hd & Hc). apply wf_CArr. split.
  - pose proof (cblock_items_length_bounds b). lia.
  - unfold cblock_items. apply Forall_app. split.
    + repeat (apply Forall_cons; [cbn [Cbor.wf]; first [lia | split; assumption]|]). apply Forall_nil.
    + apply crc_items_wf. destruct (bcrc b); cbn [opt_bytes_ok]; [tauto|exact I].
Qed.

Lemma cblock_items_depth b : (depth (CArr (cblock_items b)) <= 4)%nat.
Proof.
  apply depth_list_le. unfold cblock_items. apply Forall_app. split.
  - repeat (apply Forall_cons; [cbn [depth]; lia|]). apply Forall_nil.
  - apply crc_items_depth.
Qed.

Lemma wf_cblockb_spec b : wf_cblockb b = true <-> wf_cblock b.
Proof.
  unfold wf_cblockb, wf_cblock. rewrite !andb_true_iff, !N.ltb_lt, wf_bytesb_spec.
  destruct (bcrc b) as [v|].
  - rewrite !andb_true_iff, negb_true_iff, N.ltb_lt, wf_bytesb_spec, N.eqb_neq. tauto.
  - rewrite N.eqb_eq. tauto.
Qed.

Lemma wf_primaryb_spec p : wf_primaryb p = true <-> wf_primary p.
Proof.
  unfold wf_primaryb, wf_primary. rewrite !andb_true_iff, !N.ltb_lt, !wf_eidb_spec.
  assert (Hfr : (match frag p with
                 | Some (o, t) => is_fragment p && (o <? two64) && (t <? two64)
                 | None => negb (is_fragment p) end) = true <->
                match frag p with
                | Some (o, t) => is_fragment p = true /\ o < two64 /\ t < two64
                | None => is_fragment p = false end).
  { destruct (frag p) as [[o t]|].
    - rewrite !andb_true_iff, !N.ltb_lt. tauto.
    - rewrite negb_true_iff. tauto. }
  assert (Hc : (match crc p with
                | Some v => negb (crc_type p =? 0) && (N.of_nat (length v) <? two64) && wf_bytesb v
                | None => crc_type p =? 0 end) = true <->
               match crc p with
               | Some v => crc_type p <> 0 /\ N.of_nat (length v) < two64 /\ wf_bytes v
               | None => crc_type p = 0 end).
  { destruct (crc p) as [v|].
    - rewrite !andb_true_iff, negb_true_iff, N.ltb_lt, wf_bytesb_spec, N.eqb_neq. tauto.
    - rewrite N.eqb_eq. tauto. }
  rewrite Hfr, Hc. tauto.
Qed.

(** * Bundles: tree level *)

Lemma cblocks_of_map bl :
  Forall wf_cblock bl -> cblocks_of (map (fun blk => CArr (cblock_items blk)) bl) = Some bl.
Proof.
  induction 1 as [|b bl Hb _ IH]; cbn [map cblocks_of]; [reflexivity|].
  rewrite cblock_roundtrip by exact Hb. rewrite IH. reflexivity.
Qed.

Lemma cblocks_of_inv : forall l bl, cblocks_of l = Some bl -> map (fun blk => CArr (cblock_items blk)) bl = l.
Proof.
  induction l as [|c l IH]; intros bl H; cbn [cblocks_of] in H.
  - injection H as <-. reflexivity.
  - destruct (cblock_of_cbor c) as [b|] eqn:E; [|discriminate].
    destruct (cblocks_of l) as [r|] eqn:E2; [|discriminate]. injection H as <-.
    cbn [map]. rewrite (cblock_of_cbor_inv _ _ E), (IH r eq_refl). reflexivity.
Qed.

Theorem bundle_tree_roundtrip b :
  wf_primary (prim b) -> Forall wf_cblock (blocks b) -> bundle_of_items (bundle_items b) = Some b.
Proof.
  intros Hp Hb. unfold bundle_of_items, bundle_items.
  rewrite primary_roundtrip by exact Hp. rewrite cblocks_of_map by exact Hb. destruct b; reflexivity.
Qed.

Theorem bundle_tree_reencode l b : bundle_of_items l = Some b -> bundle_items b = l.
Proof.
  unfold bundle_of_items. destruct l as [|c rest]; [discriminate|].
  destruct c as [| | | |pl| | |]; try discriminate.
  destruct (primary_of_items pl) as [p|] eqn:E1; [|discriminate].
  destruct (cblocks_of rest) as [bl|] eqn:E2; [|discriminate].
  intros H. injection H as <-. unfold bundle_items. cbn [prim blocks].
  rewrite (primary_of_items_inv _ _ E1), (cblocks_of_inv _ _ E2). reflexivity.
Qed.

Lemma bundle_items_wf b :
  wf_primary (prim b) -> Forall wf_cblock (blocks b) -> Forall Cbor.wf (bundle_items b).
Proof.
  intros Hp Hb. unfold bundle_items. constructor; [apply primary_items_wf, Hp|].
  rewrite Forall_map. eapply Forall_impl; [|exact Hb]. intros blk. apply cblock_items_wf.
Qed.

Lemma bundle_items_depth b : (depth (CArr (bundle_items b)) <= 5)%nat.
Proof.
  apply depth_list_le. unfold bundle_items. constructor; [apply primary_items_depth|].
  rewrite Forall_map. apply Forall_forall. intros blk _. apply cblock_items_depth.
Qed.

Lemma payload_lastb_spec l : payload_lastb l = true <-> payload_last l.
Proof.
  unfold payload_lastb, payload_last. split.
  - destruct (rev l) as [|pl r] eqn:E; [discriminate|]. intros H. apply N.eqb_eq in H.
    exists (rev r), pl. split; [|exact H].
    rewrite <- (rev_involutive l), E. reflexivity.
  - intros (pre & pl & -> & H). rewrite rev_app_distr. cbn [rev app]. apply N.eqb_eq, H.
Qed.

Lemma wf_bundleb_spec b : wf_bundleb b = true <-> wf_bundle b.
Proof.
  unfold wf_bundleb, wf_bundle. rewrite !andb_true_iff, wf_primaryb_spec, payload_lastb_spec.
  rewrite forallb_forall, Forall_forall.
  split.
  - intros [[Hp Hb] Hl]. split; [exact Hp|]. split; [|exact Hl]. intros x Hx. apply wf_cblockb_spec, Hb, Hx.
  - intros (Hp & Hb & Hl). split; [split|]; [exact Hp| |exact Hl]. intros x Hx. apply wf_cblockb_spec, Hb, Hx.
Qed.

(** * Bundles: octet level *)

Lemma decode_encode_bundle b :
  wf_primary (prim b) -> Forall wf_cblock (blocks b) ->
  decode bundle_fuel (encode_bundle b) = Some (CArr (bundle_items b), []).
Proof.
  intros Hp Hb. unfold encode_bundle. rewrite <- (app_nil_r (encode_indef_arr _)).
  apply decode_indef_depth; [apply bundle_items_wf; assumption|].
  pose proof (bundle_items_depth b). unfold bundle_fuel. lia.
Qed.

(** the clean codec: no implementation guard needed *)
Theorem bundle_roundtrip_clean b :
  wf_bundle b -> impl_admin_ok b = true -> decode_bundle (encode_bundle b) = Some b.
Proof.
  intros (Hp & Hb & _) Ha. unfold decode_bundle. rewrite decode_encode_bundle by assumption.
  cbn [bundle_of_cbor]. rewrite bundle_tree_roundtrip by assumption. rewrite Ha. reflexivity.
Qed.

Lemma impl_encode_guard b : impl_norm_bundle b = b -> impl_encode_bundle b = encode_bundle b.
Proof. intros H. unfold impl_encode_bundle. rewrite H. reflexivity. Qed.

Theorem bundle_roundtrip b :
  wf_bundle b -> impl_norm_bundle b = b -> impl_admin_ok b = true ->
  decode_bundle (impl_encode_bundle b) = Some b.
Proof. intros Hwf Hn Ha. rewrite impl_encode_guard by exact Hn. apply bundle_roundtrip_clean; assumption. Qed.

(** decoding canonical octets and re-encoding with the clean encoder *)
Theorem bundle_reencode_clean bs b :
  decode_bundle bs = Some b -> rfc9171_canonical bs -> encode_bundle b = bs.
Proof.
  unfold decode_bundle. intros H (items & Hwf & ->).
  destruct (decode bundle_fuel (encode_indef_arr items)) as [[c rest]|] eqn:E; [|discriminate].
  (* with enough fuel the generic decoder returns exactly [items] *)
  assert (Hbig : exists f, decode f (encode_indef_arr items ++ []) = Some (CArr items, [])).
  { exists (depth (CArr items)). apply decode_indef_depth; [exact Hwf|lia]. }
  destruct Hbig as [f Hf]. rewrite app_nil_r in Hf.
  pose proof (decode_fuel_indep _ _ _ _ _ E Hf) as Heq. injection Heq as -> ->.
  cbn [bundle_of_cbor] in H.
  destruct (bundle_of_items items) as [b'|] eqn:E2; [|discriminate].
  destruct (impl_admin_ok b'); [|discriminate]. injection H as ->.
  unfold encode_bundle. rewrite (bundle_tree_reencode _ _ E2). reflexivity.
Qed.

Theorem bundle_reencode bs b :
  decode_bundle bs = Some b -> rfc9171_canonical bs -> impl_norm_bundle b = b -> impl_encode_bundle b = bs.
Proof. intros H Hc Hn. rewrite impl_encode_guard by exact Hn. apply bundle_reencode_clean; assumption. Qed.

(** every clean encoding is canonical in the above sense *)
Lemma encode_bundle_canonical b :
  wf_primary (prim b) -> Forall wf_cblock (blocks b) -> rfc9171_canonical (encode_bundle b).
Proof. intros Hp Hb. exists (bundle_items b). split; [apply bundle_items_wf; assumption|reflexivity]. Qed.

(** * Shape *)

Theorem bundle_shape_clean b : wf_bundle b -> rfc9171_shape (encode_bundle b).
Proof.
  intros (Hp & Hb & (pre & pl & Hpre & Hpl)).
  exists (primary_items (prim b)), (map (fun blk => CArr (cblock_items blk)) (blocks b)),
         (map (fun blk => CArr (cblock_items blk)) pre), (cblock_items pl).
  split; [reflexivity|]. split; [apply decode_encode_bundle; assumption|].
  split; [apply primary_items_length_bounds|]. split.
  - rewrite Forall_map. apply Forall_forall. intros blk _. exists (cblock_items blk).
    split; [reflexivity|apply cblock_items_length_bounds].
  - split.
    + rewrite Hpre, map_app. reflexivity.
    + unfold cblock_items. cbn [app hd_error]. rewrite Hpl. reflexivity.
Qed.

Theorem bundle_shape b : wf_bundle (impl_norm_bundle b) -> rfc9171_shape (impl_encode_bundle b).
Proof. apply bundle_shape_clean. Qed.

(** * Status reports and administrative records *)

Lemma bool_roundtrip b : bool_of_cbor (cbor_of_bool b) = Some b.
Proof. destruct b; reflexivity. Qed.

Lemma status_item_roundtrip s : status_item_of_cbor (cbor_of_status_item s) = Some s.
Proof.
  destruct s as [b [t|]]; unfold cbor_of_status_item, status_item_of_cbor; cbn [fst snd];
    rewrite bool_roundtrip; reflexivity.
Qed.

Lemma status_item_wf s : wf_status_item s -> Cbor.wf (cbor_of_status_item s).
Proof.
  destruct s as [b [t|]]; unfold wf_status_item, cbor_of_status_item; cbn [fst snd]; intros H;
    apply wf_CArr; (split; [cbn; lia|]); repeat constructor; destruct b; cbn; lia.
Qed.

Lemma status_item_depth s : (depth (cbor_of_status_item s) <= 2)%nat.
Proof. destruct s as [b [t|]]; unfold cbor_of_status_item; cbn [fst snd depth fold_right]; destruct b; cbn [cbor_of_bool depth]; lia. Qed.

Lemma opt_uint_items_wf o : match o with Some n => n < two64 | None => True end -> Forall Cbor.wf (opt_uint_items o).
Proof. destruct o; cbn [opt_uint_items]; intros H; repeat constructor; exact H. Qed.

Lemma opt_uint_items_depth o : Forall (fun v => (depth v <= 3)%nat) (opt_uint_items o).
Proof. destruct o; cbn [opt_uint_items]; repeat constructor; cbn [depth]; lia. Qed.

Lemma end_opts_ok fo pl :
  (fo = None -> pl = None) -> end_opts (opt_uint_items fo ++ opt_uint_items pl) = Some (fo, pl).
Proof.
  destruct fo as [o|], pl as [n|]; cbn; intros H; try reflexivity. specialize (H eq_refl). discriminate.
Qed.

Theorem status_report_tree_roundtrip reason_ok r :
  wf_status_report r -> reason_ok (sr_reason r) = true ->
  status_report_of_items reason_ok (status_report_items r) = Some r.
Proof.
  destruct r as [a b c d rc e t q fo pl]. unfold wf_status_report.
  cbn [sr_received sr_forwarded sr_delivered sr_deleted sr_reason sr_src sr_time sr_seq sr_frag_off sr_pay_len].
  intros (_ & _ & _ & _ & _ & He & _ & _ & Hfo & _) Hr.
  unfold status_report_of_items, status_report_items.
  cbn [sr_received sr_forwarded sr_delivered sr_deleted sr_reason sr_src sr_time sr_seq sr_frag_off sr_pay_len app pop_status].
  rewrite !status_item_roundtrip. cbn [pop_uint]. rewrite (pop_eid_ok e) by exact He. cbn [pop_ts].
  rewrite end_opts_ok.
  - rewrite Hr. reflexivity.
  - intros ->. exact Hfo.
Qed.

Lemma status_report_items_wf r : wf_status_report r -> Cbor.wf (CArr (status_report_items r)).
Proof.
  intros (Ha & Hb & Hc & Hd & Hrc & He & Ht & Hq & Hfo & Hpl). apply wf_CArr. split.
  - unfold status_report_items. rewrite !app_length. cbn [length].
    destruct (sr_frag_off r), (sr_pay_len r); cbn [opt_uint_items length]; lia.
  - unfold status_report_items. apply Forall_app. split.
    + apply Forall_cons.
      { apply wf_CArr. split; [cbn; lia|]. repeat (apply Forall_cons; [apply status_item_wf; assumption|]). apply Forall_nil. }
      apply Forall_cons; [cbn; lia|]. apply Forall_cons; [apply cbor_of_eid_wf, He|].
      apply Forall_cons; [|apply Forall_nil]. apply wf_CArr. split; [cbn; lia|]. repeat constructor; cbn; lia.
    + apply Forall_app. split; apply opt_uint_items_wf.
      * destruct (sr_frag_off r); [exact Hfo|exact I].
      * exact Hpl.
Qed.

Lemma status_report_items_depth r : (depth (CArr (status_report_items r)) <= 4)%nat.
Proof.
  apply depth_list_le. unfold status_report_items. apply Forall_app. split.
  - apply Forall_cons.
    { apply depth_list_le. repeat (apply Forall_cons; [apply status_item_depth|]). apply Forall_nil. }
    apply Forall_cons; [cbn [depth]; lia|]. apply Forall_cons; [apply cbor_of_eid_depth|].
    apply Forall_cons; [cbn [depth fold_right]; lia|apply Forall_nil].
  - apply Forall_app. split; apply opt_uint_items_depth.
Qed.

Definition wf_admin (a : admin_record) : Prop :=
  match a with
  | AdminStatus r => wf_status_report r
  | AdminOther t c => t < two64 /\ t <> 1 /\ Cbor.wf c /\ (depth c <= 6)%nat /\ (forall bs, c <> CBstr bs)
  end.

Lemma cbor_of_admin_wf a : wf_admin a -> Cbor.wf (cbor_of_admin a) /\ (depth (cbor_of_admin a) <= bundle_fuel)%nat.
Proof.
  destruct a as [r|t c]; cbn [wf_admin cbor_of_admin].
  - intros H. split.
    + apply wf_CArr. split; [cbn; lia|]. apply Forall_cons; [cbn; lia|].
      apply Forall_cons; [apply status_report_items_wf, H|apply Forall_nil].
    + pose proof (status_report_items_depth r). cbn [depth fold_right] in *. unfold bundle_fuel. lia.
  - intros (Ht & _ & Hc & Hd & _). split.
    + apply wf_CArr. split; [cbn; lia|]. repeat (apply Forall_cons; [first [exact Hc | cbn; lia]|]). apply Forall_nil.
    + cbn [depth fold_right]. unfold bundle_fuel. lia.
Qed.

Lemma decode_one_strict_encode c :
  Cbor.wf c -> (depth c <= bundle_fuel)%nat -> decode_one_strict (encode c) = Some c.
Proof.
  intros Hwf Hd. unfold decode_one_strict. rewrite <- (app_nil_r (encode c)).
  rewrite decode_strict_encode by assumption. reflexivity.
Qed.

Lemma decode_one_strict_inv bs c : decode_one_strict bs = Some c -> encode c = bs.
Proof.
  unfold decode_one_strict. destruct (decode_strict bundle_fuel bs) as [[c' rest]|] eqn:E; [|discriminate].
  destruct rest; [|discriminate]. intros H. injection H as ->.
  apply decode_canonical_reencode in E. rewrite app_nil_r in E. symmetry. exact E.
Qed.

Theorem admin_record_roundtrip reason_ok a :
  wf_admin a ->
  match a with AdminStatus r => reason_ok (sr_reason r) = true | _ => True end ->
  decode_admin_record_gen reason_ok (encode_admin_record a) = Some a.
Proof.
  intros Hwf Hr. destruct (cbor_of_admin_wf a Hwf) as [Hc Hd].
  unfold decode_admin_record_gen, encode_admin_record. rewrite decode_one_strict_encode by assumption.
  destruct a as [r|t c]; cbn [cbor_of_admin admin_of_cbor].
  - rewrite N.eqb_refl. rewrite status_report_tree_roundtrip by assumption. reflexivity.
  - destruct Hwf as (_ & Hne & _ & _ & Hnb). destruct (N.eqb_spec t 1); [contradiction|].
    destruct c; try reflexivity. exfalso. eapply Hnb. reflexivity.
Qed.

Theorem status_report_roundtrip r :
  wf_status_report r -> impl_reason_known (sr_reason r) = true ->
  decode_status_report (encode_status_report r) = Some r.
Proof.
  intros Hwf Hr. unfold decode_status_report, encode_status_report, decode_admin_record.
  rewrite (admin_record_roundtrip impl_reason_known (AdminStatus r)) by assumption. reflexivity.
Qed.

Theorem status_report_roundtrip_rfc r :
  wf_status_report r -> rfc_decode_status_report (encode_status_report r) = Some r.
Proof.
  intros Hwf. unfold rfc_decode_status_report, encode_status_report, rfc_decode_admin_record.
  rewrite (admin_record_roundtrip rfc_reason_any (AdminStatus r)) by (try assumption; reflexivity). reflexivity.
Qed.

(** strict decoding of an administrative record is inverted by the encoder *)
Lemma pop_status_inv l a b c d t :
  pop_status l = Some (a, b, c, d, t) ->
  exists ca cb cc cd, l = CArr [ca; cb; cc; cd] :: t /\
    status_item_of_cbor ca = Some a /\ status_item_of_cbor cb = Some b /\
    status_item_of_cbor cc = Some c /\ status_item_of_cbor cd = Some d.
Proof.
  destruct l as [|x l]; [discriminate|]. destruct x as [| | | |l0| | |]; try discriminate.
  destruct l0 as [|ca l0]; [discriminate|]. destruct l0 as [|cb l0]; [discriminate|].
  destruct l0 as [|cc l0]; [discriminate|]. destruct l0 as [|cd l0]; [discriminate|]. destruct l0; [|discriminate].
  cbn [pop_status].
  destruct (status_item_of_cbor ca) as [a'|] eqn:Ea; [|discriminate].
  destruct (status_item_of_cbor cb) as [b'|] eqn:Eb; [|discriminate].
  destruct (status_item_of_cbor cc) as [c'|] eqn:Ec; [|discriminate].
  destruct (status_item_of_cbor cd) as [d'|] eqn:Ed; [|discriminate].
  intros H. injection H as <- <- <- <- <-. exists ca, cb, cc, cd. repeat split; assumption.
Qed.

Lemma bool_of_cbor_inv c b : bool_of_cbor c = Some b -> cbor_of_bool b = c.
Proof.
  destruct c; try discriminate. cbn [bool_of_cbor].
  destruct (N.eqb_spec n 21) as [->|]; [intros H; injection H as <-; reflexivity|].
  destruct (N.eqb_spec n 20) as [->|]; [intros H; injection H as <-; reflexivity|discriminate].
Qed.

Lemma status_item_of_cbor_inv c s : status_item_of_cbor c = Some s -> cbor_of_status_item s = c.
Proof.
  destruct c as [| | | |l| | |]; try discriminate.
  destruct l as [|f l]; [discriminate|]. destruct l as [|x l].
  - cbn [status_item_of_cbor]. destruct (bool_of_cbor f) as [b|] eqn:E; [|discriminate].
    intros H. injection H as <-. apply bool_of_cbor_inv in E. unfold cbor_of_status_item. cbn [fst snd]. rewrite E. reflexivity.
  - destruct x; try discriminate. destruct l; [|discriminate]. cbn [status_item_of_cbor].
    destruct (bool_of_cbor f) as [b|] eqn:E; [|discriminate].
    intros H. injection H as <-. apply bool_of_cbor_inv in E. unfold cbor_of_status_item. cbn [fst snd]. rewrite E. reflexivity.
Qed.

Lemma end_opts_inv l fo pl : end_opts l = Some (fo, pl) -> l = opt_uint_items fo ++ opt_uint_items pl.
Proof.
  destruct l as [|x l]; [intros H; injection H as <- <-; reflexivity|].
  destruct x; try discriminate. destruct l as [|y l]; [intros H; injection H as <- <-; reflexivity|].
  destruct y; try discriminate. destruct l; [|discriminate]. intros H; injection H as <- <-; reflexivity.
Qed.

Lemma status_report_of_items_inv reason_ok l r :
  status_report_of_items reason_ok l = Some r -> status_report_items r = l.
Proof.
  unfold status_report_of_items.
  destruct (pop_status l) as [[[[[a b] c] d] l1]|] eqn:E1; [|discriminate].
  apply pop_status_inv in E1 as (ca & cb & cc & cd & -> & Ha & Hb & Hc & Hd).
  destruct (pop_uint l1) as [[rc l2]|] eqn:E2; [|discriminate]. apply pop_uint_inv in E2.
  destruct (pop_eid l2) as [[e l3]|] eqn:E3; [|discriminate]. apply pop_eid_inv in E3.
  destruct (pop_ts l3) as [[[t q] l4]|] eqn:E4; [|discriminate]. apply pop_ts_inv in E4.
  destruct (end_opts l4) as [[fo pl]|] eqn:E5; [|discriminate]. apply end_opts_inv in E5.
  destruct (reason_ok rc); [|discriminate]. intros H. injection H as <-. subst.
  unfold status_report_items. cbn [sr_received sr_forwarded sr_delivered sr_deleted sr_reason sr_src sr_time sr_seq sr_frag_off sr_pay_len].
  rewrite (status_item_of_cbor_inv _ _ Ha), (status_item_of_cbor_inv _ _ Hb),
          (status_item_of_cbor_inv _ _ Hc), (status_item_of_cbor_inv _ _ Hd). reflexivity.
Qed.

Theorem admin_record_reencode reason_ok bs a :
  decode_admin_record_gen reason_ok bs = Some a -> encode_admin_record a = bs.
Proof.
  unfold decode_admin_record_gen, encode_admin_record.
  destruct (decode_one_strict bs) as [c|] eqn:E; [|discriminate]. apply decode_one_strict_inv in E. subst bs.
  intros H. f_equal. unfold admin_of_cbor in H.
  destruct c as [| | | |l| | |]; try discriminate.
  destruct l as [|x l]; [discriminate|]. destruct x as [t| | | | | | |]; try discriminate.
  destruct l as [|body l]; [discriminate|]. destruct l; [|discriminate].
  destruct (N.eqb_spec t 1) as [->|Hne].
  - destruct body as [| | | |l| | |]; try discriminate.
    destruct (status_report_of_items reason_ok l) as [r|] eqn:E2; [|discriminate].
    injection H as <-. cbn [cbor_of_admin]. rewrite (status_report_of_items_inv _ _ _ E2). reflexivity.
  - destruct body; try discriminate; injection H as <-; reflexivity.
Qed.

(** * When the implementation guard holds *)

Lemma cut_at_notin c s : ~ In c s -> cut_at c s = s.
Proof.
  induction s as [|x s IH]; intros H; cbn [cut_at]; [reflexivity|].
  destruct (N.eqb_spec x c) as [->|_]; [exfalso; apply H; left; reflexivity|].
  rewrite IH; [reflexivity|]. intros Hin. apply H. right. exact Hin.
Qed.

Lemma cut_at_app c a b : ~ In c a -> cut_at c (a ++ c :: b) = a.
Proof.
  induction a as [|x a IH]; intros H; cbn [app cut_at].
  - rewrite N.eqb_refl. reflexivity.
  - destruct (N.eqb_spec x c) as [->|_]; [exfalso; apply H; left; reflexivity|].
    rewrite IH; [reflexivity|]. intros Hin. apply H. right. exact Hin.
Qed.

(** SSPs of the RFC 9171 dtn ABNF  "//" node-name "/" demux  without '#' and '?'
    are left alone by the implementation's text conversion *)
Theorem impl_norm_ssp_abnf node demux :
  node <> [] -> ~ In 47 node ->
  ~ In 35 (node ++ demux) -> ~ In 63 (node ++ demux) ->
  impl_norm_ssp (47 :: 47 :: node ++ 47 :: demux) = 47 :: 47 :: node ++ 47 :: demux.
Proof.
  intros Hne Hslash H35 H63. unfold impl_norm_ssp.
  assert (H35' : ~ In 35 (47 :: 47 :: node ++ 47 :: demux)).
  { intros [E|[E|Hin]]; try discriminate. apply in_app_or in Hin as [Hin|[E|Hin]]; try discriminate;
      apply H35, in_or_app; [left|right]; exact Hin. }
  assert (H63' : ~ In 63 (47 :: 47 :: node ++ 47 :: demux)).
  { intros [E|[E|Hin]]; try discriminate. apply in_app_or in Hin as [Hin|[E|Hin]]; try discriminate;
      apply H63, in_or_app; [left|right]; exact Hin. }
  rewrite (cut_at_notin 35) by exact H35'. rewrite (cut_at_notin 63) by exact H63'.
  cbv zeta. rewrite cut_at_app by exact Hslash.
  destruct node as [|x node]; [contradiction|].
  rewrite skipn_app, skipn_all, Nat.sub_diag. cbn [app skipn]. reflexivity.
Qed.

Definition eid_stable (e : eid) : Prop := impl_norm_eid e = e.

Lemma eid_stable_dtn ssp : impl_norm_ssp ssp = ssp -> ssp <> text_none -> eid_stable (EidDtn ssp).
Proof. intros Hn Hne. unfold eid_stable, impl_norm_eid. rewrite Hn, bytes_eqb_neq by exact Hne. reflexivity. Qed.

Lemma impl_norm_cblock_stable admin blk :
  (forall a, decode_admin_record (btsd blk) = Some a -> impl_norm_admin a = a) ->
  impl_norm_cblock admin blk = blk.
Proof.
  intros H. unfold impl_norm_cblock. destruct (admin && (btype blk =? 1)); [|reflexivity].
  destruct (decode_admin_record (btsd blk)) as [a|] eqn:E; [|reflexivity].
  rewrite (H a eq_refl). apply admin_record_reencode in E. rewrite E. destruct blk; reflexivity.
Qed.

(** the guard in terms of EIDs: the three primary-block EIDs and the subject
    source of a carried status report are unchanged by the text conversion *)
Theorem impl_norm_bundle_stable b :
  eid_stable (dest (prim b)) -> eid_stable (src (prim b)) -> eid_stable (report_to (prim b)) ->
  Forall (fun blk => forall r, decode_admin_record (btsd blk) = Some (AdminStatus r) -> eid_stable (sr_src r)) (blocks b) ->
  impl_norm_bundle b = b.
Proof.
  intros Hd Hs Hr Hb. destruct b as [p bl]. unfold impl_norm_bundle. cbn [prim blocks] in *. f_equal.
  - unfold impl_norm_primary. rewrite Hd, Hs, Hr. destruct p; reflexivity.
  - induction Hb as [|blk bl Hblk _ IH]; cbn [map]; [reflexivity|]. rewrite IH. f_equal.
    apply impl_norm_cblock_stable. intros [r|t c] Ha; [|reflexivity].
    cbn [impl_norm_admin]. unfold impl_norm_status_report. rewrite (Hblk r Ha). destruct r; reflexivity.
Qed.

(** * Witnesses *)

(** "//node/svc" , "//node/svc?x=1", "//a/b" *)
Definition ssp_node_svc : bytes := [47;47;110;111;100;101;47;115;118;99].
Definition ssp_node_svc_query : bytes := ssp_node_svc ++ [63;120;61;49].

(** bytes(Bundle(primary=PrimaryBlock(bundle_flags=0x40001, crc_type=2, destination='dtn://node/svc',
      source='ipn:1.2', report_to='dtn:none', create_ts=Timestamp(dtntime=1000, seqno=5), lifetime=3600000,
      fragment_offset=5, total_app_data_len=100),
      blocks=[CanonicalBlock(type_code=7, block_num=2, block_flags=1, crc_type=1, btsd=cbor2.dumps(300)),
              CanonicalBlock(type_code=192, block_num=3, crc_type=0, btsd=b'\x01\x02'),
              CanonicalBlock(type_code=1, block_num=1, crc_type=2, btsd=b'hello')]))   after update_all_crc() *)
Definition real_bundle : bundle :=
  mkBundle
    (mkPrimary 7 262145 2 (EidDtn ssp_node_svc) (EidIpn [1; 2]) EidDtnNone 1000 5 3600000 (Some (5, 100))
               (Some [102; 50; 191; 208]))
    [mkCBlock 7 2 1 1 [25; 1; 44] (Some [85; 127]);
     mkCBlock 192 3 0 0 [1; 2] None;
     mkCBlock 1 1 0 2 [104; 101; 108; 108; 111] (Some [33; 193; 63; 47])].

Definition real_bundle_octets : bytes :=
  unhex 86 0x9f8b071a000400010282016a2f2f6e6f64652f7376638202820102820100821903e8051a0036ee80051864446632bfd086070201014319012c42557f8518c003000042010286010100024568656c6c6f4421c13f2fff.

Example real_bundle_encoding : impl_encode_bundle real_bundle = real_bundle_octets.
Proof. vm_compute. reflexivity. Qed.

Example real_bundle_decoding : decode_bundle real_bundle_octets = Some real_bundle.
Proof. vm_compute. reflexivity. Qed.

Example real_bundle_crc : with_crc_bundle real_bundle = real_bundle /\ crc_ok_bundle real_bundle = true.
Proof. split; vm_compute; reflexivity. Qed.

Example real_bundle_wf : wf_bundle real_bundle /\ impl_norm_bundle real_bundle = real_bundle /\ impl_admin_ok real_bundle = true.
Proof. split; [apply wf_bundleb_spec; vm_compute; reflexivity|]. split; vm_compute; reflexivity. Qed.

Example real_bundle_canonical : rfc9171_canonical real_bundle_octets.
Proof.
  rewrite <- real_bundle_encoding. rewrite impl_encode_guard by (vm_compute; reflexivity).
  destruct real_bundle_wf as ((Hp & Hb & _) & _). apply encode_bundle_canonical; assumption.
Qed.

(** a status report bundle:  bytes(Bundle(primary=PrimaryBlock(destination='dtn://x/', source='dtn://y/'),
      blocks=[CanonicalBlock(block_num=1, crc_type=1)/AdminRecord()/StatusReport(status=StatusInfoArray(
        received=StatusInfo(status=True, at=5), forwarded=StatusInfo(status=False),
        delivered=StatusInfo(status=True, at=0), deleted=StatusInfo(status=False)), reason_code=6,
        subj_source='dtn://a/b', subj_ts=Timestamp(dtntime=7, seqno=8), fragment_offset=3, payload_len=9)])) *)
Definition real_report : status_report :=
  mkStatusReport (true, Some 5) (false, None) (true, Some 0) (false, None) 6
                 (EidDtn [47;47;97;47;98]) 7 8 (Some 3) (Some 9).
Definition real_report_bundle : bundle :=
  mkBundle (mkPrimary 7 2 0 (EidDtn [47;47;120;47]) (EidDtn [47;47;121;47]) EidDtnNone 0 0 0 None None)
           [mkCBlock 1 1 0 1 (encode_status_report real_report) (Some [182; 32])].
Definition real_report_octets : bytes :=
  unhex 65 0x9f880702008201642f2f782f8201642f2f792f820100820000008601010001581c8201868482f50581f482f50081f4068201652f2f612f62820708030942b620ff.

Example real_report_encoding : impl_encode_bundle real_report_bundle = real_report_octets.
Proof. vm_compute. reflexivity. Qed.
Example real_report_wf :
  wf_status_report real_report /\ impl_reason_known (sr_reason real_report) = true /\
  wf_bundle real_report_bundle /\ impl_norm_bundle real_report_bundle = real_report_bundle /\
  impl_admin_ok real_report_bundle = true /\ crc_ok_bundle real_report_bundle = true.
Proof.
  split; [unfold wf_status_report; cbn; repeat split; try lia; try discriminate; repeat constructor; unfold wf_byte; lia|].
  split; [reflexivity|]. split; [apply wf_bundleb_spec; vm_compute; reflexivity|].
  repeat split; vm_compute; reflexivity.
Qed.

(** defect 1: a dtn EID whose demux contains '?' loses it when encoded *)
Definition query_bundle : bundle :=
  mkBundle (mkPrimary 7 0 0 (EidDtn ssp_node_svc_query) (EidIpn [1; 2]) EidDtnNone 10 1 1000 None None)
           [mkCBlock 1 1 0 0 [104; 105] None].

Lemma query_bundle_refutes :
  wf_bundle query_bundle /\ impl_admin_ok query_bundle = true /\
  decode_bundle (impl_encode_bundle query_bundle) <> Some query_bundle.
Proof.
  split; [apply wf_bundleb_spec; vm_compute; reflexivity|]. split; [vm_compute; reflexivity|].
  vm_compute. intros H. discriminate H.
Qed.

Lemma query_bundle_reencode_refutes :
  rfc9171_canonical (encode_bundle query_bundle) /\
  decode_bundle (encode_bundle query_bundle) = Some query_bundle /\
  impl_encode_bundle query_bundle <> encode_bundle query_bundle.
Proof.
  destruct query_bundle_refutes as ((Hp & Hb & _) & _ & _).
  split; [apply encode_bundle_canonical; assumption|]. split; [vm_compute; reflexivity|].
  vm_compute. intros H. discriminate H.
Qed.

(** defect 2: reason code 11 ("Block unsupported", RFC 9171 section 9.5) is not in the
    implementation's enum: the report, and the whole bundle carrying it, cannot be decoded *)
Definition reason11_report : status_report :=
  mkStatusReport (true, None) (false, None) (false, None) (true, Some 7) 11 (EidIpn [1; 2]) 7 8 None None.
Definition reason11_bundle : bundle :=
  mkBundle (mkPrimary 7 2 0 (EidIpn [3; 4]) (EidIpn [1; 2]) EidDtnNone 10 1 1000 None None)
           [mkCBlock 1 1 0 0 (encode_status_report reason11_report) None].

Lemma reason11_report_wf : wf_status_report reason11_report.
Proof. unfold wf_status_report; cbn; repeat split; try lia; try (right; reflexivity); try (left; reflexivity); repeat constructor; lia. Qed.

Lemma reason11_refutes :
  wf_status_report reason11_report /\
  rfc_decode_status_report (encode_status_report reason11_report) = Some reason11_report /\
  decode_status_report (encode_status_report reason11_report) = None /\
  wf_bundle reason11_bundle /\ impl_norm_bundle reason11_bundle = reason11_bundle /\
  rfc_admin_ok reason11_bundle = true /\
  decode_bundle (impl_encode_bundle reason11_bundle) = None.
Proof.
  split; [exact reason11_report_wf|]. split; [vm_compute; reflexivity|]. split; [vm_compute; reflexivity|].
  split; [apply wf_bundleb_spec; vm_compute; reflexivity|]. repeat split; vm_compute; reflexivity.
Qed.
