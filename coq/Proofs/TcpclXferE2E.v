(** C01 end to end: the composition theorems of Proofs/TcpclXferProofs.v with
    the channel hypotheses discharged by the C07 channel lemma
    ([channel_acc], Proofs/TcpclChannelSent.v): the hypothesis is now about
    the octets on the wire. *)
From Coq Require Import NArith List Bool.
From DTN Require Import Lib.Bytes Model.TcpclMsg Model.TcpclSess Model.TcpclXferSpec
  Proofs.TcpclXferSend Proofs.TcpclXferProofs Proofs.TcpclChannelProofs Proofs.TcpclChannelSent.
Import ListNotations.
Local Open Scope N_scope.

Section EndToEnd.
  Variables cA cB : cfg.
  Variables opsA opsB : list op.
  Let sA := run cA opsA.
  Let sB := run cB opsB.

  (** What each endpoint has read from its socket is a prefix of what the
      peer's socket accepted (reliable FIFO octet stream). *)
  Hypothesis net_AB : exists rest, wire sA = received (init cB) opsB ++ rest.
  Hypothesis net_BA : exists rest, wire sB = received (init cA) opsA ++ rest.
  (** Remaining side conditions of the channel lemma. *)
  Hypothesis wf_A : Forall wf_frame (sent sA).
  Hypothesis wf_B : Forall wf_frame (sent sB).
  Hypothesis shape_A : sent sA = [] \/ exists h ms, sent sA = FContact h :: map FMsg ms.
  Hypothesis shape_B : sent sB = [] \/ exists h ms, sent sB = FContact h :: map FMsg ms.

  Lemma chan_AB : prefix (handled sB) (sent sA).
  Proof. exact (channel_acc cA opsA cB opsB net_AB wf_A shape_A). Qed.
  Lemma chan_BA : prefix (handled sA) (sent sB).
  Proof. exact (channel_acc cB opsB cA opsA net_BA wf_B shape_B). Qed.

  Theorem C01_safety_e2e :
    let D := deliver_spec (handled sB) in
    map fst D = Nseq 1 (length D) /\ map snd D = firstn (length D) (queued cA opsA).
  Proof. exact (C01_safety_core cA cB opsA opsB chan_AB chan_BA). Qed.

  Theorem C01_success_e2e id len :
    In (ESig SigSendFinished [PStrNum id; PInt len; PStr RES_SUCCESS]) (trace sA) ->
    exists d, bundle_of (queued cA opsA) id = Some d /\ len = N.of_nat (length d) /\
              In (id, d) (deliver_spec (handled sB)).
  Proof. exact (C01_success_core cA cB opsA opsB chan_AB chan_BA id len). Qed.
End EndToEnd.
