(** TCPCL endpoint model: the event-loop operations other than a read, and
    Group 1 (octet accounting, monotonicity of the observation sequences). *)
From Coq Require Import ZArith NArith List Bool Lia ZifyBool ZifyN ZifyNat Arith.
From RecordUpdate Require Import RecordSet.
From DTN Require Import Lib.Bytes Model.TcpclMsg Model.TcpclSess Proofs.TcpclSessBasics Proofs.TcpclSentProofs1 Proofs.TcpclSentProofs2 Proofs.TcpclSentProofs3 Proofs.TcpclSentProofs4.
Import ListNotations RecordSetNotations.
Ltac Zify.zify_post_hook ::= Z.div_mod_to_equations.
Local Open Scope N_scope.

(** * What one event-loop operation other than a read does *)

Definition not_rx (o : op) : bool := match o with ORx _ => false | _ => true end.

(** The segment [send_next] emits for transfer [tmp] at offset [len]. *)
Definition seg_of (tmp : option (N * bytes)) (len segsz : N) : list frame :=
  match tmp with
  | None => []
  | Some (id, data) =>
    let total := N.of_nat (length data) in
    if (len =? total) && (0 <? len) then []
    else
      let start := len =? 0 in
      let seg := firstn (N.to_nat segsz) (skipn (N.to_nat len) data) in
      let newlen := len + N.of_nat (length seg) in
      let is_end := newlen =? total in
      [FMsg (MXferSeg ((if start then FLAG_START else 0) + (if is_end then FLAG_END else 0)) id
                      (if start then total_length_ext total else []) seg)]
  end.

Definition out_pq (s : ep) : list frame :=
  match tx_tmp s with
  | Some _ => seg_of (tx_tmp s) (tx_len s) (seg_size s)
  | None =>
    if in_sess s && negb (in_term s) then
      match pend_start s with
      | (id, data) :: _ => seg_of (Some (id, data)) 0 (seg_size s)
      | [] => []
      end
    else []
  end.

Definition out_op (o : op) (s : ep) : list frame :=
  match o with
  | OStart => if (state s =? ST_CONNECTING) && negb (c_passive (cf s)) then [CH] else []
  | OTerm r => out_term r false s
  | OPQ => if (0 <? n_pq s)%nat then out_pq s else []
  | OFireKa => match ka_due s with
               | Some due => if due <=? now s then [FMsg MKeepalive] else []
               | None => []
               end
  | OFireIdle => match idle_due s with
                 | Some due => if due <=? now s then out_term 1 false s else []
                 | None => []
                 end
  | _ => []
  end.

Ltac bool_contra2 :=
  exfalso;
  repeat match goal with
         | H : ?x = ?v, H' : context [?x] |- _ =>
             lazymatch type of H' with x = _ => fail | _ => rewrite H in H' end
         end;
  repeat match goal with
         | H : context [_ && false] |- _ => rewrite andb_false_r in H
         | H : context [_ && true] |- _ => rewrite andb_true_r in H
         | H : context [_ || false] |- _ => rewrite orb_false_r in H
         | H : context [_ || true] |- _ => rewrite orb_true_r in H
         end;
  cbn [andb orb negb] in *; congruence.
Ltac s_leaf := c_leaf; try bool_contra2.
Ltac st_unfold :=
  unfold step; c_process_queue; c_send_next; c_tx_proxy; c_send_sess_term;
  unfold escape, raise, ok, send_contact_header, send_msg, check_sess_term, is_sess_idle; opq.
Ltac so_unfold := unfold out_op, out_pq, seg_of, out_term, CH, contact_flags.

Lemma sent_step o s : closed s = false -> not_rx o = true -> sent (step s o) = sent s ++ out_op o s.
Proof.
  intros Hc Ho. destruct o; try discriminate Ho; st_unfold; so_unfold; rewrite ?Hc; p_split; s_leaf.
Qed.

Lemma cf_step_o o s : not_rx o = true -> cf (step s o) = cf s.
Proof. intros Ho. destruct o; try discriminate Ho; st_unfold; p_split; s_leaf. Qed.

Lemma handled_step_o o s : not_rx o = true -> handled (step s o) = handled s.
Proof. intros Ho. destruct o; try discriminate Ho; st_unfold; p_split; s_leaf. Qed.

Lemma trace_step_o o s : not_rx o = true -> exists t, trace (step s o) = trace s ++ t.
Proof. intros Ho. destruct o; try discriminate Ho; st_unfold; p_split; trace_ex_tac. Qed.
(** * Group 1: octet accounting and monotonicity *)

Definition enc (l : list frame) : bytes := concat (map encode_frame l).

Lemma enc_app a b : enc (a ++ b) = enc a ++ enc b.
Proof. unfold enc. rewrite map_app, concat_app. reflexivity. Qed.

(** Every octet written or still buffered. *)
Definition octets (s : ep) : bytes := wire s ++ conn_tx s ++ msg_tx s.

(** What every helper above the transmit pump does to the observation fields:
    frames are appended to [sent] and their encodings to [msg_tx]. *)
Definition R (s s' : ep) : Prop :=
  cf s' = cf s /\ wire s' = wire s /\ conn_tx s' = conn_tx s
  /\ (exists x, sent s' = sent s ++ x /\ msg_tx s' = msg_tx s ++ enc x)
  /\ (exists t, trace s' = trace s ++ t)
  /\ (exists h, handled s' = handled s ++ h).

Lemma R_refl s : R s s.
Proof.
  unfold R. repeat split; try reflexivity.
  - exists []. cbn. rewrite !app_nil_r. split; reflexivity.
  - exists []. rewrite app_nil_r. reflexivity.
  - exists []. rewrite app_nil_r. reflexivity.
Qed.

Lemma R_trans s1 s2 s3 : R s1 s2 -> R s2 s3 -> R s1 s3.
Proof.
  unfold R. intros (a1&a2&a3&(x&a4&a5)&(t&a6)&(h&a7)) (b1&b2&b3&(y&b4&b5)&(u&b6)&(k&b7)).
  repeat split; try congruence.
  - exists (x ++ y). rewrite b4, b5, a4, a5, enc_app, <- !app_assoc. split; reflexivity.
  - exists (t ++ u). rewrite b6, a6, <- app_assoc. reflexivity.
  - exists (h ++ k). rewrite b7, a7, <- app_assoc. reflexivity.
Qed.

Lemma R_recv_frame f s : R s (fst (recv_frame f s)).
Proof.
  unfold R. rewrite cf_recv_frame, wire_recv_frame, conn_tx_recv_frame, handled_recv_frame.
  repeat split; try reflexivity.
  - destruct f as [c|m].
    + exists (out_contact c s). rewrite sent_recv_contact, msg_tx_recv_contact. split; reflexivity.
    + exists (out_msg m s). rewrite sent_recv_msg, msg_tx_recv_msg. split; reflexivity.
  - apply trace_recv_frame.
  - exists []. rewrite app_nil_r. reflexivity.
Qed.

Lemma R_upd_rx s b h : R s (s <| rx_buf := b |> <| handled := handled s ++ h |>).
Proof.
  unfold R. p_norm. repeat split; try reflexivity.
  - exists []. cbn. rewrite !app_nil_r. split; reflexivity.
  - exists []. rewrite app_nil_r. reflexivity.
  - exists h. reflexivity.
Qed.

Lemma R_recv_loop fuel s : R s (fst (recv_loop fuel s)).
Proof.
  apply (recv_loop_inv (R s)); [|apply R_refl].
  intros s1 fr rest H1 _ _. eapply R_trans; [exact H1|].
  eapply R_trans; [|apply R_recv_frame]. apply R_upd_rx.
Qed.

Lemma R_recv_raw data s : R s (fst (recv_raw data s)).
Proof.
  unfold recv_raw. eapply R_trans; [|apply R_recv_loop].
  unfold R. opq. p_norm. repeat split; try reflexivity.
  - exists []. cbn. rewrite !app_nil_r. split; reflexivity.
  - exists []. rewrite app_nil_r. reflexivity.
  - exists []. rewrite app_nil_r. reflexivity.
Qed.

(** One step of the endpoint. *)
Definition M (s s' : ep) : Prop :=
  cf s' = cf s
  /\ (exists x, sent s' = sent s ++ x /\ octets s' = octets s ++ enc x)
  /\ (exists w, wire s' = wire s ++ w)
  /\ (exists t, trace s' = trace s ++ t)
  /\ (exists h, handled s' = handled s ++ h).

Lemma R_M s s' : R s s' -> M s s'.
Proof.
  unfold R, M, octets. intros (a1&a2&a3&(x&a4&a5)&a6&a7). repeat split; try assumption.
  - exists x. rewrite a2, a3, a4, a5, <- !app_assoc. split; reflexivity.
  - exists []. rewrite app_nil_r. exact a2.
Qed.

Lemma M_refl s : M s s.
Proof. apply R_M, R_refl. Qed.

Lemma shiftA (w c m : bytes) j : w ++ c ++ firstn j m ++ skipn j m = w ++ c ++ m.
Proof. rewrite firstn_skipn. reflexivity. Qed.
Lemma shiftC (w c m : bytes) k : w ++ firstn k c ++ skipn k c ++ m = w ++ c ++ m.
Proof. rewrite (app_assoc (firstn k c)), firstn_skipn. reflexivity. Qed.
Lemma shiftB (w c m : bytes) k j :
  w ++ firstn k (c ++ firstn j m) ++ skipn k (c ++ firstn j m) ++ skipn j m = w ++ c ++ m.
Proof. rewrite shiftC, <- app_assoc, firstn_skipn. reflexivity. Qed.

Lemma octets_step_o o s : closed s = false -> not_rx o = true ->
  octets (step s o) = octets s ++ enc (out_op o s).
Proof.
  intros Hc Ho. unfold octets. destruct o; try discriminate Ho; st_unfold; so_unfold; rewrite ?Hc; p_split;
    unfold enc; cbn [map concat app]; rewrite ?app_nil_r, <- ?app_assoc; try reflexivity; try bool_contra2.
  all: rewrite ?shiftB, ?shiftC, ?shiftA; try reflexivity.
Qed.

Lemma wire_step_o o s : not_rx o = true -> exists w, wire (step s o) = wire s ++ w.
Proof. intros Ho. destruct o; try discriminate Ho; st_unfold; p_split; app_ex_tac. Qed.

Lemma M_step s o : M s (step s o).
Proof.
  destruct (closed s) eqn:Hc.
  { rewrite step_closed by exact Hc. destruct o; try apply M_refl.
    unfold M, octets. p_norm. repeat split; try reflexivity;
      exists []; cbn [enc map concat]; rewrite ?app_nil_r; try split; reflexivity. }
  destruct (not_rx o) eqn:Ho.
  - unfold M. split; [apply cf_step_o, Ho|]. split; [|split; [|split]].
    + exists (out_op o s). split; [apply sent_step; assumption | apply octets_step_o; assumption].
    + apply wire_step_o, Ho.
    + apply trace_step_o, Ho.
    + exists []. rewrite app_nil_r. apply handled_step_o, Ho.
  - destruct o; try discriminate Ho. unfold step. rewrite Hc.
    destruct (is_nil data || negb (rx_alive s)); [apply M_refl|].
    pose proof (R_recv_raw data s) as HR.
    destruct (recv_raw data s) as [s' [k|]]; cbn [fst] in HR; [|apply R_M, HR].
    apply R_M. eapply R_trans; [exact HR|]. unfold R. p_norm. repeat split; try reflexivity.
    + exists []. cbn. rewrite !app_nil_r. split; reflexivity.
    + eexists. reflexivity.
    + exists []. rewrite app_nil_r. reflexivity.
Qed.

(** (1b) Every observation sequence only grows. *)
Theorem step_mono s o :
  (exists x, sent (step s o) = sent s ++ x) /\ (exists w, wire (step s o) = wire s ++ w)
  /\ (exists t, trace (step s o) = trace s ++ t) /\ (exists h, handled (step s o) = handled s ++ h).
Proof.
  destruct (M_step s o) as (_&(x&Hx&_)&Hw&Ht&Hh). split; [exists x; exact Hx|]. auto.
Qed.

Lemma cf_step s o : cf (step s o) = cf s.
Proof. apply M_step. Qed.

Lemma cf_run c ops : cf (run c ops) = c.
Proof. apply (run_invariant (fun s => cf s = c)); [reflexivity|]. intros s o H. rewrite cf_step. exact H. Qed.

(** (1a) Every octet written or buffered is the encoding of the frames passed
    to [send_message], in order. *)
Theorem sent_accounting c ops :
  let s := run c ops in wire s ++ conn_tx s ++ msg_tx s = concat (map encode_frame (sent s)).
Proof.
  cbv zeta. apply (run_invariant (fun s => octets s = enc (sent s))); [reflexivity|].
  intros s o H. destruct (M_step s o) as (_&(x&Hx&Ho)&_). rewrite Ho, Hx, enc_app, H. reflexivity.
Qed.
