(** C01 / C04, sender side, part 1: an abstract transition system over the
    few fields of an endpoint that matter to the transfer layer, and the proof
    that every operation of [Model/TcpclSess.v] is a finite sequence of
    abstract transitions.  The invariants are then proved on the abstract
    system (Proofs/TcpclXferSend.v), where terms are small. *)
From Coq Require Import ZArith NArith List Bool Lia ZifyBool ZifyN ZifyNat.
From RecordUpdate Require Import RecordSet.
From DTN Require Import Lib.Bytes Model.TcpclMsg Model.TcpclSess Model.TcpclXferSpec Proofs.TcpclSessBasics.
Import ListNotations RecordSetNotations.
Local Open Scope N_scope.

(** Successful "send finished" signals: (id, acknowledged length). *)
Definition succ_of (e : event) : list (N * N) :=
  match e with
  | ESig SigSendFinished [PStrNum id; PInt len; PStr r] => if r =? RES_SUCCESS then [(id, len)] else []
  | _ => []
  end.
Definition succ_events (tr : list event) : list (N * N) := flat_map succ_of tr.

(** ** The abstract state *)
Record av := mkAv {
  a_q : list bytes;             (* ghost: bundles queued so far *)
  a_pas : bool;                 (* passive side *)
  a_cl : bool;                  (* closed *)
  a_ic : bool; a_is : bool; a_it : bool;   (* in_conn, in_sess, in_term *)
  a_nid : N;                    (* next_id *)
  a_ps : list (N * bytes);      (* pend_start *)
  a_tt : option (N * bytes);    (* tx_tmp *)
  a_tl : N;                     (* tx_len *)
  a_hd : list frame;            (* handled *)
  a_sn : list frame;            (* sent *)
  a_sc : list (N * N);          (* successful "send finished" signals *)
  a_ids : list N;               (* ids returned by send_bundle_data *)
  a_ev : list event             (* "send started" and "finished: terminating" signals *)
}.

#[export] Instance eta_av : Settable _ := settable! mkAv
  <a_q; a_pas; a_cl; a_ic; a_is; a_it; a_nid; a_ps; a_tt; a_tl; a_hd; a_sn; a_sc; a_ids; a_ev>.

Definition sv (q : list bytes) (s : ep) : av :=
  mkAv q (c_passive (cf s)) (closed s) (in_conn s) (in_sess s) (in_term s) (next_id s)
       (pend_start s) (tx_tmp s) (tx_len s) (handled s) (sent s)
       (succ_events (trace s)) (send_ids (trace s)) (filter note (trace s)).

(** The segment produced by one pass of [_process_queue] with segment size [k]. *)
Definition next_seg (id : N) (data : bytes) (tl : N) (k : nat) : bytes :=
  firstn k (skipn (N.to_nat tl) data).
Definition seg_flags (tl newlen total : N) : N :=
  (if tl =? 0 then FLAG_START else 0) + (if newlen =? total then FLAG_END else 0).

Inductive astep : av -> av -> Prop :=
| A_send v f : seg_of_frame f = [] -> is_refuse f = false ->
    astep v (v <| a_sn := a_sn v ++ [f] |>)
| A_close v : astep v (v <| a_ev := a_ev v ++ map term_ev (a_ps v) |> <| a_ps := [] |> <| a_cl := true |>)   (* a close drops the transfers not yet started *)
| A_handle v f : a_cl v = false -> astep v (v <| a_hd := a_hd v ++ [f] |>)
| A_conn v : a_pas v = true \/ a_cl v = true \/ existsb is_sess_init (a_sn v) = true ->
    astep v (v <| a_ic := true |>)
| A_sess v : a_cl v = false -> a_ic v = true ->
    (a_pas v = true -> existsb is_sess_init (a_sn v) = true) ->
    astep v (v <| a_is := true |>)
| A_term v : astep v (v <| a_it := true |>)
| A_queue v d : a_cl v = false ->
    astep v (v <| a_q := a_q v ++ [d] |> <| a_nid := a_nid v + 1 |>
               <| a_ps := a_ps v ++ [(a_nid v, d)] |> <| a_ids := a_ids v ++ [a_nid v] |>)
| A_flush v : a_it v = true -> astep v (v <| a_ev := a_ev v ++ map term_ev (a_ps v) |> <| a_ps := [] |>)
| A_refuse_ps v r xid : In (FMsg (MXferRefuse r xid)) (a_hd v) ->
    astep v (v <| a_ps := dict_del xid (a_ps v) |>)
| A_refuse_cur v r xid data : In (FMsg (MXferRefuse r xid)) (a_hd v) -> a_tt v = Some (xid, data) ->
    astep v (v <| a_tt := None |> <| a_tl := 0 |>)
| A_start v id data rest : a_tt v = None -> a_is v = true -> a_it v = false ->
    a_ps v = (id, data) :: rest -> a_cl v = false ->
    astep v (v <| a_ps := rest |> <| a_tt := Some (id, data) |> <| a_tl := 0 |>
               <| a_ev := a_ev v ++ [started_ev id (N.of_nat (length data))] |>)
| A_seg v id data k :
    a_tt v = Some (id, data) ->
    (a_tl v =? N.of_nat (length data)) && (0 <? a_tl v) = false ->
    let total := N.of_nat (length data) in
    let seg := next_seg id data (a_tl v) k in
    let newlen := a_tl v + N.of_nat (length seg) in
    let m := MXferSeg (seg_flags (a_tl v) newlen total) id
                      (if a_tl v =? 0 then total_length_ext total else []) seg in
    astep v (if newlen =? total
             then v <| a_sn := a_sn v ++ [FMsg m] |> <| a_tt := None |> <| a_tl := 0 |>
             else v <| a_sn := a_sn v ++ [FMsg m] |> <| a_tl := newlen |>)
| A_succ v fl id len : In (FMsg (MXferAck fl id len)) (a_hd v) -> has_end fl = true ->
    astep v (v <| a_sc := a_sc v ++ [(id, len)] |>).

Inductive asteps : av -> av -> Prop :=
| AS_refl v : asteps v v
| AS_step v1 v2 v3 : asteps v1 v2 -> astep v2 v3 -> asteps v1 v3.

Lemma asteps_trans v1 v2 v3 : asteps v1 v2 -> asteps v2 v3 -> asteps v1 v3.
Proof. intros H1 H2. induction H2; [exact H1|]. eapply AS_step; [apply IHasteps, H1|eassumption]. Qed.

Lemma asteps_one v1 v2 : astep v1 v2 -> asteps v1 v2.
Proof. intros H. eapply AS_step; [apply AS_refl|exact H]. Qed.

Lemma asteps_eq v1 v2 : v1 = v2 -> asteps v1 v2.
Proof. intros ->. apply AS_refl. Qed.

(** An invariant of the abstract system holds after any sequence of steps. *)
Lemma asteps_invariant (P : av -> Prop) :
  (forall v v', P v -> astep v v' -> P v') -> forall v v', asteps v v' -> P v -> P v'.
Proof. intros Hs v v' H. induction H; intros Hv; [exact Hv|]. eapply Hs; [apply IHasteps, Hv|eassumption]. Qed.

(** ** Helpers that leave the abstract view alone *)
Ltac sv_norm :=
  repeat match goal with
  | |- context [sv ?q (set ?p ?f ?x)] =>
      let H := fresh in
      assert (H : forall y, sv q (set p f y) = sv q y) by (intro; reflexivity);
      rewrite (H x); clear H
  end.

Lemma succ_events_app a b : succ_events (a ++ b) = succ_events a ++ succ_events b.
Proof. apply flat_map_app. Qed.
Lemma send_ids_app a b : send_ids (a ++ b) = send_ids a ++ send_ids b.
Proof. apply flat_map_app. Qed.

Lemma filter_app_l {A} (f : A -> bool) a b : filter f (a ++ b) = filter f a ++ filter f b.
Proof. induction a as [|x a IH]; cbn [filter app]; [reflexivity|]. destruct (f x); cbn [app]; rewrite IH; reflexivity. Qed.

Lemma sv_emit q e s :
  sv q (emit e s) = sv q s <| a_sc := a_sc (sv q s) ++ succ_of e |> <| a_ids := a_ids (sv q s) ++ send_ids [e] |>
                           <| a_ev := a_ev (sv q s) ++ (if note e then [e] else []) |>.
Proof.
  unfold sv, emit. cbn [trace set]. cbn. rewrite succ_events_app, send_ids_app, filter_app_l.
  unfold succ_events at 2. cbn [flat_map filter]. rewrite app_nil_r. destruct (note e); reflexivity.
Qed.

Lemma sv_emit_q q e s : succ_of e = [] -> send_ids [e] = [] -> note e = false -> sv q (emit e s) = sv q s.
Proof. intros H1 H2 H3. rewrite sv_emit, H1, H2, H3. cbn. rewrite !app_nil_r. reflexivity. Qed.

Lemma sv_set_state q st s : sv q (set_state st s) = sv q s.
Proof. unfold set_state. destruct (state s =? st); [reflexivity|]. rewrite sv_emit_q by reflexivity. reflexivity. Qed.
Lemma sv_ka_reset q s : sv q (ka_reset s) = sv q s. Proof. reflexivity. Qed.
Lemma sv_idle_reset q s : sv q (idle_reset s) = sv q s. Proof. reflexivity. Qed.
Lemma sv_send_ready q s : sv q (send_ready s) = sv q s.
Proof. unfold send_ready. destruct (io_set s); match goal with |- context [if ?c then _ else _] => destruct c end; reflexivity. Qed.
Lemma sv_pq_trigger q s : sv q (pq_trigger s) = sv q s.
Proof. unfold pq_trigger. destruct (pq_set s); reflexivity. Qed.
Lemma sv_sbd q n s : sv q (send_buffer_decreased n s) = sv q s.
Proof. unfold send_buffer_decreased. destruct (_ <? _); [apply sv_pq_trigger|reflexivity]. Qed.

Lemma sv_send_frame q f s : sv q (send_frame f s) = sv q s <| a_sn := a_sn (sv q s) ++ [f] |>.
Proof. unfold send_frame. rewrite sv_idle_reset, sv_ka_reset, sv_send_ready. reflexivity. Qed.

Lemma av_ev_ext (v : av) l1 l2 : l1 = l2 -> v <| a_ev := l1 |> = v <| a_ev := l2 |>.
Proof. intros ->. reflexivity. Qed.

Lemma sv_flush_fold q (l : list (N * bytes)) : forall s0,
  sv q (fold_left (fun s (it : N * bytes) =>
               emit (ESig SigSendFinished [PStrNum (fst it); PInt 0; PStr RES_TERMINATING])
                    (s <| tx_map := dict_del (fst it) (tx_map s) |>)) l s0)
  = sv q s0 <| a_ev := a_ev (sv q s0) ++ map term_ev l |>.
Proof.
  induction l as [|it l IH]; intros s0; cbn [fold_left map].
  - unfold sv. cbn. rewrite app_nil_r. reflexivity.
  - rewrite IH, sv_emit. sv_norm. cbn [succ_of send_ids flat_map note]. rewrite N.eqb_refl.
    unfold sv. cbn. rewrite !app_nil_r, <- app_assoc. reflexivity.
Qed.

Lemma sv_flush_pend_start q s :
  sv q (flush_pend_start s) = sv q s <| a_ev := a_ev (sv q s) ++ map term_ev (a_ps (sv q s)) |> <| a_ps := [] |>.
Proof. unfold flush_pend_start. rewrite sv_flush_fold. reflexivity. Qed.

Lemma sv_upd_closed q v s : sv q (s <| closed := v |>) = sv q s <| a_cl := v |>. Proof. reflexivity. Qed.

Lemma sv_do_close q s :
  sv q (do_close s) =
  if closed s then sv q s
  else sv q s <| a_ev := a_ev (sv q s) ++ map term_ev (a_ps (sv q s)) |> <| a_ps := [] |> <| a_cl := true |>.
Proof.
  unfold do_close. cbv zeta. cbn [closed set].
  destruct (closed s) eqn:E; [reflexivity|].
  rewrite sv_emit_q by reflexivity. rewrite sv_upd_closed.
  match goal with |- context [if ?c then _ else _] => destruct c end; sv_norm; rewrite sv_flush_pend_start; reflexivity.
Qed.

Lemma sv_merge_session_params q s : sv q (fst (merge_session_params s)) = sv q s.
Proof.
  unfold merge_session_params.
  destruct (sessinit_this s) as [this|]; [|reflexivity].
  destruct (sessinit_peer s) as [peer|]; [|reflexivity].
  destruct (negb (ascii (si_nodeid peer))); reflexivity.
Qed.

(** ** Helpers as abstract transitions *)
Lemma as_close q s : asteps (sv q s) (sv q (do_close s)).
Proof. rewrite sv_do_close. destruct (closed s); [apply AS_refl|apply asteps_one, A_close]. Qed.

Lemma as_tx_proxy q a s : asteps (sv q s) (sv q (fst (tx_proxy a s))).
Proof.
  unfold tx_proxy.
  match goal with |- context [if ?c then ?x else ?y] =>
    assert (H : sv q (fst (if c then x else y)) = sv q s) end.
  { destruct (_ <? CHUNK); cbn [fst]; [|reflexivity].
    sv_norm. rewrite sv_sbd. sv_norm. reflexivity. }
  match goal with |- context [if ?c then ?x else ?y] => destruct (if c then x else y) as [s1 ue] end.
  cbn [fst] in H. rewrite <- H. destruct (is_nil (conn_tx s1)); [apply AS_refl|].
  cbv zeta. destruct (_ =? 0); cbn [fst]; [apply as_close|].
  sv_norm. apply AS_refl.
Qed.

Lemma as_check_sess_term q s : asteps (sv q s) (sv q (check_sess_term s)).
Proof. unfold check_sess_term. destruct (_ && _); [apply as_close|apply AS_refl]. Qed.

Lemma as_send_frame q f s : seg_of_frame f = [] -> is_refuse f = false ->
  asteps (sv q s) (sv q (send_frame f s)).
Proof. intros H1 H2. rewrite sv_send_frame. apply asteps_one. exact (A_send (sv q s) f H1 H2). Qed.

Lemma as_send_msg q m s : seg_of_frame (FMsg m) = [] -> is_refuse (FMsg m) = false ->
  asteps (sv q s) (sv q (send_msg m s)).
Proof. unfold send_msg. apply as_send_frame. Qed.

Lemma as_send_contact_header q s : asteps (sv q s) (sv q (send_contact_header s)).
Proof. unfold send_contact_header. apply as_send_frame; reflexivity. Qed.

Lemma sv_send_sess_init q s :
  sv q (send_sess_init s) =
  sv q s <| a_sn := a_sn (sv q s) ++ [FMsg (MSessInit (c_keepalive (cf s)) (c_seg_mru (cf s)) (2^64 - 1) (c_nodeid (cf s)) [])] |>.
Proof. unfold send_sess_init. cbv zeta. sv_norm. unfold send_msg. rewrite sv_send_frame. reflexivity. Qed.

Lemma as_send_sess_init q s : asteps (sv q s) (sv q (send_sess_init s)).
Proof. rewrite sv_send_sess_init. apply asteps_one. apply (A_send (sv q s)); reflexivity. Qed.

Lemma as_send_sess_term q r b s : asteps (sv q s) (sv q (fst (send_sess_term r b s))).
Proof.
  unfold send_sess_term. destruct (negb (in_sess s)); [apply AS_refl|]. destruct (in_term s); [apply AS_refl|].
  cbv zeta. cbn [fst ok].
  eapply asteps_trans; [|apply as_send_msg; reflexivity].
  rewrite sv_set_state. apply asteps_one. exact (A_term (sv q s)).
Qed.

Lemma as_escape q r s0 : asteps (sv q s0) (sv q (fst r)) -> asteps (sv q s0) (sv q (escape r)).
Proof.
  destruct r as [s [k|]]; cbn [escape fst]; [|exact (fun H => H)].
  rewrite sv_emit_q by reflexivity. exact (fun H => H).
Qed.

Lemma sv_upd_tx_len q v s : sv q (s <| tx_len := v |>) = sv q s <| a_tl := v |>. Proof. reflexivity. Qed.
Lemma sv_upd_tx_tmp q v s : sv q (s <| tx_tmp := v |>) = sv q s <| a_tt := v |>. Proof. reflexivity. Qed.
Lemma sv_upd_pend_start q v s : sv q (s <| pend_start := v |>) = sv q s <| a_ps := v |>. Proof. reflexivity. Qed.
Lemma sv_upd_in_sess q v s : sv q (s <| in_sess := v |>) = sv q s <| a_is := v |>. Proof. reflexivity. Qed.
Lemma sv_upd_in_conn q v s : sv q (s <| in_conn := v |>) = sv q s <| a_ic := v |>. Proof. reflexivity. Qed.
Lemma sv_upd_in_term q v s : sv q (s <| in_term := v |>) = sv q s <| a_it := v |>. Proof. reflexivity. Qed.
Lemma sv_upd_handled q v s : sv q (s <| handled := v |>) = sv q s <| a_hd := v |>. Proof. reflexivity. Qed.
Lemma sv_upd_next_id q v s : sv q (s <| next_id := v |>) = sv q s <| a_nid := v |>. Proof. reflexivity. Qed.

Ltac sv_push :=
  repeat first
    [ progress sv_norm
    | rewrite sv_upd_tx_len | rewrite sv_upd_tx_tmp | rewrite sv_upd_pend_start | rewrite sv_upd_in_sess
    | rewrite sv_upd_in_conn | rewrite sv_upd_in_term | rewrite sv_upd_handled | rewrite sv_upd_next_id
    | rewrite sv_pq_trigger | rewrite sv_send_frame | rewrite sv_set_state
    | rewrite sv_emit_q by reflexivity ].

Lemma as_send_next q s : asteps (sv q s) (sv q (send_next s)).
Proof.
  unfold send_next. destruct (tx_tmp s) as [[id data]|] eqn:T; [|apply AS_refl].
  cbv zeta. destruct ((tx_len s =? N.of_nat (length data)) && (0 <? tx_len s)) eqn:Dn; [apply AS_refl|].
  apply asteps_one.
  pose proof (A_seg (sv q s) id data (N.to_nat (seg_size s)) T Dn) as H. cbv zeta in H.
  unfold next_seg, seg_flags in H. cbn [a_tl sv] in H. unfold send_msg.
  match goal with |- context [if ?c then _ else _] => destruct c end; sv_push; exact H.
Qed.

Lemma as_process_queue q s : closed s = false -> asteps (sv q s) (sv q (fst (process_queue s))).
Proof.
  intros Cl.
  unfold process_queue. cbv zeta. cbn [tx_tmp in_sess in_term pend_start set].
  destruct (tx_tmp s) as [p|] eqn:T.
  - cbn [fst]. eapply asteps_trans; [|apply as_send_next]. sv_push. apply AS_refl.
  - destruct (in_sess s) eqn:IS; cbn [negb]; [|cbn [fst]; sv_push; apply AS_refl].
    destruct (in_term s) eqn:IT; [cbn [fst]; sv_push; apply AS_refl|].
    destruct (pend_start s) as [|[id data] rest] eqn:PS; [cbn [fst]; sv_push; apply AS_refl|].
    cbn [fst]. eapply asteps_trans; [|apply as_send_next]. sv_push.
    rewrite sv_emit. sv_push. apply asteps_one.
    pose proof (A_start (sv q s) id data rest T IS IT PS Cl) as H.
    match goal with H : astep _ ?a |- astep _ ?b => replace b with a; [exact H|] end.
    unfold sv. cbn. rewrite !app_nil_r. reflexivity.
Qed.


Lemma succ_refused id ack reason :
  succ_of (ESig SigSendFinished [PStrNum id; PInt ack; PStr (RES_REFUSED reason)]) = [].
Proof.
  cbn [succ_of]. destruct (RES_REFUSED reason =? RES_SUCCESS) eqn:E; [|reflexivity].
  apply N.eqb_eq in E. unfold RES_REFUSED, RES_SUCCESS in E. lia.
Qed.

Lemma note_refused id ack reason :
  note (ESig SigSendFinished [PStrNum id; PInt ack; PStr (RES_REFUSED reason)]) = false.
Proof. cbn [note]. apply N.eqb_neq. unfold RES_REFUSED, RES_TERMINATING. lia. Qed.

Lemma as_handle_init q ka smru xmru nid ext s :
  closed s = false -> in_conn s = true ->
  asteps (sv q s) (sv q (fst (handle_msg (MSessInit ka smru xmru nid ext) s))).
Proof.
  intros Cl Ic. unfold handle_msg. cbv zeta.
  assert (G : asteps (sv q s)
               (sv q (if c_passive (cf s) then send_sess_init s else s) <| a_is := true |>)).
  { destruct (c_passive (cf s)) eqn:P.
    - eapply asteps_trans; [apply as_send_sess_init|]. rewrite sv_send_sess_init.
      apply asteps_one. apply A_sess; cbn; try assumption.
      intros _. rewrite existsb_app. cbn. apply orb_true_r.
    - apply asteps_one. apply A_sess; cbn; try assumption. congruence. }
  match goal with |- context [merge_session_params ?x] =>
    pose proof (sv_merge_session_params q x) as H; destruct (merge_session_params x) as [s1 [k|]] end;
  cbn [fst] in *; rewrite ?sv_set_state, H; sv_push; exact G.
Qed.

Lemma send_sess_term_ok q r b s : in_sess s = true -> in_term s = false ->
  exists s', send_sess_term r b s = (s', None) /\
    sv q s' = sv q s <| a_it := true |> <| a_sn := a_sn (sv q s) ++ [FMsg (MSessTerm (if b then 1 else 0) r)] |>.
Proof.
  intros IS IT. unfold send_sess_term. rewrite IS, IT. cbn [negb]. cbv zeta.
  eexists. split; [reflexivity|]. unfold send_msg. sv_push. reflexivity.
Qed.

Lemma as_handle_term q fl r s : asteps (sv q s) (sv q (fst (handle_msg (MSessTerm fl r) s))).
Proof.
  unfold handle_msg. destruct (in_sess s) eqn:IS; cbn [negb]; [|apply AS_refl].
  destruct (in_term s) eqn:IT.
  - cbn [fst]. eapply asteps_trans; [|apply as_check_sess_term]. rewrite sv_flush_pend_start.
    apply asteps_one. apply A_flush. exact IT.
  - destruct (send_sess_term_ok q r true s IS IT) as (s' & E & Hs'). rewrite E. cbn [fst].
    eapply asteps_trans; [|apply as_check_sess_term]. rewrite sv_flush_pend_start, Hs'.
    eapply AS_step; [eapply AS_step; [eapply AS_step; [apply AS_refl|]|]|].
    + exact (A_term (sv q s)).
    + apply (A_send _ (FMsg (MSessTerm 1 r))); reflexivity.
    + apply A_flush. reflexivity.
Qed.

Lemma as_handle_seg q fl xid ext data s :
  asteps (sv q s) (sv q (fst (handle_msg (MXferSeg fl xid ext data) s))).
Proof.
  unfold handle_msg. destruct (negb (in_sess s)); [apply AS_refl|].
  assert (G : forall s1 acc, sv q s1 = sv q s ->
    asteps (sv q s) (sv q (fst (
        let s := s1 <| rx_tmp := Some (xid, acc) |> in
        let len := N.of_nat (length acc) in
        let s := send_msg (MXferAck fl xid len) s in
        if has_end fl then
          let s := s <| rx_map := dict_set xid acc (rx_map s) |> in
          let s := emit (ESig SigRecvFinished [PStrNum xid; PInt len; PStr RES_SUCCESS]) s in
          (check_sess_term (s <| rx_tmp := None |>), Done)
        else
          (emit (ESig SigRecvInter [PStrNum xid; PInt len]) s, Done))))).
  { intros s1 acc E. cbv zeta. destruct (has_end fl); cbn [fst].
    - eapply asteps_trans; [|apply as_check_sess_term]. unfold send_msg. sv_push. rewrite E.
      apply asteps_one. apply (A_send (sv q s)); reflexivity.
    - unfold send_msg. sv_push. rewrite E.
      apply asteps_one. apply (A_send (sv q s)); reflexivity. }
  destruct (has_start fl).
  - apply G. sv_push. reflexivity.
  - destruct (rx_tmp s) as [[c acc0]|]; [|apply AS_refl].
    destruct (c =? xid); [|apply AS_refl]. apply G. reflexivity.
Qed.

Lemma as_handle_ack q fl xid len s : In (FMsg (MXferAck fl xid len)) (handled s) ->
  asteps (sv q s) (sv q (fst (handle_msg (MXferAck fl xid len) s))).
Proof.
  intros Hin. unfold handle_msg. destruct (negb (in_sess s)); [apply AS_refl|].
  destruct (dict_get xid (tx_map s)); [|apply AS_refl]. cbv zeta.
  destruct (has_end fl) eqn:En.
  - cbn [pend_ack set]. destruct (negb (mem_N xid (pend_ack s))); cbn [fst]; [sv_push; apply AS_refl|].
    eapply asteps_trans; [|apply as_check_sess_term]. sv_push. rewrite sv_emit. sv_push.
    apply asteps_one. cbn [succ_of send_ids flat_map app]. rewrite N.eqb_refl.
    pose proof (A_succ (sv q s) fl xid len Hin En) as H.
    match goal with H : astep _ ?a |- astep _ ?b => replace b with a; [exact H|] end.
    unfold sv. cbn. rewrite !app_nil_r. reflexivity.
  - cbn [fst]. sv_push. apply AS_refl.
Qed.

Lemma as_handle_refuse q r xid s : In (FMsg (MXferRefuse r xid)) (handled s) ->
  asteps (sv q s) (sv q (fst (handle_msg (MXferRefuse r xid) s))).
Proof.
  intros Hin. unfold handle_msg. destruct (negb (in_sess s)); [apply AS_refl|].
  destruct (dict_get xid (tx_map s)) as [ack|]; [|apply AS_refl]. cbv zeta. cbn [fst].
  eapply asteps_trans; [|apply as_check_sess_term].
  match goal with |- asteps _ (sv q (match tx_tmp ?x with _ => _ end)) =>
    assert (H : sv q x = sv q s <| a_ps := dict_del xid (pend_start s) |>);
    [|generalize dependent x] end.
  { sv_push. rewrite sv_emit, succ_refused, note_refused. sv_push. unfold sv. cbn. rewrite !app_nil_r. reflexivity. }
  intros x H.
  assert (G : asteps (sv q s) (sv q x)).
  { rewrite H. apply asteps_one. exact (A_refuse_ps (sv q s) r xid Hin). }
  destruct (tx_tmp x) as [[cur d]|] eqn:T; [|exact G].
  destruct (cur =? xid) eqn:Ec; [|exact G]. apply N.eqb_eq in Ec. subst cur.
  eapply AS_step; [exact G|]. sv_push.
  apply (A_refuse_cur (sv q x) r xid d); [|exact T].
  rewrite H. exact Hin.
Qed.

Lemma as_recv_frame_msg q m s :
  closed s = false -> in_conn s = true -> In (FMsg m) (handled s) ->
  asteps (sv q s) (sv q (fst (recv_frame (FMsg m) s))).
Proof.
  intros Cl Ic Hin.
  assert (G : asteps (sv q s) (sv q (fst (handle_msg m s)))).
  { destruct m.
    - apply as_handle_seg.
    - apply as_handle_ack, Hin.
    - apply as_handle_refuse, Hin.
    - apply AS_refl.
    - apply as_handle_term.
    - apply AS_refl.
    - apply as_handle_init; assumption. }
  unfold recv_frame. destruct (handle_msg m s) as [s1 [|rr|k]]; cbn [fst ok raise] in *; try exact G.
  eapply asteps_trans; [exact G|]. apply as_send_msg; reflexivity.
Qed.

Lemma pas_sv q s : c_passive (cf s) = a_pas (sv q s).
Proof. reflexivity. Qed.

Lemma as_recv_frame_contact q c s : asteps (sv q s) (sv q (fst (recv_frame (FContact c) s))).
Proof.
  unfold recv_frame.
  destruct (negb (bytes_eqb (ch_magic c) MAGIC)); [apply as_close|].
  destruct (negb (ch_version c =? 4)); [apply as_close|].
  cbv zeta.
  match goal with |- context [conhead_this ?x] =>
    assert (G1 : asteps (sv q s) (sv q x)); [|assert (P1 : c_passive (cf x) = c_passive (cf s)); [|generalize dependent x]] end.
  { destruct (c_passive (cf s)); [|apply AS_refl]. sv_push. apply as_send_contact_header. }
  { destruct (c_passive (cf s)) eqn:P; [|exact P].
    rewrite (pas_sv q).
    sv_push. unfold send_contact_header. rewrite sv_send_frame. cbn. exact P. }
  intros s1 G1 P1. destruct (conhead_this s1); [|exact G1]. cbn [fst raise].
  match goal with |- context [set_state ST_SESSNEG ?y] =>
    assert (H3 : sv q (set_state ST_SESSNEG y) = sv q s1 <| a_ic := true |>) by (sv_push; reflexivity);
    generalize dependent (set_state ST_SESSNEG y) end.
  intros s3 H3.
  assert (P3 : c_passive (cf s3) = c_passive (cf s1)).
  { change (a_pas (sv q s3) = a_pas (sv q s1)). rewrite H3. reflexivity. }
  eapply asteps_trans; [exact G1|].
  assert (Gc : asteps (sv q s1) (sv q (do_close s3))).
  { assert (C13 : closed s3 = closed s1).
    { change (a_cl (sv q s3) = a_cl (sv q s1)). rewrite H3. reflexivity. }
    rewrite sv_do_close, H3. destruct (closed s3) eqn:C3.
    - apply asteps_one. apply A_conn. right. left. symmetry. exact C13.
    - eapply AS_step; [apply asteps_one, A_close|].
      match goal with |- astep ?a ?b => replace b with (a <| a_ic := true |>) by reflexivity end.
      apply A_conn. right. left. reflexivity. }
  assert (Go : asteps (sv q s1) (sv q (if c_passive (cf s3) then s3 else send_sess_init s3))).
  { rewrite P3. destruct (c_passive (cf s1)) eqn:P.
    - rewrite H3. apply asteps_one. apply A_conn. left. exact P.
    - rewrite sv_send_sess_init, H3.
      eapply AS_step; [apply asteps_one; apply (A_send (sv q s1) (FMsg (MSessInit (c_keepalive (cf s3)) (c_seg_mru (cf s3)) (2^64 - 1) (c_nodeid (cf s3)) []))); reflexivity|].
      match goal with |- astep ?a ?b => replace b with (a <| a_ic := true |>) by reflexivity end.
      apply A_conn. right. right. cbn. rewrite existsb_app. cbn. apply orb_true_r. }
  destruct (c_require_tls (cf s3)) as [[|]|]; cbn [fst ok].
  - exact Gc.
  - destruct (c_passive (cf s3)); exact Go.
  - destruct (c_passive (cf s3)); exact Go.
Qed.

Lemma as_recv_loop q fuel : forall s, asteps (sv q s) (sv q (fst (recv_loop fuel s))).
Proof.
  induction fuel as [|fuel IH]; intros s; cbn [recv_loop]; [apply AS_refl|].
  destruct (is_nil (rx_buf s)); cbn [orb]; [apply AS_refl|].
  destruct (closed s) eqn:Cl; [apply AS_refl|].
  destruct (parse_frame (in_conn s) (rx_buf s)) as [[fr rest]|] eqn:Pf; [|apply AS_refl].
  set (s1 := s <| rx_buf := rest |> <| handled := handled s ++ [fr] |>).
  assert (G1 : asteps (sv q s) (sv q s1)).
  { unfold s1. sv_push. apply asteps_one. apply (A_handle (sv q s) fr). exact Cl. }
  assert (G2 : asteps (sv q s1) (sv q (fst (recv_frame fr s1)))).
  { destruct fr as [c|m]; [apply as_recv_frame_contact|].
    apply as_recv_frame_msg; [exact Cl| |apply in_or_app; right; left; reflexivity].
    unfold parse_frame in Pf. change (in_conn s1) with (in_conn s).
    destruct (in_conn s); [reflexivity|].
    destruct (parse_contact (rx_buf s)) as [[? ?]|]; discriminate Pf. }
  destruct (recv_frame fr s1) as [s2 [k|]]; cbn [fst] in *.
  - eapply asteps_trans; eassumption.
  - eapply asteps_trans; [eapply asteps_trans; eassumption|apply IH].
Qed.

(** ** Every operation is a sequence of abstract transitions *)
Theorem as_step q s o : asteps (sv q s) (sv (q ++ queued_by s o) (step s o)).
Proof.
  destruct o; unfold queued_by; rewrite ?app_nil_r; unfold step.
  - (* OStart *)
    destruct (closed s); [apply AS_refl|].
    destruct (negb (state s =? ST_CONNECTING)); [apply AS_refl|].
    cbv zeta. rewrite sv_set_state.
    destruct (c_passive (cf s)); [apply AS_refl|]. sv_push. apply as_send_contact_header.
  - (* OSend *)
    destruct (closed s) eqn:Cl; cbn [orb]; [rewrite app_nil_r; apply AS_refl|].
    destruct (in_term s) eqn:It; [rewrite app_nil_r, sv_emit_q by reflexivity; apply AS_refl|]. cbv zeta.
    rewrite sv_emit. sv_push. apply asteps_one.
    pose proof (A_queue (sv q s) data Cl) as H.
    cbn [succ_of send_ids flat_map app]. cbn [a_q a_nid a_ps a_ids sv] in H.
    match goal with H : astep _ ?a |- astep _ ?b => replace b with a; [exact H|] end.
    unfold sv. cbn. rewrite !app_nil_r. reflexivity.
  - (* OTerm *)
    destruct (closed s); [apply AS_refl|].
    destruct (negb (in_sess s)); [apply as_close|].
    apply as_escape, as_send_sess_term.
  - (* OClose *)
    destruct (closed s); [apply AS_refl|]. apply as_close.
  - (* OPop *)
    destruct (closed s); [apply AS_refl|].
    destruct (dict_get id (rx_map s)); rewrite sv_emit_q by reflexivity; sv_push; apply AS_refl.
  - (* OTxPump *)
    destruct (closed s); [apply AS_refl|].
    match goal with |- context [if ?c then _ else _] => destruct c end; [|apply AS_refl].
    cbv zeta.
    pose proof (as_tx_proxy q accept (s <| pend_set := false |>)) as H.
    destruct (tx_proxy accept (s <| pend_set := false |>)) as [s1 cont]. cbn [fst] in H.
    assert (H' : asteps (sv q s) (sv q s1)) by exact H.
    destruct cont; [exact H'|]. destruct idle; sv_push; exact H'.
  - (* ORx *)
    destruct (closed s); [apply AS_refl|].
    destruct (is_nil data || negb (rx_alive s)); [apply AS_refl|].
    assert (H : asteps (sv q s) (sv q (fst (recv_raw data s)))).
    { unfold recv_raw. cbv zeta. eapply asteps_trans; [|apply as_recv_loop].
      sv_push. rewrite sv_idle_reset. sv_push. apply AS_refl. }
    destruct (recv_raw data s) as [s1 [k|]]; cbn [fst] in H; [|exact H].
    rewrite sv_emit_q by reflexivity. sv_push. exact H.
  - (* ORxEof *)
    destruct (closed s); [apply AS_refl|]. destruct (rx_alive s); [apply as_close|apply AS_refl].
  - (* OPQ *)
    destruct (closed s) eqn:Cl; [apply AS_refl|].
    match goal with |- context [if ?c then _ else _] => destruct c end; [|apply AS_refl].
    pose proof (as_process_queue q s Cl) as H.
    destruct (process_queue s) as [s1 keep]. cbn [fst] in H.
    destruct keep; sv_push; exact H.
  - (* OFireKa *)
    destruct (closed s); [apply AS_refl|].
    destruct (ka_due s) as [due|]; [|apply AS_refl].
    destruct (due <=? now s); [|apply AS_refl].
    eapply asteps_trans; [|apply as_send_msg; reflexivity]. sv_push. apply AS_refl.
  - (* OFireIdle *)
    destruct (closed s); [apply AS_refl|].
    destruct (idle_due s) as [due|]; [|apply AS_refl].
    destruct (due <=? now s); [|apply AS_refl]. cbv zeta. cbn [in_term set].
    destruct (in_term s).
    + eapply asteps_trans; [|apply as_close]. sv_push. apply AS_refl.
    + apply as_escape. eapply asteps_trans; [|apply as_send_sess_term]. sv_push. apply AS_refl.
  - (* OAdvance *) sv_push. apply AS_refl.
Qed.

Lemma queued_from_snoc ops : forall s o,
  queued_from s (ops ++ [o]) = queued_from s ops ++ queued_by (fold_left step ops s) o.
Proof.
  induction ops as [|a ops IH]; intros s o; cbn [app queued_from fold_left].
  - rewrite app_nil_r. reflexivity.
  - rewrite IH, app_assoc. reflexivity.
Qed.

Lemma queued_snoc c ops o : queued c (ops ++ [o]) = queued c ops ++ queued_by (run c ops) o.
Proof. apply queued_from_snoc. Qed.

(** Every reachable state is reachable in the abstract system, with the
    ghost queue equal to the bundles queued by the operations. *)
Theorem as_run c ops : asteps (sv [] (init c)) (sv (queued c ops) (run c ops)).
Proof.
  induction ops as [|o ops IH] using rev_ind; [apply AS_refl|].
  rewrite queued_snoc, run_snoc. eapply asteps_trans; [exact IH|apply as_step].
Qed.
