(** Theorems about [Lib/Crc.v]: linearity of [pmod], the characterisation of
    [pmod] as remainder, the burst-error theorem, and the agreement of the
    executable bit-serial CRCs with the polynomial specification. *)
From Coq Require Import List NArith Bool Arith Lia.
From DTN Require Import Lib.Bytes Lib.Crc.
Import ListNotations.

(** * Coefficient-wise xor *)

Lemma xorl_length a : forall b, length (xorl a b) = length a.
Proof.
  induction a as [|x a IH]; intros [|y b]; cbn; try reflexivity. now rewrite IH.
Qed.

Lemma zeros_length n : length (zeros n) = n.
Proof. apply repeat_length. Qed.
Lemma ones_length n : length (ones n) = n.
Proof. apply repeat_length. Qed.

Lemma zeros_S n : zeros (S n) = false :: zeros n.
Proof. reflexivity. Qed.
Lemma zeros_snoc n : zeros n ++ [false] = zeros (S n).
Proof. unfold zeros. now rewrite <- repeat_cons. Qed.
Lemma zeros_app n k : zeros n ++ zeros k = zeros (n + k).
Proof. unfold zeros. now rewrite repeat_app. Qed.

Lemma xorl_zeros_r a : forall n, xorl a (zeros n) = a.
Proof.
  induction a as [|x a IH]; intros [|n]; cbn; try reflexivity.
  rewrite xorb_false_r. f_equal. apply IH.
Qed.

Lemma xorl_zeros_l b : xorl (zeros (length b)) b = b.
Proof. unfold zeros. induction b as [|y b IH]; cbn [length repeat xorl]; [reflexivity|]. now rewrite IH, xorb_false_l. Qed.

Lemma xorl_nilpotent a : xorl a a = zeros (length a).
Proof. unfold zeros. induction a as [|x a IH]; cbn; [reflexivity|]. now rewrite xorb_nilpotent, IH. Qed.

Lemma xorl_comm a : forall b, length a = length b -> xorl a b = xorl b a.
Proof.
  induction a as [|x a IH]; intros [|y b] H; cbn in *; try reflexivity; try discriminate.
  rewrite xorb_comm. f_equal. apply IH. lia.
Qed.

Lemma xorl_app a : forall b c d, length a = length b ->
  xorl (a ++ c) (b ++ d) = xorl a b ++ xorl c d.
Proof.
  induction a as [|x a IH]; intros [|y b] c d H; cbn in *; try reflexivity; try discriminate.
  f_equal. apply IH. lia.
Qed.

Lemma xorl_involutive a : forall b, xorl (xorl a b) b = a.
Proof.
  induction a as [|x a IH]; intros [|y b]; cbn; try reflexivity.
  f_equal; [destruct x, y; reflexivity | apply IH].
Qed.

(** (a+b)+(c+d) = (a+c)+(b+d) *)
Lemma xorl4 a : forall b c d, length a = length b -> length a = length c -> length a = length d ->
  xorl (xorl a b) (xorl c d) = xorl (xorl a c) (xorl b d).
Proof.
  induction a as [|x a IH]; intros [|y b] [|z c] [|u d] H1 H2 H3; cbn in *;
    try reflexivity; try discriminate.
  f_equal.
  - destruct x, y, z, u; reflexivity.
  - apply IH; lia.
Qed.

Lemma xorl_cancel_r a : forall b c, length a = length c -> length b = length c ->
  xorl a c = xorl b c -> a = b.
Proof.
  induction a as [|x a IH]; intros [|y b] [|z c] H1 H2 E; cbn in *;
    try reflexivity; try discriminate.
  injection E as E1 E2. f_equal.
  - destruct x, y, z; cbn in E1; congruence.
  - apply (IH b c); [lia|lia|exact E2].
Qed.

(** If a + b = 0 then a = b. *)
Lemma xorl_eq_zeros a : forall b, length a = length b -> xorl a b = zeros (length a) -> a = b.
Proof.
  induction a as [|x a IH]; intros [|y b] H E; cbn in *; try reflexivity; try discriminate.
  injection E as E1 E2. f_equal.
  - destruct x, y; cbn in E1; congruence.
  - apply IH; [lia|exact E2].
Qed.

Lemma xor_prefix_xorl a : forall l n, length l = (length a + n)%nat ->
  xor_prefix a l = xorl (a ++ zeros n) l.
Proof.
  induction a as [|x a IH]; intros l n H; cbn in *.
  - rewrite <- H at 1. now rewrite xorl_zeros_l.
  - destruct l as [|y l]; cbn in *; [discriminate|]. f_equal. apply IH. lia.
Qed.

(** Scalar multiple of the generator's low part. *)
Definition cmul (c : bool) (p : poly) : poly := if c then p else zeros (length p).

Lemma cmul_length c p : length (cmul c p) = length p.
Proof. destruct c; cbn; [reflexivity|apply zeros_length]. Qed.

Lemma cmul_xorb c c' p : cmul (xorb c c') p = xorl (cmul c p) (cmul c' p).
Proof.
  destruct c, c'; cbn.
  - now rewrite xorl_nilpotent.
  - now rewrite xorl_zeros_r.
  - now rewrite xorl_zeros_l.
  - rewrite <- (zeros_length (length p)) at 2. now rewrite xorl_zeros_l.
Qed.

(** * The division step *)

Section Divider.
  Variable glow : poly.
  Let w := length glow.

  Lemma pstep_length r b : length (pstep glow r b) = length r.
  Proof.
    destruct r as [|top rest]; cbn; [reflexivity|].
    destruct top; [rewrite xorl_length|]; rewrite app_length; cbn; lia.
  Qed.

  Lemma run_length m : forall r, length (fold_left (pstep glow) m r) = length r.
  Proof.
    induction m as [|b m IH]; intros r; cbn; [reflexivity|]. now rewrite IH, pstep_length.
  Qed.

  Lemma pstep_cmul top rest b :
    pstep glow (top :: rest) b = xorl (rest ++ [b]) (cmul top glow).
  Proof. destruct top; cbn; [reflexivity|]. now rewrite xorl_zeros_r. Qed.

  (** Joint linearity of one step in (state, input bit). *)
  Lemma pstep_linear r r' b b' : length r = w -> length r' = w ->
    pstep glow (xorl r r') (xorb b b') = xorl (pstep glow r b) (pstep glow r' b').
  Proof.
    intros H H'. destruct r as [|t a], r' as [|t' a']; cbn [xorl length] in *;
      try reflexivity; try (exfalso; lia).
    rewrite !pstep_cmul. rewrite cmul_xorb.
    replace (xorl a a' ++ [xorb b b']) with (xorl (a ++ [b]) (a' ++ [b']))
      by (rewrite xorl_app by lia; reflexivity).
    apply xorl4; rewrite ?app_length, ?cmul_length; cbn; fold w; lia.
  Qed.

  Lemma run_linear m : forall m' r r', length m = length m' -> length r = w -> length r' = w ->
    fold_left (pstep glow) (xorl m m') (xorl r r')
    = xorl (fold_left (pstep glow) m r) (fold_left (pstep glow) m' r').
  Proof.
    induction m as [|b m IH]; intros [|b' m'] r r' Hm Hr Hr'; cbn in *;
      try reflexivity; try discriminate.
    rewrite pstep_linear by assumption.
    apply IH; rewrite ?pstep_length; lia.
  Qed.

  Lemma pstep_zeros_false n : pstep glow (zeros n) false = zeros n.
  Proof. destruct n; cbn; [reflexivity|]. now rewrite zeros_snoc. Qed.

  Lemma run_zeros n k : fold_left (pstep glow) (zeros k) (zeros n) = zeros n.
  Proof. induction k as [|k IH]; cbn; [reflexivity|]. now rewrite pstep_zeros_false. Qed.

  (** Feeding at most [k] bits into a state with [k] leading zeros only shifts. *)
  Lemma run_shift_in b : forall k p, (length b <= k)%nat ->
    fold_left (pstep glow) b (zeros k ++ p) = zeros (k - length b) ++ p ++ b.
  Proof.
    induction b as [|x b IH]; intros k p H; cbn [fold_left length] in *.
    - now rewrite Nat.sub_0_r, app_nil_r.
    - destruct k as [|k]; [lia|]. cbn [zeros repeat app pstep].
      rewrite <- app_assoc. fold (zeros k). rewrite IH by lia.
      rewrite <- app_assoc. reflexivity.
  Qed.

  Lemma run_load r : length r = w -> fold_left (pstep glow) r (zeros w) = r.
  Proof.
    intros H. rewrite <- (app_nil_r (zeros w)), run_shift_in by lia.
    rewrite H, Nat.sub_diag. reflexivity.
  Qed.

  (** Multiplication by x modulo g is injective when g(0) = 1. *)
  Lemma pstep_false_inj r : length r = w -> last glow false = true ->
    pstep glow r false = zeros w -> r = zeros w.
  Proof.
    intros H Hl E. destruct r as [|top rest]; cbn [length] in H.
    - now rewrite <- H.
    - destruct (exists_last (l := glow)) as [g' [c Hg]].
      { intros ->. cbn in H. discriminate. }
      rewrite Hg, last_last in Hl. subst c.
      assert (Hlen : length g' = length rest).
      { unfold w in H. rewrite Hg, app_length in H. cbn in H. lia. }
      rewrite <- H in *. rewrite <- zeros_snoc in E.
      destruct top; cbn [pstep] in E.
      + rewrite Hg, xorl_app in E by lia. cbn in E.
        apply app_inj_tail in E. destruct E; discriminate.
      + apply app_inj_tail in E. destruct E as [E _]. rewrite zeros_S. f_equal. exact E.
  Qed.

  Lemma run_zeros_inj k : forall r, length r = w -> last glow false = true ->
    fold_left (pstep glow) (zeros k) r = zeros w -> r = zeros w.
  Proof.
    induction k as [|k IH]; intros r H Hl E; cbn in *; [assumption|].
    apply pstep_false_inj; try assumption.
    apply IH; try assumption. now rewrite pstep_length.
  Qed.

  (** Heart of the burst theorem, on divider states. *)
  Lemma run_burst_nonzero i b j : last glow false = true -> (length b <= w)%nat -> In true b ->
    fold_left (pstep glow) ((zeros i ++ b ++ zeros j) ++ zeros w) (zeros w) <> zeros w.
  Proof.
    intros Hl Hb Hin E.
    rewrite <- !app_assoc, zeros_app in E.
    rewrite fold_left_app, run_zeros in E.
    rewrite fold_left_app in E.
    rewrite <- (app_nil_r (zeros w)) in E at 1. rewrite run_shift_in in E by assumption.
    cbn [app] in E.
    apply run_zeros_inj in E; try assumption.
    - assert (Hin' : In true (zeros w)).
      { rewrite <- E. apply in_or_app. now right. }
      apply repeat_spec in Hin'. discriminate.
    - rewrite app_length, zeros_length. lia.
  Qed.

  (** x^w mod g = glow. *)
  Lemma run_xw : fold_left (pstep glow) (true :: zeros w) (zeros w) = glow.
  Proof.
    assert (G : forall n, length glow = n ->
              fold_left (pstep glow) (true :: zeros n) (zeros n) = glow).
    { intros [|n] Hn.
      - cbn. destruct glow; [reflexivity|discriminate].
      - replace (true :: zeros (S n)) with ((true :: zeros n) ++ [false])
          by (cbn [app]; now rewrite zeros_snoc).
        rewrite fold_left_app.
        rewrite <- (app_nil_r (zeros (S n))), run_shift_in
          by (cbn; rewrite zeros_length; lia).
        cbn [length]. rewrite zeros_length, Nat.sub_diag. cbn.
        rewrite zeros_snoc. rewrite <- Hn. apply xorl_zeros_l. }
    apply G. reflexivity.
  Qed.

  (** ** The register (direct) form used by the executable model *)

  Definition rstep (r : poly) (b : bool) : poly :=
    match r with
    | [] => []
    | top :: rest => if xorb top b then xorl (rest ++ [false]) glow else rest ++ [false]
    end.

  Lemma rstep_pstep r b : length r = w ->
    rstep r b = xorl (pstep glow r false) (cmul b glow).
  Proof.
    intros H. destruct r as [|top rest]; [reflexivity|].
    rewrite pstep_cmul. unfold rstep.
    destruct b; cbn [cmul].
    - destruct top; cbn [xorb negb cmul].
      + now rewrite xorl_involutive.
      + now rewrite xorl_zeros_r.
    - rewrite xorb_false_r, xorl_zeros_r. destruct top; cbn [cmul]; [reflexivity|].
      now rewrite xorl_zeros_r.
  Qed.

  Lemma rstep_length r b : length (rstep r b) = length r.
  Proof.
    destruct r as [|top rest]; cbn; [reflexivity|].
    destruct (xorb top b); [rewrite xorl_length|]; rewrite app_length; cbn; lia.
  Qed.

  Lemma rrun_length m : forall r, length (fold_left rstep m r) = length r.
  Proof.
    induction m as [|b m IH]; intros r; cbn; [reflexivity|]. now rewrite IH, rstep_length.
  Qed.

  Lemma rstep_false r : rstep r false = pstep glow r false.
  Proof. destruct r as [|top rest]; cbn; [reflexivity|]. now rewrite xorb_false_r. Qed.

  Lemma rrun_zeros k : forall r, fold_left rstep (zeros k) r = fold_left (pstep glow) (zeros k) r.
  Proof. induction k as [|k IH]; intros r; cbn; [reflexivity|]. now rewrite rstep_false, IH. Qed.

  Lemma rstep_linear r r' b b' : length r = w -> length r' = w ->
    rstep (xorl r r') (xorb b b') = xorl (rstep r b) (rstep r' b').
  Proof.
    intros H H'. rewrite !rstep_pstep by (rewrite ?xorl_length; assumption).
    rewrite <- (xorb_false_l false) at 1. rewrite pstep_linear by assumption.
    rewrite cmul_xorb. apply xorl4; rewrite ?pstep_length, ?cmul_length; fold w; lia.
  Qed.

  Lemma rrun_linear m : forall m' r r', length m = length m' -> length r = w -> length r' = w ->
    fold_left rstep (xorl m m') (xorl r r')
    = xorl (fold_left rstep m r) (fold_left rstep m' r').
  Proof.
    induction m as [|b m IH]; intros [|b' m'] r r' Hm Hr Hr'; cbn in *;
      try reflexivity; try discriminate.
    rewrite rstep_linear by assumption.
    apply IH; rewrite ?rstep_length; lia.
  Qed.

  (** [Aw s] = s * x^w mod g. *)
  Let Aw (s : poly) : poly := fold_left (pstep glow) (zeros w) s.

  Lemma Aw_length s : length (Aw s) = length s.
  Proof. apply run_length. Qed.

  Lemma Aw_linear s s' : length s = w -> length s' = w ->
    Aw (xorl s s') = xorl (Aw s) (Aw s').
  Proof.
    intros H H'. unfold Aw. rewrite <- run_linear; rewrite ?zeros_length; try assumption; try reflexivity.
    rewrite xorl_zeros_r. reflexivity.
  Qed.

  Lemma Aw_pstep_false s : Aw (pstep glow s false) = pstep glow (Aw s) false.
  Proof.
    unfold Aw. change (fold_left (pstep glow) (zeros w) (pstep glow s false))
      with (fold_left (pstep glow) (false :: zeros w) s).
    change (false :: zeros w) with (zeros (S w)).
    rewrite <- zeros_snoc, fold_left_app. reflexivity.
  Qed.

  Lemma Aw_unit b : Aw (pstep glow (zeros w) b) = cmul b glow.
  Proof.
    destruct b.
    - unfold Aw. change (fold_left (pstep glow) (zeros w) (pstep glow (zeros w) true))
        with (fold_left (pstep glow) (true :: zeros w) (zeros w)). apply run_xw.
    - rewrite pstep_zeros_false. unfold Aw. apply run_zeros.
  Qed.

  Lemma rstep_Aw s b : length s = w -> rstep (Aw s) b = Aw (pstep glow s b).
  Proof.
    intros H.
    rewrite rstep_pstep by (rewrite Aw_length; assumption).
    rewrite <- (xorl_zeros_r s w) at 2. rewrite <- (xorb_false_l b) at 2.
    rewrite pstep_linear by (rewrite ?zeros_length; auto).
    rewrite Aw_linear by (rewrite pstep_length, ?zeros_length; auto).
    now rewrite Aw_pstep_false, Aw_unit.
  Qed.

  Lemma rrun_Aw m : forall s, length s = w ->
    fold_left rstep m (Aw s) = Aw (fold_left (pstep glow) m s).
  Proof.
    induction m as [|b m IH]; intros s H; cbn [fold_left]; [reflexivity|].
    rewrite rstep_Aw by assumption. apply IH. now rewrite pstep_length.
  Qed.

  (** The register fed with [m] from preset [r] holds the remainder of
      (m * x^w) + (r * x^|m|). *)
  Lemma rrun_pmod m r : length r = w ->
    fold_left rstep m r
    = fold_left (pstep glow) (xor_prefix r (m ++ zeros w)) (zeros w).
  Proof.
    intros H.
    rewrite (xor_prefix_xorl r (m ++ zeros w) (length m))
      by (rewrite app_length, zeros_length; lia).
    rewrite <- (xorl_zeros_r (zeros w) w) at 2.
    rewrite run_linear;
      rewrite ?app_length, ?zeros_length; try lia.
    rewrite !fold_left_app. rewrite run_load by assumption.
    (* left side *)
    rewrite <- (xorl_zeros_r r w) at 1.
    rewrite <- (xorl_zeros_l m) at 1.
    rewrite rrun_linear; rewrite ?zeros_length; try lia.
    rewrite rrun_zeros. f_equal.
    assert (E : zeros w = Aw (zeros w)) by (unfold Aw; now rewrite run_zeros).
    rewrite E at 1. rewrite rrun_Aw by apply zeros_length. reflexivity.
  Qed.
End Divider.

(** * [pmod]: remainder facts *)

Ltac s1 := repeat match goal with
  | |- context [(S ?n - 1)%nat] => replace (S n - 1)%nat with n by lia
  | H : context [(S ?n - 1)%nat] |- _ => replace (S n - 1)%nat with n in H by lia
  end.

Lemma run_nil glow m : fold_left (pstep glow) m [] = [].
Proof. apply length_zero_iff_nil. now rewrite run_length. Qed.

Theorem pmod_length m g : length (pmod m g) = (length g - 1)%nat.
Proof.
  destruct g as [|c glow]; cbn [pmod length]; [reflexivity|].
  rewrite run_length, zeros_length. lia.
Qed.

(** 3a. [pmod] is linear. *)
Theorem pmod_linear a b g : length a = length b ->
  pmod (xorl a b) g = xorl (pmod a g) (pmod b g).
Proof.
  intros H. destruct g as [|c glow]; cbn [pmod]; [reflexivity|].
  rewrite <- (xorl_zeros_r (zeros (length glow)) (length glow)) at 1.
  apply run_linear; rewrite ?zeros_length; auto.
Qed.

(** Together with linearity the next three facts determine [pmod m g] uniquely
    as "the" remainder of [m] modulo the monic [g]: leading zeros are
    irrelevant; a dividend of degree below [w] is its own remainder; every shift
    g * x^k of the generator has remainder zero (so by linearity a leading 1 of
    a long dividend can be cancelled against g * x^k without changing the
    remainder, which is schoolbook division). *)
Theorem pmod_leading_zeros k m g : pmod (zeros k ++ m) g = pmod m g.
Proof.
  destruct g as [|c glow]; cbn [pmod]; [reflexivity|].
  now rewrite fold_left_app, run_zeros.
Qed.

Theorem pmod_small m g : (length m <= length g - 1)%nat ->
  pmod m g = zeros (length g - 1 - length m) ++ m.
Proof.
  destruct g as [|c glow]; cbn [pmod length]; intros H.
  - destruct m; [reflexivity|cbn in H; lia].
  - s1.
    rewrite <- (app_nil_r (zeros (length glow))) at 1.
    now rewrite run_shift_in by assumption.
Qed.

Theorem pmod_generator_shift glow k :
  pmod ((true :: glow) ++ zeros k) (true :: glow) = zeros (length glow).
Proof.
  cbn [pmod]. rewrite fold_left_app.
  assert (E : fold_left (pstep glow) (true :: glow) (zeros (length glow)) = zeros (length glow)).
  { destruct (list_eq_dec bool_dec glow []) as [->|Hne]; [reflexivity|].
    destruct (exists_last Hne) as [g' [c Hg]].
    assert (Hl : length (true :: g') = length glow).
    { rewrite Hg, app_length. cbn. lia. }
    replace (true :: glow) with ((true :: g') ++ [c]) by (now rewrite Hg).
    rewrite fold_left_app. rewrite run_load by assumption.
    cbn. rewrite <- Hg. apply xorl_nilpotent. }
  rewrite E. apply run_zeros.
Qed.

(** * 3b. Burst theorem for the polynomial specification *)

Lemma monic_split g : hd false g = true -> exists glow, g = true :: glow.
Proof. destruct g as [|[] glow]; cbn; try discriminate. eauto. Qed.

(** Let [g] be monic of degree [w] with non-zero constant term.  If [e] is zero
    except for a non-zero pattern confined to at most [w] consecutive
    coefficients, then [e * x^w] is not divisible by [g]. *)
Theorem pmod_burst (g : poly) (e : list bool) :
  hd false g = true -> last g false = true ->
  is_burst (length g - 1) e ->
  pmod (e ++ zeros (length g - 1)) g <> zeros (length g - 1).
Proof.
  intros Hm Hl (i & b & j & -> & Hb & Hin).
  destruct (monic_split g Hm) as [glow ->]. cbn [length pmod] in *.
  s1.
  destruct glow as [|c glow'].
  - destruct b; [contradiction|cbn in Hb; lia].
  - apply run_burst_nonzero; auto.
Qed.

Lemma crc_spec_bits_length g msg : length (crc_spec_bits g msg) = (length g - 1)%nat.
Proof. unfold crc_spec_bits. now rewrite xorl_length, pmod_length. Qed.

(** Equal-length messages that differ by such a burst have different CRCs. *)
Theorem crc_spec_bits_burst (g : poly) (a b : list bool) :
  hd false g = true -> last g false = true ->
  length a = length b -> is_burst (length g - 1) (xorl a b) ->
  crc_spec_bits g a <> crc_spec_bits g b.
Proof.
  intros Hm Hl Hab Hb E. apply (pmod_burst g (xorl a b) Hm Hl Hb).
  unfold crc_spec_bits in E. set (w := (length g - 1)%nat) in *.
  apply xorl_cancel_r in E; rewrite ?pmod_length, ?ones_length; try reflexivity.
  assert (Hx : forall m, length m = length a ->
             xor_prefix (ones w) (m ++ zeros w) = xorl (ones w ++ zeros (length a)) (m ++ zeros w)).
  { intros m Hm'. apply xor_prefix_xorl. rewrite !app_length, zeros_length, ones_length. lia. }
  rewrite (Hx a eq_refl), (Hx b (eq_sym Hab)) in E.
  set (O := ones w ++ zeros (length a)) in *.
  assert (HO : length O = (w + length a)%nat)
    by (unfold O; now rewrite app_length, ones_length, zeros_length).
  replace (xorl a b ++ zeros w) with (xorl (xorl O (a ++ zeros w)) (xorl O (b ++ zeros w))).
  - rewrite pmod_linear by (now rewrite !xorl_length).
    rewrite E, xorl_nilpotent, pmod_length. reflexivity.
  - rewrite xorl4 by (rewrite ?app_length, ?zeros_length; lia).
    rewrite xorl_nilpotent.
    replace (length O) with (length (xorl (a ++ zeros w) (b ++ zeros w)))
      by (rewrite xorl_length, app_length, zeros_length; lia).
    rewrite xorl_zeros_l, xorl_app by assumption.
    now rewrite xorl_zeros_r.
Qed.

(** * [of_bits] *)

Lemma of_bits_xorl a : forall b, length a = length b ->
  of_bits (xorl a b) = N.lxor (of_bits a) (of_bits b).
Proof.
  induction a as [|x a IH]; intros [|y b] H; cbn [length] in H; try discriminate; [reflexivity|].
  cbn [xorl of_bits]. rewrite IH by lia.
  destruct x, y; cbn [xorb]; destruct (of_bits a), (of_bits b); reflexivity.
Qed.

Lemma of_bits_snoc_false l : of_bits (l ++ [false]) = of_bits l.
Proof. induction l as [|x l IH]; cbn [app of_bits]; [reflexivity|]. now rewrite IH. Qed.

Lemma of_bits_inj a : forall b, length a = length b -> of_bits a = of_bits b -> a = b.
Proof.
  induction a as [|x a IH]; intros [|y b] H E; cbn [length] in H; try discriminate; [reflexivity|].
  destruct x, y; cbn [of_bits] in E.
  - apply N.succ_double_inj in E. f_equal. apply IH; [lia|assumption].
  - destruct (of_bits a), (of_bits b); discriminate.
  - destruct (of_bits a), (of_bits b); discriminate.
  - apply N.double_inj in E. f_equal. apply IH; [lia|assumption].
Qed.

Lemma of_bits_bound l : (of_bits l < 2 ^ N.of_nat (length l))%N.
Proof.
  induction l as [|x l IH]; cbn [of_bits length]; [reflexivity|].
  rewrite Nnat.Nat2N.inj_succ, N.pow_succ_r'.
  destruct x; rewrite ?N.succ_double_spec, ?N.double_spec; lia.
Qed.

Lemma bits_of_bytes_length m : length (bits_of_bytes m) = (8 * length m)%nat.
Proof.
  unfold bits_of_bytes. induction m as [|x m IH]; [reflexivity|].
  cbn [flat_map]. rewrite app_length, IH. cbn [length octet_bits map]. lia.
Qed.

Lemma bits_of_bytes_app a b : bits_of_bytes (a ++ b) = bits_of_bytes a ++ bits_of_bytes b.
Proof. apply flat_map_app. Qed.

(** Burst theorem for the N-valued specification on octet strings. *)
Theorem crc_spec_burst (g : poly) (m m' : bytes) :
  hd false g = true -> last g false = true ->
  burst_apart (length g - 1) m m' ->
  crc_spec g m <> crc_spec g m'.
Proof.
  intros Hm Hl [Hlen Hb] E. unfold crc_spec in E.
  apply of_bits_inj in E; [|now rewrite !crc_spec_bits_length].
  revert E. apply crc_spec_bits_burst; auto.
  now rewrite !bits_of_bytes_length, Hlen.
Qed.

(** * 3c. The executable register model computes the specification *)

Lemma odd_succ_double x : N.odd (N.succ_double x) = true.
Proof. destruct x; reflexivity. Qed.
Lemma odd_double x : N.odd (N.double x) = false.
Proof. destruct x; reflexivity. Qed.

(** One step of the [N] register = one step of the coefficient-list register. *)
Lemma crc_bit_rstep glow r b : length r = length glow ->
  crc_bit (of_bits glow) (of_bits r) b = of_bits (rstep glow r b).
Proof.
  intros H. destruct r as [|top rest].
  - destruct glow; [|discriminate]. destruct b; reflexivity.
  - unfold crc_bit. cbn [of_bits rstep].
    assert (Ho : N.odd (if top then N.succ_double (of_bits rest) else N.double (of_bits rest)) = top)
      by (destruct top; [apply odd_succ_double|apply odd_double]).
    assert (Hs : N.shiftr (if top then N.succ_double (of_bits rest) else N.double (of_bits rest)) 1
                 = of_bits rest)
      by (rewrite <- N.div2_spec; destruct top; [apply N.div2_succ_double|apply N.div2_double]).
    rewrite Ho, Hs.
    destruct (xorb top b).
    + rewrite of_bits_xorl, of_bits_snoc_false; [reflexivity|].
      rewrite app_length. cbn [length] in *. lia.
    + now rewrite of_bits_snoc_false.
Qed.

Lemma crc_bits_rrun glow m : forall r, length r = length glow ->
  fold_left (crc_bit (of_bits glow)) m (of_bits r) = of_bits (fold_left (rstep glow) m r).
Proof.
  induction m as [|b m IH]; intros r H; cbn [fold_left]; [reflexivity|].
  rewrite crc_bit_rstep by assumption. apply IH. now rewrite rstep_length.
Qed.

Lemma crc_octets_bits poly bs : forall crc,
  fold_left (crc_octet poly) bs crc = fold_left (crc_bit poly) (bits_of_bytes bs) crc.
Proof.
  induction bs as [|x bs IH]; intros crc; [reflexivity|].
  unfold bits_of_bytes. cbn [fold_left flat_map]. rewrite fold_left_app. apply IH.
Qed.

(** Generic tie: the bit-serial reflected register over [N] with reflected
    polynomial [of_bits glow], preset and final xor all ones, equals the
    polynomial specification for the generator x^w + glow. No condition on
    the octets: both sides read only the low eight bits of each. *)
Theorem crc_run_spec (glow : poly) (bs : bytes) :
  crc_run (of_bits glow) (of_bits (ones (length glow))) (of_bits (ones (length glow))) bs
  = crc_spec (true :: glow) bs.
Proof.
  unfold crc_run, crc_spec, crc_spec_bits. cbn [length pmod]. s1.
  rewrite crc_octets_bits, crc_bits_rrun by apply ones_length.
  rewrite rrun_pmod by apply ones_length.
  rewrite of_bits_xorl; [reflexivity|].
  now rewrite run_length, zeros_length, ones_length.
Qed.

Theorem crc16_x25_spec (bs : bytes) : crc16_x25 bs = crc_spec_x25 bs.
Proof. exact (crc_run_spec (tl g_x25) bs). Qed.

Theorem crc32c_spec (bs : bytes) : crc32c bs = crc_spec_32c bs.
Proof. exact (crc_run_spec (tl g_32c) bs). Qed.

(** The statement as requested (the well-formedness premise is not needed). *)
Corollary crc16_x25_spec_wf (bs : bytes) : wf_bytes bs -> crc16_x25 bs = crc_spec_x25 bs.
Proof. intros _. apply crc16_x25_spec. Qed.
Corollary crc32c_spec_wf (bs : bytes) : wf_bytes bs -> crc32c bs = crc_spec_32c bs.
Proof. intros _. apply crc32c_spec. Qed.

(** * Burst theorem for the two concrete CRCs, on the executable model *)

Lemma g_x25_ok : hd false g_x25 = true /\ last g_x25 false = true /\ length g_x25 = 17%nat.
Proof. vm_compute. auto. Qed.
Lemma g_32c_ok : hd false g_32c = true /\ last g_32c false = true /\ length g_32c = 33%nat.
Proof. vm_compute. auto. Qed.

(** For all octet strings [m], [m'] of equal length whose bitwise difference
    (bits in CRC order, LSB first per octet) is a non-zero pattern confined to at
    most 16 (resp. 32) consecutive bits, the CRCs differ. *)
Theorem crc16_x25_burst (m m' : bytes) : burst_apart 16 m m' -> crc16_x25 m <> crc16_x25 m'.
Proof.
  intros H. rewrite !crc16_x25_spec.
  destruct g_x25_ok as (Hh & Hl & Hn).
  apply crc_spec_burst; [exact Hh|exact Hl|]. rewrite Hn. exact H.
Qed.

Theorem crc32c_burst (m m' : bytes) : burst_apart 32 m m' -> crc32c m <> crc32c m'.
Proof.
  intros H. rewrite !crc32c_spec.
  destruct g_32c_ok as (Hh & Hl & Hn).
  apply crc_spec_burst; [exact Hh|exact Hl|]. rewrite Hn. exact H.
Qed.

(** Range of the results (so that [be 2] / [be 4] lose nothing). *)
Theorem crc16_x25_bound bs : (crc16_x25 bs < 2 ^ 16)%N.
Proof.
  rewrite crc16_x25_spec. unfold crc_spec_x25, crc_spec.
  pose proof (of_bits_bound (crc_spec_bits g_x25 (bits_of_bytes bs))) as H.
  rewrite crc_spec_bits_length in H. exact H.
Qed.

Theorem crc32c_bound bs : (crc32c bs < 2 ^ 32)%N.
Proof.
  rewrite crc32c_spec. unfold crc_spec_32c, crc_spec.
  pose proof (of_bits_bound (crc_spec_bits g_32c (bits_of_bytes bs))) as H.
  rewrite crc_spec_bits_length in H. exact H.
Qed.

(** * A directly usable form: corruption confined to a few consecutive octets *)

Lemma of_bits_octet_bits x : (x < 256)%N -> of_bits (octet_bits x) = x.
Proof.
  intros H. destruct x as [|p]; [reflexivity|].
  do 8 (destruct p as [p|p|]; [| |reflexivity]); exfalso; lia.
Qed.

Lemma app_eq_len {A} (a : list A) : forall b c d, length a = length b ->
  a ++ c = b ++ d -> a = b /\ c = d.
Proof.
  induction a as [|x a IH]; intros [|y b] c d H E; cbn in *; try discriminate; [auto|].
  injection E as -> E. destruct (IH b c d) as [-> ->]; auto.
Qed.

Lemma bits_of_bytes_inj a : forall b, wf_bytes a -> wf_bytes b -> length a = length b ->
  bits_of_bytes a = bits_of_bytes b -> a = b.
Proof.
  induction a as [|x a IH]; intros [|y b] Ha Hb H E; cbn [length] in H; try discriminate; [reflexivity|].
  inversion Ha as [|? ? Hx Ha']; inversion Hb as [|? ? Hy Hb']; subst.
  unfold bits_of_bytes in E. cbn [flat_map] in E.
  apply app_eq_len in E; [|reflexivity].
  destruct E as [E1 E2]. f_equal.
  - rewrite <- (of_bits_octet_bits x Hx), <- (of_bits_octet_bits y Hy), E1. reflexivity.
  - apply IH; auto.
Qed.

Lemma no_true_zeros l : ~ In true l -> l = zeros (length l).
Proof.
  induction l as [|x l IH]; intros H; [reflexivity|].
  destruct x; [exfalso; apply H; now left|].
  cbn [length]. rewrite zeros_S. f_equal. apply IH. intros H'. apply H. now right.
Qed.

Lemma in_true_dec l : {In true l} + {~ In true l}.
Proof. apply in_dec, bool_dec. Qed.

(** Replacing a window [a] of octets by different octets [a'] of the same
    length, with the window no wider than the CRC, is a burst. *)
Lemma burst_apart_window (w : nat) (p a a' s : bytes) :
  wf_bytes a -> wf_bytes a' -> length a = length a' -> (8 * length a <= w)%nat -> a <> a' ->
  burst_apart w (p ++ a ++ s) (p ++ a' ++ s).
Proof.
  intros Ha Ha' Hl Hw Hne. split; [rewrite !app_length; lia|].
  exists (8 * length p)%nat, (xorl (bits_of_bytes a) (bits_of_bytes a')), (8 * length s)%nat.
  repeat split.
  - rewrite !bits_of_bytes_app.
    rewrite !xorl_app by (rewrite !bits_of_bytes_length; lia).
    now rewrite !xorl_nilpotent, !bits_of_bytes_length.
  - now rewrite xorl_length, bits_of_bytes_length.
  - destruct (in_true_dec (xorl (bits_of_bytes a) (bits_of_bytes a'))) as [H|H]; [exact H|].
    exfalso. apply Hne. apply bits_of_bytes_inj; auto.
    apply xorl_eq_zeros; [rewrite !bits_of_bytes_length; lia|].
    apply no_true_zeros in H. now rewrite xorl_length in H.
Qed.

(** CRC-16/X.25 detects every change confined to one or two adjacent octets,
    CRC-32C every change confined to up to four adjacent octets, whatever the
    length of the surrounding data. *)
Theorem crc16_x25_window (p a a' s : bytes) :
  wf_bytes a -> wf_bytes a' -> length a = length a' -> (length a <= 2)%nat -> a <> a' ->
  crc16_x25 (p ++ a ++ s) <> crc16_x25 (p ++ a' ++ s).
Proof. intros. apply crc16_x25_burst, burst_apart_window; auto; lia. Qed.

Theorem crc32c_window (p a a' s : bytes) :
  wf_bytes a -> wf_bytes a' -> length a = length a' -> (length a <= 4)%nat -> a <> a' ->
  crc32c (p ++ a ++ s) <> crc32c (p ++ a' ++ s).
Proof. intros. apply crc32c_burst, burst_apart_window; auto; lia. Qed.

(** The encoded CRC fields differ as well ([be] is injective in range). *)
Corollary crc16_x25_field_burst (m m' : bytes) :
  burst_apart 16 m m' -> crc16_x25_field m <> crc16_x25_field m'.
Proof.
  intros H E. apply (crc16_x25_burst m m' H). unfold crc16_x25_field in E.
  apply be_inj in E; auto; apply crc16_x25_bound.
Qed.

Corollary crc32c_field_burst (m m' : bytes) :
  burst_apart 32 m m' -> crc32c_field m <> crc32c_field m'.
Proof.
  intros H E. apply (crc32c_burst m m' H). unfold crc32c_field in E.
  apply be_inj in E; auto; apply crc32c_bound.
Qed.

(** * Non-vacuity of the hypotheses *)

(** A 16-bit burst that straddles three octets (bits 4..7 of octet 1, all of
    octet 2, bits 0..3 of octet 3; first and last bit of the window set). *)
Example burst_apart_16_example :
  burst_apart 16 [1; 2; 3; 4; 5]%N [1; 18; 3; 12; 5]%N.
Proof.
  split; [reflexivity|].
  exists 12%nat, ([true] ++ zeros 14 ++ [true]), 12%nat. repeat split.
  - cbn. lia.
  - now left.
Qed.

Example burst_apart_32_example :
  burst_apart 32 [0; 0; 0; 0; 0; 0]%N [0; 128; 255; 255; 255; 127]%N.
Proof.
  split; [reflexivity|].
  exists 15%nat, (ones 32), 1%nat. repeat split.
  - cbn. lia.
  - now left.
Qed.

Example crc16_x25_burst_example :
  crc16_x25 [1; 2; 3; 4; 5]%N <> crc16_x25 [1; 18; 3; 12; 5]%N.
Proof. apply crc16_x25_burst, burst_apart_16_example. Qed.

Example pmod_burst_hyps_x25 :
  hd false g_x25 = true /\ last g_x25 false = true
  /\ is_burst (length g_x25 - 1) (zeros 3 ++ [false; true; true; false] ++ zeros 40).
Proof.
  repeat split; try reflexivity.
  exists 3%nat, [false; true; true; false], 40%nat. repeat split.
  - cbn. lia.
  - right. now left.
Qed.

Example crc32c_window_example :
  crc32c ([9; 9] ++ [1; 2; 3; 4] ++ [7])%N <> crc32c ([9; 9] ++ [1; 2; 3; 5] ++ [7])%N.
Proof.
  apply crc32c_window; try reflexivity; try (cbn; lia); try discriminate;
    repeat constructor; unfold wf_byte; lia.
Qed.

(** Wider bursts are not always detected: the generator itself is a 17-bit
    pattern with remainder zero, so the hypothesis [length b <= w] cannot be
    dropped. *)
Example burst_17_undetected :
  pmod (g_x25 ++ zeros 16) g_x25 = zeros 16
  /\ crc16_x25 [0; 0; 0]%N = crc16_x25 [0x11; 0x08; 0x01]%N.
Proof. split; vm_compute; reflexivity. Qed.

(** * Closedness *)
Print Assumptions pmod_linear.
Print Assumptions pmod_leading_zeros.
Print Assumptions pmod_small.
Print Assumptions pmod_generator_shift.
Print Assumptions pmod_burst.
Print Assumptions crc_spec_bits_burst.
Print Assumptions crc_spec_burst.
Print Assumptions crc_run_spec.
Print Assumptions crc16_x25_spec.
Print Assumptions crc32c_spec.
Print Assumptions crc16_x25_burst.
Print Assumptions crc32c_burst.
Print Assumptions crc16_x25_window.
Print Assumptions crc32c_window.
Print Assumptions crc16_x25_bound.
Print Assumptions crc32c_bound.
Print Assumptions crc16_x25_field_burst.
Print Assumptions crc32c_field_burst.

(** Summary.  Everything requested is proved, nothing is left open:
    - [pmod_linear] (3a), plus [pmod_length], [pmod_leading_zeros], [pmod_small],
      [pmod_generator_shift], which pin [pmod] down as the remainder;
    - [pmod_burst], [crc_spec_bits_burst], [crc_spec_burst] (3b, any message
      length, any monic generator with non-zero constant term);
    - [crc_run_spec], [crc16_x25_spec], [crc32c_spec] (3c: executable bit-serial
      register = polynomial specification, for all octet strings);
    - [crc16_x25_burst], [crc32c_burst], [crc16_x25_window], [crc32c_window],
      [crc16_x25_bound], [crc32c_bound], [*_field_burst] on the executable model.
    Not covered: bursts that straddle the message and its own CRC field, and the
    octet-at-a-time table form used by the harness stand-in (pinned only by the
    vectors in [Crc.v]). *)
