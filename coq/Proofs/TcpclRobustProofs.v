(** C17: the endpoint answers out-of-place peer messages without corrupting
    its state; event-loop callbacks never let an exception escape; own queued
    transfers are unaffected by a rejected message.  About [Model/TcpclSess.v]. *)
From Coq Require Import ZArith NArith List Bool Lia ZifyBool ZifyN ZifyNat Arith.
From RecordUpdate Require Import RecordSet.
From DTN Require Import Lib.Bytes Model.TcpclMsg Model.TcpclSess Proofs.TcpclSessBasics
  Proofs.TcpclRobustLib.
Import ListNotations RecordSetNotations.
Local Open Scope N_scope.
Ltac Zify.zify_post_hook ::= Z.div_mod_to_equations.

(** * Operations and hypotheses *)

(** The event-loop callbacks (everything that is not a D-Bus method call). *)
Definition non_user (o : op) : bool :=
  match o with
  | ORx _ | ORxEof | OTxPump _ _ | OPQ | OFireKa | OFireIdle | OAdvance _ => true
  | OStart | OSend _ | OTerm _ | OClose | OPop _ => false
  end.

(** A SESS_INIT whose node id is ASCII (the model treats every other node id as
    undecodable; a node id that is not UTF-8 is not a well-formed message). *)
Definition sessinit_ascii (f : frame) : Prop :=
  match f with
  | FMsg (MSessInit _ _ _ nodeid _) => ascii nodeid = true
  | _ => True
  end.

Definition is_exc (e : event) : bool := match e with EExc _ => true | _ => false end.

(** * What [start()] establishes and every operation keeps *)
Record inv17 (s : ep) : Prop := {
  i_ch : c_passive (cf s) = false -> conhead_this s <> None;
  i_si : closed s = false -> in_conn s = true -> c_passive (cf s) = false -> sessinit_this s <> None;
  i_idle_t : (0 <? idle_time s) = true -> in_sess s = true;
  i_idle_d : idle_due s <> None -> in_sess s = true
}.

Ltac inv_go :=
  repeat first [ progress ep_cbn_all | brk_any | progress intros | split ];
  try congruence; try discriminate; auto;
  try (match goal with H : _ -> ?G |- ?G => apply H; congruence end).

Lemma inv17_hm m s r : hm_spec m s r -> inv17 s -> inv17 (fst r).
Proof.
  intros H [A B C D]. destruct H.
  all: try (destruct (has_end flags) eqn:He; [rewrite seg_result_end by assumption|rewrite seg_result_more by assumption]).
  all: split; ep_cbn.
  all: inv_go.
Qed.

Lemma inv17_rf f s r : rf_spec f s r -> inv17 s -> inv17 (fst r).
Proof.
  intros H I. destruct H.
  7-9: (apply inv17_hm in H; [|exact I]; destruct H as [A B C D]; split; ep_cbn_all; inv_go).
  all: destruct I as [A B C D]; split; ep_cbn; inv_go.
Qed.

Lemma inv17_upd s rest fr : inv17 s -> inv17 (s <| rx_buf := rest |> <| handled := handled s ++ [fr] |>).
Proof. intros [A B C D]; split; ep_cbn; assumption. Qed.

Lemma inv17_recv_loop fuel s : inv17 s -> inv17 (fst (recv_loop fuel s)).
Proof.
  apply recv_loop_inv. intros s0 fr rest I _ _.
  apply (inv17_rf fr _ _ (recv_frame_spec fr _)), inv17_upd, I.
Qed.

Lemma inv17_step s o : inv17 s -> inv17 (step s o).
Proof.
  intros I. destruct o; cbn [step].
  - (* OStart *) destruct I as [A B C D]. brk. all: split; ep_cbn; inv_go.
  - (* OSend *) destruct I as [A B C D]. brk. all: split; ep_cbn; inv_go.
  - (* OTerm *) destruct I as [A B C D]. unfold send_sess_term. brk. all: split; ep_cbn; inv_go.
  - (* OClose *) destruct I as [A B C D]. brk. all: split; ep_cbn; inv_go.
  - (* OPop *) destruct I as [A B C D]. brk. all: split; ep_cbn; inv_go.
  - (* OTxPump *) destruct I as [A B C D]. unfold tx_proxy. brk. all: split; ep_cbn; inv_go.
  - (* ORx *)
    destruct (closed s) eqn:Hc; [exact I|].
    destruct (is_nil data || negb (rx_alive s)); [exact I|].
    unfold recv_raw.
    match goal with |- context[recv_loop ?f ?x] =>
      pose proof (inv17_recv_loop f x) as H; destruct (recv_loop f x) as [s' [k|]] end.
    + cbn [fst] in H. destruct H as [A B C D].
      * destruct I as [A B C D]; split; ep_unf; ep_cbn; inv_go.
      * split; ep_unf; ep_cbn; inv_go.
    + apply H. destruct I as [A B C D]; split; ep_unf; ep_cbn; inv_go.
  - (* ORxEof *) destruct I as [A B C D]. brk. all: split; ep_cbn; inv_go.
  - (* OPQ *) destruct I as [A B C D]. unfold process_queue, send_next. brk. all: split; ep_cbn; inv_go.
  - (* OFireKa *) destruct I as [A B C D]. brk. all: split; ep_cbn; inv_go.
  - (* OFireIdle *) destruct I as [A B C D]. unfold send_sess_term. brk. all: split; ep_cbn; inv_go.
  - (* OAdvance *) destruct I as [A B C D]. split; ep_cbn; assumption.
Qed.

Lemma inv17_start c : inv17 (step (init c) OStart).
Proof.
  unfold init. cbn [step closed]. brk.
  all: split; ep_cbn; inv_go; cbn in *; try discriminate.
Qed.

(** The agent starts the handler first: every later state satisfies the invariant. *)
Lemma inv17_run c ops : inv17 (run c (OStart :: ops)).
Proof.
  unfold run. cbn [fold_left]. apply run_invariant_from; [apply inv17_start|].
  intros s o. apply inv17_step.
Qed.

(** * [handled] is a ghost log: only the receive loop appends to it *)

Lemma hm_handled m s r : hm_spec m s r -> handled (fst r) = handled s.
Proof.
  intros H; destruct H; try (unfold seg_result; destruct (has_end flags)); ep_cbn; reflexivity.
Qed.

Lemma rf_handled f s r : rf_spec f s r -> handled (fst r) = handled s.
Proof.
  intros H; destruct H; try (apply hm_handled in H; ep_cbn_all); ep_cbn; try assumption; reflexivity.
Qed.

Definition noexc (e : event) : Prop := is_exc e = false.

Lemma noexc_flush l : Forall noexc (map fin_term_ev l).
Proof. induction l; cbn [map]; constructor; [reflexivity|assumption]. Qed.

Ltac noexc_tac := first [ reflexivity | apply noexc_flush ].

Lemma hm_noexc m s r : hm_spec m s r -> ext_by noexc s (fst r).
Proof.
  intros H; destruct H; try (unfold seg_result; destruct (has_end flags)); unfold ext_by; ep_cbn;
    unfold ev_rstart, ev_rfin, ev_rinter, ev_sfin, ev_sinter;
    repeat brk_any; ext_close noexc_tac.
Qed.

Lemma hm_rx_alive m s r : hm_spec m s r -> rx_alive (fst r) = rx_alive s.
Proof.
  intros H; destruct H; try (unfold seg_result; destruct (has_end flags)); ep_cbn; reflexivity.
Qed.

(** No exception leaves the message handler: the two ways ([merge_session_params]
    without [sessinit_this], a node id that does not decode) are excluded. *)
Lemma hm_no_escape m s s' k :
  hm_spec m s (s', Escaped k) -> inv17 s -> closed s = false -> in_conn s = true ->
  sessinit_ascii (FMsg m) -> False.
Proof.
  intros H [A B C D] Hc Hi Ha. inversion H; subst; cbn [sessinit_ascii] in Ha; try congruence.
  apply B; assumption.
Qed.

Lemma rf_no_escape f s s' k :
  rf_spec f s (s', Some k) -> inv17 s -> closed s = false ->
  (forall m, f = FMsg m -> in_conn s = true) -> sessinit_ascii f -> False.
Proof.
  intros H I Hc Hi Ha. inversion H; subst.
  - destruct I as [A B C D]. apply A; assumption.
  - eapply hm_no_escape; try eassumption. apply (Hi m). reflexivity.
Qed.

Lemma rf_noexc f s r : rf_spec f s r -> ext_by noexc s (fst r).
Proof.
  intros H; destruct H.
  7-9: (apply hm_noexc in H; cbn [fst] in *;
        first [exact H | eapply ext_trans; [exact H|]; apply ext_same; ep_cbn; reflexivity]).
  all: unfold ext_by; ep_cbn; repeat brk_any; ext_close noexc_tac.
Qed.

Lemma rf_rx_alive f s r : rf_spec f s r -> rx_alive (fst r) = rx_alive s.
Proof.
  intros H; destruct H; try (apply hm_rx_alive in H; ep_cbn_all); ep_cbn; try assumption; reflexivity.
Qed.

(** The receive loop under the invariant. *)
Lemma recv_loop_no_escape fuel s0 :
  inv17 s0 ->
  let r := recv_loop fuel s0 in
  (exists l, handled (fst r) = handled s0 ++ l)
  /\ (Forall sessinit_ascii (handled (fst r)) ->
      snd r = None /\ ext_by noexc s0 (fst r) /\ rx_alive (fst r) = rx_alive s0).
Proof.
  intros I0 r. subst r.
  pose (P := fun s => inv17 s /\ (exists l, handled s = handled s0 ++ l)
                      /\ ext_by noexc s0 s /\ rx_alive s = rx_alive s0).
  pose (Q := fun (s : ep) (r : option N) =>
               (exists l, handled s = handled s0 ++ l)
               /\ (Forall sessinit_ascii (handled s) ->
                   r = None /\ ext_by noexc s0 s /\ rx_alive s = rx_alive s0)).
  apply (recv_loop_ind P Q).
  - intros s (I & Hh & He & Ha). split; [exact Hh|]. intros _. auto.
  - intros s fr rest s' r (I & [l Hh] & He & Ha) Hc Hne Hp Hr.
    set (s1 := s <| rx_buf := rest |> <| handled := handled s ++ [fr] |>) in *.
    pose proof (recv_frame_spec fr s1) as Hs. rewrite Hr in Hs.
    assert (I1 : inv17 s1) by (apply inv17_upd, I).
    assert (Hh' : handled s' = handled s0 ++ (l ++ [fr])).
    { pose proof (rf_handled _ _ _ Hs) as E. cbn [fst] in E. rewrite E. subst s1. ep_cbn.
      rewrite Hh, app_assoc. reflexivity. }
    destruct r as [k|].
    + split; [eexists; exact Hh'|]. intros F. exfalso.
      rewrite Hh' in F. apply Forall_app in F. destruct F as [_ F].
      apply Forall_app in F. destruct F as [_ F]. inversion F; subst.
      eapply (rf_no_escape fr s1); try eassumption.
      intros m ->. subst s1. ep_cbn. eapply parse_frame_msg. exact Hp.
    + split; [|split; [|split]].
      * pose proof (inv17_rf _ _ _ Hs I1) as X. exact X.
      * eexists; exact Hh'.
      * eapply ext_trans; [exact He|].
        pose proof (rf_noexc _ _ _ Hs) as X. cbn [fst] in X.
        destruct X as [evs [E F]]. exists evs. split; [rewrite E; subst s1; ep_cbn; reflexivity|exact F].
      * pose proof (rf_rx_alive _ _ _ Hs) as X. cbn [fst] in X. rewrite X. subst s1. ep_cbn. exact Ha.
  - split; [exact I0|]. split; [exists []; symmetry; apply app_nil_r|]. split; [apply ext_refl|reflexivity].
Qed.

Ltac nonuser_leaf :=
  split; [unfold ext_by; ep_cbn; repeat brk_any; ext_close noexc_tac | ep_cbn; first [reflexivity | assumption | congruence]].

(** One callback of the event loop in a state satisfying the invariant: it
    only adds events that are not exceptions, and the receive watch stays. *)
Lemma step_nonuser_noexc s o :
  inv17 s -> non_user o = true -> Forall sessinit_ascii (handled (step s o)) ->
  ext_by noexc s (step s o) /\ rx_alive (step s o) = rx_alive s.
Proof.
  intros I Hn. destruct o; try discriminate Hn; cbn [step]; intros Hh.
  - (* OTxPump *) clear Hh. unfold tx_proxy. brk. all: nonuser_leaf.
  - (* ORx *)
    destruct (closed s) eqn:Hc; [split; [apply ext_refl|reflexivity]|].
    destruct (is_nil data || negb (rx_alive s)); [split; [apply ext_refl|reflexivity]|].
    unfold recv_raw in *.
    match goal with |- context[recv_loop ?f ?x] =>
      assert (Ix : inv17 x) by (destruct I as [A B C D]; split; ep_unf; ep_cbn; inv_go);
      pose proof (recv_loop_no_escape f x Ix) as H; cbv zeta in H;
      destruct (recv_loop f x) as [s' r] end.
    cbn [fst snd] in H. destruct H as [_ H].
    assert (Hh' : Forall sessinit_ascii (handled s')) by (destruct r; [ep_unf_in Hh; ep_cbn_in Hh|]; exact Hh).
    destruct (H Hh') as (-> & He & Ha).
    split.
    + destruct He as [evs [E F]]. exists evs. split; [|exact F]. rewrite E. ep_unf; ep_cbn. reflexivity.
    + rewrite Ha. ep_unf; ep_cbn. reflexivity.
  - (* ORxEof *) clear Hh. brk. all: nonuser_leaf.
  - (* OPQ *) clear Hh. unfold process_queue, send_next. brk. all: nonuser_leaf.
  - (* OFireKa *) clear Hh. brk. all: nonuser_leaf.
  - (* OFireIdle *) clear Hh.
    destruct (closed s) eqn:Hc; [split; [apply ext_refl|reflexivity]|].
    destruct (idle_due s) as [d|] eqn:Hd; [|split; [apply ext_refl|reflexivity]].
    assert (Hs : in_sess s = true) by (destruct I as [A B C D]; apply D; congruence).
    unfold send_sess_term. ep_cbn. rewrite Hs. cbn [negb].
    brk. all: nonuser_leaf.
  - (* OAdvance *) split; [apply ext_same|]; ep_cbn; reflexivity.
Qed.

(** ** 17a *)
Theorem no_escape : forall c ops o,
  non_user o = true ->
  let s := run c (OStart :: ops) in
  Forall sessinit_ascii (handled (step s o)) ->
  (exists evs, trace (step s o) = trace s ++ evs /\ forall k, ~ In (EExc k) evs)
  /\ rx_alive (step s o) = rx_alive s.
Proof.
  intros c ops o Hn s Hh.
  destruct (step_nonuser_noexc s o (inv17_run c ops) Hn Hh) as [[evs [E F]] Ha].
  split; [|exact Ha]. exists evs. split; [exact E|].
  intros k Hin. rewrite Forall_forall in F. specialize (F _ Hin). discriminate F.
Qed.

(** Without [start()] first the statement is false: an active endpoint that
    reads a contact header raises AttributeError ([conhead_this] is unset). *)
Definition cfg_active : cfg := mkCfg false [97] 30 60 1000 1000 None.
Example no_escape_needs_start :
  trace (run cfg_active [ORx (MAGIC ++ [4; 0])]) = [EExc EX_ATTRIBUTE]
  /\ rx_alive (run cfg_active [ORx (MAGIC ++ [4; 0])]) = false.
Proof. vm_compute. split; reflexivity. Qed.

(** Nor without the hypothesis on node ids. *)
Example no_escape_needs_ascii :
  let ops := [OStart; ORx (MAGIC ++ [4; 0]);
              ORx (encode_msg (MSessInit 30 1000 1000 [200] []))] in
  trace (run cfg_active ops)
  = [ESig SigState [PStr ST_CONTACT]; ESig SigState [PStr ST_SESSNEG]; EExc EX_UNICODE].
Proof. vm_compute. reflexivity. Qed.

(** ** What the D-Bus caller can get back *)

Lemma term_twice s r :
  closed s = false -> in_sess s = true -> in_term s = true ->
  step s (OTerm r) = emit (EExc EX_RUNTIME) s.
Proof. intros Hc Hs Ht. cbn [step]. unfold send_sess_term. rewrite Hc, Hs, Ht. reflexivity. Qed.

Lemma pop_unknown s id :
  closed s = false -> dict_get id (rx_map s) = None ->
  step s (OPop id) = emit (EExc EX_KEY) s.
Proof. intros Hc Hg. cbn [step]. rewrite Hc, Hg. reflexivity. Qed.

(** [send_bundle_data] once the session is terminating: refused with
    RuntimeError, nothing is queued (the state is otherwise unchanged). *)
Lemma send_terminating s d :
  closed s = false -> in_term s = true ->
  step s (OSend d) = emit (EExc EX_RUNTIME) s.
Proof. intros Hc Ht. cbn [step]. rewrite Hc, Ht. reflexivity. Qed.

(** Events a user operation [o] may add in state [s]: anything but an
    exception, except in exactly the three documented error cases. *)
Definition user_ev (s : ep) (o : op) (e : event) : Prop :=
  noexc e
  \/ (e = EExc EX_RUNTIME /\ exists r, o = OTerm r /\ closed s = false /\ in_sess s = true /\ in_term s = true)
  \/ (e = EExc EX_KEY /\ exists id, o = OPop id /\ closed s = false /\ dict_get id (rx_map s) = None)
  \/ (e = EExc EX_RUNTIME /\ exists d, o = OSend d /\ closed s = false /\ in_term s = true).

Lemma flush_user s o l : Forall (user_ev s o) (map fin_term_ev l).
Proof. eapply Forall_impl; [|apply noexc_flush]. intros e H. left. exact H. Qed.

Ltac user_leaf := unfold ext_by; ep_cbn; repeat brk_any; ext_close ltac:(first [left; reflexivity | apply flush_user]).

Lemma step_user_events s o : non_user o = false -> ext_by (user_ev s o) s (step s o).
Proof.
  intros Hn. destruct o; try discriminate Hn.
  - cbn [step]. brk. all: user_leaf.
  - (* OSend *)
    destruct (closed s) eqn:Hc; [cbn [step]; rewrite Hc; apply ext_refl|].
    destruct (in_term s) eqn:Ht.
    + rewrite send_terminating by assumption. exists [EExc EX_RUNTIME]. split; [reflexivity|].
      constructor; [|constructor]. right; right; right. split; [reflexivity|]. exists data. auto.
    + cbn [step]. rewrite Hc, Ht. brk. user_leaf.
  - (* OTerm *)
    destruct (closed s) eqn:Hc; [cbn [step]; rewrite Hc; apply ext_refl|].
    destruct (in_sess s) eqn:Hs.
    + destruct (in_term s) eqn:Ht.
      * rewrite term_twice by assumption. exists [EExc EX_RUNTIME]. split; [reflexivity|].
        constructor; [|constructor]. right; left. split; [reflexivity|]. exists reason. auto.
      * cbn [step]. unfold send_sess_term. rewrite Hc, Hs, Ht. cbn [negb]. brk. user_leaf.
    + cbn [step]. rewrite Hc, Hs. cbn [negb]. brk. user_leaf.
  - cbn [step]. brk. all: user_leaf.
  - (* OPop *)
    destruct (closed s) eqn:Hc; [cbn [step]; rewrite Hc; apply ext_refl|].
    destruct (dict_get id (rx_map s)) as [d|] eqn:Hg.
    + cbn [step]. rewrite Hc, Hg. user_leaf.
    + rewrite pop_unknown by assumption. exists [EExc EX_KEY]. split; [reflexivity|].
      constructor; [|constructor]. right; right; left. split; [reflexivity|]. exists id. auto.
Qed.

(** ** The whole run *)

Lemma handled_step s o : inv17 s -> exists l, handled (step s o) = handled s ++ l.
Proof.
  intros I. destruct o; cbn [step].
  7:{ (* ORx *)
    destruct (closed s); [exists []; symmetry; apply app_nil_r|].
    destruct (is_nil data || negb (rx_alive s)); [exists []; symmetry; apply app_nil_r|].
    unfold recv_raw.
    match goal with |- context[recv_loop ?f ?x] =>
      assert (Ix : inv17 x) by (destruct I as [A B C D]; split; ep_unf; ep_cbn; inv_go);
      pose proof (recv_loop_no_escape f x Ix) as H; cbv zeta in H;
      destruct (recv_loop f x) as [s' r] end.
    cbn [fst] in H. destruct H as [[l H] _]. exists l.
    destruct r; ep_unf; ep_cbn; rewrite H; ep_unf; ep_cbn; reflexivity. }
  all: exists []; rewrite app_nil_r.
  all: try (unfold tx_proxy); try (unfold process_queue, send_next); try (unfold send_sess_term).
  all: brk; reflexivity.
Qed.

Lemma run_cons_snoc c ops o : run c (OStart :: ops ++ [o]) = step (run c (OStart :: ops)) o.
Proof. rewrite app_comm_cons. apply run_snoc. Qed.

(** Every exception event of a run that starts with [start()] and parses only
    decodable node ids was returned to a D-Bus caller: RuntimeError by a
    [terminate()] or a [send_bundle_data()] (both: session already terminating)
    and KeyError by a [recv_bundle_pop_data()]. *)
Theorem exc_only_user : forall c ops,
  Forall sessinit_ascii (handled (run c (OStart :: ops))) ->
  forall k, In (EExc k) (trace (run c (OStart :: ops))) ->
    (k = EX_RUNTIME /\ ((exists r, In (OTerm r) ops) \/ (exists d, In (OSend d) ops)))
    \/ (k = EX_KEY /\ exists id, In (OPop id) ops).
Proof.
  intros c ops. induction ops as [|o ops IH] using rev_ind; intros Hh k Hin.
  - exfalso. revert Hin. unfold run. cbn [fold_left]. unfold init. cbn [step closed]. brk.
    all: cbn; intuition discriminate.
  - rewrite run_cons_snoc in *. set (s := run c (OStart :: ops)) in *.
    pose proof (inv17_run c ops) as I. fold s in I.
    destruct (handled_step s o I) as [l Hl].
    assert (Hh0 : Forall sessinit_ascii (handled s)).
    { rewrite Hl in Hh. apply Forall_app in Hh. tauto. }
    assert (Hext : ext_by (user_ev s o) s (step s o)).
    { destruct (non_user o) eqn:Hn.
      - destruct (step_nonuser_noexc s o I Hn Hh) as [He _].
        eapply ext_mono; [|exact He]. intros e He'. left. exact He'.
      - apply step_user_events, Hn. }
    destruct Hext as [evs [E F]]. rewrite E in Hin. apply in_app_or in Hin. destruct Hin as [Hin|Hin].
    + destruct (IH Hh0 k Hin) as [[-> [[r Hr]|[d Hd]]]|[-> [id Hi]]].
      * left. split; [reflexivity|]. left. exists r. apply in_or_app. left. exact Hr.
      * left. split; [reflexivity|]. right. exists d. apply in_or_app. left. exact Hd.
      * right. split; [reflexivity|]. exists id. apply in_or_app. left. exact Hi.
    + rewrite Forall_forall in F. specialize (F _ Hin).
      destruct F as [F|[[F [r [-> _]]]|[[F [id [-> _]]]|[F [d [-> _]]]]]].
      * discriminate F.
      * injection F as ->. left. split; [reflexivity|]. left. exists r. apply in_or_app. right. left. reflexivity.
      * injection F as ->. right. split; [reflexivity|]. exists id. apply in_or_app. right. left. reflexivity.
      * injection F as ->. left. split; [reflexivity|]. right. exists d. apply in_or_app. right. left. reflexivity.
Qed.

(** ** 17b: every rejected message is answered by exactly one MSG_REJECT *)

(** A rejected message leaves the handler's state alone, except that an
    XFER_ACK(END) for a transfer that is known but not awaiting its final
    acknowledgement has already recorded the acknowledged length. *)
Lemma reject_state m s s' r :
  handle_msg m s = (s', Reject r) ->
  r = REJ_UNEXPECTED /\
  (s' = s \/ exists flags xid len a, m = MXferAck flags xid len /\ dict_get xid (tx_map s) = Some a
                                    /\ s' = s <| tx_map := dict_set xid len (tx_map s) |>).
Proof.
  intros H. pose proof (handle_msg_spec m s) as S. rewrite H in S.
  inversion S; subst; split; try reflexivity; try (left; reflexivity).
  right. do 4 eexists. split; [reflexivity|]. split; [eassumption|reflexivity].
Qed.

Theorem answered : forall m s s' r,
  handle_msg m s = (s', Reject r) ->
  recv_frame (FMsg m) s = (send_msg (MReject (msg_id m) r) s', None)
  /\ sent (fst (recv_frame (FMsg m) s)) = sent s ++ [FMsg (MReject (msg_id m) r)]
  /\ r = REJ_UNEXPECTED.
Proof.
  intros m s s' r H. cbn [recv_frame]. rewrite H. split; [reflexivity|].
  destruct (reject_state _ _ _ _ H) as [-> [->|(flags & xid & len & a & -> & _ & ->)]];
    (split; [|reflexivity]); ep_unf; ep_pr; ep_cbn; reflexivity.
Qed.

(** Which messages are rejected. *)
Lemma reject_before_session m s :
  in_sess s = false ->
  match m with MXferSeg _ _ _ _ | MXferAck _ _ _ | MXferRefuse _ _ | MSessTerm _ _ => True | _ => False end ->
  handle_msg m s = (s, Reject REJ_UNEXPECTED).
Proof. intros H Hm. destruct m; try contradiction; cbn [handle_msg]; rewrite H; reflexivity. Qed.

Lemma reject_segment_no_transfer flags xid ext data s :
  in_sess s = true -> has_start flags = false ->
  match rx_tmp s with Some (cur, _) => (cur =? xid) = false | None => True end ->
  handle_msg (MXferSeg flags xid ext data) s = (s, Reject REJ_UNEXPECTED).
Proof.
  intros H1 H2 H3. cbn [handle_msg]. rewrite H1, H2. cbn [negb].
  destruct (rx_tmp s) as [[cur acc]|]; [rewrite H3|]; reflexivity.
Qed.

Lemma reject_ack_unknown flags xid len s :
  in_sess s = true -> ~ In xid (map fst (tx_map s)) ->
  handle_msg (MXferAck flags xid len) s = (s, Reject REJ_UNEXPECTED).
Proof.
  intros H1 H2. cbn [handle_msg]. rewrite H1. cbn [negb].
  replace (dict_get xid (tx_map s)) with (@None N); [reflexivity|].
  symmetry. revert H2. generalize (tx_map s). induction l as [|[k v] l IH]; cbn [dict_get map fst In]; intros H2.
  - reflexivity.
  - destruct (N.eqb_spec k xid) as [->|]; [exfalso; apply H2; left; reflexivity|].
    apply IH. intros Hin. apply H2. right. exact Hin.
Qed.

Lemma reject_refuse_unknown reason xid s :
  in_sess s = true -> ~ In xid (map fst (tx_map s)) ->
  handle_msg (MXferRefuse reason xid) s = (s, Reject REJ_UNEXPECTED).
Proof.
  intros H1 H2. cbn [handle_msg]. rewrite H1. cbn [negb].
  replace (dict_get xid (tx_map s)) with (@None N); [reflexivity|].
  symmetry. revert H2. generalize (tx_map s). induction l as [|[k v] l IH]; cbn [dict_get map fst In]; intros H2.
  - reflexivity.
  - destruct (N.eqb_spec k xid) as [->|]; [exfalso; apply H2; left; reflexivity|].
    apply IH. intros Hin. apply H2. right. exact Hin.
Qed.

(** A contact header with the wrong magic or version closes the connection. *)
Lemma bad_contact_closes c s :
  contact_ok c = false ->
  let s' := fst (recv_frame (FContact c) s) in
  snd (recv_frame (FContact c) s) = None /\ closed s' = true /\ sent s' = sent s
  /\ (closed s = false ->
      trace s' = (trace s ++ map (fun it : N * bytes =>
                                   ESig SigSendFinished [PStrNum (fst it); PInt 0; PStr RES_TERMINATING])
                                (pend_start s)) ++ [EClosed]).
Proof.
  intros H s'. subst s'. pose proof (recv_frame_spec (FContact c) s) as S.
  destruct (recv_frame (FContact c) s) as [s1 r1]. inversion S; subst; try congruence.
  cbn [fst snd]. ep_cbn. split; [reflexivity|]. split; [reflexivity|]. split; [reflexivity|].
  intros ->. reflexivity.
Qed.

(** An unknown message type is never complete: the stream stalls (this is a
    recorded finding, not proved away). *)
Lemma unknown_type_stalls : forall id rest, (id = 0 \/ 8 <= id) -> parse_msg (id :: rest) = None.
Proof.
  intros id rest H. cbn [parse_msg]. unfold parse_body.
  repeat match goal with |- context[?a =? ?b] => destruct (N.eqb_spec a b); [lia|] end.
  reflexivity.
Qed.

Lemma unknown_type_stalls_rx id rest data s :
  (id = 0 \/ 8 <= id) -> closed s = false -> rx_alive s = true -> in_conn s = true ->
  rx_buf s = id :: rest -> data <> [] ->
  let s' := step s (ORx data) in
  rx_buf s' = rx_buf s ++ data /\ handled s' = handled s /\ sent s' = sent s /\ trace s' = trace s.
Proof.
  intros Hid Hc Ha Hi Hb Hd s'. subst s'. cbn [step]. rewrite Hc, Ha.
  destruct data as [|d0 data]; [congruence|]. cbn [is_nil orb negb].
  unfold recv_raw. ep_unf. ep_cbn. rewrite Hb. cbn [app length recv_loop]. ep_cbn.
  cbn [is_nil orb]. rewrite Hc, Hi. unfold parse_frame.
  rewrite unknown_type_stalls by exact Hid. ep_cbn. repeat split.
Qed.

(** ** 17c: a rejected message does not touch the endpoint's own transfers *)
Theorem own_transfers_unaffected : forall m s s' r,
  handle_msg m s = (s', Reject r) ->
  pend_start s' = pend_start s /\ tx_tmp s' = tx_tmp s /\ tx_len s' = tx_len s
  /\ pend_ack s' = pend_ack s /\ map fst (tx_map s') = map fst (tx_map s)
  /\ rx_map s' = rx_map s /\ rx_tmp s' = rx_tmp s /\ next_id s' = next_id s.
Proof.
  intros m s s' r H.
  destruct (reject_state _ _ _ _ H) as [_ [->|(flags & xid & len & a & -> & Hg & ->)]].
  - repeat split.
  - ep_cbn. repeat split. eapply dict_set_keys. exact Hg.
Qed.
