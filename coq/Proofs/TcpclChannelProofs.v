(** The framing development (Proofs/FrameProofs.v, Proofs/TcpclMsgProofs.v)
    tied to the session model [Model/TcpclSess.v]:

    - consumption invariant: every octet an endpoint has read is either part
      of a frame it acted on (and those frames re-encode to exactly the
      consumed octets) or still in its receive buffer;
    - shape of the acted-on sequence: empty, or a contact header followed by
      messages only, all well-formed;
    - the channel lemma: if what B has read is a prefix of what A's socket
      accepted, the frames B acted on are a prefix of the frames A sent
      (reliable FIFO message channel, for every schedule / chunking /
      back-pressure pattern of both endpoints);
    - session-level split invariance: two socket reads are one. *)
From Coq Require Import ZArith NArith List Bool Lia ZifyBool ZifyN ZifyNat Arith.
From RecordUpdate Require Import RecordSet.
From DTN Require Import Lib.Bytes Model.TcpclMsg Model.TcpclSess Proofs.TcpclSessBasics
  Proofs.TcpclMsgProofs.
Import ListNotations RecordSetNotations.
Local Open Scope N_scope.

(** * The receive-side view of a state and the helpers that preserve it *)

Definition cv (s : ep) := (handled s, rx_buf s, rx_alive s, in_conn s).

(** Dropping updates of fields outside the view. *)
Ltac cv_norm :=
  repeat match goal with
  | |- context [cv (set ?p ?f ?x)] =>
      let H := fresh in
      assert (H : forall y, cv (set p f y) = cv y) by (intro; reflexivity);
      rewrite (H x); clear H
  end.

Lemma cv_emit e s : cv (emit e s) = cv s. Proof. reflexivity. Qed.
Lemma cv_set_state st s : cv (set_state st s) = cv s.
Proof. unfold set_state. destruct (state s =? st); reflexivity. Qed.
Lemma cv_ka_reset s : cv (ka_reset s) = cv s. Proof. reflexivity. Qed.
Lemma cv_idle_reset s : cv (idle_reset s) = cv s. Proof. reflexivity. Qed.
Lemma cv_send_ready s : cv (send_ready s) = cv s.
Proof. unfold send_ready. destruct (io_set s); match goal with |- context [if ?c then _ else _] => destruct c end; reflexivity. Qed.
Lemma cv_send_frame f s : cv (send_frame f s) = cv s.
Proof. unfold send_frame. rewrite cv_idle_reset, cv_ka_reset, cv_send_ready. reflexivity. Qed.
Lemma cv_send_msg m s : cv (send_msg m s) = cv s.
Proof. exact (cv_send_frame _ _). Qed.
Lemma cv_flush_fold (l : list (N * bytes)) : forall s0,
  cv (fold_left (fun s (it : N * bytes) =>
               emit (ESig SigSendFinished [PStrNum (fst it); PInt 0; PStr RES_TERMINATING])
                    (s <| tx_map := dict_del (fst it) (tx_map s) |>)) l s0) = cv s0.
Proof. induction l as [|it l IH]; intros s0; cbn [fold_left]; [reflexivity|]. rewrite IH. reflexivity. Qed.
Lemma cv_flush_pend_start s : cv (flush_pend_start s) = cv s.
Proof. unfold flush_pend_start. rewrite cv_flush_fold. reflexivity. Qed.
Lemma cv_do_close s : cv (do_close s) = cv s.
Proof.
  unfold do_close. cbv zeta.
  match goal with |- context [if ?c then _ else _] => destruct c end; [reflexivity|].
  rewrite cv_emit. cv_norm.
  match goal with |- context [if ?c then _ else _] => destruct c end; cv_norm; rewrite cv_flush_pend_start; reflexivity.
Qed.
Lemma cv_pq_trigger s : cv (pq_trigger s) = cv s.
Proof. unfold pq_trigger. destruct (pq_set s); reflexivity. Qed.
Lemma cv_sbd n s : cv (send_buffer_decreased n s) = cv s.
Proof. unfold send_buffer_decreased. destruct (_ <? _); [apply cv_pq_trigger|reflexivity]. Qed.
Lemma cv_check_sess_term s : cv (check_sess_term s) = cv s.
Proof. unfold check_sess_term. destruct (_ && _); [apply cv_do_close|reflexivity]. Qed.
Lemma cv_send_contact_header s : cv (send_contact_header s) = cv s.
Proof. exact (cv_send_frame _ _). Qed.
Lemma cv_send_sess_init s : cv (send_sess_init s) = cv s.
Proof. unfold send_sess_init. cbv zeta. cv_norm. apply cv_send_msg. Qed.
Lemma cv_send_sess_term r b s : cv (fst (send_sess_term r b s)) = cv s.
Proof.
  unfold send_sess_term. destruct (negb (in_sess s)); [reflexivity|]. destruct (in_term s); [reflexivity|].
  cbv zeta. cbn [fst ok]. rewrite cv_send_msg, cv_set_state. reflexivity.
Qed.
Lemma cv_escape r : cv (escape r) = cv (fst r).
Proof. destruct r as [s [k|]]; reflexivity. Qed.
Lemma cv_send_next s : cv (send_next s) = cv s.
Proof.
  unfold send_next. destruct (tx_tmp s) as [[id data]|]; [|reflexivity].
  cbv zeta. destruct (_ && _); [reflexivity|].
  match goal with |- context [if ?c then _ else _] => destruct c end.
  - rewrite cv_pq_trigger. cv_norm. rewrite cv_send_msg. cv_norm. reflexivity.
  - rewrite cv_send_msg. cv_norm. reflexivity.
Qed.
Lemma cv_process_queue s : cv (fst (process_queue s)) = cv s.
Proof.
  unfold process_queue. cbv zeta. cbn [tx_tmp in_sess in_term pend_start set].
  destruct (tx_tmp s) as [p|] eqn:T.
  - cbn [fst]. rewrite cv_send_next. reflexivity.
  - destruct (negb (in_sess s)); [reflexivity|]. destruct (in_term s); [reflexivity|].
    destruct (pend_start s) as [|[id data] rest]; [reflexivity|].
    cbn [fst]. rewrite cv_send_next, cv_emit. cv_norm. reflexivity.
Qed.
Lemma cv_merge_session_params s : cv (fst (merge_session_params s)) = cv s.
Proof.
  unfold merge_session_params.
  destruct (sessinit_this s) as [this|]; [|reflexivity].
  destruct (sessinit_peer s) as [peer|]; [|reflexivity].
  destruct (negb (ascii (si_nodeid peer))); reflexivity.
Qed.
Lemma cv_tx_proxy a s : cv (fst (tx_proxy a s)) = cv s.
Proof.
  unfold tx_proxy.
  match goal with |- context [if ?c then ?x else ?y] =>
    assert (H : cv (fst (if c then x else y)) = cv s) end.
  { destruct (_ <? CHUNK); cbn [fst]; [|reflexivity].
    cv_norm. rewrite cv_sbd. cv_norm. reflexivity. }
  match goal with |- context [if ?c then ?x else ?y] => destruct (if c then x else y) as [s1 ue] end.
  cbn [fst] in H. destruct (is_nil (conn_tx s1)); [exact H|].
  cbv zeta. destruct (_ =? 0); cbn [fst]; [rewrite cv_do_close; exact H|].
  cv_norm. exact H.
Qed.

(** Handling a message never touches the view. *)
Ltac cv_case :=
  match goal with
  | |- context [if ?c then _ else _] => destruct c
  | |- context [match ?x with Some _ => _ | None => _ end] => destruct x as [?|]
  end.

Ltac cv_push :=
  repeat first
    [ rewrite cv_check_sess_term | rewrite cv_send_msg | rewrite cv_emit | rewrite cv_set_state
    | rewrite cv_flush_pend_start | rewrite cv_pq_trigger | rewrite cv_send_sess_init
    | progress cv_norm | progress cbn [fst snd] ].

Lemma cv_handle_msg m s : cv (fst (handle_msg m s)) = cv s.
Proof.
  destruct m; unfold handle_msg.
  - (* XFER_SEGMENT *)
    destruct (negb (in_sess s)); [reflexivity|].
    destruct (has_start flags).
    + cbv zeta. destruct (has_end flags); cv_push; reflexivity.
    + destruct (rx_tmp s) as [[cur acc]|]; [|reflexivity].
      destruct (cur =? xid); [|reflexivity].
      cbv zeta. destruct (has_end flags); cv_push; reflexivity.
  - (* XFER_ACK *)
    destruct (negb (in_sess s)); [reflexivity|].
    destruct (dict_get xid (tx_map s)); [|reflexivity].
    cbv zeta. destruct (has_end flags).
    + cbn [pend_ack set]. destruct (negb (mem_N xid (pend_ack s))); cv_push; reflexivity.
    + cv_push. reflexivity.
  - (* XFER_REFUSE *)
    destruct (negb (in_sess s)); [reflexivity|].
    destruct (dict_get xid (tx_map s)); [|reflexivity].
    cbv zeta. cbn [tx_tmp set emit].
    destruct (tx_tmp s) as [[cur d]|]; [destruct (cur =? xid)|]; cv_push; reflexivity.
  - reflexivity.
  - (* SESS_TERM *)
    destruct (negb (in_sess s)); [reflexivity|].
    destruct (in_term s).
    + cv_push. reflexivity.
    + pose proof (cv_send_sess_term reason true s) as H.
      destruct (send_sess_term reason true s) as [s1 [k|]]; cbn [fst] in *; [exact H|].
      cv_push. exact H.
  - reflexivity.
  - (* SESS_INIT *)
    cbv zeta.
    match goal with |- context [merge_session_params ?x] =>
      pose proof (cv_merge_session_params x) as H; destruct (merge_session_params x) as [s1 [k|]] end;
      cbn [fst] in *; cv_push; rewrite H; cv_norm; destruct (c_passive (cf s)); cv_push; reflexivity.
Qed.

Lemma cv_inj a b : cv a = cv b ->
  handled a = handled b /\ rx_buf a = rx_buf b /\ rx_alive a = rx_alive b /\ in_conn a = in_conn b.
Proof. unfold cv. intros H. injection H as H1 H2 H3 H4. auto. Qed.

Lemma closed_do_close s : closed (do_close s) = true.
Proof.
  unfold do_close. cbv zeta. cbn [closed set]. destruct (closed s) eqn:C; [cbn [closed set]; exact C|].
  match goal with |- context [if ?c then _ else _] => destruct c end; reflexivity.
Qed.

(** What handling one frame does to the view: nothing, except that a contact
    header either sets [in_conn], or closes the connection, or raises. *)
Lemma recv_frame_view f s s' e : recv_frame f s = (s', e) ->
  handled s' = handled s /\ rx_buf s' = rx_buf s /\ rx_alive s' = rx_alive s
  /\ (in_conn s = true -> in_conn s' = true)
  /\ match f with
     | FMsg _ => in_conn s' = in_conn s
     | FContact _ => e = None -> in_conn s' = true \/ closed s' = true
     end.
Proof.
  destruct f as [c|m]; unfold recv_frame.
  - destruct (negb (bytes_eqb (ch_magic c) MAGIC)).
    { intros E. injection E as <- <-. destruct (cv_inj _ _ (cv_do_close s)) as (H1 & H2 & H3 & H4).
      rewrite H1, H2, H3, H4. repeat split; auto. intros _. right. apply closed_do_close. }
    destruct (negb (ch_version c =? 4)).
    { intros E. injection E as <- <-. destruct (cv_inj _ _ (cv_do_close s)) as (H1 & H2 & H3 & H4).
      rewrite H1, H2, H3, H4. repeat split; auto. intros _. right. apply closed_do_close. }
    cbv zeta.
    set (s1 := if c_passive (cf s) then (send_contact_header s) <| conhead_this := Some (contact_flags s) |> else s).
    assert (C1 : cv s1 = cv s).
    { unfold s1. destruct (c_passive (cf s)); [|reflexivity]. cv_norm. apply cv_send_contact_header. }
    destruct (cv_inj _ _ C1) as (H1 & H2 & H3 & H4).
    destruct (conhead_this s1).
    2:{ intros E. injection E as <- <-. rewrite H1, H2, H3, H4. repeat split; auto. discriminate. }
    set (s3 := set_state ST_SESSNEG (s1 <| conhead_peer := Some (ch_flags c) |> <| in_conn := true |>)).
    assert (C3 : cv s3 = (handled s, rx_buf s, rx_alive s, true)).
    { unfold s3. rewrite cv_set_state. unfold cv. cbn [handled rx_buf rx_alive in_conn set].
      rewrite H1, H2, H3. reflexivity. }
    assert (K : forall x, cv x = cv s3 ->
              handled x = handled s /\ rx_buf x = rx_buf s /\ rx_alive x = rx_alive s /\ in_conn x = true).
    { intros x Hx. rewrite C3 in Hx. unfold cv in Hx. injection Hx as -> -> -> ->. auto. }
    assert (F : forall x (e0 : option N), cv x = cv s3 -> (e0 = None -> in_conn x = true \/ closed x = true) ->
              handled x = handled s /\ rx_buf x = rx_buf s /\ rx_alive x = rx_alive s
              /\ (in_conn s = true -> in_conn x = true) /\ (e0 = None -> in_conn x = true \/ closed x = true)).
    { intros x e0 Hx Hc. destruct (K x Hx) as (K1 & K2 & K3 & K4). repeat split; auto. }
    destruct (c_require_tls (cf s3)) as [[|]|]; [|destruct (c_passive (cf s3))|destruct (c_passive (cf s3))];
      unfold ok; intros E; injection E as <- <-.
    + apply F; [apply cv_do_close|]. intros _. right. apply closed_do_close.
    + apply F; [reflexivity|]. intros _. left. apply (K s3 eq_refl).
    + apply F; [apply cv_send_sess_init|]. intros _. left. apply (K _ (cv_send_sess_init s3)).
    + apply F; [reflexivity|]. intros _. left. apply (K s3 eq_refl).
    + apply F; [apply cv_send_sess_init|]. intros _. left. apply (K _ (cv_send_sess_init s3)).
  - pose proof (cv_handle_msg m s) as H.
    destruct (handle_msg m s) as [s1 [|reason|k]]; cbn [fst] in H; unfold ok, raise; intros E; injection E as <- <-.
    + destruct (cv_inj _ _ H) as (H1 & H2 & H3 & H4). rewrite H1, H2, H3, H4. auto.
    + rewrite <- cv_send_msg with (m := MReject (msg_id m) reason) in H.
      destruct (cv_inj _ _ H) as (H1 & H2 & H3 & H4).
      rewrite cv_send_msg in H. destruct (cv_inj _ _ (eq_trans (cv_send_msg (MReject (msg_id m) reason) s1) H)) as (J1 & J2 & J3 & J4).
      rewrite J1, J2, J3, J4. auto.
    + destruct (cv_inj _ _ H) as (H1 & H2 & H3 & H4). rewrite H1, H2, H3, H4. auto.
Qed.

(** Operations other than a socket read leave the view alone. *)
Definition is_rx (o : op) : bool := match o with ORx _ => true | _ => false end.

Lemma cv_step_other s o : is_rx o = false -> cv (step s o) = cv s.
Proof.
  intros Ho. destruct o; try discriminate Ho; unfold step.
  - destruct (closed s); [reflexivity|].
    destruct (negb (state s =? ST_CONNECTING)); [reflexivity|].
    cbv zeta. rewrite cv_set_state.
    destruct (c_passive (cf s)); [reflexivity|]. cv_norm. apply cv_send_contact_header.
  - destruct (closed s); [reflexivity|].
    destruct (in_term s); [apply cv_emit|]. cbv zeta.
    rewrite cv_emit, cv_pq_trigger. cv_norm. reflexivity.
  - destruct (closed s); [reflexivity|].
    destruct (negb (in_sess s)); [apply cv_do_close|].
    rewrite cv_escape. apply cv_send_sess_term.
  - destruct (closed s); [reflexivity|]. apply cv_do_close.
  - destruct (closed s); [reflexivity|].
    destruct (dict_get id (rx_map s)); [rewrite cv_emit; cv_norm; reflexivity|apply cv_emit].
  - destruct (closed s); [reflexivity|].
    match goal with |- context [if ?c then _ else _] => destruct c end; [|reflexivity].
    cbv zeta.
    pose proof (cv_tx_proxy accept (s <| pend_set := false |>)) as H.
    destruct (tx_proxy accept (s <| pend_set := false |>)) as [s1 cont]. cbn [fst] in H.
    assert (H' : cv s1 = cv s) by (rewrite H; cv_norm; reflexivity).
    destruct cont; [exact H'|]. destruct idle; cv_norm; exact H'.
  - destruct (closed s); [reflexivity|]. destruct (rx_alive s); [apply cv_do_close|reflexivity].
  - destruct (closed s); [reflexivity|].
    match goal with |- context [if ?c then _ else _] => destruct c end; [|reflexivity].
    pose proof (cv_process_queue s) as H.
    destruct (process_queue s) as [s1 keep]. cbn [fst] in H.
    destruct keep; cv_norm; exact H.
  - destruct (closed s); [reflexivity|].
    destruct (ka_due s) as [due|]; [|reflexivity].
    destruct (due <=? now s); [|reflexivity]. rewrite cv_send_msg. cv_norm. reflexivity.
  - destruct (closed s); [reflexivity|].
    destruct (idle_due s) as [due|]; [|reflexivity].
    destruct (due <=? now s); [|reflexivity]. cbv zeta. cbn [in_term set].
    destruct (in_term s).
    + rewrite cv_do_close. cv_norm. reflexivity.
    + rewrite cv_escape, cv_send_sess_term. cv_norm. reflexivity.
  - cv_norm. reflexivity.
Qed.

Lemma closed_step s o : closed s = true -> closed (step s o) = true.
Proof. intros H. rewrite step_closed by exact H. destruct o; exact H. Qed.

(** * The consumption invariant *)

(** The octets of the socket reads that take effect along a run from [s]. *)
Fixpoint received_from (s : ep) (ops : list op) : bytes :=
  match ops with
  | [] => []
  | o :: r =>
      (match o with
       | ORx d => if negb (closed s) && rx_alive s then d else []
       | _ => []
       end) ++ received_from (step s o) r
  end.
Definition received (s0 : ep) (ops : list op) : bytes := received_from s0 ops.

Definition enc (l : list frame) : bytes := concat (map encode_frame l).

Lemma enc_snoc l f : enc (l ++ [f]) = enc l ++ encode_frame f.
Proof. unfold enc. rewrite map_app, concat_app. cbn [map concat]. rewrite app_nil_r. reflexivity. Qed.

(** Empty, or one contact header followed by messages only. *)
Definition shape (l : list frame) : Prop := l = [] \/ exists c ms, l = FContact c :: map FMsg ms.

Definition LI (s : ep) : Prop :=
  shape (handled s) /\ (in_conn s = true -> handled s <> []) /\ Forall wf_frame (handled s) /\ wf_bytes (rx_buf s).

Lemma recv_loop_inv : forall fuel s,
  LI s -> (in_conn s = false -> handled s = [] \/ closed s = true) ->
  forall s' e, recv_loop fuel s = (s', e) ->
  LI s' /\ (e = None -> in_conn s' = false -> handled s' = [] \/ closed s' = true)
  /\ enc (handled s') ++ rx_buf s' = enc (handled s) ++ rx_buf s
  /\ rx_alive s' = rx_alive s.
Proof.
  induction fuel as [|fuel IH]; intros s L G s' e E; cbn [recv_loop] in E.
  { injection E as <- <-. auto. }
  destruct (is_nil (rx_buf s) || closed s) eqn:Stop; [injection E as <- <-; auto|].
  apply orb_false_iff in Stop. destruct Stop as [_ NC].
  destruct (parse_frame (in_conn s) (rx_buf s)) as [[fr rest]|] eqn:P; [|injection E as <- <-; auto].
  destruct L as (Sh & NE & Wf & Wb).
  apply frame_parse_sound in P; [|exact Wb]. destruct P as (EB & [Wfr Ph] & Wrest).
  set (s0 := s <| rx_buf := rest |> <| handled := handled s ++ [fr] |>) in E.
  destruct (recv_frame fr s0) as [s1 e1] eqn:RF.
  apply recv_frame_view in RF. destruct RF as (V1 & V2 & V3 & V4 & V5).
  change (handled s0) with (handled s ++ [fr]) in V1. change (rx_buf s0) with rest in V2.
  change (rx_alive s0) with (rx_alive s) in V3. change (in_conn s0) with (in_conn s) in V4, V5.
  assert (L1 : LI s1 /\ (e1 = None -> in_conn s1 = false -> handled s1 = [] \/ closed s1 = true)).
  { unfold LI. rewrite V1, V2. destruct fr as [c|m].
    - (* contact header: the receiver was in the contact phase and had acted on nothing *)
      destruct (G Ph) as [HN|HC]; [|congruence].
      rewrite HN. cbn [app]. split; [split; [|split; [|split]]|].
      + right. exists c, []. reflexivity.
      + discriminate.
      + constructor; [exact Wfr|constructor].
      + exact Wrest.
      + intros E1 IC. destruct (V5 E1) as [T|C]; [congruence|right; exact C].
    - (* message: the receiver is in the message phase *)
      destruct Sh as [HN|(c & ms & HS)]; [exfalso; exact (NE Ph HN)|].
      split; [split; [|split; [|split]]|].
      + right. exists c, (ms ++ [m]). rewrite HS, map_app. reflexivity.
      + intros _ HN. destruct (handled s); discriminate.
      + apply Forall_app. split; [exact Wf|constructor; [exact Wfr|constructor]].
      + exact Wrest.
      + intros _ IC. rewrite V5, Ph in IC. discriminate. }
  destruct L1 as [L1 G1].
  assert (EQ : enc (handled s1) ++ rx_buf s1 = enc (handled s) ++ rx_buf s).
  { rewrite V1, V2, enc_snoc, EB, <- app_assoc. reflexivity. }
  destruct e1 as [k|].
  - unfold raise in E. injection E as <- <-. repeat split; try apply L1; auto; try discriminate.
  - destruct (IH s1 L1 (G1 eq_refl) s' e E) as (L2 & G2 & EQ2 & A2).
    repeat split; try apply L2; auto; congruence.
Qed.

(** The invariant of reachable states. *)
Definition Inv (s : ep) : Prop :=
  LI s /\ (in_conn s = false -> handled s = [] \/ closed s = true \/ rx_alive s = false).

Lemma Inv_init c : Inv (init c).
Proof.
  unfold Inv, LI, init. cbn [handled rx_buf in_conn]. split.
  - split; [left; reflexivity|]. split; [discriminate|]. split; constructor.
  - intros _. left. reflexivity.
Qed.

Lemma step_consume s o :
  Inv s -> wf_bytes (received_from s [o]) ->
  Inv (step s o) /\ enc (handled (step s o)) ++ rx_buf (step s o) = enc (handled s) ++ rx_buf s ++ received_from s [o].
Proof.
  intros I0 W. pose proof I0 as [L G]. cbn [received_from] in *. rewrite app_nil_r in *.
  destruct (is_rx o) eqn:R.
  2:{ pose proof (cv_step_other s o R) as C. destruct (cv_inj _ _ C) as (H1 & H2 & H3 & H4).
      assert (received_nil : match o with ORx d => if negb (closed s) && rx_alive s then d else [] | _ => [] end = [])
        by (destruct o; try reflexivity; discriminate R).
      rewrite received_nil, app_nil_r, H1, H2. split; [|reflexivity].
      unfold Inv, LI. rewrite H1, H2, H3, H4. split; [exact L|].
      intros IC. destruct (G IC) as [A|[A|A]]; auto. right. left. apply closed_step. exact A. }
  destruct o; try discriminate R. unfold step.
  destruct (closed s) eqn:C; cbn [negb andb] in *.
  { rewrite app_nil_r. split; [exact I0|reflexivity]. }
  destruct (rx_alive s) eqn:A.
  2:{ rewrite orb_true_r, app_nil_r. split; [exact I0|reflexivity]. }
  destruct data as [|x data']; cbn [is_nil negb orb].
  { rewrite app_nil_r. split; [exact I0|reflexivity]. }
  set (data := x :: data') in *.
  unfold recv_raw. cbv zeta.
  set (s0 := idle_reset (s <| t_recv := now s |>) <| rx_buf := rx_buf (idle_reset (s <| t_recv := now s |>)) ++ data |>).
  assert (B0 : rx_buf s0 = rx_buf s ++ data) by reflexivity.
  assert (L0 : LI s0).
  { destruct L as (Sh & NE & Wf & Wb). unfold LI. rewrite B0.
    change (handled s0) with (handled s). change (in_conn s0) with (in_conn s).
    repeat split; auto. apply wf_bytes_app. split; assumption. }
  assert (G0 : in_conn s0 = false -> handled s0 = [] \/ closed s0 = true).
  { change (handled s0) with (handled s). change (in_conn s0) with (in_conn s).
    intros IC. destruct (G IC) as [H|[H|H]]; [left; exact H|congruence|congruence]. }
  destruct (recv_loop (S (length (rx_buf s0))) s0) as [s1 e] eqn:E.
  destruct (recv_loop_inv _ _ L0 G0 _ _ E) as (L1 & G1 & EQ & A1).
  rewrite B0 in EQ. change (handled s0) with (handled s) in EQ. change (rx_alive s0) with (rx_alive s) in A1.
  destruct e as [k|].
  - split; [|exact EQ].
    split; [exact L1|]. intros _. right. right. reflexivity.
  - split; [|exact EQ].
    split; [exact L1|]. intros IC. destruct (G1 eq_refl IC) as [H|H]; auto.
Qed.

Lemma received_from_cons s o r : received_from s (o :: r) = received_from s [o] ++ received_from (step s o) r.
Proof. cbn [received_from]. rewrite app_nil_r. reflexivity. Qed.

Lemma consume_from : forall ops s,
  Inv s -> wf_bytes (received_from s ops) ->
  Inv (fold_left step ops s)
  /\ enc (handled (fold_left step ops s)) ++ rx_buf (fold_left step ops s)
     = enc (handled s) ++ rx_buf s ++ received_from s ops.
Proof.
  induction ops as [|o ops IH]; intros s I W.
  - cbn [fold_left received_from]. rewrite app_nil_r. auto.
  - rewrite received_from_cons in *. apply wf_bytes_app in W. destruct W as [W1 W2].
    destruct (step_consume s o I W1) as [I1 E1].
    destruct (IH (step s o) I1 W2) as [I2 E2].
    cbn [fold_left]. split; [exact I2|]. rewrite E2, app_assoc, E1, <- !app_assoc. reflexivity.
Qed.

(** Every octet that was read is part of a frame that was acted on -- and the
    frames acted on re-encode to exactly the octets consumed -- or is still in
    the receive buffer. *)
Theorem consumption : forall c ops,
  wf_bytes (received (init c) ops) ->
  received (init c) ops = enc (handled (run c ops)) ++ rx_buf (run c ops).
Proof.
  intros c ops W. destruct (consume_from ops (init c) (Inv_init c) W) as [_ E].
  unfold run. rewrite E. reflexivity.
Qed.

(** The frames acted on: well-formed; none, or a contact header followed by
    messages only; and while the endpoint is still in the contact phase it has
    acted on nothing -- unless it closed or went deaf on the very first frame. *)
Theorem handled_shape : forall c ops,
  wf_bytes (received (init c) ops) ->
  let s := run c ops in
  Forall wf_frame (handled s)
  /\ (handled s = [] \/ exists h ms, handled s = FContact h :: map FMsg ms)
  /\ (in_conn s = true -> handled s <> [])
  /\ (in_conn s = false -> handled s = [] \/ closed s = true \/ rx_alive s = false)
  /\ wf_bytes (rx_buf s).
Proof.
  intros c ops W. destruct (consume_from ops (init c) (Inv_init c) W) as [[(Sh & NE & Wf & Wb) G] _].
  cbv zeta. unfold run. auto.
Qed.

(** * The channel lemma *)

Definition is_prefix {A} (l1 l2 : list A) : Prop := exists m, l2 = l1 ++ m.

(** A frame sequence as a receiver starting in phase [ph] would accept it:
    the first frame in phase [ph], every later one in the message phase. *)
Fixpoint wfseq (ph : bool) (l : list frame) : Prop :=
  match l with
  | [] => True
  | f :: r => accepts ph f /\ wfseq true r
  end.

Lemma wfseq_msgs ms : Forall wf_frame (map FMsg ms) -> wfseq true (map FMsg ms).
Proof.
  induction ms as [|m ms IH]; intros W; cbn [map wfseq]; [exact I|].
  inversion W; subst. split; [split; [assumption|reflexivity]|]. apply IH. assumption.
Qed.

Lemma wfseq_shape l : shape l -> Forall wf_frame l -> wfseq false l.
Proof.
  intros [->|(c & ms & ->)] W; [exact I|]. inversion W; subst. cbn [wfseq].
  split; [split; [assumption|reflexivity]|]. apply wfseq_msgs. assumption.
Qed.

Lemma encode_frame_nonempty ph f : accepts ph f -> encode_frame f <> [].
Proof.
  intros A E. pose proof (frame_parse_encode ph f [] A) as P. apply frame_parse_shrinks in P.
  rewrite E in P. cbn in P. lia.
Qed.

(** Unique decodability of frame sequences: if the encoding of one accepted
    sequence is a prefix of the encoding of another, the first sequence is a
    prefix of the second. *)
Lemma frames_prefix : forall l1 l2 ph x,
  wfseq ph l1 -> wfseq ph l2 -> enc l1 ++ x = enc l2 -> is_prefix l1 l2.
Proof.
  induction l1 as [|f r IH]; intros l2 ph x W1 W2 E.
  - exists l2. reflexivity.
  - destruct W1 as [A1 W1]. destruct l2 as [|g t].
    + unfold enc in E. cbn [map concat] in E. exfalso. apply (encode_frame_nonempty ph f A1).
      destruct (encode_frame f); [reflexivity|discriminate E].
    + destruct W2 as [A2 W2]. unfold enc in E. cbn [map concat] in E. rewrite <- app_assoc in E.
      destruct (frame_prefix_free ph f g _ _ A1 A2 E) as [<- E'].
      destruct (IH t true x W1 W2 E') as [m ->]. exists m. reflexivity.
Qed.

(** Reliable FIFO message channel: if what B has read is a prefix of what A's
    socket has accepted, the frames B acted on are a prefix of the frames A
    sent -- for all operation lists of both endpoints.  Hypotheses about A that
    are facts of the sender side of the model, kept explicit here:
    [sent_accounting] (every octet written comes from the encoding of a sent
    frame, in order), well-formedness of what A sends, and that A sends a
    contact header first and only messages after it. *)
Theorem channel : forall cA opsA cB opsB,
  (exists rest, wire (run cA opsA) = received (init cB) opsB ++ rest) ->
  wire (run cA opsA) ++ conn_tx (run cA opsA) ++ msg_tx (run cA opsA) = enc (sent (run cA opsA)) ->
  Forall wf_frame (sent (run cA opsA)) ->
  shape (sent (run cA opsA)) ->
  is_prefix (handled (run cB opsB)) (sent (run cA opsA)).
Proof.
  intros cA opsA cB opsB [rest HW] ACC WF SH.
  set (sA := run cA opsA) in *.
  assert (WE : wf_bytes (enc (sent sA))).
  { clear -WF. induction (sent sA) as [|f l IH]; [constructor|]. inversion WF; subst.
    unfold enc. cbn [map concat]. apply wf_bytes_app. split; [apply encode_frame_wf; assumption|apply IH; assumption]. }
  assert (WR : wf_bytes (received (init cB) opsB)).
  { rewrite <- ACC, HW in WE. apply wf_bytes_app in WE. destruct WE as [WE _].
    apply wf_bytes_app in WE. tauto. }
  pose proof (consumption cB opsB WR) as CON.
  destruct (handled_shape cB opsB WR) as (WfB & ShB & _).
  apply frames_prefix with (ph := false) (x := rx_buf (run cB opsB) ++ rest ++ conn_tx sA ++ msg_tx sA).
  - apply wfseq_shape; assumption.
  - apply wfseq_shape; assumption.
  - rewrite <- ACC, HW, CON, <- !app_assoc. reflexivity.
Qed.

(** * Session-level framing: what the session handler has acted on is a
      function of the octets read *)

Lemma parse_frame_nil ph : parse_frame ph [] = None.
Proof. destruct ph; reflexivity. Qed.

(** The receive loop runs to completion: it only stops on an exception, on a
    closed connection, or when no complete frame is left. *)
Lemma recv_loop_quiescent : forall fuel s s' e,
  (length (rx_buf s) < fuel)%nat -> recv_loop fuel s = (s', e) ->
  e <> None \/ closed s' = true \/ parse_frame (in_conn s') (rx_buf s') = None.
Proof.
  induction fuel as [|fuel IH]; intros s s' e F E; [lia|]. cbn [recv_loop] in E.
  destruct (is_nil (rx_buf s) || closed s) eqn:Stop.
  { injection E as <- <-. apply orb_true_iff in Stop. destruct Stop as [N|C]; [|auto].
    right. right. destruct (rx_buf s); [apply parse_frame_nil|discriminate N]. }
  destruct (parse_frame (in_conn s) (rx_buf s)) as [[fr rest]|] eqn:P; [|injection E as <- <-; auto].
  apply frame_parse_shrinks in P.
  set (s0 := s <| rx_buf := rest |> <| handled := handled s ++ [fr] |>) in E.
  destruct (recv_frame fr s0) as [s1 e1] eqn:RF.
  apply recv_frame_view in RF. destruct RF as (_ & V2 & _).
  change (rx_buf s0) with rest in V2.
  destruct e1 as [k|]; [injection E as <- <-; left; discriminate|].
  apply (IH s1 s' e); [rewrite V2; lia|exact E].
Qed.

Lemma recv_loop_alive : forall fuel s s' e, recv_loop fuel s = (s', e) -> rx_alive s' = rx_alive s.
Proof.
  induction fuel as [|fuel IH]; intros s s' e E; cbn [recv_loop] in E; [injection E as <- <-; reflexivity|].
  destruct (is_nil (rx_buf s) || closed s); [injection E as <- <-; reflexivity|].
  destruct (parse_frame (in_conn s) (rx_buf s)) as [[fr rest]|]; [|injection E as <- <-; reflexivity].
  set (s0 := s <| rx_buf := rest |> <| handled := handled s ++ [fr] |>) in E.
  destruct (recv_frame fr s0) as [s1 e1] eqn:RF.
  apply recv_frame_view in RF. destruct RF as (_ & _ & V3 & _). change (rx_alive s0) with (rx_alive s) in V3.
  destruct e1 as [k|]; [injection E as <- <-; exact V3|]. rewrite (IH s1 s' e E). exact V3.
Qed.

Definition Q (s : ep) : Prop :=
  closed s = true \/ rx_alive s = false \/ parse_frame (in_conn s) (rx_buf s) = None.

Lemma Q_step s o : Q s -> Q (step s o).
Proof.
  intros H. destruct (is_rx o) eqn:R.
  2:{ destruct (cv_inj _ _ (cv_step_other s o R)) as (_ & H2 & H3 & H4). unfold Q. rewrite H2, H3, H4.
      destruct H as [C|H]; [left; apply closed_step; exact C|right; exact H]. }
  destruct o; try discriminate R. unfold step.
  destruct (closed s) eqn:C; [exact H|].
  destruct (is_nil data || negb (rx_alive s)) eqn:N; [exact H|].
  unfold recv_raw. cbv zeta.
  match goal with |- context [recv_loop ?f ?x] => destruct (recv_loop f x) as [s1 e] eqn:E end.
  apply recv_loop_quiescent in E; [|lia].
  destruct e as [k|]; [right; left; reflexivity|].
  destruct E as [E|E]; [congruence|]. unfold Q. tauto.
Qed.

Lemma Q_run c ops : Q (run c ops).
Proof. apply run_invariant; [right; right; reflexivity|intros; apply Q_step; assumption]. Qed.

Lemma closed_step_inv s o : closed (step s o) = false -> closed s = false.
Proof. intros H. destruct (closed s) eqn:C; [|reflexivity]. rewrite (closed_step s o C) in H. discriminate. Qed.

Lemma alive_step_inv s o : rx_alive (step s o) = true -> rx_alive s = true.
Proof.
  intros H. destruct (is_rx o) eqn:R.
  2:{ destruct (cv_inj _ _ (cv_step_other s o R)) as (_ & _ & H3 & _). congruence. }
  destruct o; try discriminate R. unfold step in H.
  destruct (closed s); [exact H|].
  destruct (is_nil data || negb (rx_alive s)); [exact H|].
  unfold recv_raw in H. cbv zeta in H.
  match type of H with context [recv_loop ?f ?x] => destruct (recv_loop f x) as [s1 e] eqn:E end.
  apply recv_loop_alive in E. destruct e; [discriminate H|]. rewrite E in H. exact H.
Qed.

Lemma enc_app a b : enc (a ++ b) = enc a ++ enc b.
Proof. unfold enc. rewrite map_app, concat_app. reflexivity. Qed.

Lemma frames_comparable : forall l1 l2 ph x y,
  wfseq ph l1 -> wfseq ph l2 -> enc l1 ++ x = enc l2 ++ y -> is_prefix l1 l2 \/ is_prefix l2 l1.
Proof.
  induction l1 as [|f r IH]; intros l2 ph x y W1 W2 E.
  - left. exists l2. reflexivity.
  - destruct l2 as [|g t]; [right; exists (f :: r); reflexivity|].
    destruct W1 as [A1 W1]. destruct W2 as [A2 W2].
    unfold enc in E. cbn [map concat] in E. rewrite <- !app_assoc in E.
    destruct (frame_prefix_free ph f g _ _ A1 A2 E) as [<- E'].
    destruct (IH t true x y W1 W2 E') as [[m ->]|[m ->]]; [left|right]; exists m; reflexivity.
Qed.

Lemma map_FMsg_elt l a f b : map FMsg l = a ++ f :: b -> exists m, f = FMsg m.
Proof.
  intros E. assert (I : In f (map FMsg l)) by (rewrite E; apply in_elt).
  apply in_map_iff in I. destruct I as (m & <- & _). exists m. reflexivity.
Qed.

(** An endpoint that is open and listening has acted on every complete frame
    it has read: the octets it keeps do not start with another acceptable frame. *)
Lemma no_next_frame s f m z :
  Inv s -> Q s -> closed s = false -> rx_alive s = true ->
  shape (handled s ++ f :: m) -> Forall wf_frame (handled s ++ f :: m) ->
  rx_buf s = encode_frame f ++ z -> False.
Proof.
  intros [(Sh & NE & _ & _) G] Hq C A Sh2 Wf2 EB.
  apply Forall_app in Wf2. destruct Wf2 as [_ Wf2]. inversion Wf2 as [|? ? Wf _]; subst.
  assert (AC : accepts (in_conn s) f).
  { destruct Sh as [HN|(c & ms & HS)].
    - rewrite HN in *. cbn [app] in Sh2. destruct Sh2 as [Ab|(c & ms & E2)]; [discriminate|].
      injection E2 as -> _. split; [exact Wf|].
      destruct (in_conn s) eqn:IC; [exfalso; exact (NE eq_refl eq_refl)|reflexivity].
    - rewrite HS in *. destruct Sh2 as [Ab|(c2 & ms2 & E2)]; [discriminate|].
      cbn [app] in E2. injection E2 as _ E2. symmetry in E2. apply map_FMsg_elt in E2. destruct E2 as [x ->].
      split; [exact Wf|].
      destruct (in_conn s) eqn:IC; [reflexivity|]. destruct (G eq_refl) as [H|[H|H]]; congruence. }
  pose proof (frame_parse_encode _ _ z AC) as P. rewrite <- EB in P.
  destruct Hq as [H|[H|H]]; congruence.
Qed.

(** C07 for the actual session handler: for any two operation lists of an
    endpoint (any interleaving with sends, pumps, timers; any chunking of the
    reads) that have read the same octets and have left the endpoint open and
    listening, the frames acted on and the octets kept are the same. *)
Theorem session_stream_only : forall c ops1 ops2,
  received (init c) ops1 = received (init c) ops2 ->
  wf_bytes (received (init c) ops1) ->
  closed (run c ops1) = false -> rx_alive (run c ops1) = true ->
  closed (run c ops2) = false -> rx_alive (run c ops2) = true ->
  handled (run c ops1) = handled (run c ops2) /\ rx_buf (run c ops1) = rx_buf (run c ops2).
Proof.
  intros c ops1 ops2 ER W1 C1 A1 C2 A2.
  assert (W2 : wf_bytes (received (init c) ops2)) by (rewrite <- ER; exact W1).
  destruct (consume_from ops1 (init c) (Inv_init c) W1) as [I1 E1].
  destruct (consume_from ops2 (init c) (Inv_init c) W2) as [I2 E2].
  fold (run c ops1) in *. fold (run c ops2) in *.
  cbn [handled rx_buf init enc map concat app] in E1, E2.
  pose proof (Q_run c ops1) as Q1. pose proof (Q_run c ops2) as Q2.
  set (s1 := run c ops1) in *. set (s2 := run c ops2) in *.
  assert (E : enc (handled s1) ++ rx_buf s1 = enc (handled s2) ++ rx_buf s2).
  { rewrite E1, E2. exact ER. }
  pose proof I1 as [(Sh1 & _ & Wf1 & _) _]. pose proof I2 as [(Sh2 & _ & Wf2 & _) _].
  destruct (frames_comparable _ _ false _ _ (wfseq_shape _ Sh1 Wf1) (wfseq_shape _ Sh2 Wf2) E) as [[m Hm]|[m Hm]].
  - destruct m as [|f m].
    + rewrite app_nil_r in Hm. rewrite Hm in E |- *. apply app_inv_head in E. auto.
    + exfalso. rewrite Hm, enc_app in E. unfold enc at 3 in E. cbn [map concat] in E.
      rewrite <- !app_assoc in E. apply app_inv_head in E.
      refine (no_next_frame s1 f m _ I1 Q1 C1 A1 _ _ E); rewrite <- Hm; assumption.
  - destruct m as [|f m].
    + rewrite app_nil_r in Hm. rewrite Hm in E |- *. apply app_inv_head in E. auto.
    + exfalso. rewrite Hm, enc_app in E. unfold enc at 2 in E. cbn [map concat] in E.
      rewrite <- !app_assoc in E. apply app_inv_head in E. symmetry in E.
      refine (no_next_frame s2 f m _ I2 Q2 C2 A2 _ _ E); rewrite <- Hm; assumption.
Qed.

Lemma received_from_app : forall l1 l2 s,
  received_from s (l1 ++ l2) = received_from s l1 ++ received_from (fold_left step l1 s) l2.
Proof.
  induction l1 as [|o l1 IH]; intros l2 s; [reflexivity|].
  cbn [app fold_left]. rewrite (received_from_cons s o (l1 ++ l2)), (received_from_cons s o l1), IH, <- app_assoc.
  reflexivity.
Qed.

(** Two socket reads are one, as far as the frames acted on and the octets
    kept are concerned, whenever both ways leave the endpoint open and
    listening. *)
Theorem session_two_reads : forall c ops d1 d2,
  let s := run c ops in
  let a := step (step s (ORx d1)) (ORx d2) in
  let b := step s (ORx (d1 ++ d2)) in
  wf_bytes (received (init c) ops) -> wf_bytes d1 -> wf_bytes d2 ->
  closed a = false -> rx_alive a = true -> closed b = false -> rx_alive b = true ->
  handled a = handled b /\ rx_buf a = rx_buf b.
Proof.
  intros c ops d1 d2 s a b W0 Wd1 Wd2 Ca Aa Cb Ab.
  assert (Cm : closed (step s (ORx d1)) = false) by (eapply closed_step_inv; exact Ca).
  assert (Am : rx_alive (step s (ORx d1)) = true) by (eapply alive_step_inv; exact Aa).
  assert (Cs : closed s = false) by (eapply closed_step_inv; exact Cm).
  assert (As : rx_alive s = true) by (eapply alive_step_inv; exact Am).
  assert (Ra : received (init c) (ops ++ [ORx d1; ORx d2]) = received (init c) ops ++ d1 ++ d2).
  { unfold received. rewrite received_from_app. fold (run c ops). fold s.
    cbn [received_from]. rewrite Cs, As, Cm, Am. cbn [negb andb]. rewrite !app_nil_r. reflexivity. }
  assert (Rb : received (init c) (ops ++ [ORx (d1 ++ d2)]) = received (init c) ops ++ d1 ++ d2).
  { unfold received. rewrite received_from_app. fold (run c ops). fold s.
    cbn [received_from]. rewrite Cs, As. cbn [negb andb]. rewrite !app_nil_r. reflexivity. }
  assert (Ea : run c (ops ++ [ORx d1; ORx d2]) = a) by (rewrite run_app; reflexivity).
  assert (Eb : run c (ops ++ [ORx (d1 ++ d2)]) = b) by (rewrite run_app; reflexivity).
  rewrite <- Ea, <- Eb in *.
  apply session_stream_only; try assumption.
  - rewrite Ra, Rb. reflexivity.
  - rewrite Ra. apply wf_bytes_app. split; [exact W0|]. apply wf_bytes_app. split; assumption.
Qed.

(** The full-state version ("step (step s (ORx d1)) (ORx d2) = step s (ORx (d1 ++ d2))"
    whenever no exception escapes the first read) is FALSE for the session
    handler: [check_sess_term] closes the connection when the endpoint is
    terminating and idle, and "idle" looks at whether the receive buffer is
    empty -- so whether the connection closes after the peer's SESS_TERM
    depends on whether the octets of the next message arrived in the same read.
    Witness: an active endpoint that has sent SESS_TERM and flushed its
    transmit buffers reads the peer's SESS_TERM reply [5;1;0] and a KEEPALIVE [4]. *)
Definition refute_cfg : cfg := mkCfg false [97] 0 0 1000 1000 None.
Definition refute_ops : list op :=
  [OStart; ORx ([100;116;110;33;4;0] ++ encode_msg (MSessInit 0 1000 1000 [98] []));
   OTerm 0; OTxPump true 100000; OTxPump true 100000].

Theorem session_two_reads_refuted :
  exists c ops d1 d2,
    let s := run c ops in
    closed s = false /\ rx_alive s = true /\ d1 <> [] /\ d2 <> [] /\ wf_bytes (d1 ++ d2)
    /\ snd (recv_raw d1 s) = None
    /\ handled (step (step s (ORx d1)) (ORx d2)) <> handled (step s (ORx (d1 ++ d2)))
    /\ closed (step (step s (ORx d1)) (ORx d2)) = true
    /\ closed (step s (ORx (d1 ++ d2))) = false.
Proof.
  exists refute_cfg, refute_ops, [5;1;0], [4]. cbv zeta.
  split; [vm_compute; reflexivity|]. split; [vm_compute; reflexivity|].
  split; [discriminate|]. split; [discriminate|].
  split; [repeat constructor|]. split; [vm_compute; reflexivity|].
  split; [vm_compute; discriminate|]. split; vm_compute; reflexivity.
Qed.
