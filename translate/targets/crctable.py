''' Translator target: block CRC table of the BP codec  ->  coq/Gen/CrcTable.v   (property C08)

Source (parsed with ``ast``, fail closed on any other shape): bp/encoding/blocks.py
  * ``AbstractBlock.CrcType``   enum members (NAME = <int>),
  * ``AbstractBlock.CRC_DEFN``  dict literal  {CrcType.X: {'func': crcmod.predefined.mkPredefinedCrcFun('<name>'),
                                                           'encode': lambda val: struct.pack('<fmt>', val)}, ...}.
The algorithm names are mapped onto the definitions of coq/Lib/Crc.v ('x-25' -> crc16_x25, 'crc-32c' ->
crc32c; any other name fails closed) and the pack formats onto ``be k`` ('>H' / '>L'; the little-endian
'<H' / '<L' are translated as ``rev (be k ..)`` so that such a change breaks the theorem C08_gen_table
instead of the translator).
'''
import ast
import os


class TranslateError(Exception):
    pass


ALGS = {'x-25': 'crc16_x25', 'crc-32c': 'crc32c'}
PACK = {'>H': (2, True), '>L': (4, True), '>I': (4, True), '!H': (2, True), '!L': (4, True), '!I': (4, True),
        '<H': (2, False), '<L': (4, False), '<I': (4, False)}


def _dotted(node):
    parts = []
    while isinstance(node, ast.Attribute):
        parts.append(node.attr)
        node = node.value
    if not isinstance(node, ast.Name):
        raise TranslateError('not a dotted name: %s' % ast.dump(node)[:80])
    parts.append(node.id)
    return '.'.join(reversed(parts))


def _find_class(node, name):
    for item in node.body:
        if isinstance(item, ast.ClassDef) and item.name == name:
            return item
    raise TranslateError('class %s not found' % name)


def _int_enum(cls):
    out = {}
    for item in cls.body:
        if isinstance(item, ast.Assign) and len(item.targets) == 1 and isinstance(item.targets[0], ast.Name):
            if isinstance(item.value, ast.Constant) and isinstance(item.value.value, int) and not isinstance(item.value.value, bool):
                out[item.targets[0].id] = item.value.value
            else:
                raise TranslateError('enum member %s.%s is not an int literal' % (cls.name, item.targets[0].id))
        elif isinstance(item, ast.Expr) and isinstance(item.value, ast.Constant) and isinstance(item.value.value, str):
            continue
        elif isinstance(item, ast.Pass):
            continue
        else:
            raise TranslateError('unexpected statement in enum %s: %s' % (cls.name, ast.dump(item)[:80]))
    if not out:
        raise TranslateError('enum %s has no members' % cls.name)
    return out


def _str_const(node, what):
    if isinstance(node, ast.Constant) and isinstance(node.value, str):
        return node.value
    raise TranslateError('%s is not a string literal' % what)


def generate(repo_src):
    path = os.path.join(repo_src, 'bp', 'encoding', 'blocks.py')
    with open(path, 'r') as infile:
        tree = ast.parse(infile.read(), filename=path)
    ablk = _find_class(tree, 'AbstractBlock')
    crc_type = _int_enum(_find_class(ablk, 'CrcType'))
    defn = None
    for item in ablk.body:
        if isinstance(item, ast.Assign) and len(item.targets) == 1 and isinstance(item.targets[0], ast.Name) \
                and item.targets[0].id == 'CRC_DEFN':
            defn = item.value
    if not isinstance(defn, ast.Dict):
        raise TranslateError('AbstractBlock.CRC_DEFN is not a dict literal')
    table = {}
    for (key, val) in zip(defn.keys, defn.values):
        name = _dotted(key)
        if not name.startswith('CrcType.') or name.split('.')[-1] not in crc_type:
            raise TranslateError('CRC_DEFN key %s is not a CrcType member' % name)
        member = name.split('.')[-1]
        if not isinstance(val, ast.Dict):
            raise TranslateError('CRC_DEFN[%s] is not a dict literal' % member)
        ent = {}
        for (sub_key, sub_val) in zip(val.keys, val.values):
            ent[_str_const(sub_key, 'CRC_DEFN[%s] key' % member)] = sub_val
        if sorted(ent) != ['encode', 'func']:
            raise TranslateError('CRC_DEFN[%s] has keys %s' % (member, sorted(ent)))
        func = ent['func']
        if not (isinstance(func, ast.Call) and _dotted(func.func) == 'crcmod.predefined.mkPredefinedCrcFun'
                and len(func.args) == 1 and not func.keywords):
            raise TranslateError('CRC_DEFN[%s].func is not crcmod.predefined.mkPredefinedCrcFun(<name>)' % member)
        alg = _str_const(func.args[0], 'algorithm name')
        if alg not in ALGS:
            raise TranslateError('unknown CRC algorithm %r' % alg)
        enc = ent['encode']
        if not (isinstance(enc, ast.Lambda) and len(enc.args.args) == 1 and not enc.args.defaults
                and isinstance(enc.body, ast.Call) and _dotted(enc.body.func) == 'struct.pack'
                and len(enc.body.args) == 2 and not enc.body.keywords
                and isinstance(enc.body.args[1], ast.Name) and enc.body.args[1].id == enc.args.args[0].arg):
            raise TranslateError('CRC_DEFN[%s].encode is not lambda v: struct.pack(<fmt>, v)' % member)
        fmt = _str_const(enc.body.args[0], 'pack format')
        if fmt not in PACK:
            raise TranslateError('unknown pack format %r' % fmt)
        table[member] = (alg, fmt)
    if not table:
        raise TranslateError('CRC_DEFN is empty')
    if any(crc_type[member] == 0 for member in table):
        raise TranslateError('CRC_DEFN defines an algorithm for CRC type 0')

    lines = []
    out = lines.append
    out('(* GENERATED by translate/targets/crctable.py from bp/encoding/blocks.py (AbstractBlock.CrcType,')
    out('   AbstractBlock.CRC_DEFN).  Do not edit. *)')
    out('From Coq Require Import NArith List.')
    out('From DTN Require Import Lib.Bytes Lib.Crc.')
    out('Import ListNotations.')
    out('Local Open Scope N_scope.')
    out('')
    out('(* AbstractBlock.CrcType *)')
    for (name, val) in sorted(crc_type.items(), key=lambda kv: kv[1]):
        out('Definition CRCTYPE_%s : N := %d.' % (name, val))
    out('Definition crc_type_values : list N := [%s].' % '; '.join(str(val) for val in sorted(crc_type.values())))
    out('')
    members = sorted(table, key=lambda name: crc_type[name])

    def pack(fmt, term):
        (width, big) = PACK[fmt]
        return ('be %d %s' % (width, term)) if big else ('rev (be %d %s)' % (width, term))

    out("(* CRC_DEFN[ct]['encode'](CRC_DEFN[ct]['func'](bs)); None when ct has no entry *)")
    out('Definition gen_crc_field (ct : N) (bs : bytes) : option bytes :=')
    for name in members:
        (alg, fmt) = table[name]
        out("  if ct =? CRCTYPE_%s then Some (%s)   (* '%s', '%s' *)" % (name, pack(fmt, '(%s bs)' % ALGS[alg]), alg, fmt))
        out('  else')
    out('  None.')
    out('')
    out("(* CRC_DEFN[ct]['encode'](0): the zero placeholder *)")
    out('Definition gen_crc_zero (ct : N) : option bytes :=')
    for name in members:
        (alg, fmt) = table[name]
        out('  if ct =? CRCTYPE_%s then Some (%s)' % (name, pack(fmt, '0')))
        out('  else')
    out('  None.')
    out('')
    out('(* octets of the CRC field per type *)')
    out('Definition gen_crc_width (ct : N) : nat :=')
    for name in members:
        out('  if ct =? CRCTYPE_%s then %d%%nat else' % (name, PACK[table[name][1]][0]))
    out('  0%nat.')
    out('')
    return {'Gen/CrcTable.v': '\n'.join(lines) + '\n'}
