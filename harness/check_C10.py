''' C10 - BP agent processes each received bundle at most once and routes by first match.

 1. proof obligations: coq/Props/C10.v (re-checked from scratch, Print Assumptions captured);
 2. tie: correspondence between the real bp.agent.Agent (driven through harness/bpdrive.py) and
    Model/BpAgent.v evaluated inside Coq (vm_compute) on generated histories x routing tables;
 3. oracle: the property text evaluated on the implementation's observations (deliveries, bundles handed
    to the CL decoded with plain cbor2, status reports), independent of model and code.
'''
import env  # noqa: F401  (first)
import concurrent.futures
import json
import os
import re
import sys

from common import Check, CoqError
env.shim_oscrypto()
import bpdrive as B  # noqa: E402

# Defects of the unchanged code that the oracle rediscovers and that are reported to the coordinator but
# not (yet) listed in known_findings.json: they are printed as PENDING-FINDING and do not fail the run.
PENDING_FINDINGS = {}

NODE = 'dtn://n0/'
EIDS = ['dtn://n0/', 'dtn://n0/svc', 'dtn://n1/', 'dtn://n1/a', 'dtn://n2/', 'dtn://n2/b', 'dtn://n3/x/y',
        'ipn:1.1', 'ipn:2.5', 'dtn:none']
SOURCES = ['dtn://n1/', 'dtn://n1/a', 'dtn://n2/', 'ipn:2.5', 'dtn://n0/svc']
ACTIONS = ['deliver', 'forward', 'delete', 'drop', 'receive']
PATTERNS = ['.*', '^dtn://n1/', 'dtn://n1/.*', 'dtn://n[12]/', 'dtn://n2/b$', 'n1', 'dtn:', 'ipn:.*', 'ipn:1\\.', '^dtn://n3/',
            'dtn://n(1|3)/', 'dtn://n0/', 'dtn://n0/svc', '.*/a$', 'dtn://n2', '(?!dtn://n1/).*', 'dtn:none', 'ipn:2\\.5$', 'x', '']
ALL_REQ = B.FLAG_REQ_ANY | B.FLAG_REQ_STATUS_TIME


def gen_routes(rng):
    rx = []
    for _ in range(rng.choice([0, 1, 2, 3, 3, 4, 5])):
        rx.append([rng.choice(PATTERNS), rng.choice(['deliver', 'forward', 'forward', 'delete'] if rng.random() < 0.8 else ACTIONS)])
    tx = []
    for _ in range(rng.choice([0, 1, 1, 2, 3])):
        mtu = rng.choice([None, None, None, 100000, 20, 40, 270])
        tx.append(dict(pattern=rng.choice(PATTERNS), cl_type=('fake' if rng.random() < 0.85 else 'absent'), mtu=mtu))
    if rng.random() < 0.7:
        tx.append(dict(pattern='.*', cl_type='fake', mtu=rng.choice([None, None, 270])))
    return (rx, tx)


def payload_hex(rng, length):
    return bytes(rng.randrange(0x41, 0x5B) for _ in range(length)).hex()


def gen_bundle(rng):
    spec = dict(dest=rng.choice(EIDS), src=rng.choice(SOURCES), report_to=rng.choice(['dtn:none', 'dtn://n3/x/y', 'dtn://n2/', NODE]),
                flags=rng.choice([0, ALL_REQ, ALL_REQ, B.FLAG_REQ_RECEPTION, B.FLAG_REQ_DELETION | B.FLAG_REQ_FORWARDING,
                                  ALL_REQ | B.FLAG_NO_FRAGMENT]),
                time=rng.choice([0, 1, 1000, 1000, 2000, 700000000000]), seq=rng.randrange(0, 3),
                crc=rng.choice([0, 1, 2, 2]))
    length = rng.choice([0, 1, 5, 5, 12, 450])
    spec['payload_hex'] = payload_hex(rng, length)
    return spec


def lookalike(rng, spec):
    ''' Same bundle with exactly one identity component changed. '''
    out = dict(spec)
    which = rng.choice(['src', 'time', 'seq', 'frag', 'frag_off', 'frag_total'])
    if which == 'src':
        out['src'] = rng.choice([s for s in SOURCES if s != spec['src']])
    elif which == 'time':
        out['time'] = spec['time'] + 1
    elif which == 'seq':
        out['seq'] = spec['seq'] + 1
    else:
        length = len(bytes.fromhex(spec['payload_hex']))
        if spec.get('frag') is None:
            out['frag'] = [0, max(length, 1) + 3]
        elif which == 'frag_off':
            out['frag'] = [spec['frag'][0] + 1, spec['frag'][1]]
        elif which == 'frag_total':
            out['frag'] = [spec['frag'][0], spec['frag'][1] + 1]
        else:
            out.pop('frag')
    return out


def fragments_of(rng, spec):
    ''' Cut a bundle into 2..4 fragments (the sender side of C06), shuffled, sometimes overlapping. '''
    data = bytes.fromhex(spec['payload_hex'])
    if len(data) < 2:
        return [spec]
    cuts = sorted(rng.sample(range(1, len(data)), min(rng.choice([1, 2, 3]), len(data) - 1)))
    bounds = list(zip([0] + cuts, cuts + [len(data)]))
    out = []
    for (lo, hi) in bounds:
        if rng.random() < 0.2 and lo > 0:
            lo -= 1
        frag = dict(spec, frag=[lo, len(data)], payload_hex=data[lo:hi].hex())
        out.append(frag)
    rng.shuffle(out)
    return out


def gen_history(rng, length):
    hist = []
    while len(hist) < length:
        base = gen_bundle(rng)
        kind = rng.random()
        if kind < 0.25 and len(bytes.fromhex(base['payload_hex'])) in (5, 12):
            hist.extend(fragments_of(rng, base))
        else:
            hist.append(base)
        roll = rng.random()
        if hist and roll < 0.27:
            hist.append(dict(rng.choice(hist)))                         # exact repeat
        elif hist and roll < 0.48:
            hist.append(lookalike(rng, rng.choice(hist)))              # one component differs
        elif roll < 0.54:
            hist.append(dict(base, src=NODE, seq=base['seq'] + 5))     # own source
        elif roll < 0.61:
            hist.append(dict(base, dest=NODE, seq=base['seq'] + 6))    # administrative endpoint
        elif roll < 0.65:
            hist.append(dict(base, seq=base['seq'] + 7, bad_crc=[rng.choice([0, 1])], crc=2))
        elif roll < 0.71:
            hist.append(dict(base, seq=base['seq'] + 8, blocks=[B.unknown_bib()], sec=13))
        elif roll < 0.78:
            # accepted for delivery by the routing step, then refused by the application it is delivered to
            hist.append(B.refused_acme_spec(rng.choice(['response', 'request', 'no-alg']), NODE, src=base['src'], report_to=base['report_to'],
                                            flags=rng.choice([0, B.FLAG_REQ_DELETION, B.FLAG_REQ_DELIVERY, B.FLAG_REQ_DELETION | B.FLAG_REQ_DELIVERY, ALL_REQ]),
                                            time=base['time'], seq=base['seq'] + 10, crc=base.get('crc', 2) or 2))
        elif roll < 0.92:
            # a CRC-damaged copy (still decodable) arrives before the first intact copy of the same identity
            intact = dict(base, seq=base['seq'] + 9, crc=rng.choice([1, 2]))
            hist.append(dict(intact, bad_crc=[rng.choice([0, 1])]))
            if rng.random() < 0.3:
                hist.append(dict(intact, bad_crc=[0, 1]))
            hist.append(intact)
            if rng.random() < 0.3:
                hist.append(dict(intact))                               # and then a genuine repeat
    for spec in hist:
        if spec.get('bad_crc') and spec.get('crc', 2) == 0:
            spec['crc'] = 2
    return hist[:length + 3]


def gen_case(rng, length):
    for _ in range(50):
        (rx, tx) = gen_routes(rng)
        case = dict(node_id=NODE, rx_routes=rx, tx_routes=tx, hist=gen_history(rng, length), now_ms=800000000000,
                    acme_expect=['idchal-registered'])
        try:
            B.coq_case(case)
        except B.AmbiguousCase:
            continue
        return case
    raise RuntimeError('generator kept producing ambiguous MTU cases')


# ----------------------------------------------------------------------------- the oracle (property text)

def oracle_c10(case, raw):
    ''' :return: list of (signature, what) violations of C10 on the implementation's observations. '''
    bad = []
    accepted = set()       # identities received before (valid CRC, foreign source)
    acted = {}             # identity -> input index that caused delivery / forwarding / report
    damaged = set()        # identities of which a CRC-damaged copy has arrived
    node = case['node_id']
    for (idx, (spec, obs)) in enumerate(zip(case['hist'], raw)):
        ident = B.spec_ident(spec)
        dest = spec.get('dest') or 'dtn:none'
        delivers = [evt[1] for evt in obs['events'] if evt[0] == 'deliver']
        txs = [evt[1] for evt in obs['events'] if evt[0] == 'tx']
        reports = [ent for ent in txs if B.is_status_report(ent['bundle'])]
        fwds = [ent for ent in txs if not B.is_status_report(ent['bundle'])]
        effects = bool(delivers or txs)
        where = 'input %d ident %r dest %s' % (idx, ident, dest)
        if spec.get('bad_crc'):
            # a damaged copy leaves no trace: nothing now, and (checked at the first intact copy) not "seen"
            damaged.add(ident)
            if effects:
                bad.append(('C10/acted-on-bundle-with-invalid-crc', where))
            continue
        if spec.get('src') == node:
            if effects:
                bad.append(('C10/own-source-bundle-acted-on', where + ': %d deliveries, %d CL sends' % (len(delivers), len(txs))))
            continue
        if ident in accepted:
            if effects:
                bad.append(('C10/repeat-of-seen-identity-acted-on', where + ': %d deliveries, %d CL sends, first acted at input %r' % (
                    len(delivers), len(txs), acted.get(ident))))
            continue
        accepted.add(ident)
        # what may be acted on here: this identity, or (for a fragment) the reassembled whole bundle
        whole = ident[:3]
        for ent in delivers:
            got = tuple(ent['ident'])
            if got == ident and spec.get('frag') is None:
                pass
            elif spec.get('frag') is not None and got == whole:
                if whole in accepted:
                    bad.append(('C10/reassembled-bundle-delivered-twice', where))
                accepted.add(whole)
                acted[whole] = idx
            else:
                bad.append(('C10/delivery-of-unrelated-identity', where + ' delivered %r' % (got,)))
        if len(delivers) > 1:
            bad.append(('C10/delivered-more-than-once', where))
        # one received bundle, one action: at most one status report, one forwarding; a deleted bundle is not
        # forwarded, and only an application that refuses what was delivered to it makes "delivered" and
        # "deleted" meet
        own_reports = [ent for ent in reports if (ent['bundle'].get('admin') or {}).get('subj_src') == spec.get('src')]
        if len(own_reports) > 1:
            bad.append(('C10/more-than-one-status-report-for-one-received-bundle',
                        where + ': %d reports %r' % (len(own_reports), [sorted(name for (name, item) in (ent['bundle']['admin'].get('status') or {}).items()
                                                                             if item['asserted']) for ent in own_reports])))
        whole = [ent for ent in fwds if (ent['bundle'].get('primary') or {}).get('frag') is None]
        if len(whole) > 1:
            bad.append(('C10/forwarded-more-than-once', where))
        told_deleted = any(((ent['bundle'].get('admin') or {}).get('status') or {}).get('deleted', {}).get('asserted') for ent in own_reports)
        if told_deleted and fwds:
            bad.append(('C10/deleted-bundle-also-forwarded', where))
        if told_deleted and delivers and not spec.get('refuse'):
            bad.append(('C10/deleted-bundle-also-delivered', where))
        if effects:
            acted[ident] = idx
        # routing: first matching receive route, administrative endpoint always delivered
        if dest == node or dest == B.SAND_GROUP_EID:
            action = 'deliver'
        else:
            (_ridx, action) = B.first_route(case['rx_routes'], dest)
        sec_fail = spec.get('sec') is not None
        for ent in fwds:
            pri = ent['bundle'].get('primary') or {}
            if pri.get('src') != spec.get('src') or pri.get('dest') != dest:
                bad.append(('C10/cl-send-of-unrelated-bundle', where))
        if action == 'deliver':
            if fwds:
                bad.append(('C10/route-says-deliver-but-bundle-forwarded', where))
            if spec.get('frag') is None and not sec_fail and len(delivers) != 1:
                sig = 'C10/deliver-route-or-admin-endpoint-not-delivered'
                if ident in damaged and not effects:
                    sig = 'C10/first-intact-copy-suppressed-by-earlier-crc-damaged-copy'
                bad.append((sig, where + ' action by first match/admin endpoint is deliver'))
            if sec_fail and delivers:
                bad.append(('C10/delivered-despite-security-failure', where))
        elif action == 'forward':
            if delivers:
                bad.append(('C10/route-says-forward-but-bundle-delivered', where))
            # handed to the CL iff a transmit route with an attached CL exists and fragmentation (if needed) is feasible
            want = B.expect_forward(case, spec)
            if want is True and not fwds:
                sig = 'C10/forward-route-not-taken'
                if ident in damaged and not effects:
                    sig = 'C10/first-intact-copy-suppressed-by-earlier-crc-damaged-copy'
                bad.append((sig, where + ': first matching route says forward, a TX route with CL exists, nothing handed to the CL'))
            if want is False and fwds:
                bad.append(('C10/forwarded-without-usable-tx-route', where))
        else:
            if delivers or fwds:
                bad.append(('C10/no-deliver-or-forward-route-but-acted', where + ' first-match action %r' % (action,)))
            if (action == 'delete' and int(spec.get('flags', 0)) & B.FLAG_REQ_DELETION and report_routable(case, spec.get('report_to'))
                    and not any((ent['bundle'].get('admin') or {}).get('status', {}).get('deleted', {}).get('asserted') for ent in reports)):
                # the only observable trace of the delete action: the requested deletion report
                sig = 'C10/delete-route-not-taken'
                if ident in damaged and not effects:
                    sig = 'C10/first-intact-copy-suppressed-by-earlier-crc-damaged-copy'
                bad.append((sig, where + ': first matching route says delete, deletion report requested and routable, none sent'))
    return bad


def report_routable(case, eid):
    ''' A status report addressed to eid clearly reaches a CL: first matching TX route has the CL attached
    and no MTU a report could exceed. '''
    if not eid or eid == 'dtn:none':
        return False
    for item in case['tx_routes']:
        if re.compile(item['pattern']).match(eid) is not None:
            return item.get('cl_type', 'fake') == 'fake' and (item.get('mtu') is None or item['mtu'] >= B.REPORT_SIZE_BAND[1])
    return False


def derived_histories(case, first_diff):
    ''' Smaller / probing histories derived from one whose model comparison broke: the inputs sharing the
    identity of the first differing input, every damaged copy followed by an intact one, and single inputs. '''
    out = []
    hist = case['hist']

    def mk(sub):
        return dict(case, hist=[dict(item) for item in sub])
    if first_diff is not None and first_diff < len(hist):
        key = B.spec_ident(hist[first_diff])[:3]
        out.append(mk([item for item in hist[:first_diff + 1] if B.spec_ident(item)[:3] == key]))
        out.append(mk(hist[:first_diff + 1]))
        out.append(mk([hist[first_diff]]))
    for item in hist:
        if item.get('bad_crc'):
            intact = {key: val for (key, val) in item.items() if key != 'bad_crc'}
            out.append(mk([item, intact]))
            out.append(mk(list(hist) + [intact]))
    return out[:24]


# ----------------------------------------------------------------------------- directed cases / corpus

def directed_cases():
    def bd(**kw):
        spec = dict(src='dtn://n1/', report_to='dtn://n2/', flags=ALL_REQ, time=1000, seq=0, payload_hex=b'HELLO'.hex())
        spec.update(kw)
        return spec
    rx = [['^dtn://n2/b$', 'forward'], ['^dtn://n2/', 'deliver'], ['dtn://n[12]/', 'delete'], ['ipn:1', 'forward'], ['.*x/y', 'weird']]
    tx = [dict(pattern='^dtn://n2/', cl_type='fake', mtu=None), dict(pattern='ipn:', cl_type='absent', mtu=None)]
    cases = []
    # first match: dtn://n2/b matches routes 0,1,2 -> forward; dtn://n2/ matches 1,2 -> deliver; dtn://n1/ matches 2 -> delete
    cases.append(dict(node_id=NODE, rx_routes=rx, tx_routes=tx, now_ms=800000000000, hist=[
        bd(dest='dtn://n2/b', seq=1), bd(dest='dtn://n2/', seq=2), bd(dest='dtn://n1/', seq=3), bd(dest='ipn:1.1', seq=4),
        bd(dest='dtn://n3/x/y', seq=5), bd(dest='ipn:2.5', seq=6), bd(dest=NODE, seq=7), bd(dest='dtn://n0/svc', seq=8),
        bd(dest='dtn://n2/b', seq=1), bd(dest='dtn://n2/', seq=2), bd(dest=NODE, seq=7),           # repeats
        bd(dest='dtn://n2/', seq=9, src=NODE), bd(dest=NODE, seq=9, src=NODE),                     # own source
        bd(dest='dtn://n2/', seq=10, src='dtn://n0/svc'),                                          # look-alike of the node id
        bd(dest=B.SAND_GROUP_EID, seq=11, payload_hex=''),                                         # endpoint registered by a loaded application
    ]))
    # identities differing in exactly one component, each acted on once; then every one repeated
    base = bd(dest='dtn://n2/', seq=1)
    alike = [base, dict(base, src='dtn://n1/a'), dict(base, time=1001), dict(base, seq=2),
             dict(base, frag=[0, 9]), dict(base, frag=[1, 9]), dict(base, frag=[0, 10]),
             dict(base, dest='dtn://n2/b', frag=[0, 7]), dict(base, dest='dtn://n2/b', frag=[5, 7], payload_hex=b'XY'.hex())]
    cases.append(dict(node_id=NODE, rx_routes=rx, tx_routes=tx, now_ms=800000000000, hist=alike + [dict(item) for item in alike]))
    # reassembly in several orders, duplicates, whole bundle before / after, fragments with deliver by admin endpoint
    frs = [bd(dest=NODE, time=2000, frag=[0, 10]), bd(dest=NODE, time=2000, frag=[5, 10], payload_hex=b'WORLD'.hex())]
    cases.append(dict(node_id=NODE, rx_routes=[], tx_routes=[dict(pattern='.*')], now_ms=800000000000, hist=[
        frs[1], frs[1], frs[0], frs[0], bd(dest=NODE, time=2000, payload_hex=b'HELLOWORLD'.hex()),
        bd(dest=NODE, time=3000, payload_hex=b'HELLOWORLD'.hex()), dict(frs[0], time=3000), dict(frs[1], time=3000),
        dict(frs[0], time=4000, frag=[0, 5]), dict(frs[0], time=4000, frag=[0, 5]),
        bd(dest=NODE, time=5000, frag=[0, 5], blocks=[B.unknown_bib()], sec=13),
    ]))
    # empty tables
    cases.append(dict(node_id=NODE, rx_routes=[], tx_routes=[], now_ms=800000000000, hist=[
        bd(dest='dtn://n2/', seq=1), bd(dest=NODE, seq=2), bd(dest=NODE, seq=2), bd(dest='dtn:none', seq=3)]))
    # forward over small MTUs: fragments / infeasible / must-not-fragment
    big = (b'ABCDEFGHIJKLMNOPQRSTUVWXYZ' * 20).hex()
    cases.append(dict(node_id=NODE, rx_routes=[['.*', 'forward']], now_ms=800000000000,
                      tx_routes=[dict(pattern='^dtn://n1/', mtu=270), dict(pattern='^dtn://n2/', mtu=30), dict(pattern='.*', mtu=None)],
                      hist=[bd(dest='dtn://n1/a', seq=1, payload_hex=big), bd(dest='dtn://n1/a', seq=1, payload_hex=big),
                            bd(dest='dtn://n2/b', seq=2), bd(dest='dtn://n2/b', seq=3, flags=ALL_REQ | B.FLAG_NO_FRAGMENT),
                            bd(dest='dtn://n1/a', seq=4, time=0, payload_hex=big), bd(dest='dtn://n3/x/y', seq=5, time=0)]))
    # CRC-damaged copies first, then the intact bundle: deliver, forward, delete routes and the admin endpoint
    dmg = []
    for (k, dst) in enumerate(['dtn://n2/', 'dtn://n2/b', 'dtn://n1/', NODE]):
        intact = bd(dest=dst, seq=20 + k, time=6000)
        dmg += [dict(intact, bad_crc=[0]), dict(intact, bad_crc=[1]), intact, dict(intact)]
    cases.append(dict(node_id=NODE, rx_routes=rx, tx_routes=tx, now_ms=800000000000, hist=dmg))
    # accepted for delivery (administrative endpoint), then refused by the admin element: ACME records it rejects,
    # every subset of the deletion / delivery / reception report requests, with and without status time
    ref = []
    seqno = 0
    for kind in ('response', 'request', 'no-alg'):
        for bits in range(16):
            flags = ((B.FLAG_REQ_DELETION if bits & 1 else 0) | (B.FLAG_REQ_DELIVERY if bits & 2 else 0)
                     | (B.FLAG_REQ_RECEPTION if bits & 4 else 0) | (B.FLAG_REQ_STATUS_TIME if bits & 8 else 0))
            seqno += 1
            ref.append(B.refused_acme_spec(kind, NODE, src='dtn://n1/', report_to='dtn://n2/', flags=flags, time=7000, seq=seqno))
    ref.append(dict(ref[5]))                                                          # a repeat of a refused bundle
    ref.append(B.refused_acme_spec('response', NODE, src='dtn://n1/', report_to='dtn:none', flags=ALL_REQ, time=7001, seq=1))
    cases.append(dict(node_id=NODE, rx_routes=rx, tx_routes=tx, now_ms=800000000000, hist=ref, acme_expect=['idchal-registered']))
    # regression (fixed in /repo): block numbers handed out by _do_fwd used to stick to the scapy class-level
    # overloaded_fields dict, so a later bundle carrying such a number could not be forwarded
    import cbor2
    hop = cbor2.dumps([30, 3]).hex()
    cases.append(dict(node_id=NODE, rx_routes=[['.*', 'forward']], tx_routes=[dict(pattern='.*', mtu=None)], now_ms=800000000000,
                      hist=[bd(dest='dtn://n2/', seq=1), bd(dest='dtn://n2/', seq=2, blocks=[dict(type=10, num=2, data_hex=hop)]),
                            bd(dest='dtn://n2/', seq=3, blocks=[dict(type=10, num=3, data_hex=hop)]),
                            bd(dest='dtn://n2/', seq=4, blocks=[dict(type=10, num=4, data_hex=hop)])]))
    return cases


LONG_N = 4500


def long_case(count=LONG_N):
    ''' One agent, ``count`` distinct small bundles (deliver and forward routes alternating, every 40th with all
    reports requested), then repeats of the first, a middle and the last few, twice over. '''
    hist = []
    for idx in range(count):
        spec = dict(src='dtn://n1/', dest=('dtn://n2/' if idx % 2 == 0 else 'dtn://n2/b'), report_to='dtn:none', flags=0,
                    time=20000 + idx // 5, seq=idx % 5, crc=1, payload_hex='4142')
        if idx % 40 == 7:
            spec.update(report_to='dtn://n2/', flags=ALL_REQ)
        hist.append(spec)
    picks = [0, 1, 2, 7, count // 2, count // 2 + 1, count - 3, count - 2, count - 1]
    reps = [dict(hist[k]) for k in picks if 0 <= k < count]
    return dict(node_id=NODE, rx_routes=[['^dtn://n2/b$', 'forward'], ['^dtn://n2/', 'deliver']],
                tx_routes=[dict(pattern='^dtn://n2/', cl_type='fake', mtu=None)], now_ms=800000000000,
                hist=hist + reps + [dict(item) for item in reps])


def run_long(count):
    ''' Worker: the long history through the real agent and the oracle (too long to ship the observations). '''
    import time as _time
    start = _time.time()
    case = long_case(count)
    (_canon, raw) = B.run_impl(case)
    bad = oracle_c10(case, raw)
    # at most once, counted directly: inputs with any effect per identity
    acted = {}
    for (idx, (spec, obs)) in enumerate(zip(case['hist'], raw)):
        if any(evt[0] in ('deliver', 'tx') for evt in obs['events']):
            acted.setdefault(B.spec_ident(spec), []).append(idx)
    for (ident, where) in sorted(acted.items()):
        if len(where) > 1:
            bad.append(('C10/identity-acted-on-more-than-once-in-long-history',
                        'ident %r acted on at inputs %r of %d (seen set forgot it?)' % (ident, where, len(case['hist']))))
    return (bad[:10], dict(inputs=len(case['hist']), identities_acted=len(acted), seconds=round(_time.time() - start, 1)))


def corpus_cases():
    out = []
    cdir = os.path.join(os.path.dirname(os.path.abspath(__file__)), 'corpus')
    for name in sorted(os.listdir(cdir)):
        if name.startswith('C10_') and name.endswith('.json'):
            with open(os.path.join(cdir, name)) as infile:
                out.append((name, json.load(infile)['case']))
    return out


# ----------------------------------------------------------------------------- main

def report_violations(chk, case, bad, pending_hits, tag):
    for (sig, what) in bad:
        if sig in PENDING_FINDINGS:
            pending_hits.setdefault(sig, what)
            continue
        chk.fail(signature=sig, what='%s [%s]' % (what, tag), replay_obj=dict(case=case))


def main():
    chk = Check('C10', level='proof', description=__doc__)
    if chk.args.replay:
        with open(chk.args.replay) as infile:
            rep = json.load(infile)
        body = rep['replay'] if 'replay' in rep else rep
        if 'long_history' in body:
            (bad, stats) = run_long(body['long_history']['count'])
            print('long history', stats)
            for (sig, what) in bad:
                print('ORACLE-FAIL %s: %s' % (sig, what))
            print('replay: %d oracle failure(s)' % len(bad))
            sys.exit(1 if bad else 0)
        case = body['case']
        (canon, raw) = B.run_impl(case)
        bad = oracle_c10(case, raw)
        for (idx, (spec, obs)) in enumerate(zip(case['hist'], canon['inputs'])):
            print(idx, B.spec_ident(spec), spec.get('dest'), obs['events'])
        for (sig, what) in bad:
            print('ORACLE-FAIL %s: %s' % (sig, what))
        real = [item for item in bad if item[0] not in PENDING_FINDINGS and chk.known_match(item[0]) is None]
        print('replay: %d oracle failure(s), %d known/pending finding(s)' % (len(real), len(bad) - len(real)))
        sys.exit(1 if real else 0)

    import time
    phase = {}
    mark = time.time()
    props_ok = chk.coq_props()
    phase['coq_props'] = round(time.time() - mark, 1)
    mark = time.time()
    (tr_ok, tr_err) = chk.translate_ok('reporttable')
    chk.obligation('translator:reporttable', tr_ok, tr_err)
    # chain orders: what the translator read from the source, stably sorted, against the live agent's chains
    (ch_ok, ch_err) = chk.translate_ok('chain')
    if ch_ok:
        sys.path.insert(0, os.path.join(os.path.dirname(os.path.abspath(__file__)), '..', 'translate'))
        from targets import chain as chain_target
        steps = chain_target.collect(env.REPO_SRC)
        live = B.BpDriver(node_id=NODE, capture_order=None).chains()
        for which in ('rx', 'tx'):
            read = sorted([(order, name) for (_mod, ch, order, name, _meth) in steps if ch == which], key=lambda item: item[0])
            if [(float(order), name) for (order, name) in read] != [(float(order), name) for (order, name) in live[which]]:
                (ch_ok, ch_err) = (False, '%s chain read from the source %r differs from the live agent %r' % (which, read, live[which]))
    chk.obligation('translator:chain', ch_ok, ch_err)
    (rt_ok, rt_err) = chk.translate_ok('recvtail')
    chk.obligation('translator:recvtail', rt_ok, rt_err)
    (rg_ok, rg_err) = chk.translate_ok('recvgates')
    chk.obligation('translator:recvgates', rg_ok, rg_err)

    count = 240 if chk.quick() else 24000
    length = 8
    cases = [('directed', case) for case in directed_cases()]
    cases = [('corpus:' + name, case) for (name, case) in corpus_cases()] + cases
    for _ in range(count):
        cases.append(('random', gen_case(chk.rng, chk.rng.choice([4, 8, 8, 12]) if length else 8)))

    B.BpDriver(node_id=NODE)   # import everything once, before the workers fork
    with concurrent.futures.ProcessPoolExecutor(max_workers=12) as pool:
        long_future = pool.submit(run_long, LONG_N)      # one agent, > 4096 identities, alongside the short histories
        impl = list(pool.map(B.run_impl, [case for (_tag, case) in cases], chunksize=8))
        (long_bad, long_stats) = long_future.result()
    chk.coverage['long_history'] = long_stats
    for (sig, what) in long_bad:
        chk.fail(signature=sig, what=what + ' [long-history]', replay_obj=dict(long_history=dict(count=LONG_N)))
    chk.case(ident=('long-history', LONG_N), nontrivial=long_stats['identities_acted'] > 4096,
             sample=dict(long_history=dict(count=LONG_N), **long_stats))
    chk.obligation('oracle:long-history-at-most-once', not long_bad, '; '.join(what for (_sig, what) in long_bad[:2]))

    phase['impl'] = round(time.time() - mark, 1)
    mark = time.time()
    model = None
    model_err = ''
    try:
        terms = [B.coq_case(case)[0] for (_tag, case) in cases]
        model = [B.canon_model(res) for res in chk.coq_eval('hist', ['Model.BpAgent'], terms, B.COQ_RUN, chunk=max(32, -(-len(terms) // 48)))]
    except CoqError as err:
        model_err = str(err)[:600]

    phase['coq_eval'] = round(time.time() - mark, 1)
    chk.coverage['phase_seconds'] = phase
    pending_hits = {}
    disagree = []
    searched = 0
    for (idx, ((tag, case), (canon, raw))) in enumerate(zip(cases, impl)):
        kinds = set()
        for (spec, obs) in zip(case['hist'], canon['inputs']):
            for evt in obs['events']:
                kinds.add(evt[0])
        repeats = len(case['hist']) - len(set(B.spec_ident(spec) for spec in case['hist']))
        chk.case(ident=json.dumps(case, sort_keys=True), nontrivial=bool(kinds) and (repeats > 0 or len(kinds) > 1),
                 sample=dict(rx_routes=case['rx_routes'], tx_routes=case['tx_routes'],
                             hist=[[list(B.spec_ident(spec)), spec.get('dest')] for spec in case['hist']],
                             events=[obs['events'] for obs in canon['inputs']]))
        chk.count('case_kind', tag.split(':')[0])
        chk.count('history_length', len(case['hist']))
        chk.count('rx_routes', len(case['rx_routes']))
        for spec in case['hist']:
            chk.count('inputs')
            if spec.get('frag') is not None:
                chk.count('input_kind', 'fragment')
            if spec.get('src') == case['node_id']:
                chk.count('input_kind', 'own-source')
            if spec.get('dest') == case['node_id']:
                chk.count('input_kind', 'admin-endpoint')
            if spec.get('bad_crc'):
                chk.count('input_kind', 'bad-crc')
            if spec.get('refuse'):
                chk.count('input_kind', 'refused-by-application-after-deliver')
        chk.count('repeated_identities', min(repeats, 5))
        for kind in sorted(kinds):
            chk.count('event_kind', {0: 'deliver', 1: 'tx', 2: 'tx-fragments', 3: 'report', 4: 'send-fail'}.get(kind, kind))
        bad = oracle_c10(case, raw)
        report_violations(chk, case, bad, pending_hits, tag)
        if model is not None and model[idx] != canon:
            disagree.append((idx, tag))
            if not bad and searched < 8:
                # section 4 of DESIGN: look for a concrete failing input among shrunk / probing forms
                searched += 1
                first = next((k for (k, (x, y)) in enumerate(zip(canon['inputs'], model[idx]['inputs'])) if x != y), None)
                for sub in derived_histories(case, first):
                    chk.count('derived_histories_searched')
                    (_c2, raw2) = B.run_impl(sub)
                    bad2 = oracle_c10(sub, raw2)
                    if bad2:
                        report_violations(chk, sub, bad2, pending_hits, tag + '/derived')
                        bad = bad2
                        break
            if not bad:
                # correspondence broken on this case and the oracle is content: remember it
                first = next((k for (k, (x, y)) in enumerate(zip(canon['inputs'], model[idx]['inputs'])) if x != y), None)
                detail = dict(case_index=idx, tag=tag, first_differing_input=first,
                              impl=(canon['inputs'][first] if first is not None else canon['seen']),
                              model=(model[idx]['inputs'][first] if first is not None else model[idx]['seen']))
                chk.coverage.setdefault('disagreements', []).append(detail)
                if len(chk.coverage['disagreements']) == 1:
                    with open(os.path.join(os.path.dirname(os.path.abspath(__file__)), '..', 'build', 'C10_disagreement.json'), 'w') as out:
                        json.dump(dict(case=case, detail=detail), out, indent=1)
    if model is None:
        chk.obligation('correspondence:recv_bundle-histories', False, 'model evaluation failed: ' + model_err)
    else:
        chk.obligation('correspondence:recv_bundle-histories', not disagree,
                       '%d of %d histories disagree, first %r' % (len(disagree), len(cases), disagree[:3]))
    for (sig, what) in sorted(pending_hits.items()):
        print('PENDING-FINDING: property=C10 %s -- %s (e.g. %s)' % (sig, PENDING_FINDINGS[sig], what))
    chk.coverage['pending_findings_reproduced'] = sorted(pending_hits)
    chk.coverage['refuted_or_partial_theorems'] = []
    chk.finish(
        rule='histories of 4-15 bundles over 10 EIDs x random receive/transmit tables (0-5 regex routes from a pool of 20 '
             'patterns, actions deliver/forward/delete/other, MTU none/tiny/270/huge, CL present/absent) with exact repeats, '
             'look-alikes differing in one identity component, fragments (shuffled, overlapping), own-source, admin-endpoint, '
             'bad-CRC (damaged copy before the intact one) and security-failure bundles, plus directed and corpus cases, plus ONE long history '
             '(a single agent, %d distinct bundles on deliver/forward routes, then repeats of the first, a middle and the last few, twice; oracle '
             'only - the seen list of the model is unbounded by construction and C10_at_most_once is proved for every length); each short history is run through the real '
             'Agent.recv_bundle (idle queue drained in id order, frozen clock) and through BpAgent.run_render in Coq and '
             'compared event by event, seen-set and pending reassemblies included; non-trivial = the history produced at '
             'least one event and (contains a repeated identity or produced two different kinds of event)' % LONG_N,
        assumptions=[
            'harness stubs for dbus, gi.repository.GLib (virtual main context, idle sources run in id order), portion, crcmod and the '
            'oscrypto version shim are trusted to behave like the libraries they stand for',
            'applications loaded: %s (everything bp.app registers by default); the delivery callback is a chain step at order 25' % (B.APPS_LOADED,),
            'Python re is evaluated by the harness and handed to the model as a table (matches is a Section variable of every theorem)',
            'model inputs decided elsewhere: CRC gate (C08), BPSec verdict (C12), block insertion in _do_fwd (C11), fragmentation budget (C05); '
            'the generator keeps MTUs outside the bands where only the exact budget decides (AmbiguousCase)',
            'the administrative handler for ACME records (record type 65536) and the SAFE/SAND message handlers are not modelled; '
            'generated payloads are ASCII capitals, which none of them accepts',
        ])


if __name__ == '__main__':
    main()
