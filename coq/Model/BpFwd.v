(** Forwarding of a received bundle by the BPv7 agent, on the records of
    [Model/Bundle.v]:  /repo/src/bp/agent.py [_do_fwd] + [send_bundle] + [_apply_primary]
    (+ the gate of [recv_bundle]), /repo/src/bp/util.py [BundleContainer] ([reload], [add_block],
    [remove_block], [get_block_num], [_fix_blk_num]) and the cached-BTSD rule of
    /repo/src/bp/encoding/blocks.py [CanonicalBlock.ensure_block_type_specific_data].
    Definitions only; proofs in [Proofs/BpFwdProofs.v], statements in [Props/C11.v].

    The model follows the CODE after commit df72a19 (hop-count BTSD regenerated), probed 2026-09-23:

    - a block decoded from the wire keeps its BTSD octets; only the hop-count blocks whose BTSD parsed have
      their BTSD deleted and regenerated (shortest-form [limit, count+1]) - [bump_hop];
    - [_do_fwd] looks blocks up by the scapy payload CLASS that [post_dissect] managed to attach, not by
      type code: a type-6/7/10 block whose BTSD did not dissect is invisible to it and stays as it is
      ([impl_prev_parses], [impl_age_parses], [hop_view]; an EMPTY BTSD "dissects" to a default payload:
      such a type-6/7 block is treated as parsed, such a type-10 block makes [count += 1] raise);
    - "for blk in ctr.block_type(X): ctr.remove_block(blk)" removes from the list it iterates over, so only
      the 1st, 3rd, 5th ... block of that class is removed ([remove_alt]);
    - [add_block] inserts before the LAST block whatever its type ([insert_bl]; appended to an empty list);
    - block numbers of the inserted blocks: [_fix_blk_num] stores the number it obtained from
      [get_block_num] (counter starts at 1, incremented first, skips numbers in use, 0 is always in use)
      in [blk.overloaded_fields], which for [CanonicalBlock()/PreviousNodeBlock(..)] IS the class-level dict
      created by [bind_layers] - the number therefore sticks for the life of the process ([fwd_state]); a
      later inserted block arrives with that number already set, [add_block] raises if it is in use
      ("'str' object has no attribute 'foramt'"), [_do_fwd] records delete/NO_ROUTE and nothing is
      transmitted ([alloc] = None);
    - the Bundle Age block is added iff the RECEIVED creation time is not 0, age = now - creation as a
      Python int: negative when the local clock is behind ([age_item] = CBOR negative integer);
    - [send_bundle] calls [_apply_primary] also for forwarded bundles: a zero creation time is replaced by
      this node's (now, sequence number) and a zero lifetime by 3 600 000 ms ([apply_primary]; the sequence
      number is 0 when this is the first reading of the agent's Timestamper at that clock value, which the
      harness arranges);
    - every CRC is recomputed ([with_crc_bundle]); the octets are [bytes(Bundle)], i.e. EIDs go through
      the text conversion of [EidField.i2m] ([impl_norm_bundle], the C02 defect class);
    - TX chain: no BPSec policy, route MTU None or not exceeded (fragmentation is C05's subject).

    Outside the compared domain (the harness does not generate it, see check_C11.py): typed BTSD that
    dissects "by accident" (hop count arrays with more than two items or non-uint items, digit-only text as
    an age, byte strings as EIDs, trailing octets after the item, floats, tags), a hop count of 2^64-1
    (cbor2 emits a bignum), received bundles in non-shortest CBOR, block types 11/12 (C12). *)
From Coq Require Import List NArith Bool.
From DTN Require Import Lib.Bytes Lib.Cbor Lib.Crc Model.Bundle.
Import ListNotations.
Local Open Scope N_scope.

(** * What [post_dissect] attaches a typed payload to *)

Definition impl_prev_parses (bs : bytes) : bool :=
  match bs with
  | [] => true
  | _ :: _ =>
      match decode bundle_fuel bs with
      | Some (CArr (CUint s :: ssp :: _), _) =>
          if s =? 1 then match ssp with CTstr _ => true | CUint z => z =? 0 | _ => false end
          else if s =? 2 then match ssp with CArr _ => true | _ => false end
          else false
      | _ => false
      end
  end.

Definition impl_age_parses (bs : bytes) : bool :=
  match bs with
  | [] => true
  | _ :: _ =>
      match decode bundle_fuel bs with
      | Some (CUint _, _) | Some (CNint _, _) | Some (CArr _, _) | Some (CMap _, _) => true
      | _ => false
      end
  end.

Definition is_prev (b : cblock) : bool := (btype b =? BLOCK_PREV_NODE) && impl_prev_parses (btsd b).
Definition is_age (b : cblock) : bool := (btype b =? BLOCK_AGE) && impl_age_parses (btsd b).

(** [limit, count] of a hop-count block the implementation will increment *)
Definition hop_view (b : cblock) : option (N * N) :=
  if btype b =? BLOCK_HOP_COUNT then decode_hop_count (btsd b) else None.
(** a hop-count block whose default payload has count None *)
Definition hop_raises (b : cblock) : bool :=
  (btype b =? BLOCK_HOP_COUNT) && match btsd b with [] => true | _ :: _ => false end.

Definition set_btsd (b : cblock) (d : bytes) : cblock :=
  mkCBlock (btype b) (bnum b) (bflags b) (bcrc_type b) d (bcrc b).

Definition bump_hop (b : cblock) : cblock :=
  match hop_view b with
  | Some (l, c) => set_btsd b (encode_hop_count (l, c + 1))
  | None => b
  end.

(** * Container operations *)

(** removal while iterating: of the blocks satisfying [p], the 1st, 3rd, ... go *)
Fixpoint remove_alt (p : cblock -> bool) (take : bool) (l : list cblock) : list cblock :=
  match l with
  | [] => []
  | x :: t =>
      if p x then (if take then remove_alt p false t else x :: remove_alt p true t)
      else x :: remove_alt p take t
  end.

(** [list.insert(-1, x)] *)
Fixpoint insert_bl (x : cblock) (l : list cblock) : list cblock :=
  match l with
  | [] => [x]
  | [y] => [x; y]
  | y :: t => y :: insert_bl x t
  end.

Definition memN (x : N) (l : list N) : bool := existsb (N.eqb x) l.
Definition removeN (x : N) (l : list N) : list N := filter (fun y => negb (y =? x)) l.

(** [get_block_num]: first number >= c not in use (each number found in use is dropped from the list,
    so [length used] rounds suffice) *)
Fixpoint next_free (fuel : nat) (c : N) (used : list N) : N :=
  match fuel with
  | O => c
  | S f => if memN c used then next_free f (c + 1) (removeN c used) else c
  end.

(** keys of [BundleContainer._block_num]: 0 (the bundle's scapy payload) and every block number *)
Definition used_nums (l : list cblock) : list N := 0 :: map bnum l.

(** number for an inserted block: (number, counter afterwards, class-level cache afterwards) *)
Definition alloc (cached : option N) (cnt : N) (used : list N) : option (N * N * option N) :=
  match cached with
  | Some p => if memN p used then None else Some (p, cnt, Some p)
  | None => let n := next_free (length used) (cnt + 1) used in Some (n, n, Some n)
  end.

Definition new_block (t n : N) (d : bytes) : cblock := mkCBlock t n 0 0 d None.

(** numbers cached in [PreviousNodeBlock.overload_fields[CanonicalBlock]] / [BundleAgeBlock...] *)
Record fwd_state : Type := mkFwdState { st_prev : option N; st_age : option N }.
Definition fresh_state : fwd_state := mkFwdState None None.

(** age = now - creation, a Python int *)
Definition age_item (now ctime : N) : cbor :=
  if ctime <=? now then CUint (now - ctime) else CNint (ctime - now - 1).

(** * [_do_fwd] on the block list.  None = an exception inside [_do_fwd]: nothing is transmitted. *)
Definition fwd_blocks (node : eid) (now ctime : N) (st : fwd_state) (bl : list cblock)
  : fwd_state * option (list cblock) :=
  let bl1 := remove_alt is_prev true bl in
  match alloc (st_prev st) 1 (used_nums bl1) with
  | None => (st, None)
  | Some (n1, cnt1, sp) =>
      let st1 := mkFwdState sp (st_age st) in
      let bl2 := insert_bl (new_block BLOCK_PREV_NODE n1 (encode_prev_node (impl_norm_eid node))) bl1 in
      if existsb hop_raises bl2 then (st1, None)
      else
        let bl3 := map bump_hop bl2 in
        let bl4 := remove_alt is_age true bl3 in
        if ctime =? 0 then (st1, Some bl4)
        else
          match alloc (st_age st) cnt1 (used_nums bl4) with
          | None => (st1, None)
          | Some (n2, _, sa) =>
              (mkFwdState sp sa, Some (insert_bl (new_block BLOCK_AGE n2 (encode (age_item now ctime))) bl4))
          end
  end.

(** [_apply_primary] on a decoded primary block (source / report-to are never None there) *)
Definition DEFAULT_LIFETIME : N := 3600000.
Definition apply_primary (now : N) (p : primary) : primary :=
  mkPrimary (version p) (flags p) (crc_type p) (dest p) (src p) (report_to p)
            (if create_time p =? 0 then now else create_time p)
            (if create_time p =? 0 then 0 else create_seq p)
            (if lifetime p =? 0 then DEFAULT_LIFETIME else lifetime p)
            (frag p) (crc p).

(** the bundle whose clean encoding is handed to the convergence layer *)
Definition finish (now : N) (p : primary) (bl : list cblock) : bundle :=
  with_crc_bundle (impl_norm_bundle (mkBundle (apply_primary now p) bl)).

Definition do_fwd_st (node : eid) (now : N) (st : fwd_state) (b : bundle) : fwd_state * option bundle :=
  match fwd_blocks node now (create_time (prim b)) st (blocks b) with
  | (st', Some bl) => (st', Some (finish now (prim b) bl))
  | (st', None) => (st', None)
  end.

(** forwarding in a fresh process (never fails, [BpFwdProofs.do_fwd_fresh]) *)
Definition do_fwd (node : eid) (now : N) (b : bundle) : bundle :=
  match snd (do_fwd_st node now fresh_state b) with Some o => o | None => b end.

(** * The path from the CL callback to the CL sender *)

Definition eid_eqb (a b : eid) : bool :=
  match a, b with
  | EidDtnNone, EidDtnNone => true
  | EidDtn x, EidDtn y => bytes_eqb x y
  | EidIpn x, EidIpn y => bytes_eqb x y
  | _, _ => false
  end.

Inductive rx_outcome : Type :=
| RxUndecodable              (* [Bundle(data)] raises out of the CL callback *)
| RxContainerRaises          (* [BundleContainer.reload]: duplicate block number (0 counts as in use) *)
| RxCrcDrop                  (* [check_all_crc] over the re-encoding fails: dropped silently *)
| RxOwnSource                (* source = this node: ignored *)
| RxFwdFailed                (* exception inside [_do_fwd]: delete / NO_ROUTE, nothing transmitted *)
| RxSent (octets : bytes).   (* handed to the CL *)

(** [check_all_crc]: the primary block is re-encoded from its field values (EIDs through the text
    conversion), a canonical block from its field values with the BTSD octets as received *)
Definition recv_crc_ok (b : bundle) : bool :=
  crc_ok_primary (impl_norm_primary (prim b)) && forallb crc_ok_block (blocks b).

Definition recv_fwd (node : eid) (now : N) (st : fwd_state) (bs : bytes) : fwd_state * rx_outcome :=
  match decode_bundle bs with
  | None => (st, RxUndecodable)
  | Some b =>
      if negb (nodupb (used_nums (blocks b))) then (st, RxContainerRaises)
      else if negb (recv_crc_ok b) then (st, RxCrcDrop)
      else if eid_eqb (src (prim b)) node then (st, RxOwnSource)
      else match do_fwd_st node now st b with
           | (st', Some out) => (st', RxSent (encode_bundle out))
           | (st', None) => (st', RxFwdFailed)
           end
  end.

(** a process history: bundles routed "forward", each received at its own clock value *)
Fixpoint run_hist (node : eid) (st : fwd_state) (h : list (N * bytes)) : list rx_outcome :=
  match h with
  | [] => []
  | (now, bs) :: t => let (st', o) := recv_fwd node now st bs in o :: run_hist node st' t
  end.

(** * Boolean hypotheses of the theorems *)

Definition lt64 (n : N) : bool := n <? two64.
Definition opt_lt64 (o : option N) : bool := match o with Some n => lt64 n | None => true end.
Definition st_okb (st : fwd_state) : bool := opt_lt64 (st_prev st) && opt_lt64 (st_age st).

(** this node's EID: well formed, unchanged by the text conversion, encodable in a BTSD *)
Definition node_okb (node : eid) : bool :=
  wf_eidb node && eid_eqb (impl_norm_eid node) node &&
  (N.of_nat (length (encode_prev_node node)) <? two64).

Definition hop_okb (b : cblock) : bool :=
  match hop_view b with Some (l, c) => lt64 (c + 1) | None => true end.

(** the received bundle as [recv_bundle] lets it through, in the ranges where the model is exact: field
    ranges (after the text conversion of EIDs, which is the identity except for the C02 defect class),
    distinct block numbers none of which is 0 (else [reload] raises), fewer than 2^32 blocks, no hop count
    at 2^64-1, an administrative payload the implementation can parse *)
Definition fwd_inb (node : eid) (now : N) (st : fwd_state) (b : bundle) : bool :=
  wf_primaryb (prim (impl_norm_bundle b)) && forallb wf_cblockb (blocks (impl_norm_bundle b)) &&
  forallb wf_cblockb (blocks b) &&
  impl_admin_ok (impl_norm_bundle b) &&
  nodupb (used_nums (blocks b)) &&
  (N.of_nat (length (blocks b)) <? 4294967296) &&
  forallb hop_okb (blocks b) &&
  lt64 now && node_okb node && st_okb st.

(** guards that exclude the defect classes *)
Definition eids_stableb (p : primary) : bool :=
  eid_eqb (impl_norm_eid (dest p)) (dest p) && eid_eqb (impl_norm_eid (src p)) (src p) &&
  eid_eqb (impl_norm_eid (report_to p)) (report_to p).
Definition payload_stableb (b : bundle) : bool :=
  forallb (fun blk => negb (btype blk =? 1) ||
                      bytes_eqb (btsd (impl_norm_cblock (is_admin (prim b)) blk)) (btsd blk)) (blocks b).
(** at most one block of the type, and the implementation recognises it *)
Definition le1_typedb (t : N) (isp : cblock -> bool) (l : list cblock) : bool :=
  match filter (fun x => btype x =? t) l with
  | [] => true
  | [x] => isp x
  | _ => false
  end.
Definition prev_le1b (b : bundle) : bool := le1_typedb BLOCK_PREV_NODE is_prev (blocks b).
Definition age_le1b (b : bundle) : bool := le1_typedb BLOCK_AGE is_age (blocks b).
(** payload block last, numbered 1 *)
Definition payload_last_num1b (l : list cblock) : bool :=
  match rev l with pl :: _ => (btype pl =? 1) && (bnum pl =? 1) | [] => false end.

(** blocks [_do_fwd] does not look at: neither a recognised previous-node / age block nor of type 10 *)
Definition untouchedb (x : cblock) : bool :=
  negb (is_prev x) && negb (is_age x) && negb (btype x =? BLOCK_HOP_COUNT) && negb (btype x =? BLOCK_PAYLOAD).
Definition core (x : cblock) : N * N * N * N * bytes := (btype x, bnum x, bflags x, bcrc_type x, btsd x).

(** * Rendering for the correspondence harness *)

Definition ren_outcome (o : rx_outcome) : N * bytes :=
  match o with
  | RxUndecodable => (0, [])
  | RxContainerRaises => (1, [])
  | RxCrcDrop => (2, [])
  | RxOwnSource => (3, [])
  | RxFwdFailed => (4, [])
  | RxSent bs => (5, bs)
  end.

(** flags telling which hypotheses the case satisfies (for the evidence histogram) *)
Definition case_flags (node : eid) (now : N) (bs : bytes) : list bool :=
  match decode_bundle bs with
  | Some b => [fwd_inb node now fresh_state b; eids_stableb (prim b); payload_stableb b; prev_le1b b; age_le1b b;
               payload_last_num1b (blocks b); negb (create_time (prim b) =? 0); negb (lifetime (prim b) =? 0);
               create_time (prim b) <=? now]
  | None => []
  end.

Definition run_case (c : eid * list (N * bytes)) : list (N * bytes) * list (list bool) :=
  (map ren_outcome (run_hist (fst c) fresh_state (snd c)),
   map (fun nb => case_flags (fst c) (fst nb) (snd nb)) (snd c)).
