''' C16 - COSE confidentiality blocks encrypt, bind context and decrypt exactly.

Proof obligations: coq/Props/C16.v (the wire BTSD is the AEAD output; AAD agreement; round trip for every
plaintext incl. the empty one; Enc_structure injective in exactly the authenticated context; soundness under
the named idealised-AEAD hypotheses; nothing is released on failure).  Ties (rebuilt on every run):

  aad        get_external_aad() of the real code == Model.BpSec.direct_aad (shared with C03; own sample)
  structure  for bundles the real agent produced: AES-GCM decryption (python `cryptography`, not pycose) of the
             wire BTSD under the model's Enc_structure (computed in Coq from the wire octets) gives the plaintext;
             for Encrypt + AES-KW the content key is unwrapped from the recipient first
  verdict    model verdict on altered bundles == outcome of the real verify_bcb
  e2e        oracle from the property text on the real receive path: wire BTSD is ciphertext of the right
             length, never the plaintext; accepted BTSD == plaintext; every single-field alteration / single-bit
             flip (CRCs re-fixed) of covered content, ciphertext, IV or wrapped key fails and releases nothing;
             alterations outside the scope still decrypt; wrong key fails.

NOT proved: AES-GCM / AES-KW security; exercised with the real libraries.
'''
import env  # noqa: F401  (first)
import json
import os
import sys
import time

import cbor2

from common import Check

env.shim_oscrypto()
import bpsecdrive as sd  # noqa: E402
import check_C03 as base  # noqa: E402  (shared suite machinery; nothing runs at import)

PROP = 'C16'
SEC_TYPE = sd.BCB
CORPUS = base.CORPUS

SIG_EID = 'C16 / EID text altered within what EidField.i2m normalises away (query, fragment, missing path slash; primary block with stale or absent CRC, or security source) still decrypts and is delivered'
SIG_IGNORED = 'C16 / confidentiality block whose BTSD the decoder cannot dissect is ignored: bundle delivered with the ciphertext as its data'
# both are entered in known_findings.json: hits go through Check.fail and print KNOWN-FINDING
PENDING_FINDINGS = []

IVS = [b'Twelve121212', b'Twelve121213', b'Twelve121214']
trace = base.trace


def specs():
    out = base.specs(True)
    out['S6'] = dict(base.ORDER_SPEC)
    out['S5'] = dict(dest='dtn://dst/svc', payload=b'x', crc=2, blocks=[dict(type=7, num=2, crc=0, data=cbor2.dumps(77))])
    return out


def agent_cases(quick):
    out = [('enc0-a128gcm', 'S1', None), ('enc0-a128gcm', 'S2', None), ('enc0-a256gcm', 'S3', None),
           ('enc-kw-a256gcm', 'S5', None), ('enc-kw-a128gcm', 'S4', None), ('enc0-a128gcm', 'S1', 'mac0-hmac256')]
    if not quick:
        out = [(prof, spec, None) for prof in ('enc0-a128gcm', 'enc0-a256gcm', 'enc-kw-a256gcm', 'enc-kw-a128gcm')
               for spec in ('S1', 'S2', 'S3', 'S4', 'S5')] + [('enc0-a128gcm', 'S1', 'mac0-hmac256'), ('enc-kw-a256gcm', 'S3', 'mac0-hmac384')]
    return out


def built_cases():
    return [
        (None, cbor2.dumps({3: 50}), [1], 'S1'),
        ({}, b'', [1], 'S1'),
        ({0: 1}, b'', [1], 'S2'),
        ({-1: 1}, b'', [1], 'S1'),
        ({0: 1, -1: 1, -2: 1}, b'', [1], 'S3'),
        ({0: 1, -1: 1, 4: 3}, b'', [2], 'S1'),          # target = extension block; block 4 metadata + BTSD in scope
        ({0: 1, -1: 1}, b'', [1, 2], 'S1'),             # two targets, two IVs
        ({0: 1, -1: 1, 2: 1, 4: 2}, b'', [1], 'S1'),    # other blocks: metadata only / data only (with 4:3 above: flags 1, 2, 3)
    ]


def make_wires(quick):
    all_specs = specs()
    wires = []
    for (prof_name, spec_name, extra) in agent_cases(quick):
        prof = sd.PROFILES[prof_name]
        src = sd.make_source(prof, ivs=IVS, extra=(sd.PROFILES[extra] if extra else None))
        wire = src.send(all_specs[spec_name])
        wires.append(dict(id='agent:%s%s:%s' % (prof_name, '+' + extra if extra else '', spec_name), profile=prof_name, extra=extra,
                          wire=wire, payload=all_specs[spec_name]['payload'], source='agent', scope={0: 1, -1: 1}, targets=[1]))
    # BCBs with two and three targets from the real agent, both key modes, acceptance on and off
    tt = {7: 2, 193: 4}
    for (prof_name, types, accept) in (('enc0-a128gcm', (1, 7), True), ('enc0-a128gcm', (1, 7, 193), True),
                                       ('enc-kw-a256gcm', (1, 7, 193), True), ('enc-kw-a256gcm', (1, 7), False),
                                       ('enc0-a128gcm', (1, 7, 193), False)):
        src = sd.make_source(sd.PROFILES[prof_name], tgt_types=types, ivs=IVS)
        wire = src.send(all_specs['S1'])
        wires.append(dict(id='agent:%s:S1:%dtargets:accept-%s' % (prof_name, len(types), 'on' if accept else 'off'), profile=prof_name,
                          extra=None, accept=accept, wire=wire, payload=all_specs['S1']['payload'], source='agent',
                          scope={0: 1, -1: 1}, targets=[1] + [tt[ty] for ty in types[1:]]))
    plain = sd.SecNode(sd.SRC_ID)
    prof = sd.PROFILES['enc0-a128gcm']
    (kid, key, alg, _ops) = prof['key']
    for (idx, (scope, addl, targets, spec_name)) in enumerate(built_cases()):
        basew = plain.send(all_specs[spec_name])
        wire = sd.build_security_block(basew, 'bcb', 'enc0', alg, key, kid.encode(), targets, scope=scope,
                                       addl_protected=addl, ivs=IVS)
        wires.append(dict(id='built:%d:%s' % (idx, spec_name), profile='enc0-a128gcm', extra=None, wire=wire,
                          payload=all_specs[spec_name]['payload'], source='built', scope=scope, targets=targets))
    # source agents with two or three confidentiality associations in every order of their targets
    import itertools
    for (prof_name, sizes) in (('enc0-a128gcm', (2, 3)), ('enc-kw-a256gcm', (3,))):
        prof = sd.PROFILES[prof_name]
        for size in sizes:
            for order in itertools.permutations((1, 7, 10), size):
                node = sd.SecNode(sd.SRC_ID)
                key = node.add_sym_key(sd.profile_key(prof))
                for (pos, btype) in enumerate(order):
                    node.add_policy('bcb', key.kid, (btype,), content_alg=prof.get('content_alg'), content_key=prof.get('content_key'),
                                    content_iv=[IVS[pos]])
                wire = node.send(all_specs['S6'])
                name = '-'.join({1: 'payload', 7: 'age', 10: 'hop'}[btype] for btype in order)
                wires.append(dict(id='agent:%s:S6:order-%s' % (prof_name, name), profile=prof_name, extra=None, wire=wire,
                                  payload=all_specs['S6']['payload'], source='agent', scope={0: 1, -1: 1},
                                  targets=[base.ORDER_NUM[btype] for btype in order],
                                  sweep=(prof_name == 'enc0-a128gcm' and order == (10, 1, 7))))
    # two and three SEPARATE BCBs from different security sources over different targets (source BCB over an
    # extension block, gateway BCBs over the payload and another extension block), acceptance on and off
    layers = [('enc0-a128gcm', 'enc0', [2], None, b'IvIvIvIvIv01'), ('enc0-a256gcm', 'enc0', [1], [1, '//gw1/'], b'IvIvIvIvIv02'),
              ('enc-kw-a128gcm', 'enc', [4], [1, '//gw2/'], b'IvIvIvIvIv03')]
    basew = plain.send(all_specs['S1'])
    for (count, accept) in ((2, True), (3, True), (2, False)):
        wire = basew
        for (prof_name, kind, targets, source, iv) in layers[:count]:
            prof = sd.PROFILES[prof_name]
            (kid, key, alg, _ops) = prof['key']
            if kind == 'enc':
                wire = sd.build_security_block(wire, 'bcb', 'enc', prof['content_alg'], prof['content_key'], kid.encode(), targets,
                                               scope={0: 1, -1: 1}, kek=key, kek_alg=alg, ivs=[iv], source=source)
            else:
                wire = sd.build_security_block(wire, 'bcb', 'enc0', alg, key, kid.encode(), targets, scope={0: 1, -1: 1}, ivs=[iv], source=source)
        wires.append(dict(id='built:%dbcbs-%s:S1' % (count, 'on' if accept else 'off'), profile=layers[0][0],
                          extra=[name for (name, _k, _t, _s, _i) in layers[1:count]], accept=accept, n_sec=count, wire=wire,
                          payload=all_specs['S1']['payload'], source='built', scope={0: 1, -1: 1},
                          targets=[tg[0] for (_n, _k, tg, _s, _i) in layers[:count]],
                          key_names=[name for (name, _k, _t, _s, _i) in layers[:count]]))
    for ent in wires:
        spec = all_specs[ent['id'].split(':')[2]]
        ent['plain'] = {1: spec['payload']}
        for blk in spec.get('blocks', ()):
            ent['plain'][blk['num']] = bytes(blk['data'])
        accept = ent.get('accept')
        ent['accepting'] = True if accept is None else bool(accept)
    return wires


def expect_payload_hex(ent):
    ''' data of block 1 an application sees after successful processing: the plaintext at an acceptor, the octets
    received at a node that only verifies (accept_after_verify off) '''
    if ent.get('accepting', True) or 1 not in ent['targets']:
        return ent['payload'].hex()
    return wire_blocks(ent['wire'])[1][4].hex()


def wire_blocks(wire):
    return {blk[1]: blk for (blk, _r, _o) in sd.split_bundle(wire)[1:]}


# --------------------------------------------------------------------------- structure tie

def suite_structure(chk, wires, batch):
    from cryptography.hazmat.primitives.ciphers.aead import AESGCM
    from cryptography.hazmat.primitives.keywrap import aes_key_unwrap
    idxs = [batch.add('(wire_inputs %s)' % sd.coq_octets(ent['wire'])) for ent in wires]

    def finish():
        bad = []
        for (ent, idx) in zip(wires, idxs):
            mod = batch.get(idx)
            prof = sd.PROFILES[ent['profile']]
            blocks = wire_blocks(ent['wire'])
            okay = mod is not None
            detail = 'model returned None'
            if okay:
                ops = [(num, bytes(inp)) for (num, lst) in mod[1] for (inp, _tag) in lst if blocks[num][0] == SEC_TYPE]
                okay = len(ops) == len(ent['targets'])
                detail = 'operation count'
                for (tix, (num, inp)) in enumerate(ops):
                    asb = sd.asb_decode(blocks[num][4])
                    msg = cbor2.loads(asb['results'][tix][0][1])
                    tgt = blocks[asb['targets'][tix]]
                    (_kid, key, _alg, _ops) = prof['key']
                    if prof['kind'] == 'enc':
                        key = aes_key_unwrap(key, msg[3][0][2])
                    try:
                        plain = AESGCM(key).decrypt(msg[1][5], tgt[4], inp)
                    except Exception as err:
                        plain = None
                        detail = 'AES-GCM under the model Enc_structure: %s' % err.__class__.__name__
                    want = ent['plain'].get(tgt[1])
                    if plain is None or (want is not None and plain != want):
                        okay = False
            chk.case(ident=('structure', ent['id']), nontrivial=True)
            chk.count('structure_kind', prof['kind'])
            if not okay:
                bad.append(dict(id=ent['id'], detail=detail))
        chk.obligation('correspondence:structure', not bad, json.dumps(bad[:3])[:500])
        return bad
    return finish


# --------------------------------------------------------------------------- oracle

def combined_class(ent, alt):
    cls = sd.diff_covered(ent['wire'], alt, SEC_TYPE)
    if ent.get('extra') and any(blk[0] == sd.BIB for blk in wire_blocks(ent['wire']).values()):
        other = sd.diff_covered(ent['wire'], alt, sd.BIB)
        order = ['malformed', 'must_fail', 'asb_malformed', 'no_secblk', 'stripped', 'either', 'must_pass']
        return min((cls, other), key=lambda item: order.index(item[0]))
    return cls


def single_target(alt):
    ''' the altered bundle has one BCB with exactly one target (with several targets an earlier target may be
    decrypted in the container before a later one fails; the bundle is deleted all the same) '''
    try:
        bcbs = [blk for (blk, _r, _o) in sd.split_bundle(alt)[1:] if blk[0] == SEC_TYPE]
        return len(bcbs) == 1 and len(sd.asb_decode(bcbs[0][4])['targets']) == 1
    except Exception:
        return False


def oracle(suite, ent, case, cls, out, replay):
    chk = suite.chk
    (klass, detail) = cls
    direct = out.get('direct') or {}
    res = direct.get('bcb', [])
    allres = res + direct.get('bib', [])
    delivered = out['delivered']
    plain_hex = ent['payload'].hex()
    good_hex = expect_payload_hex(ent)
    payload_is_target = 1 in ent['targets']
    pay_ok = delivered and (out['payload'] == good_hex or not payload_is_target)
    released = payload_is_target and direct.get('payload') == plain_hex and len(ent['payload']) > 0 and single_target(case['alt'])
    if klass == 'must_fail':
        if delivered:
            if allres == [] and direct.get('error') is None:
                suite.fail(SIG_IGNORED, 'BCB altered (%s: %s) -> not recognised as a security block; bundle delivered, data = %s' % (
                    case['label'], detail, 'ciphertext' if out['payload'] != plain_hex else 'PLAINTEXT'), replay)
            elif base.eid_only(ent['wire'], case['alt'], SEC_TYPE) or (ent.get('extra') and base.eid_only(ent['wire'], case['alt'], sd.BIB)):
                suite.fail(SIG_EID, 'authenticated EID altered (%s: %s) yet verify_bcb returned %r and the bundle was delivered to %s with the plaintext' % (
                    case['label'], detail, res, out.get('dest')), replay)
            else:
                chk.fail(signature='C16 / altered ciphertext or authenticated context accepted: %s' % detail.split(' of op')[0],
                         what='alteration %s (%s): bundle delivered (verify_bcb %r, payload %s)' % (case['label'], detail, res, out['payload']),
                         replay_obj=replay)
        elif released and not base.eid_only(ent['wire'], case['alt'], SEC_TYPE) and any(val is not None for val in res):
            chk.fail(signature='C16 / plaintext released although decryption is reported failed',
                     what='alteration %s: verify_bcb %r but the target block holds the plaintext afterwards' % (case['label'], res), replay_obj=replay)
        else:
            reached = any(val is not None for val in allres)
            if reached and not out['sec_failure'] and out['decode_error'] is None and out['recv_exc'] is None and out['deleted']:
                chk.fail(signature='C16 / failure not treated as a security failure',
                         what='alteration %s: verify %r, bundle deleted with reason %r' % (case['label'], allres, out['reason']), replay_obj=replay)
    elif klass == 'asb_malformed':
        if delivered and allres == [] and direct.get('error') is None:
            suite.fail(SIG_IGNORED, 'BCB altered (%s: %s) -> not recognised as a security block; bundle delivered, data = %s' % (
                case['label'], detail, 'ciphertext' if out['payload'] != plain_hex else 'PLAINTEXT'), replay)
        elif delivered:
            suite.count('lenient_decode_verified', case['kind'])
    elif klass == 'must_pass':
        verified = bool(res) and all(val is None for val in allres) and direct.get('error') is None
        routing_same = base.primary_same(ent['wire'], case['alt'])
        if direct.get('error') is not None and not routing_same:
            suite.count('must_pass_undecodable_after_primary_change', case['kind'])
        elif not verified or (payload_is_target and direct.get('payload') != good_hex) or (routing_same and not (delivered and pay_ok)):
            chk.fail(signature='C16 / alteration outside the authenticated context makes decryption fail or changes the recovered data',
                     what='alteration %s leaves ciphertext, context, IV and key unchanged but: delivered=%r payload_ok=%r verify=%r recovered=%s' % (
                         case['label'], delivered, pay_ok, allres, direct.get('payload')), replay_obj=replay)
    elif klass == 'either':
        if delivered and payload_is_target and out['payload'] != good_hex:
            chk.fail(signature='C16 / delivered data differs from the original plaintext',
                     what='alteration %s: delivered payload %s' % (case['label'], out['payload']), replay_obj=replay)
    suite.count('outcome', '%s/%s' % (klass, 'delivered' if delivered else ('sec_failure' if out['sec_failure'] else 'not_delivered')))


# --------------------------------------------------------------------------- baseline

def check_pairing(suite, ent, replay):
    ''' Independent check on the wire: result i of every BCB decrypts target i to its original plaintext (AAD and
    Enc_structure recomputed by the independent source, AES-GCM / AES-KW from `cryptography`, key by KID). '''
    from cryptography.hazmat.primitives.ciphers.aead import AESGCM
    from cryptography.hazmat.primitives.keywrap import aes_key_unwrap
    chk = suite.chk
    items = [it for (it, _r, _o) in sd.split_bundle(ent['wire'])]
    for blk in items[1:]:
        if blk[0] != SEC_TYPE:
            continue
        asb = sd.asb_decode(blk[4])
        (addl, _un, scope) = sd.sec_params(asb)
        for (ix, tnum) in enumerate(asb['targets']):
            good = False
            try:
                (code, val) = asb['results'][ix][0]
                msg = cbor2.loads(val)
                if code == 16:
                    key = base.key_by_kid(msg[1][4])['key'][1]
                    ctx = 'Encrypt0'
                else:
                    rcp = msg[3][0]
                    key = aes_key_unwrap(base.key_by_kid(rcp[1][4])['key'][1], rcp[2])
                    ctx = 'Encrypt'
                tgt = [b for b in items[1:] if b[1] == tnum][0]
                aad = sd.py_external_aad(items, blk[:3], asb['source'], scope, addl, tnum)
                good = AESGCM(key).decrypt(msg[1][5], tgt[4], cbor2.dumps([ctx, msg[0], aad])) == ent['plain'][tnum]
            except Exception:
                good = False
            suite.count('pairing_checked', 'ok' if good else 'MISMATCH')
            if not good:
                chk.fail(signature='C16 / BCB result i does not decrypt target i',
                         what='%s: BCB %d lists targets %r but result %d does not decrypt block %d to its plaintext' % (
                             ent['id'], blk[1], asb['targets'], ix, tnum), replay_obj=replay)


def all_targets_recovered(node, ent):
    ''' at an acceptor every target block holds exactly its original plaintext after the receive chain; at a
    verify-only node every target still holds the octets received '''
    from bp.util import BundleContainer
    from bp.encoding import Bundle
    ctr = BundleContainer(Bundle(ent['wire']))
    node.reset()
    node.agent.recv_bundle(ctr)
    node.drv.drain()
    blocks = wire_blocks(ent['wire'])
    for tnum in ent['targets']:
        have = bytes(ctr.block_num(tnum).getfieldval('btsd') or b'')
        want = ent['plain'][tnum] if ent.get('accepting', True) else blocks[tnum][4]
        if have != want:
            return False
    return True


def suite_baseline(suite, wires):
    chk = suite.chk
    observations = {}
    for ent in wires:
        prof = sd.PROFILES[ent['profile']]
        blocks = wire_blocks(ent['wire'])
        replay = dict(wire_hex=ent['wire'].hex(), alt_hex=ent['wire'].hex(), profile=ent['profile'], extra=ent.get('extra'),
                      label='unaltered', payload_hex=ent['payload'].hex(), wire_id=ent['id'], targets=ent['targets'],
                      accept=ent.get('accept'), plain={str(k): v.hex() for (k, v) in ent['plain'].items()})
        chk.case(ident=('baseline', ent['id']), nontrivial=True,
                 sample=dict(suite='baseline', wire=ent['id'], plaintext_len=len(ent['payload']), wire_btsd_len=len(blocks[1][4]),
                             targets=ent['targets']))
        n_bcb = sum(1 for blk in blocks.values() if blk[0] == SEC_TYPE)
        want_n = ent.get('n_sec', 1)
        if n_bcb != want_n:
            chk.fail(signature='C16 / source did not add the expected BCB(s)', what='%s: %d BCBs, expected %d' % (ent['id'], n_bcb, want_n), replay_obj=replay)
            continue
        for tnum in ent['targets']:
            on_wire = blocks[tnum][4]
            plain = ent['plain'][tnum]
            if on_wire == plain or len(on_wire) != len(plain) + sd.GCM_TAG_LEN or (len(plain) >= 4 and plain in on_wire):
                chk.fail(signature='C16 / target data on the wire is not ciphertext',
                         what='%s block %d: wire BTSD %s for plaintext %s' % (ent['id'], tnum, on_wire.hex()[:80], plain.hex()[:80]), replay_obj=replay)
            suite.count('plaintext_len', len(plain))
        check_pairing(suite, ent, replay)
        suite.count('bcb_target_order', '>'.join(str(t) for t in ent['targets']))
        good = sd.receiver_from_spec(base.recv_spec(ent))
        out = good.recv(ent['wire'])
        vd = good.verify_direct(ent['wire'])
        want_hex = expect_payload_hex(ent)
        if not (out['delivered'] and out['payload'] is not None and out['payload'].hex() == want_hex and vd['bcb'] == [None] * want_n
                and vd['payload'].hex() == want_hex and all_targets_recovered(good, ent)):
            chk.fail(signature='C16 / acceptor with the key does not recover the original plaintext',
                     what='%s: delivered=%r payload=%r verify_bcb=%r reason=%r' % (ent['id'], out['delivered'], out['payload'], vd['bcb'], out['reason']),
                     replay_obj=replay)
        bad = sd.receiver_from_spec(base.recv_spec(ent, wrong_key=True))
        outb = bad.recv(ent['wire'])
        vdb = bad.verify_direct(ent['wire'])
        chk.case(ident=('wrongkey', ent['id']), nontrivial=True)
        if outb['delivered'] or not outb['sec_failure'] or vdb['bcb'] != [sd.FAILED_SEC] * want_n or \
                (1 in ent['targets'] and vdb['payload'] != blocks[1][4]):
            chk.fail(signature='C16 / wrong key: accepted, plaintext released or failure not reported',
                     what='%s: delivered=%r sec_failure=%r verify_bcb=%r data afterwards=%s' % (
                         ent['id'], outb['delivered'], outb['sec_failure'], vdb['bcb'], vdb['payload'].hex()[:60] if vdb['payload'] is not None else None),
                     replay_obj=dict(replay, wrong_key=True))
        # each key wrong in turn (bundles with several BCBs): the bundle must not be delivered
        for name in ent.get('key_names', []):
            one = sd.receiver_from_spec(base.recv_spec(ent, wrong_key=[name]))
            outo = one.recv(ent['wire'])
            chk.case(ident=('wrongkey', ent['id'], name), nontrivial=True)
            if outo['delivered'] or not outo['sec_failure']:
                chk.fail(signature='C16 / wrong key: accepted, plaintext released or failure not reported',
                         what='%s with only the key of %s wrong: delivered=%r sec_failure=%r reason=%r' % (
                             ent['id'], name, outo['delivered'], outo['sec_failure'], outo['reason']),
                         replay_obj=dict(replay, wrong_key=[name]))
        # a node that only verifies (accept_after_verify off, the default): what does it deliver?
        if ent['source'] == 'agent' and not ent.get('extra') and ent.get('accept') is None:
            ver = sd.make_receiver(prof, accept=False)
            outv = ver.recv(ent['wire'])
            observations[ent['id']] = dict(delivered=outv['delivered'],
                                           data=('plaintext' if outv['payload'] == ent['payload'] else
                                                 ('ciphertext' if outv['payload'] == blocks[1][4] else 'other')) if outv['delivered'] else None)
        suite.count('baseline', ent['profile'])
        suite.count('targets_per_bcb', len(ent['targets']))
        suite.count('accept_after_verify', str(ent.get('accept')))
    suite.stats['accept_after_verify_off'] = observations


# --------------------------------------------------------------------------- corpus / replay

def run_one(rep):
    node = sd.receiver_from_spec(base.recv_spec(rep, wrong_key=rep.get('wrong_key')))
    wire = bytes.fromhex(rep['wire_hex'])
    alt = bytes.fromhex(rep['alt_hex'])
    out = node.recv(alt)
    vd = node.verify_direct(alt)
    ent = dict(wire=wire, payload=bytes.fromhex(rep['payload_hex']), profile=rep['profile'], extra=rep.get('extra'),
               id=rep.get('wire_id', 'replay'), targets=rep.get('targets') or [1], accept=rep.get('accept'),
               accepting=(True if rep.get('accept') is None else bool(rep.get('accept'))))
    cls = combined_class(ent, alt) if alt != wire else ('unaltered', '')
    out['direct'] = dict(bib=vd['bib'], bcb=vd['bcb'], error=vd['error'], payload=(vd['payload'].hex() if vd['payload'] is not None else None))
    out['payload'] = out['payload'].hex() if out['payload'] is not None else None
    return (ent, cls, out)


def check_one(suite, rep):
    chk = suite.chk
    (ent, cls, out) = run_one(rep)
    case = dict(label=rep['label'], alt=bytes.fromhex(rep['alt_hex']), kind='replay')
    if rep.get('wrong_key'):
        if out['delivered'] or not out['sec_failure']:
            chk.fail(signature='C16 / wrong key: accepted, plaintext released or failure not reported', what='replay', replay_obj=rep)
    elif cls[0] == 'unaltered':
        bcb = out['direct']['bcb']
        if not (out['delivered'] and out['payload'] == expect_payload_hex(ent) and bcb and all(val is None for val in bcb)):
            chk.fail(signature='C16 / acceptor with the key does not recover the original plaintext', what='replay', replay_obj=rep)
    else:
        oracle(suite, ent, case, cls, out, rep)
    return (cls, out)


def suite_corpus(suite):
    for name in sorted(os.listdir(CORPUS)):
        if name.startswith('C16_') and name.endswith('.json'):
            with open(os.path.join(CORPUS, name)) as infile:
                item = json.load(infile)
            check_one(suite, item['replay'])
            suite.chk.case(ident=('corpus', name), nontrivial=True)


def replay_main(chk, path):
    with open(path) as infile:
        item = json.load(infile)
    rep = item.get('replay', item)
    if 'broken' in rep:
        print('replay file names broken obligations, no concrete input: %s' % json.dumps(rep)[:500])
        sys.exit(1)
    suite = base.Suite(chk, SEC_TYPE, PENDING_FINDINGS, oracle)
    (cls, out) = check_one(suite, rep)
    print('class by the property text: %s (%s)' % cls)
    print('real receive path: delivered=%r payload=%r sec_failure=%r reason=%r; verify_bcb -> %r, target data afterwards %s' % (
        out['delivered'], out['payload'], out['sec_failure'], out['reason'], out['direct']['bcb'], out['direct']['payload']))
    for (sig, info) in suite.pending.items():
        print('PENDING-FINDING reproduced: %s' % sig)
        chk.fail(signature=sig, what=info['what'], replay_obj=rep)
    chk.case(ident=('replay', path), nontrivial=True, sample=dict(replay=os.path.basename(path), cls=cls[0]))
    chk.obligation('replay:ran', True)
    base.finish_keep_evidence(chk, rule='replay of one stored input')


def main():
    chk = Check(PROP, level='proof', description=__doc__)
    if chk.args.replay:
        replay_main(chk, chk.args.replay)
        return
    quick = chk.quick()
    suite = base.Suite(chk, SEC_TYPE, PENDING_FINDINGS, oracle, combined_class)
    t_start = time.time()
    chk.coq_props()
    t_coq = time.time() - t_start
    trace('coq_props done')
    suite_corpus(suite)
    node = sd.SecNode(sd.DST_ID)
    batch = base.CoqBatch()
    chk.rng.random()      # a different sample than C03's
    fin_aad = base.suite_aad(chk, node, quick, batch, count=(60 if quick else 600))
    wires = make_wires(quick)
    fin_structure = suite_structure(chk, [ent for ent in wires if ent['source'] == 'agent'], batch)
    suite_baseline(suite, wires)
    trace('baseline done')
    fin_alt = base.suite_alterations(suite, wires, quick, batch)
    trace('sweeps done; %d model evaluations' % len(batch.terms))
    batch.run(chk)
    trace('model evaluated')
    fin_aad()
    fin_structure()
    fin_alt()
    for (sig, info) in sorted(suite.pending.items()):
        print('PENDING-FINDING (gated, reported to the coordinator): %s  [%d input(s); first: %s]' % (sig, info['count'], info['what'][:300]))
    chk.finish(
        rule=('for each of %d bundles (BCB applied by the real agent: Encrypt0 A128GCM/A256GCM direct key, Encrypt + AES-KW A128/A256, one with a '
              'BIB as well, BCBs with two and three targets in both key modes with accept_after_verify on and off, two / three separate BCBs from different security sources over different targets (each key wrong in turn), source agents with 2-3 confidentiality associations in every order of their targets with an independent target-result pairing check; plaintext lengths 0, 1, 11, 24, 300; or by the independent source with 7 AAD scopes / targets incl. two targets): '
              'wire BTSD is ciphertext (plaintext length + 16, not containing the plaintext), accepted BTSD == plaintext, wrong key fails and '
              'releases nothing; then every single-field alteration (cbor2 decode, one item changed/dropped/added, CRCs re-fixed, EID-syntax '
              'variants with and without CRC re-fix) and %s single-bit flips, through the real receive path and verify_bcb; distinct = '
              'distinct altered octets; non-trivial = class must_fail / must_pass / either by the property text') % (
                  len(wires), 'a stratified sample of' if quick else 'all'),
        extra_cov=dict(
            level_note=('proof of the structure (the wire BTSD is the AEAD output; AAD agreement; round trip for all plaintexts; Enc_structure '
                        'injective in exactly the authenticated context; nothing released on failure; soundness under the explicit idealised '
                        'AEAD hypotheses aead_auth / enc_inj). AES-GCM and AES-KW security are NOT proved: exercised with the real libraries.'),
            pending_findings=[dict(signature=sig, inputs=info['count'], what=info['what'][:400]) for (sig, info) in sorted(suite.pending.items())],
            refuted_or_partial=['C16_wire_primary_refuted / C16_wire_source_refuted (EID normalisation); C16_binding is the true statement over decoded fields',
                                'C16_roundtrip / C16_wire_is_ciphertext / C16_no_release_on_failure are proved for one target per block (multi-target: model + e2e only)'],
            timings=dict(coq_s=round(t_coq, 1)),
            stats=suite.stats,
        ),
        assumptions=[
            'cryptographic soundness (AES-GCM authenticity, AES-KW) is assumed as the Section hypotheses aead_auth / enc_inj and tested with the real libraries, not proved',
            'harness stubs (dbus, GLib virtual context, crcmod, portion ...) and the oscrypto version-regex shim are trusted',
            'pycose installed here is stock 1.1.0, not the fork pinned by pyproject.toml',
            'acceptance is configured (accept_after_verify = True) at the receiver; with the default (False) the agent delivers the bundle with the ciphertext as its data (recorded under stats.accept_after_verify_off)',
            'Lib.Cbor models cbor2 on the subset used; the bundle is modelled at the CBOR-tree level; the CRC gate is not modelled (C08)',
        ])


if __name__ == '__main__':
    main()
