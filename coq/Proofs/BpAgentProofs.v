(** Proofs about Model/BpAgent.v used by Props/C10.v and Props/C19.v. *)
From Coq Require Import ZArith NArith List Bool Lia ZifyBool ZifyN ZifyNat.
From DTN Require Import Gen.ReportTable Model.BpAgent.
Import ListNotations.
Local Open Scope N_scope.

(** * Identities *)

Lemma frag_eqb_eq x y : frag_eqb x y = true <-> x = y.
Proof.
  destruct x as [[a b]|], y as [[c d]|]; cbn; split; intros H; try discriminate; try reflexivity.
  - apply andb_true_iff in H. destruct H as [H1 H2]. apply N.eqb_eq in H1, H2. subst. reflexivity.
  - inversion H; subst. rewrite !N.eqb_refl. reflexivity.
Qed.

Lemma ident_eqb_eq (i j : ident) : ident_eqb i j = true <-> i = j.
Proof.
  destruct i as [[[s1 t1] q1] f1], j as [[[s2 t2] q2] f2]. cbn. split.
  - intros H. repeat (apply andb_true_iff in H; destruct H as [H ?]).
    apply N.eqb_eq in H. apply N.eqb_eq in H1. apply N.eqb_eq in H2. apply frag_eqb_eq in H0. subst. reflexivity.
  - intros H. inversion H; subst. rewrite !N.eqb_refl. cbn. apply frag_eqb_eq. reflexivity.
Qed.

Lemma ident_eqb_refl i : ident_eqb i i = true.
Proof. apply ident_eqb_eq. reflexivity. Qed.

Lemma seen_existsb_In i l : existsb (ident_eqb i) l = true <-> In i l.
Proof.
  rewrite existsb_exists. split.
  - intros [x [Hx He]]. apply ident_eqb_eq in He. subst. exact Hx.
  - intros H. exists i. split; [exact H | apply ident_eqb_refl].
Qed.

(** * Actions *)

Lemma action_eqb_eq x y : action_eqb x y = true <-> x = y.
Proof. destruct x, y; cbn; split; intros H; try discriminate; reflexivity. Qed.

Lemma mem_In x l : mem x l = true <-> In x l.
Proof.
  unfold mem. rewrite existsb_exists. split.
  - intros [y [Hy He]]. apply action_eqb_eq in He. subst. exact Hy.
  - intros H. exists x. split; [exact H | apply action_eqb_eq; reflexivity].
Qed.

Lemma mem_add x y l : mem x (add y l) = mem x l || action_eqb x y.
Proof.
  unfold add. destruct (mem y l) eqn:E.
  - destruct (action_eqb x y) eqn:F; [|rewrite orb_false_r; reflexivity].
    apply action_eqb_eq in F. subst. rewrite E. reflexivity.
  - unfold mem. rewrite existsb_app. cbn. rewrite orb_false_r. reflexivity.
Qed.

Lemma mem_remove x y l : mem x (remove y l) = mem x l && negb (action_eqb y x).
Proof.
  unfold mem, remove. induction l as [|z l IH]; cbn; [reflexivity|].
  destruct (action_eqb y z) eqn:E; cbn.
  - rewrite IH. apply action_eqb_eq in E. subst.
    destruct (action_eqb x z) eqn:F; cbn; [|reflexivity].
    apply action_eqb_eq in F. subst.
    replace (action_eqb z z) with true by (symmetry; apply action_eqb_eq; reflexivity).
    cbn. rewrite andb_false_r. reflexivity.
  - rewrite IH. destruct (action_eqb x z) eqn:F; cbn; [|reflexivity].
    apply action_eqb_eq in F. subst. rewrite E. reflexivity.
Qed.

(** * State components untouched by the clock *)

Lemma seen_tick a : a_seen (tick a) = a_seen a. Proof. reflexivity. Qed.
Lemma node_tick a : a_node (tick a) = a_node a. Proof. reflexivity. Qed.
Lemma tx_tick a : a_tx (tick a) = a_tx a. Proof. reflexivity. Qed.

Section WithMatch.
  Variable matches : N -> eid -> bool.

  Notation recv_core := (recv_core matches).
  Notation recv := (recv matches).
  Notation run := (run matches).
  Notation finish := (finish matches).
  Notation do_fwd := (do_fwd matches).
  Notation fwd_plan := (fwd_plan matches).
  Notation final := (final matches).
  Notation send_path := (send_path matches).
  Notation route_actions := (route_actions matches).
  Notation rx_lookup := (rx_lookup matches).

  (** ** Events of the building blocks *)

  Definition is_report_ev (e : event) : bool :=
    match e with EvReport _ _ _ => true | EvSendFail _ true => true | _ => false end.

  Lemma finish_shape a sub cur acts rsn :
    (snd (finish a sub cur acts rsn) = [] /\ fst (finish a sub cur acts rsn) = a
       /\ create_report (a_node a) (a_now a, a_tsn a) cur acts rsn = None)
    \/ (exists r, create_report (a_node a) (a_now a, a_tsn a) cur acts rsn = Some r
         /\ fst (finish a sub cur acts rsn) = tick a
         /\ ((exists k, snd (finish a sub cur acts rsn) = [EvReport sub r k])
             \/ snd (finish a sub cur acts rsn) = [EvSendFail sub true])).
  Proof.
    unfold BpAgent.finish.
    destruct (create_report (a_node a) (a_now a, a_tsn a) cur acts rsn) as [r|]; [right|left; auto].
    exists r. split; [reflexivity|].
    destruct (BpAgent.send_path matches (tick a) (r_dst r) 0 false false true); cbn; split; eauto.
  Qed.

  Lemma finish_seen a sub cur acts rsn : a_seen (fst (finish a sub cur acts rsn)) = a_seen a.
  Proof.
    destruct (finish_shape a sub cur acts rsn) as [[_ [H _]]|[r [_ [H _]]]]; rewrite H; reflexivity.
  Qed.

  Lemma finish_node a sub cur acts rsn : a_node (fst (finish a sub cur acts rsn)) = a_node a.
  Proof.
    destruct (finish_shape a sub cur acts rsn) as [[_ [H _]]|[r [_ [H _]]]]; rewrite H; reflexivity.
  Qed.

  Lemma finish_no_deliver a sub cur acts rsn : has_deliver (snd (finish a sub cur acts rsn)) = false.
  Proof.
    destruct (finish_shape a sub cur acts rsn) as [[H _]|[r [_ [_ [[k H]|H]]]]]; rewrite H; reflexivity.
  Qed.

  Lemma finish_no_tx a sub cur acts rsn : has_tx (snd (finish a sub cur acts rsn)) = false.
  Proof.
    destruct (finish_shape a sub cur acts rsn) as [[H _]|[r [_ [_ [[k H]|H]]]]]; rewrite H; reflexivity.
  Qed.

  Lemma finish_report a sub cur acts rsn sub' r k :
    In (EvReport sub' r k) (snd (finish a sub cur acts rsn)) ->
    sub' = sub /\ create_report (a_node a) (a_now a, a_tsn a) cur acts rsn = Some r.
  Proof.
    destruct (finish_shape a sub cur acts rsn) as [[H _]|[r0 [Hc [_ [[k0 H]|H]]]]]; rewrite H; cbn.
    - intros [].
    - intros [E|[]]. inversion E; subst. auto.
    - intros [E|[]]. discriminate.
  Qed.

  Lemma finish_subject a sub cur acts rsn e :
    In e (snd (finish a sub cur acts rsn)) -> ev_subject e = sub.
  Proof.
    destruct (finish_shape a sub cur acts rsn) as [[H _]|[r0 [Hc [_ [[k0 H]|H]]]]]; rewrite H; cbn.
    - intros [].
    - intros [E|[]]; subst; reflexivity.
    - intros [E|[]]; subst; reflexivity.
  Qed.

  Lemma has_deliver_app x y : has_deliver (x ++ y) = has_deliver x || has_deliver y.
  Proof. apply existsb_app. Qed.
  Lemma has_tx_app x y : has_tx (x ++ y) = has_tx x || has_tx y.
  Proof. apply existsb_app. Qed.

  (** ** The forwarding plan *)

  Definition tx_ok (a : agent) (b : bundle) : bool :=
    match send_path a (b_dst b) (b_size b) (has_flag (b_flags b) FLAG_NO_FRAGMENT) (is_frag b) (b_cached b) with
    | SendRaise => false
    | _ => true
    end.

  (** Projections of the plan. *)
  Definition plan_agent (p : agent * bundle * list action * option N * list event) := fst (fst (fst (fst p))).
  Definition plan_cur (p : agent * bundle * list action * option N * list event) := snd (fst (fst (fst p))).
  Definition plan_acts (p : agent * bundle * list action * option N * list event) := snd (fst (fst p)).
  Definition plan_reason (p : agent * bundle * list action * option N * list event) := snd (fst p).
  Definition plan_pre (p : agent * bundle * list action * option N * list event) := snd p.

  Lemma send_path_tx a a' dst size nf fr c : a_tx a' = a_tx a -> send_path a' dst size nf fr c = send_path a dst size nf fr c.
  Proof. intros H. unfold BpAgent.send_path. rewrite H. reflexivity. Qed.

  (** Everything [fwd_plan] can do, in one statement. *)
  Lemma fwd_plan_spec a b acts rsn :
    let p := fwd_plan a b acts rsn in
    a_seen (plan_agent p) = a_seen a /\ a_node (plan_agent p) = a_node a /\ a_tx (plan_agent p) = a_tx a
    /\ a_reasm (plan_agent p) = a_reasm a
    /\ b_src (plan_cur p) = b_src b /\ b_rpt (plan_cur p) = b_rpt b /\ b_flags (plan_cur p) = b_flags b
    /\ (b_time b <> 0 -> plan_cur p = b)
    /\ has_deliver (plan_pre p) = false
    /\ (forall e, In e (plan_pre p) -> ev_subject e = b)
    /\ (forall s r k, ~ In (EvReport s r k) (plan_pre p))
    /\ ( (* success *)
         (prep_fails b = false /\ plan_acts p = add AFwd acts /\ plan_reason p = rsn
            /\ has_tx (plan_pre p) = true
            /\ exists k, send_path a (b_dst b) (b_size b) (has_flag (b_flags b) FLAG_NO_FRAGMENT) (is_frag b) (b_cached b) = SentWhole k
                         /\ plan_pre p = [EvTx b (plan_cur p) k])
         \/ (* failure *)
         (plan_acts p = add ADel acts /\ plan_reason p = Some fwd_fail_reason
            /\ (has_tx (plan_pre p) = true -> b_cached b = false)
            /\ has_tx (plan_pre p) = negb (prep_fails b) && tx_ok a b) ).
  Proof.
    unfold BpAgent.fwd_plan, prep_fails, plan_agent, plan_cur, plan_acts, plan_reason, plan_pre, tx_ok.
    destruct (b_prep b =? 1) eqn:P1; cbn [fst snd orb negb andb].
    { repeat split; auto; try (intros; contradiction).
      right. repeat split; auto. discriminate. }
    destruct (b_time b =? 0) eqn:T0; cbn [negb andb].
    - (* creation time zero: no age block, timestamp rewritten *)
      set (b' := set_ts b (a_now a) (a_tsn a)).
      assert (Hsp : send_path (tick a) (b_dst b') (b_size b') (has_flag (b_flags b') FLAG_NO_FRAGMENT) (is_frag b') (b_cached b')
                    = send_path a (b_dst b) (b_size b) (has_flag (b_flags b) FLAG_NO_FRAGMENT) (is_frag b) (b_cached b))
        by (apply send_path_tx; reflexivity).
      rewrite Hsp.
      destruct (send_path a (b_dst b) (b_size b) (has_flag (b_flags b) FLAG_NO_FRAGMENT) (is_frag b) (b_cached b)) as [k|k|] eqn:S;
        cbn [fst snd].
      + repeat split; auto.
        * intros H. apply N.eqb_eq in T0. contradiction.
        * intros e [E|[]]; subst; reflexivity.
        * intros s r k0 [E|[]]; discriminate.
        * left. repeat split; auto. exists k. split; reflexivity.
      + repeat split; auto.
        * intros H. apply N.eqb_eq in T0. contradiction.
        * intros e [E|[E|[]]]; subst; reflexivity.
        * intros s r k0 [E|[E|[]]]; discriminate.
        * right. repeat split; auto.
          intros _. unfold BpAgent.send_path in S.
          destruct (find_idx (fun r => matches (t_pat r) (b_dst b)) (a_tx a) 0) as [[k1 r1]|]; [|discriminate].
          destruct (b_cached b); [|reflexivity].
          rewrite andb_false_r in S. destruct (t_cl r1); discriminate.
      + repeat split; auto.
        * intros H. apply N.eqb_eq in T0. contradiction.
        * intros e [E|[]]; subst; reflexivity.
        * intros s r k0 [E|[]]; discriminate.
        * right. repeat split; auto. discriminate.
    - (* creation time known: bundle age block added *)
      destruct (b_prep b =? 2) eqn:P2; cbn [fst snd].
      { repeat split; auto; try (intros; contradiction).
        right. repeat split; auto. discriminate. }
      assert (Hsp : send_path (tick a) (b_dst b) (b_size b) (has_flag (b_flags b) FLAG_NO_FRAGMENT) (is_frag b) (b_cached b)
                    = send_path a (b_dst b) (b_size b) (has_flag (b_flags b) FLAG_NO_FRAGMENT) (is_frag b) (b_cached b))
        by (apply send_path_tx; reflexivity).
      rewrite Hsp.
      destruct (send_path a (b_dst b) (b_size b) (has_flag (b_flags b) FLAG_NO_FRAGMENT) (is_frag b) (b_cached b)) as [k|k|] eqn:S;
        cbn [fst snd].
      + repeat split; auto.
        * intros e [E|[]]; subst; reflexivity.
        * intros s r k0 [E|[]]; discriminate.
        * left. repeat split; auto. exists k. split; reflexivity.
      + repeat split; auto.
        * intros e [E|[E|[]]]; subst; reflexivity.
        * intros s r k0 [E|[E|[]]]; discriminate.
        * right. repeat split; auto.
          intros _. unfold BpAgent.send_path in S.
          destruct (find_idx (fun r => matches (t_pat r) (b_dst b)) (a_tx a) 0) as [[k1 r1]|]; [|discriminate].
          destruct (b_cached b); [|reflexivity].
          rewrite andb_false_r in S. destruct (t_cl r1); discriminate.
      + repeat split; auto.
        * intros e [E|[]]; subst; reflexivity.
        * intros s r k0 [E|[]]; discriminate.
        * right. repeat split; auto. discriminate.
  Qed.

  Lemma fwd_plan_has_tx a b acts rsn :
    has_tx (plan_pre (fwd_plan a b acts rsn)) = negb (prep_fails b) && tx_ok a b.
  Proof.
    destruct (fwd_plan_spec a b acts rsn) as (_ & _ & _ & _ & _ & _ & _ & _ & _ & _ & _ & [H|H]).
    - destruct H as (Hp & _ & _ & Ht & k & Hs & _). rewrite Ht, Hp. unfold tx_ok. rewrite Hs. reflexivity.
    - destruct H as (_ & _ & _ & Ht). exact Ht.
  Qed.

  Lemma do_fwd_eq a b acts rsn :
    do_fwd a b acts rsn =
    (fst (finish (plan_agent (fwd_plan a b acts rsn)) b (plan_cur (fwd_plan a b acts rsn))
                 (plan_acts (fwd_plan a b acts rsn)) (plan_reason (fwd_plan a b acts rsn))),
     plan_pre (fwd_plan a b acts rsn)
       ++ snd (finish (plan_agent (fwd_plan a b acts rsn)) b (plan_cur (fwd_plan a b acts rsn))
                      (plan_acts (fwd_plan a b acts rsn)) (plan_reason (fwd_plan a b acts rsn)))).
  Proof.
    unfold BpAgent.do_fwd, plan_agent, plan_cur, plan_acts, plan_reason, plan_pre.
    destruct (fwd_plan a b acts rsn) as [[[[a2 cur] acts'] rsn'] pre]. cbn [fst snd].
    destruct (finish a2 b cur acts' rsn'). reflexivity.
  Qed.

  Lemma do_fwd_seen a b acts rsn : a_seen (fst (do_fwd a b acts rsn)) = a_seen a.
  Proof.
    rewrite do_fwd_eq. cbn [fst]. rewrite finish_seen.
    destruct (fwd_plan_spec a b acts rsn) as (H & _). exact H.
  Qed.

  Lemma do_fwd_node a b acts rsn : a_node (fst (do_fwd a b acts rsn)) = a_node a.
  Proof.
    rewrite do_fwd_eq. cbn [fst]. rewrite finish_node.
    destruct (fwd_plan_spec a b acts rsn) as (_ & H & _). exact H.
  Qed.

  Lemma do_fwd_no_deliver a b acts rsn : has_deliver (snd (do_fwd a b acts rsn)) = false.
  Proof.
    rewrite do_fwd_eq. cbn [snd]. rewrite has_deliver_app, finish_no_deliver.
    destruct (fwd_plan_spec a b acts rsn) as (_ & _ & _ & _ & _ & _ & _ & _ & H & _). rewrite H. reflexivity.
  Qed.

  Lemma do_fwd_has_tx a b acts rsn : has_tx (snd (do_fwd a b acts rsn)) = negb (prep_fails b) && tx_ok a b.
  Proof.
    rewrite do_fwd_eq. cbn [snd]. rewrite has_tx_app, finish_no_tx, orb_false_r. apply fwd_plan_has_tx.
  Qed.

  Lemma do_fwd_subject a b acts rsn e : In e (snd (do_fwd a b acts rsn)) -> ev_subject e = b.
  Proof.
    rewrite do_fwd_eq. cbn [snd]. intros H. apply in_app_or in H. destruct H as [H|H].
    - destruct (fwd_plan_spec a b acts rsn) as (_ & _ & _ & _ & _ & _ & _ & _ & _ & Hs & _). apply Hs. exact H.
    - eapply finish_subject. exact H.
  Qed.

  Lemma tx_ok_tx a a' b : a_tx a' = a_tx a -> tx_ok a' b = tx_ok a b.
  Proof. intros H. unfold tx_ok. rewrite (send_path_tx a a') by exact H. reflexivity. Qed.

  (** ** [final] *)

  Lemma final_eq a b acts rsn c :
    final a b acts rsn c =
    if mem ADel acts then
      (fst (finish a b b acts rsn), (if c then [EvDeliver b] else []) ++ snd (finish a b b acts rsn))
    else
      let a1 := if mem ADlv acts then fst (finish a b b acts rsn) else a in
      let ev1 := if mem ADlv acts then snd (finish a b b acts rsn) else [] in
      let a2 := if mem AFwd acts then fst (do_fwd a1 b acts rsn) else a1 in
      let ev2 := if mem AFwd acts then snd (do_fwd a1 b acts rsn) else [] in
      (a2, (if c then [EvDeliver b] else []) ++ ev1 ++ ev2).
  Proof.
    unfold BpAgent.final. destruct (mem ADel acts).
    - destruct (finish a b b acts rsn). reflexivity.
    - destruct (mem ADlv acts).
      + destruct (finish a b b acts rsn) as [a1 ev1]. cbn [fst snd].
        destruct (mem AFwd acts); [destruct (do_fwd a1 b acts rsn)|]; reflexivity.
      + cbn [fst snd]. destruct (mem AFwd acts); [destruct (do_fwd a b acts rsn)|]; reflexivity.
  Qed.

  Lemma final_seen a b acts rsn c : a_seen (fst (final a b acts rsn c)) = a_seen a.
  Proof.
    rewrite final_eq. destruct (mem ADel acts); cbn [fst].
    - apply finish_seen.
    - destruct (mem ADlv acts), (mem AFwd acts); cbn [fst]; rewrite ?do_fwd_seen, ?finish_seen; reflexivity.
  Qed.

  Lemma final_has_deliver a b acts rsn c : has_deliver (snd (final a b acts rsn c)) = c.
  Proof.
    rewrite final_eq. destruct (mem ADel acts); cbn [snd].
    - rewrite has_deliver_app, finish_no_deliver. destruct c; reflexivity.
    - rewrite !has_deliver_app.
      destruct (mem ADlv acts), (mem AFwd acts); rewrite ?do_fwd_no_deliver, ?finish_no_deliver; destruct c; reflexivity.
  Qed.

  Lemma final_has_tx a b acts rsn c :
    has_tx (snd (final a b acts rsn c)) = negb (mem ADel acts) && mem AFwd acts && negb (prep_fails b) && tx_ok a b.
  Proof.
    rewrite final_eq. destruct (mem ADel acts); cbn [snd negb andb].
    - rewrite has_tx_app, finish_no_tx. destruct c; reflexivity.
    - rewrite !has_tx_app.
      assert (H0 : has_tx (if c then [EvDeliver b] else []) = false) by (destruct c; reflexivity).
      rewrite H0. cbn [orb].
      destruct (mem ADlv acts), (mem AFwd acts); cbn [andb]; rewrite ?finish_no_tx; cbn [orb];
        rewrite ?do_fwd_has_tx; try reflexivity.
      rewrite (tx_ok_tx a); [reflexivity|].
      destruct (finish_shape a b b acts rsn) as [[_ [H _]]|[r [_ [H _]]]]; rewrite H; reflexivity.
  Qed.

  Lemma final_subject a b acts rsn c e : In e (snd (final a b acts rsn c)) -> ev_subject e = b.
  Proof.
    rewrite final_eq. destruct (mem ADel acts); cbn [snd]; intros H.
    - apply in_app_or in H. destruct H as [H|H].
      + destruct c; [destruct H as [H|[]]; subst; reflexivity | destruct H].
      + eapply finish_subject; exact H.
    - apply in_app_or in H. destruct H as [H|H].
      + destruct c; [destruct H as [H|[]]; subst; reflexivity | destruct H].
      + apply in_app_or in H. destruct H as [H|H].
        * destruct (mem ADlv acts); [eapply finish_subject; exact H | destruct H].
        * destruct (mem AFwd acts); [eapply do_fwd_subject; exact H | destruct H].
  Qed.

  (** Where a report in the events of [final] comes from. *)
  Lemma final_report a b acts rsn c s r k :
    In (EvReport s r k) (snd (final a b acts rsn c)) ->
    exists ts cur acts' rsn',
      create_report (a_node a) ts cur acts' rsn' = Some r
      /\ b_src cur = b_src b /\ b_rpt cur = b_rpt b /\ b_flags cur = b_flags b /\ (b_time b <> 0 -> cur = b)
      /\ ( (cur = b /\ acts' = acts /\ rsn' = rsn /\ (mem ADel acts = true \/ mem ADlv acts = true))
           \/ (mem ADel acts = false /\ mem AFwd acts = true /\ acts' = add AFwd acts /\ rsn' = rsn
                 /\ prep_fails b = false /\ tx_ok a b = true /\ (b_cached b = true -> exists j, In (EvTx b cur j) (snd (final a b acts rsn c))))
           \/ (mem ADel acts = false /\ mem AFwd acts = true /\ acts' = add ADel acts /\ rsn' = Some fwd_fail_reason
                 /\ (negb (prep_fails b) && tx_ok a b = true -> b_cached b = false)) ).
  Proof.
    rewrite final_eq. destruct (mem ADel acts) eqn:Hdel; cbn [snd]; intros H.
    - apply in_app_or in H. destruct H as [H|H].
      { destruct c; [destruct H as [H|[]]; discriminate | destruct H]. }
      apply finish_report in H. destruct H as [_ H].
      exists (a_now a, a_tsn a), b, acts, rsn. repeat (split; [auto; fail|]). left. auto.
    - apply in_app_or in H. destruct H as [H|H].
      { destruct c; [destruct H as [H|[]]; discriminate | destruct H]. }
      apply in_app_or in H. destruct H as [H|H].
      + destruct (mem ADlv acts) eqn:Hdlv; [|destruct H].
        apply finish_report in H. destruct H as [_ H].
        exists (a_now a, a_tsn a), b, acts, rsn. repeat (split; [auto; fail|]). left. auto.
      + destruct (mem AFwd acts) eqn:Hfwd; [|destruct H].
        set (a1 := if mem ADlv acts then fst (finish a b b acts rsn) else a) in *.
        assert (Hn : a_node a1 = a_node a) by (subst a1; destruct (mem ADlv acts); [apply finish_node|reflexivity]).
        assert (Ht : a_tx a1 = a_tx a).
        { subst a1. destruct (mem ADlv acts); [|reflexivity].
          destruct (finish_shape a b b acts rsn) as [[_ [E _]]|[r0 [_ [E _]]]]; rewrite E; reflexivity. }
        pose proof (do_fwd_eq a1 b acts rsn) as Hd.
        pose proof (fwd_plan_spec a1 b acts rsn) as Hs. cbv zeta in Hs.
        destruct Hs as (_ & Hnode & _ & _ & Hsrc & Hrpt & Hfl & Htime & _ & _ & Hnr & Hcase).
        rewrite Hd in H. cbn [snd] in H. apply in_app_or in H. destruct H as [H|H].
        { exfalso. eapply Hnr. exact H. }
        apply finish_report in H. destruct H as [_ H]. rewrite Hnode, Hn in H.
        eexists _, (plan_cur (fwd_plan a1 b acts rsn)), (plan_acts (fwd_plan a1 b acts rsn)), (plan_reason (fwd_plan a1 b acts rsn)).
        split; [exact H|]. repeat (split; [assumption|]).
        destruct Hcase as [(Hp & Ha & Hr & Htx & j & Hsp & Hpre)|(Ha & Hr & Hc & Htx)].
        * right; left. repeat split; auto.
          -- rewrite <- (tx_ok_tx a a1 b Ht). unfold tx_ok. rewrite Hsp. reflexivity.
          -- intros Hcached. exists j. apply in_or_app. right. apply in_or_app. right. rewrite Hd. cbn [snd].
             apply in_or_app. left. rewrite Hpre. left. reflexivity.
        * right; right. repeat split; auto.
          intros Hx. apply Hc. rewrite Htx. rewrite (tx_ok_tx a a1 b Ht). exact Hx.
  Qed.

  (** ** One call of [recv_bundle] *)

  Lemma recv_core_rejected a b : accepted a b = false -> recv_core a b = (a, [], None).
  Proof. intros H. unfold BpAgent.recv_core. rewrite H. reflexivity. Qed.

  Definition seen_add (a : agent) (b : bundle) : agent := set_seen a (a_seen a ++ [ident_of b]).

  Lemma recv_core_accepted a b :
    accepted a b = true ->
    recv_core a b =
    if mem ADlv (route_actions a b) && is_frag b then
      match snd (reasm_step (a_reasm a) b) with
      | RPending => (set_reasm (seen_add a b) (fst (reasm_step (a_reasm a) b)), [], None)
      | RDone rb => (set_reasm (seen_add a b) (fst (reasm_step (a_reasm a) b)), [], Some rb)
      | RGlitch =>
        (fst (final (set_reasm (seen_add a b) (fst (reasm_step (a_reasm a) b))) b (route_actions a b) None false),
         snd (final (set_reasm (seen_add a b) (fst (reasm_step (a_reasm a) b))) b (route_actions a b) None false),
         None)
      end
    else
      (fst (final (seen_add a b) b (fst (sec_step b (route_actions a b))) (snd (sec_step b (route_actions a b)))
                  (mem ADlv (fst (sec_step b (route_actions a b))))),
       snd (final (seen_add a b) b (fst (sec_step b (route_actions a b))) (snd (sec_step b (route_actions a b)))
                  (mem ADlv (fst (sec_step b (route_actions a b))))),
       None).
  Proof.
    intros H. unfold BpAgent.recv_core. rewrite H. cbn [negb].
    change (BpAgent.route_actions matches (set_seen a (a_seen a ++ [ident_of b])) b) with (route_actions a b).
    change (a_reasm (set_seen a (a_seen a ++ [ident_of b]))) with (a_reasm a).
    fold (seen_add a b).
    destruct (mem ADlv (route_actions a b) && is_frag b).
    - destruct (reasm_step (a_reasm a) b) as [rs res]. cbn [fst snd].
      destruct res; try reflexivity.
      destruct (final (set_reasm (seen_add a b) rs) b (route_actions a b) None false). reflexivity.
    - destruct (final (seen_add a b) b (fst (sec_step b (route_actions a b))) (snd (sec_step b (route_actions a b)))
                      (mem ADlv (fst (sec_step b (route_actions a b))))). reflexivity.
  Qed.

  Lemma recv_core_seen a b :
    a_seen (fst (fst (recv_core a b))) = if accepted a b then a_seen a ++ [ident_of b] else a_seen a.
  Proof.
    destruct (accepted a b) eqn:H.
    - rewrite recv_core_accepted by exact H.
      destruct (mem ADlv (route_actions a b) && is_frag b).
      + destruct (snd (reasm_step (a_reasm a) b)); cbn [fst]; try reflexivity.
        rewrite final_seen. reflexivity.
      + cbn [fst]. rewrite final_seen. reflexivity.
    - rewrite recv_core_rejected by exact H. reflexivity.
  Qed.

  Lemma recv_core_silent a b : accepted a b = false -> snd (fst (recv_core a b)) = [] /\ snd (recv_core a b) = None /\ fst (fst (recv_core a b)) = a.
  Proof. intros H. rewrite recv_core_rejected by exact H. auto. Qed.

  Lemma recv_core_reinject_silent a b rb : snd (recv_core a b) = Some rb -> snd (fst (recv_core a b)) = [].
  Proof.
    destruct (accepted a b) eqn:H.
    - rewrite recv_core_accepted by exact H.
      destruct (mem ADlv (route_actions a b) && is_frag b).
      + destruct (snd (reasm_step (a_reasm a) b)); cbn [fst snd]; intros E; try discriminate; reflexivity.
      + cbn [snd]. discriminate.
    - rewrite recv_core_rejected by exact H. reflexivity.
  Qed.

  Lemma recv_core_subject a b e : In e (snd (fst (recv_core a b))) -> ev_subject e = b.
  Proof.
    destruct (accepted a b) eqn:H.
    - rewrite recv_core_accepted by exact H.
      destruct (mem ADlv (route_actions a b) && is_frag b).
      + destruct (snd (reasm_step (a_reasm a) b)); cbn [fst snd]; try (intros []).
        apply final_subject.
      + cbn [fst snd]. apply final_subject.
    - rewrite recv_core_rejected by exact H. intros [].
  Qed.

  Lemma seen_mono a b i : In i (a_seen a) -> In i (a_seen (fst (fst (recv_core a b)))).
  Proof.
    intros H. rewrite recv_core_seen. destruct (accepted a b); [apply in_or_app; left|]; exact H.
  Qed.

  Lemma accepted_not_seen a b : In (ident_of b) (a_seen a) -> accepted a b = false.
  Proof.
    intros H. unfold accepted. apply seen_existsb_In in H. rewrite H. cbn. rewrite andb_false_r. reflexivity.
  Qed.

  (** ** At most once *)

  Definition nonsilent (p : proc) : bool := negb (match snd p with [] => true | _ => false end).

  Lemma acts_on_app i x y : acts_on i (x ++ y) = acts_on i x ++ acts_on i y.
  Proof. unfold acts_on. apply filter_app. Qed.

  (** The state after [recv] and its processings, spelled out. *)
  Lemma recv_eq a b :
    recv a b =
    match snd (recv_core a b) with
    | None => (fst (fst (recv_core a b)), [(b, snd (fst (recv_core a b)))])
    | Some rb =>
      (fst (fst (recv_core (fst (fst (recv_core a b))) rb)),
       [(b, snd (fst (recv_core a b))); (rb, snd (fst (recv_core (fst (fst (recv_core a b))) rb)))])
    end.
  Proof.
    unfold BpAgent.recv. destruct (recv_core a b) as [[a1 ev1] re]. cbn [fst snd].
    destruct re as [rb|]; [|reflexivity].
    destruct (recv_core a1 rb) as [[a2 ev2] re2]. reflexivity.
  Qed.

  Lemma recv_seen_mono a b i : In i (a_seen a) -> In i (a_seen (fst (recv a b))).
  Proof.
    intros H. rewrite recv_eq. destruct (snd (recv_core a b)); cbn [fst].
    - apply seen_mono. apply seen_mono. exact H.
    - apply seen_mono. exact H.
  Qed.

  (** A processing with events is of an accepted bundle, whose identity is in the seen list afterwards. *)
  Lemma recv_core_acted a b :
    snd (fst (recv_core a b)) <> [] -> ~ In (ident_of b) (a_seen a) /\ In (ident_of b) (a_seen (fst (fst (recv_core a b)))).
  Proof.
    intros H. destruct (accepted a b) eqn:Hacc.
    - split.
      + intros Hin. apply accepted_not_seen in Hin. congruence.
      + rewrite recv_core_seen, Hacc. apply in_or_app. right. left. reflexivity.
    - exfalso. apply H. apply recv_core_silent. exact Hacc.
  Qed.

  Lemma recv_seen_silent a b i : In i (a_seen a) -> acts_on i (snd (recv a b)) = [].
  Proof.
    intros Hin. rewrite recv_eq.
    assert (S1 : forall a' b', In i (a_seen a') -> ident_eqb (ident_of b') i = true -> snd (fst (recv_core a' b')) = []).
    { intros a' b' Hi He. apply ident_eqb_eq in He. subst i.
      apply recv_core_silent. apply accepted_not_seen. exact Hi. }
    destruct (snd (recv_core a b)) as [rb|]; cbn [snd acts_on filter fst].
    - destruct (ident_eqb (ident_of b) i) eqn:E1.
      + rewrite (S1 a b Hin E1). cbn.
        destruct (ident_eqb (ident_of rb) i) eqn:E2; [|reflexivity].
        rewrite (S1 _ rb (seen_mono a b i Hin) E2). reflexivity.
      + cbn. destruct (ident_eqb (ident_of rb) i) eqn:E2; [|reflexivity].
        rewrite (S1 _ rb (seen_mono a b i Hin) E2). reflexivity.
    - destruct (ident_eqb (ident_of b) i) eqn:E1; [|reflexivity].
      rewrite (S1 a b Hin E1). reflexivity.
  Qed.

  Lemma run_seen_silent hist : forall a i, In i (a_seen a) -> acts_on i (snd (run a hist)) = [].
  Proof.
    induction hist as [|b t IH]; intros a i Hin; cbn [BpAgent.run]; [reflexivity|].
    destruct (recv a b) as [a1 p1] eqn:E1. destruct (run a1 t) as [a2 p2] eqn:E2. cbn [snd].
    rewrite acts_on_app.
    replace p1 with (snd (recv a b)) by (rewrite E1; reflexivity).
    rewrite (recv_seen_silent a b i Hin). cbn [app].
    replace p2 with (snd (run a1 t)) by (rewrite E2; reflexivity).
    apply IH. replace a1 with (fst (recv a b)) by (rewrite E1; reflexivity). apply recv_seen_mono. exact Hin.
  Qed.

  (** One [recv] acts on an identity at most once, and then that identity is in the seen list. *)
  Lemma recv_once a b i :
    (length (acts_on i (snd (recv a b))) <= 1)%nat
    /\ (acts_on i (snd (recv a b)) <> [] -> In i (a_seen (fst (recv a b)))).
  Proof.
    rewrite recv_eq. destruct (snd (recv_core a b)) as [rb|] eqn:Hre; cbn [snd fst].
    - pose proof (recv_core_reinject_silent a b rb Hre) as Hs. rewrite Hs.
      unfold acts_on. cbn [filter fst snd]. rewrite andb_false_r.
      destruct (ident_eqb (ident_of rb) i) eqn:E2; cbn [andb].
      + destruct (snd (fst (recv_core (fst (fst (recv_core a b))) rb))) as [|e l] eqn:Hev; cbn [negb length].
        * split; [lia|intros H; exfalso; apply H; reflexivity].
        * split; [cbn; lia|]. intros _. apply ident_eqb_eq in E2. subst i.
          apply recv_core_acted. rewrite Hev. discriminate.
      + split; [cbn; lia|intros H; exfalso; apply H; reflexivity].
    - unfold acts_on. cbn [filter fst snd].
      destruct (ident_eqb (ident_of b) i) eqn:E1; cbn [andb].
      + destruct (snd (fst (recv_core a b))) as [|e l] eqn:Hev; cbn [negb length].
        * split; [lia|intros H; exfalso; apply H; reflexivity].
        * split; [cbn; lia|]. intros _. apply ident_eqb_eq in E1. subst i.
          apply recv_core_acted. rewrite Hev. discriminate.
      + split; [cbn; lia|intros H; exfalso; apply H; reflexivity].
  Qed.

  Theorem at_most_once hist : forall a i, (length (acts_on i (snd (run a hist))) <= 1)%nat.
  Proof.
    induction hist as [|b t IH]; intros a i; cbn [BpAgent.run]; [cbn; lia|].
    destruct (recv a b) as [a1 p1] eqn:E1. destruct (run a1 t) as [a2 p2] eqn:E2. cbn [snd].
    rewrite acts_on_app, app_length.
    destruct (recv_once a b i) as [Hlen Hin]. rewrite E1 in Hlen, Hin. cbn [fst snd] in Hlen, Hin.
    destruct (acts_on i p1) as [|x l] eqn:Ha.
    - cbn [length]. specialize (IH a1 i). rewrite E2 in IH. exact IH.
    - assert (Hs : In i (a_seen a1)) by (apply Hin; discriminate).
      pose proof (run_seen_silent t a1 i Hs) as Hz. rewrite E2 in Hz. cbn [snd] in Hz. rewrite Hz.
      cbn [length] in *. lia.
  Qed.
End WithMatch.
