''' Translator target `fragbudget`: regenerates coq/Gen/FragBudget.v from the CURRENT
src/bp/app/fragment.py (``Fragment._create``) and the flag enums of
src/bp/encoding/blocks.py / bundle.py (property C05).

Translated fragments of ``Fragment._create`` (everything is an expression over named
integers / flag words, emitted as Coq definitions over ``Z`` / ``N``):

 (a) ``should_fragment = (<bool>)``                         -> should_fragment
 (b) ``non_pyld_size = <arith>`` and ``if <test>: ... raise`` -> non_pyld_size, non_pyld_too_big
 (c) ``frag_size = <arith>`` and ``if <test>: ... raise``     -> frag_size, frag_size_bad
 (d) the block selection ``if (<bool>):`` inside ``for blk in ctr.bundle.blocks`` and the inner
     ``if blk.block_num == Bundle.BLOCK_NUM_PAYLOAD``         -> keep_block, is_payload_block
 (e) ``while <test>:``, ``payload_data[<lo>:<hi>]``, ``frag_offset += <arith>``
                                                              -> frag_loop_test, frag_slice_lo/hi, frag_next_offset
 (f) the literal ``b''`` the payload of the template is set to -> template_btsd
 (g) the flag / block-number constants used                   -> flag_no_fragment, flag_is_fragment,
                                                                 flag_replicate, block_num_payload

The *statement structure* of the function is checked against a fixed whitelist (which statement
follows which; that every fragment is computed before any is scheduled; that both infeasibility
branches end in ``raise`` without scheduling or mutating the original bundle); the *expressions*
(a)-(e) are translated generically (``+ - *``, comparisons, ``and or not``, flag tests), so an edit
of the arithmetic is translated faithfully and shows up as a broken proof / a failing oracle, not
as a translator failure.

FAIL CLOSED: any statement or expression outside the whitelist raises TranslateError; py2coq.py
then records the target as failed and leaves the previous Gen file in place.
'''
import ast
import os


class TranslateError(Exception):
    pass


SRC = os.path.join('bp', 'app', 'fragment.py')
BLOCKS = os.path.join('bp', 'encoding', 'blocks.py')
BUNDLE = os.path.join('bp', 'encoding', 'bundle.py')


def _fail(node, msg):
    line = getattr(node, 'lineno', '?')
    what = ast.dump(node)[:200] if isinstance(node, ast.AST) else repr(node)
    raise TranslateError('bp/app/fragment.py:%s: %s [%s]' % (line, msg, what))


def dotted(node):
    parts = []
    while isinstance(node, ast.Attribute):
        parts.append(node.attr)
        node = node.value
    if isinstance(node, ast.Name):
        parts.append(node.id)
        return '.'.join(reversed(parts))
    return None


def is_logging(stmt):
    if not isinstance(stmt, ast.Expr) or not isinstance(stmt.value, ast.Call):
        return False
    return 'logger' in (dotted(stmt.value.func) or '').lower()


def strip(stmts):
    ''' Drop docstrings and logging calls. '''
    out = []
    for (pos, stmt) in enumerate(stmts):
        if pos == 0 and isinstance(stmt, ast.Expr) and isinstance(stmt.value, ast.Constant) and isinstance(stmt.value.value, str):
            continue
        if is_logging(stmt):
            continue
        out.append(stmt)
    return out


def is_call(node, name, nargs):
    return (isinstance(node, ast.Call) and dotted(node.func) == name and not node.keywords
            and len(node.args) == nargs)


def assign_of(stmt, name):
    if not isinstance(stmt, ast.Assign) or len(stmt.targets) != 1 or dotted(stmt.targets[0]) != name:
        _fail(stmt, 'expected an assignment to %s' % name)
    return stmt.value


def expect(cond, node, msg):
    if not cond:
        _fail(node, msg)


def is_none(node):
    return isinstance(node, ast.Constant) and node.value is None


# --------------------------------------------------------------------------- enum values


def enum_values(path, outer, inner):
    ''' {member: int} of ``class outer: class inner(enum...): NAME = <int>``. '''
    with open(path, 'r') as infile:
        tree = ast.parse(infile.read(), filename=path)
    for node in tree.body:
        if isinstance(node, ast.ClassDef) and node.name == outer:
            for sub in node.body:
                if isinstance(sub, ast.ClassDef) and sub.name == inner:
                    vals = {}
                    for stmt in sub.body:
                        if (isinstance(stmt, ast.Assign) and len(stmt.targets) == 1 and isinstance(stmt.targets[0], ast.Name)
                                and isinstance(stmt.value, ast.Constant) and type(stmt.value.value) is int):
                            vals[stmt.targets[0].id] = stmt.value.value
                    return vals
    raise TranslateError('%s: class %s.%s not found' % (path, outer, inner))


def class_int(path, cls, name):
    with open(path, 'r') as infile:
        tree = ast.parse(infile.read(), filename=path)
    for node in tree.body:
        if isinstance(node, ast.ClassDef) and node.name == cls:
            for stmt in node.body:
                if (isinstance(stmt, ast.Assign) and len(stmt.targets) == 1 and dotted(stmt.targets[0]) == name
                        and isinstance(stmt.value, ast.Constant) and type(stmt.value.value) is int):
                    return stmt.value.value
    raise TranslateError('%s: %s.%s not found' % (path, cls, name))


# --------------------------------------------------------------------------- expressions

CMP = {ast.Lt: '<?', ast.LtE: '<=?', ast.Gt: '>?', ast.GtE: '>=?', ast.Eq: '=?'}


class Exprs(object):
    ''' Expression compiler.  ``ints``: python name -> Coq term of type Z; ``lens``: name whose len() is
    a Coq Z term; ``words``: python (dotted) name -> Coq term of type N (flag words); ``consts``: dotted
    constant -> (Coq N constant name); ``nums``: python dotted name -> Coq N term compared with ==. '''

    def __init__(self, ints, lens, words, flagconsts, nums, numconsts, none_names):
        self.ints = ints
        self.lens = lens
        self.words = words
        self.flagconsts = flagconsts
        self.nums = nums
        self.numconsts = numconsts
        self.none_names = none_names
        self.used = set()

    def arith(self, node):
        if isinstance(node, ast.Constant) and type(node.value) is int:
            return '(%d)' % node.value
        name = dotted(node)
        if name is not None and name in self.ints:
            self.used.add(name)
            return self.ints[name]
        if is_call(node, 'len', 1) and dotted(node.args[0]) in self.lens:
            self.used.add('len(%s)' % dotted(node.args[0]))
            return self.lens[dotted(node.args[0])]
        if isinstance(node, ast.UnaryOp) and isinstance(node.op, ast.USub):
            return '(- %s)' % self.arith(node.operand)
        if isinstance(node, ast.BinOp) and isinstance(node.op, (ast.Add, ast.Sub, ast.Mult)):
            sym = {ast.Add: '+', ast.Sub: '-', ast.Mult: '*'}[type(node.op)]
            return '(%s %s %s)' % (self.arith(node.left), sym, self.arith(node.right))
        _fail(node, 'expression outside the whitelisted integer arithmetic')

    def flag_test(self, node):
        ''' ``<word> & <Flag constant>`` in boolean context. '''
        if isinstance(node, ast.BinOp) and isinstance(node.op, ast.BitAnd):
            (left, right) = (dotted(node.left), dotted(node.right))
            if left in self.flagconsts and right in self.words:
                (left, right) = (right, left)
            if left in self.words and right in self.flagconsts:
                self.used.add(right)
                return '(flag_set %s %s)' % (self.words[left], self.flagconsts[right])
        return None

    def boolean(self, node):
        if isinstance(node, ast.BoolOp):
            sym = '&&' if isinstance(node.op, ast.And) else '||'
            return '(' + (' %s ' % sym).join(self.boolean(val) for val in node.values) + ')'
        if isinstance(node, ast.UnaryOp) and isinstance(node.op, ast.Not):
            return '(negb %s)' % self.boolean(node.operand)
        flag = self.flag_test(node)
        if flag is not None:
            return flag
        if isinstance(node, ast.Compare) and len(node.ops) == 1:
            (left, oper, right) = (node.left, node.ops[0], node.comparators[0])
            if isinstance(oper, (ast.Is, ast.IsNot)) and is_none(right) and dotted(left) in self.none_names:
                term = self.none_names[dotted(left)]      # Coq bool: "is not None"
                return term if isinstance(oper, ast.IsNot) else '(negb %s)' % term
            if isinstance(oper, (ast.Eq, ast.NotEq)) and dotted(left) in self.nums and dotted(right) in self.numconsts:
                self.used.add(dotted(right))
                term = '(N.eqb %s %s)' % (self.nums[dotted(left)], self.numconsts[dotted(right)])
                return term if isinstance(oper, ast.Eq) else '(negb %s)' % term
            if type(oper) in CMP:
                return '(%s %s %s)' % (self.arith(left), CMP[type(oper)], self.arith(right))
            if isinstance(oper, ast.NotEq):
                return '(negb (%s =? %s))' % (self.arith(left), self.arith(right))
        _fail(node, 'boolean expression outside the whitelist')


def no_send_in(stmts, node):
    ''' An infeasibility branch: only ``ctr.route = None`` / ``ctr.sender = None`` then ``raise``. '''
    body = strip(stmts)
    expect(body and isinstance(body[-1], ast.Raise), node, 'infeasibility branch does not end in raise')
    cleared = set()
    for stmt in body[:-1]:
        ok = (isinstance(stmt, ast.Assign) and len(stmt.targets) == 1
              and dotted(stmt.targets[0]) in ('ctr.route', 'ctr.sender') and is_none(stmt.value))
        expect(ok, stmt, 'infeasibility branch does something other than clearing route/sender')
        cleared.add(dotted(stmt.targets[0]))
    # "nothing is sent" needs both: send_bundle() transmits whenever the container still has a sender
    expect(cleared == {'ctr.route', 'ctr.sender'}, node, 'infeasibility branch does not clear both ctr.route and ctr.sender')


def generate(repo_src):
    path = os.path.join(repo_src, SRC)
    with open(path, 'r') as infile:
        tree = ast.parse(infile.read(), filename=path)
    pflags = enum_values(os.path.join(repo_src, BLOCKS), 'PrimaryBlock', 'Flag')
    bflags = enum_values(os.path.join(repo_src, BLOCKS), 'CanonicalBlock', 'Flag')
    pay_num = class_int(os.path.join(repo_src, BUNDLE), 'Bundle', 'BLOCK_NUM_PAYLOAD')
    for name in ('NO_FRAGMENT', 'IS_FRAGMENT'):
        if name not in pflags:
            raise TranslateError('PrimaryBlock.Flag.%s missing' % name)
    if 'REPLICATE_IN_FRAGMENT' not in bflags:
        raise TranslateError('CanonicalBlock.Flag.REPLICATE_IN_FRAGMENT missing')

    func = None
    for node in tree.body:
        if isinstance(node, ast.ClassDef) and node.name == 'Fragment':
            for sub in node.body:
                if isinstance(sub, ast.FunctionDef) and sub.name == '_create':
                    func = sub
    if func is None:
        raise TranslateError('Fragment._create not found')
    expect([arg.arg for arg in func.args.args] == ['self', 'ctr'], func, 'unexpected parameters')

    body = strip(func.body)
    expect(len(body) == 19, func, 'expected 19 top-level statements, found %d' % len(body))
    pos = iter(range(len(body)))

    # ---- 0: no route -> nothing to do
    stmt = body[next(pos)]
    expect(isinstance(stmt, ast.If) and not stmt.orelse and isinstance(stmt.test, ast.Compare)
           and dotted(stmt.test.left) == 'ctr.route' and isinstance(stmt.test.ops[0], ast.Is) and is_none(stmt.test.comparators[0])
           and len(stmt.body) == 1 and isinstance(stmt.body[0], ast.Return) and stmt.body[0].value is None,
           stmt, 'expected "if ctr.route is None: return"')
    expect(dotted(assign_of(body[next(pos)], 'mtu')) == 'ctr.route.mtu', body[1], 'mtu is not ctr.route.mtu')
    val = assign_of(body[next(pos)], 'orig_size')
    expect(is_call(val, 'len', 1) and dotted(val.args[0]) == 'ctr.bundle', val, 'orig_size is not len(ctr.bundle)')
    expect(dotted(assign_of(body[next(pos)], 'bundle_flags')) == 'ctr.bundle.primary.bundle_flags', body[3],
           'bundle_flags is not ctr.bundle.primary.bundle_flags')

    # ---- (a) should_fragment
    pconst = {'PrimaryBlock.Flag.NO_FRAGMENT': 'flag_no_fragment', 'PrimaryBlock.Flag.IS_FRAGMENT': 'flag_is_fragment'}
    comp = Exprs(ints={'orig_size': 'orig_size', 'mtu': 'mtu'}, lens={}, words={'bundle_flags': 'bundle_flags'},
                 flagconsts=pconst, nums={}, numconsts={}, none_names={'mtu': 'mtu_set'})
    should = comp.boolean(assign_of(body[next(pos)], 'should_fragment'))
    stmt = body[next(pos)]
    expect(isinstance(stmt, ast.If) and not stmt.orelse and isinstance(stmt.test, ast.UnaryOp) and isinstance(stmt.test.op, ast.Not)
           and dotted(stmt.test.operand) == 'should_fragment', stmt, 'expected "if not should_fragment:"')
    then = strip(stmt.body)
    expect(len(then) == 1 and isinstance(then[0], ast.Return) and then[0].value is None, stmt, 'expected a bare return')

    # ---- payload and its encoded-size bound
    val = assign_of(body[next(pos)], 'pyld_blk')
    expect(is_call(val, 'ctr.block_num', 1) and dotted(val.args[0]) == 'Bundle.BLOCK_NUM_PAYLOAD', val,
           'pyld_blk is not ctr.block_num(Bundle.BLOCK_NUM_PAYLOAD)')
    val = assign_of(body[next(pos)], 'payload_data')
    expect(is_call(val, 'pyld_blk.getfieldval', 1) and isinstance(val.args[0], ast.Constant) and val.args[0].value == 'btsd', val,
           "payload_data is not pyld_blk.getfieldval('btsd')")
    val = assign_of(body[next(pos)], 'payload_size')
    expect(is_call(val, 'len', 1) and dotted(val.args[0]) == 'payload_data', val, 'payload_size is not len(payload_data)')
    val = assign_of(body[next(pos)], 'pyld_size_enc')
    expect(is_call(val, 'len', 1) and is_call(val.args[0], 'cbor2.dumps', 1) and dotted(val.args[0].args[0]) == 'payload_size', val,
           'pyld_size_enc is not len(cbor2.dumps(payload_size))')

    # ---- (b) first feasibility test
    comp_b = Exprs(ints={'orig_size': 'orig_size', 'payload_size': 'payload_size', 'pyld_size_enc': 'pyld_size_enc', 'mtu': 'mtu',
                         'non_pyld_size': 'non_pyld_size'},
                   lens={'payload_data': 'payload_size'}, words={}, flagconsts={}, nums={}, numconsts={}, none_names={})
    non_pyld = comp_b.arith(assign_of(body[next(pos)], 'non_pyld_size'))
    stmt = body[next(pos)]
    expect(isinstance(stmt, ast.If) and not stmt.orelse, stmt, 'expected the first infeasibility test')
    too_big = comp_b.boolean(stmt.test)
    no_send_in(stmt.body, stmt)

    val = assign_of(body[next(pos)], 'fragments')
    expect(isinstance(val, ast.List) and not val.elts, val, 'fragments is not initialised to []')
    val = assign_of(body[next(pos)], 'frag_offset')
    expect(isinstance(val, ast.Constant) and type(val.value) is int, val, 'frag_offset is not initialised to an integer')
    init_offset = val.value

    # ---- (e) the loop
    loop = body[next(pos)]
    expect(isinstance(loop, ast.While) and not loop.orelse, loop, 'expected the while loop')
    comp_l = Exprs(ints={'frag_offset': 'frag_offset', 'payload_size': 'payload_size', 'frag_size': 'frag_size', 'mtu': 'mtu',
                         'non_pyld_size': 'non_pyld_size', 'pyld_size_enc': 'pyld_size_enc'},
                   lens={'payload_data': 'payload_size'}, words={'blk.block_flags': 'block_flags'},
                   flagconsts={'CanonicalBlock.Flag.REPLICATE_IN_FRAGMENT': 'flag_replicate'},
                   nums={'blk.block_num': 'block_num'}, numconsts={'Bundle.BLOCK_NUM_PAYLOAD': 'block_num_payload'}, none_names={})
    loop_test = comp_l.boolean(loop.test)
    lbody = strip(loop.body)
    expect(len(lbody) == 15, loop, 'expected 15 statements in the loop body, found %d' % len(lbody))
    lpos = iter(range(len(lbody)))

    val = assign_of(lbody[next(lpos)], 'fctr')
    expect(is_call(val, 'BundleContainer', 0), val, 'fctr is not a fresh BundleContainer()')
    val = assign_of(lbody[next(lpos)], 'fctr.bundle.primary')
    expect(is_call(val, 'ctr.bundle.primary.copy', 0), val, 'fragment primary is not a copy of the original primary')
    stmt = lbody[next(lpos)]
    expect(isinstance(stmt, ast.AugAssign) and isinstance(stmt.op, ast.BitOr) and dotted(stmt.target) == 'fctr.bundle.primary.bundle_flags'
           and dotted(stmt.value) == 'PrimaryBlock.Flag.IS_FRAGMENT', stmt, 'expected bundle_flags |= IS_FRAGMENT')
    expect(dotted(assign_of(lbody[next(lpos)], 'fctr.bundle.primary.fragment_offset')) == 'frag_offset', lbody[3],
           'fragment_offset is not frag_offset')
    expect(dotted(assign_of(lbody[next(lpos)], 'fctr.bundle.primary.total_app_data_len')) == 'payload_size', lbody[4],
           'total_app_data_len is not payload_size')

    # ---- (d) block selection
    sel = lbody[next(lpos)]
    expect(isinstance(sel, ast.For) and not sel.orelse and dotted(sel.target) == 'blk' and dotted(sel.iter) == 'ctr.bundle.blocks',
           sel, 'expected "for blk in ctr.bundle.blocks"')
    sbody = strip(sel.body)
    expect(len(sbody) == 1 and isinstance(sbody[0], ast.If) and not sbody[0].orelse, sel, 'expected one if inside the block loop')
    keep = comp_l.boolean(sbody[0].test)
    kbody = strip(sbody[0].body)
    expect(len(kbody) == 3, sbody[0], 'expected copy / payload reset / append')
    val = assign_of(kbody[0], 'newblk')
    expect(is_call(val, 'blk.copy', 0), val, 'newblk is not blk.copy()')
    inner = kbody[1]
    expect(isinstance(inner, ast.If) and not inner.orelse, inner, 'expected the payload-block reset')
    is_pay = comp_l.boolean(inner.test)
    ibody = strip(inner.body)
    expect(len(ibody) == 2 and isinstance(ibody[0], ast.Expr) and is_call(ibody[0].value, 'newblk.remove_payload', 0), inner,
           'expected newblk.remove_payload()')
    setb = ibody[1]
    expect(isinstance(setb, ast.Expr) and is_call(setb.value, 'newblk.setfieldval', 2)
           and isinstance(setb.value.args[0], ast.Constant) and setb.value.args[0].value == 'btsd'
           and isinstance(setb.value.args[1], ast.Constant) and isinstance(setb.value.args[1].value, bytes), setb,
           "expected newblk.setfieldval('btsd', <bytes literal>)")
    template_btsd = setb.value.args[1].value
    app = kbody[2]
    expect(isinstance(app, ast.Expr) and is_call(app.value, 'fctr.bundle.blocks.append', 1) and dotted(app.value.args[0]) == 'newblk',
           app, 'expected fctr.bundle.blocks.append(newblk)')

    stmt = lbody[next(lpos)]
    expect(isinstance(stmt, ast.Expr) and is_call(stmt.value, 'fctr.reload', 0), stmt, 'expected fctr.reload()')
    stmt = lbody[next(lpos)]
    expect(isinstance(stmt, ast.Expr) and is_call(stmt.value, 'fctr.bundle.fill_fields', 0), stmt, 'expected fctr.bundle.fill_fields()')
    val = assign_of(lbody[next(lpos)], 'non_pyld_size')
    expect(is_call(val, 'len', 1) and dotted(val.args[0]) == 'fctr.bundle', val, 'template size is not len(fctr.bundle)')

    # ---- (c) fragment size
    frag_size = comp_l.arith(assign_of(lbody[next(lpos)], 'frag_size'))
    stmt = lbody[next(lpos)]
    expect(isinstance(stmt, ast.If) and not stmt.orelse, stmt, 'expected the second infeasibility test')
    size_bad = comp_l.boolean(stmt.test)
    no_send_in(stmt.body, stmt)

    val = assign_of(lbody[next(lpos)], 'frag_data')
    expect(isinstance(val, ast.Subscript) and dotted(val.value) == 'payload_data' and isinstance(val.slice, ast.Slice)
           and val.slice.step is None and val.slice.lower is not None and val.slice.upper is not None, val,
           'expected payload_data[<lo>:<hi>]')
    (slice_lo, slice_hi) = (comp_l.arith(val.slice.lower), comp_l.arith(val.slice.upper))
    stmt = lbody[next(lpos)]
    expect(isinstance(stmt, ast.AugAssign) and dotted(stmt.target) == 'frag_offset' and isinstance(stmt.op, (ast.Add, ast.Sub)), stmt,
           'expected frag_offset += <expr> after the slice')
    next_off = '(frag_offset %s %s)' % ('+' if isinstance(stmt.op, ast.Add) else '-', comp_l.arith(stmt.value))
    stmt = lbody[next(lpos)]
    call = stmt.value if isinstance(stmt, ast.Expr) else None
    expect(isinstance(call, ast.Call) and isinstance(call.func, ast.Attribute) and call.func.attr == 'setfieldval'
           and is_call(call.func.value, 'fctr.block_num', 1) and dotted(call.func.value.args[0]) == 'Bundle.BLOCK_NUM_PAYLOAD'
           and len(call.args) == 2 and isinstance(call.args[0], ast.Constant) and call.args[0].value == 'btsd'
           and dotted(call.args[1]) == 'frag_data', stmt, "expected fctr.block_num(PAYLOAD).setfieldval('btsd', frag_data)")
    stmt = lbody[next(lpos)]
    expect(isinstance(stmt, ast.Expr) and is_call(stmt.value, 'fragments.append', 1) and dotted(stmt.value.args[0]) == 'fctr', stmt,
           'expected fragments.append(fctr)')

    # ---- all fragments are scheduled only after the loop has finished
    out = body[next(pos)]
    expect(isinstance(out, ast.For) and not out.orelse and dotted(out.target) == 'fctr' and dotted(out.iter) == 'fragments', out,
           'expected "for fctr in fragments"')
    obody = strip(out.body)
    expect(len(obody) == 1 and isinstance(obody[0], ast.Expr) and is_call(obody[0].value, 'glib.idle_add', 2)
           and dotted(obody[0].value.args[0]) == 'self._agent.send_bundle' and dotted(obody[0].value.args[1]) == 'fctr', out,
           'expected glib.idle_add(self._agent.send_bundle, fctr)')
    tail = [body[next(pos)], body[next(pos)]]
    cleared = set()
    for stmt in tail:
        expect(isinstance(stmt, ast.Assign) and len(stmt.targets) == 1 and dotted(stmt.targets[0]) in ('ctr.route', 'ctr.sender')
               and is_none(stmt.value), stmt, 'expected ctr.route = None / ctr.sender = None')
        cleared.add(dotted(stmt.targets[0]))
    expect(cleared == {'ctr.route', 'ctr.sender'}, tail[0], 'route and sender are not both cleared')
    ret = body[next(pos)]
    expect(isinstance(ret, ast.Return) and isinstance(ret.value, ast.Constant) and ret.value.value is True, ret, 'expected "return True"')

    text = '''(** GENERATED by translate/targets/fragbudget.py from src/bp/app/fragment.py
    (Fragment._create) and the flag enums of src/bp/encoding/blocks.py, bundle.py --
    do not edit; regenerated on every check run from the current working tree. *)
From Coq Require Import ZArith NArith List Bool.
Import ListNotations.
Local Open Scope Z_scope.

(** [word & FLAG] in boolean context *)
Definition flag_set (word flag : N) : bool := negb (N.eqb (N.land word flag) 0%%N).

(** PrimaryBlock.Flag.NO_FRAGMENT / IS_FRAGMENT, CanonicalBlock.Flag.REPLICATE_IN_FRAGMENT,
    Bundle.BLOCK_NUM_PAYLOAD *)
Definition flag_no_fragment : N := %(no_frag)d%%N.
Definition flag_is_fragment : N := %(is_frag)d%%N.
Definition flag_replicate : N := %(repl)d%%N.
Definition block_num_payload : N := %(pay)d%%N.

(** should_fragment = (...)   [mtu_set: "mtu is not None"] *)
Definition should_fragment (mtu_set : bool) (mtu orig_size : Z) (bundle_flags : N) : bool := %(should)s.

(** non_pyld_size = ... ; if ...: raise *)
Definition non_pyld_size (orig_size payload_size pyld_size_enc : Z) : Z := %(non_pyld)s.
Definition non_pyld_too_big (non_pyld_size mtu : Z) : bool := %(too_big)s.

(** frag_offset = ... ; while ...: *)
Definition frag_init_offset : Z := (%(init)d).
Definition frag_loop_test (frag_offset payload_size : Z) : bool := %(loop_test)s.

(** which blocks of the original go into the fragment at [frag_offset]; which one is reset to the
    template payload *)
Definition keep_block (frag_offset : Z) (block_flags block_num : N) : bool := %(keep)s.
Definition is_payload_block (block_num : N) : bool := %(is_pay)s.

(** newblk.setfieldval('btsd', <literal>) *)
Definition template_btsd : list N := [%(tmpl)s]%%N.

(** frag_size = ... [non_pyld_size: len() of the template] ; if ...: raise *)
Definition frag_size (mtu non_pyld_size pyld_size_enc : Z) : Z := %(frag_size)s.
Definition frag_size_bad (frag_size : Z) : bool := %(size_bad)s.

(** payload_data[lo:hi] ; frag_offset += ... *)
Definition frag_slice_lo (frag_offset frag_size : Z) : Z := %(lo)s.
Definition frag_slice_hi (frag_offset frag_size : Z) : Z := %(hi)s.
Definition frag_next_offset (frag_offset frag_size : Z) : Z := %(next)s.
''' % dict(no_frag=pflags['NO_FRAGMENT'], is_frag=pflags['IS_FRAGMENT'], repl=bflags['REPLICATE_IN_FRAGMENT'], pay=pay_num,
           should=should, non_pyld=non_pyld, too_big=too_big, init=init_offset, loop_test=loop_test, keep=keep, is_pay=is_pay,
           tmpl='; '.join(str(octet) for octet in template_btsd), frag_size=frag_size, size_bad=size_bad,
           lo=slice_lo, hi=slice_hi, next=next_off)
    # every definition must only mention its own parameters (a stray name would not compile; checked here
    # so that the failure is reported as a translator failure, not as a broken build)
    scopes = {
        'should': ('mtu_set', 'mtu', 'orig_size', 'bundle_flags'),
        'non_pyld': ('orig_size', 'payload_size', 'pyld_size_enc'),
        'too_big': ('non_pyld_size', 'mtu'),
        'loop_test': ('frag_offset', 'payload_size'),
        'keep': ('frag_offset', 'block_flags', 'block_num'),
        'is_pay': ('block_num',),
        'frag_size': ('mtu', 'non_pyld_size', 'pyld_size_enc'),
        'size_bad': ('frag_size',),
        'lo': ('frag_offset', 'frag_size'), 'hi': ('frag_offset', 'frag_size'), 'next': ('frag_offset', 'frag_size'),
    }
    import re
    globs = {'flag_set', 'flag_no_fragment', 'flag_is_fragment', 'flag_replicate', 'block_num_payload', 'negb', 'N', 'eqb'}
    terms = dict(should=should, non_pyld=non_pyld, too_big=too_big, loop_test=loop_test, keep=keep, is_pay=is_pay,
                 frag_size=frag_size, size_bad=size_bad, lo=slice_lo, hi=slice_hi, next=next_off)
    for (key, allowed) in scopes.items():
        for word in re.findall(r'[A-Za-z_][A-Za-z_0-9]*', terms[key]):
            if word not in allowed and word not in globs:
                raise TranslateError('bp/app/fragment.py: expression for %s mentions %s, which is not available there' % (key, word))
    return {'Gen/FragBudget.v': text}
