(** Tie between the control structure of the endpoint model and the decision
    functions that translate/targets/tcpclhandlers.py regenerates from
    tcpcl/session.py on every run (Gen/TcpclControl.v): the entry guards of
    ContactHandler._process_queue, Messenger._idle_timeout,
    ContactHandler.terminate, the loop condition of Messenger.recv_raw, the
    guards and the REPLY flag of Messenger.send_sess_term, and the SESS_TERM
    branch of Messenger.recv_message.  Each lemma says that the model function
    IS the generated decision followed by the corresponding model action, for
    every state; a moved, dropped or altered guard in the code changes the
    generated function and the lemma stops checking. *)
From Coq Require Import ZArith NArith List Bool.
From RecordUpdate Require Import RecordSet.
From DTN Require Import Lib.Bytes Model.TcpclMsg Model.TcpclSess Model.TcpclHandlerSt Gen.TcpclControl
  Proofs.TcpclSessBasics Proofs.TcpclSentProofs1.
Import ListNotations RecordSetNotations.
Local Open Scope N_scope.

(** The state in which _process_queue has started the transfer at the head of
    the queue. *)
Definition pq_started (s : ep) (id : N) (data : bytes) (rest : list (N * bytes)) : ep :=
  emit (ESig SigSendStarted [PStrNum id; PInt (N.of_nat (length data))])
       (s <| pq_set := false |> <| pend_start := rest |> <| tx_tmp := Some (id, data) |> <| tx_len := 0 |>).

Theorem tie_process_queue s :
  process_queue s =
  match gen_pq_guard (is_none (tx_tmp s)) (in_sess s) (in_term s) (is_nil (pend_start s)) with
  | PqReturn keep => (s <| pq_set := false |>, keep)
  | PqContinue => (send_next (s <| pq_set := false |>), false)
  | PqStart =>
      match pend_start s with
      | (id, data) :: rest => (send_next (pq_started s id data rest), false)
      | [] => (s <| pq_set := false |>, false)
      end
  end.
Proof.
  unfold process_queue, gen_pq_guard, pq_started, is_none, is_nil. ep_cbn.
  destruct (tx_tmp s) as [p|]; [reflexivity|].
  destruct (in_sess s); [|reflexivity]. destruct (in_term s); [reflexivity|].
  destruct (pend_start s) as [|[id data] rest]; reflexivity.
Qed.

Theorem tie_idle_timeout s due : closed s = false -> idle_due s = Some due -> (due <=? now s) = true ->
  step s OFireIdle =
  match gen_idle_timeout (in_sess s) (in_term s) (is_sess_idle s) with
  | IdleClose => do_close (s <| idle_due := None |>)
  | IdleTerm reason reply => escape (send_sess_term reason reply (s <| idle_due := None |>))
  | IdleNothing => s <| idle_due := None |>
  end.
Proof.
  intros Hc Hd Hn. unfold step, gen_idle_timeout. rewrite Hc, Hd, Hn. ep_cbn.
  destruct (in_term s); reflexivity.
Qed.

Theorem tie_terminate s reason : closed s = false ->
  step s (OTerm reason) =
  match gen_terminate reason (in_sess s) (in_term s) (is_sess_idle s) with
  | TermClose => do_close s
  | TermSend r reply => escape (send_sess_term r reply s)
  | TermNothing => s
  end.
Proof. intros Hc. unfold step, gen_terminate. rewrite Hc. destruct (in_sess s); reflexivity. Qed.

Theorem tie_rx_loop fuel s :
  recv_loop (S fuel) s =
  if gen_rx_loop_guard (negb (is_nil (rx_buf s))) (negb (closed s)) then
    match parse_frame (in_conn s) (rx_buf s) with
    | None => ok s
    | Some (fr, rest) =>
        match recv_frame fr (s <| rx_buf := rest |> <| handled := handled s ++ [fr] |>) with
        | (s', None) => recv_loop fuel s'
        | (s', Some k) => raise k s'
        end
    end
  else ok s.
Proof.
  cbn [recv_loop]. unfold gen_rx_loop_guard. destruct (is_nil (rx_buf s)), (closed s); reflexivity.
Qed.

Theorem tie_send_sess_term reason reply s :
  send_sess_term reason reply s =
  if gen_sst_raises (in_sess s) (in_term s) then raise EX_RUNTIME s
  else ok (send_msg (MSessTerm (gen_sst_flags reply) reason) (set_state ST_ENDING (s <| in_term := true |>))).
Proof.
  unfold send_sess_term, gen_sst_raises, gen_sst_flags.
  destruct (in_sess s), (in_term s), reply; reflexivity.
Qed.

Theorem tie_term_dispatch fl reason s :
  handle_msg (MSessTerm fl reason) s =
  if gen_term_reject (in_sess s) (in_term s) then (s, Reject REJ_UNEXPECTED)
  else
    let '(s1, exc) := if gen_term_reply (in_sess s) (in_term s) then send_sess_term reason true s else (s, None) in
    match exc with
    | Some k => (s1, Escaped k)
    | None => (check_sess_term (flush_pend_start s1), Done)
    end.
Proof.
  unfold handle_msg, gen_term_reject, gen_term_reply. destruct (in_sess s), (in_term s); reflexivity.
Qed.

(** send_bundle_data -> _add_queue_item: refused (RuntimeError to the caller,
    nothing else changes) exactly when the generated guard says so; otherwise
    the bundle is queued under a fresh id and a queue run is requested. *)
Theorem tie_send_bundle s data : closed s = false ->
  step s (OSend data) =
  if gen_add_queue_refused (in_sess s) (in_term s) then emit (EExc EX_RUNTIME) s
  else
    emit (ERet 1 (PStrNum (next_id s)))
         (pq_trigger (s <| next_id := next_id s + 1 |> <| pend_start := pend_start s ++ [(next_id s, data)] |>
                        <| tx_map := dict_set (next_id s) 0 (tx_map s) |>)).
Proof. intros Hc. unfold step, gen_add_queue_refused. rewrite Hc. destruct (in_term s); reflexivity. Qed.
