(** Basic facts about the endpoint model [Model/TcpclSess.v] shared by the
    TCPCL property proofs: induction over operation lists, and the behaviour
    of closed endpoints. *)
From Coq Require Import List NArith ZArith Arith Bool Lia.
From RecordUpdate Require Import RecordSet.
From DTN Require Import Lib.Bytes Model.TcpclMsg Model.TcpclSess.
Import ListNotations RecordSetNotations.
Local Open Scope N_scope.

Lemma run_app c ops1 ops2 : run c (ops1 ++ ops2) = fold_left step ops2 (run c ops1).
Proof. unfold run. apply fold_left_app. Qed.

Lemma run_snoc c ops o : run c (ops ++ [o]) = step (run c ops) o.
Proof. rewrite run_app. reflexivity. Qed.

(** Every reachable state satisfies an invariant that holds initially and is
    preserved by every operation. *)
Theorem run_invariant (P : ep -> Prop) c :
  P (init c) -> (forall s o, P s -> P (step s o)) -> forall ops, P (run c ops).
Proof.
  intros H0 Hstep ops. unfold run.
  assert (G : forall s, P s -> P (fold_left step ops s)).
  { induction ops as [|o ops IH]; intros s Hs; cbn [fold_left]; [exact Hs|]. apply IH, Hstep, Hs. }
  apply G, H0.
Qed.

(** The same for invariants that may depend on the configuration. *)
Theorem run_invariant_from (P : ep -> Prop) s0 :
  P s0 -> (forall s o, P s -> P (step s o)) -> forall ops, P (fold_left step ops s0).
Proof.
  intros H0 Hstep ops. revert s0 H0.
  induction ops as [|o ops IH]; intros s Hs; cbn [fold_left]; [exact Hs|]. apply IH, Hstep, Hs.
Qed.

(** A closed endpoint only sees the clock move. *)
Lemma step_closed s o : closed s = true ->
  step s o = match o with OAdvance dt => s <| now := now s + dt |> | _ => s end.
Proof. intros H. destruct o; cbn [step]; rewrite ?H; reflexivity. Qed.

Lemma cf_step s o : cf (step s o) = cf s -> True.
Proof. trivial. Qed.
