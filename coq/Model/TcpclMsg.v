(** TCPCLv4 (RFC 9174) contact header and messages as the scapy classes of
    /repo/src/tcpcl/{contact,messages,extend,formats}.py encode and dissect
    them.  Definitions only.

    [encode_msg] is what [bytes(MessageHead()/X(...))] produces.
    [parse_msg] is the *probe* of [Messenger.recv_raw]: dissect the receive
    buffer, and if (and only if) a complete, length-consistent message is at
    its front return it with the remaining octets ([None] = "partial":
    scapy falls back to a Raw payload or raises VerifyError, and recv_raw
    leaves the buffer untouched). *)
From Coq Require Import List NArith ZArith Arith Bool Lia.
From DTN Require Import Lib.Bytes.
Import ListNotations.
Local Open Scope N_scope.

(** Extension item (TLV): flags(1) type(2) length(2) value. *)
Record extitem := mkExt { ei_flags : N; ei_type : N; ei_val : bytes }.

Inductive msg :=
| MXferSeg (flags xid : N) (exts : list extitem) (data : bytes)   (* 0x01 *)
| MXferAck (flags xid len : N)                                    (* 0x02 *)
| MXferRefuse (reason xid : N)                                    (* 0x03 *)
| MKeepalive                                                      (* 0x04 *)
| MSessTerm (flags reason : N)                                    (* 0x05 *)
| MReject (rej_id reason : N)                                     (* 0x06 *)
| MSessInit (keepalive seg_mru xfer_mru : N) (nodeid : bytes) (exts : list extitem). (* 0x07 *)

(** The six-octet contact header: magic(4) version(1) flags(1). *)
Record contact := mkContact { ch_magic : bytes; ch_version : N; ch_flags : N }.

Inductive frame := FContact (c : contact) | FMsg (m : msg).

Definition FLAG_END : N := 1.
Definition FLAG_START : N := 2.
Definition has_end (flags : N) : bool := N.testbit flags 0.
Definition has_start (flags : N) : bool := N.testbit flags 1.

Definition MAGIC : bytes := [100; 116; 110; 33].   (* "dtn!" *)

(** Which extension types are bound to fixed-size classes (extend.py):
    a bound type must carry exactly that many value octets, otherwise the
    TLV's post_dissection length check fails. *)
Definition xfer_ext_len (ty : N) : option nat :=
  if ty =? 1 then Some 8%nat else if ty =? 255 then Some 10%nat else None.
Definition sess_ext_len (ty : N) : option nat :=
  if ty =? 255 then Some 10%nat else None.

Definition ext_len_ok (known : N -> option nat) (ty : N) (len : nat) : bool :=
  match known ty with Some k => (len =? k)%nat | None => true end.

(** ** Encoding *)

Definition encode_ext (e : extitem) : bytes :=
  be 1 (ei_flags e) ++ be 2 (ei_type e) ++ be 2 (N.of_nat (length (ei_val e))) ++ ei_val e.

Definition encode_exts (l : list extitem) : bytes := concat (map encode_ext l).

Definition encode_msg (m : msg) : bytes :=
  match m with
  | MXferSeg flags xid exts data =>
      [1] ++ be 1 flags ++ be 8 xid
      ++ (if has_start flags
          then be 4 (N.of_nat (length (encode_exts exts))) ++ encode_exts exts
          else [])
      ++ be 8 (N.of_nat (length data)) ++ data
  | MXferAck flags xid len => [2] ++ be 1 flags ++ be 8 xid ++ be 8 len
  | MXferRefuse reason xid => [3] ++ be 1 reason ++ be 8 xid
  | MKeepalive => [4]
  | MSessTerm flags reason => [5] ++ be 1 flags ++ be 1 reason
  | MReject rej_id reason => [6] ++ be 1 rej_id ++ be 1 reason
  | MSessInit ka smru xmru nodeid exts =>
      [7] ++ be 2 ka ++ be 8 smru ++ be 8 xmru
      ++ be 2 (N.of_nat (length nodeid)) ++ nodeid
      ++ be 4 (N.of_nat (length (encode_exts exts))) ++ encode_exts exts
  end.

Definition encode_contact (c : contact) : bytes :=
  ch_magic c ++ be 1 (ch_version c) ++ be 1 (ch_flags c).

Definition encode_frame (f : frame) : bytes :=
  match f with FContact c => encode_contact c | FMsg m => encode_msg m end.

(** ** Well-formedness: every field fits its width *)

Definition wf_ext (known : N -> option nat) (e : extitem) : Prop :=
  ei_flags e < 256 /\ ei_type e < 65536 /\ N.of_nat (length (ei_val e)) < 65536
  /\ wf_bytes (ei_val e) /\ ext_len_ok known (ei_type e) (length (ei_val e)) = true.

Definition wf_msg (m : msg) : Prop :=
  match m with
  | MXferSeg flags xid exts data =>
      flags < 256 /\ xid < 2^64 /\ Forall (wf_ext xfer_ext_len) exts
      /\ N.of_nat (length (encode_exts exts)) < 2^32
      /\ (has_start flags = false -> exts = [])
      /\ N.of_nat (length data) < 2^64 /\ wf_bytes data
  | MXferAck flags xid len => flags < 256 /\ xid < 2^64 /\ len < 2^64
  | MXferRefuse reason xid => reason < 256 /\ xid < 2^64
  | MKeepalive => True
  | MSessTerm flags reason => flags < 256 /\ reason < 256
  | MReject rej_id reason => rej_id < 256 /\ reason < 256
  | MSessInit ka smru xmru nodeid exts =>
      ka < 65536 /\ smru < 2^64 /\ xmru < 2^64
      /\ N.of_nat (length nodeid) < 65536 /\ wf_bytes nodeid
      /\ Forall (wf_ext sess_ext_len) exts
      /\ N.of_nat (length (encode_exts exts)) < 2^32
  end.

Definition wf_contact (c : contact) : Prop :=
  length (ch_magic c) = 4%nat /\ wf_bytes (ch_magic c) /\ ch_version c < 256 /\ ch_flags c < 256.

Definition wf_frame (f : frame) : Prop :=
  match f with FContact c => wf_contact c | FMsg m => wf_msg m end.

(** Boolean versions (for the generated case files and non-vacuity examples). *)
Definition wf_extb (known : N -> option nat) (e : extitem) : bool :=
  (ei_flags e <? 256) && (ei_type e <? 65536) && (N.of_nat (length (ei_val e)) <? 65536)
  && wf_bytesb (ei_val e) && ext_len_ok known (ei_type e) (length (ei_val e)).

Definition wf_msgb (m : msg) : bool :=
  match m with
  | MXferSeg flags xid exts data =>
      (flags <? 256) && (xid <? 2^64) && forallb (wf_extb xfer_ext_len) exts
      && (N.of_nat (length (encode_exts exts)) <? 2^32)
      && (has_start flags || match exts with [] => true | _ => false end)
      && (N.of_nat (length data) <? 2^64) && wf_bytesb data
  | MXferAck flags xid len => (flags <? 256) && (xid <? 2^64) && (len <? 2^64)
  | MXferRefuse reason xid => (reason <? 256) && (xid <? 2^64)
  | MKeepalive => true
  | MSessTerm flags reason => (flags <? 256) && (reason <? 256)
  | MReject rej_id reason => (rej_id <? 256) && (reason <? 256)
  | MSessInit ka smru xmru nodeid exts =>
      (ka <? 65536) && (smru <? 2^64) && (xmru <? 2^64)
      && (N.of_nat (length nodeid) <? 65536) && wf_bytesb nodeid
      && forallb (wf_extb sess_ext_len) exts
      && (N.of_nat (length (encode_exts exts)) <? 2^32)
  end.

(** ** Parsing (the probe) *)

Definition take_n (n : nat) (l : bytes) : option (bytes * bytes) :=
  if (length l <? n)%nat then None else Some (firstn n l, skipn n l).

(** Extension items filling a length-delimited region exactly. *)
Fixpoint parse_exts (known : N -> option nat) (fuel : nat) (l : bytes) : option (list extitem) :=
  match l with
  | [] => Some []
  | _ =>
    match fuel with
    | O => None
    | S f =>
      match take_be 1 l with
      | None => None
      | Some (fl, l1) =>
        match take_be 2 l1 with
        | None => None
        | Some (ty, l2) =>
          match take_be 2 l2 with
          | None => None
          | Some (len, l3) =>
            match take_n (N.to_nat len) l3 with
            | None => None
            | Some (val, l4) =>
              if ext_len_ok known ty (N.to_nat len) then
                match parse_exts known f l4 with
                | Some items => Some (mkExt fl ty val :: items)
                | None => None
                end
              else None
            end
          end
        end
      end
    end
  end.

Definition parse_ext_region (known : N -> option nat) (l : bytes) : option (list extitem * bytes) :=
  match take_be 4 l with
  | None => None
  | Some (size, l1) =>
    match take_n (N.to_nat size) l1 with
    | None => None
    | Some (region, l2) =>
      match parse_exts known (S (length region)) region with
      | Some items => Some (items, l2)
      | None => None
      end
    end
  end.

Definition parse_body (id : N) (l : bytes) : option (msg * bytes) :=
  if id =? 1 then
    match take_be 1 l with None => None | Some (flags, l1) =>
    match take_be 8 l1 with None => None | Some (xid, l2) =>
    match (if has_start flags then parse_ext_region xfer_ext_len l2 else Some ([], l2)) with
    | None => None
    | Some (exts, l3) =>
      match take_be 8 l3 with None => None | Some (len, l4) =>
      match take_n (N.to_nat len) l4 with None => None | Some (data, l5) =>
        Some (MXferSeg flags xid exts data, l5)
      end end
    end end end
  else if id =? 2 then
    match take_be 1 l with None => None | Some (flags, l1) =>
    match take_be 8 l1 with None => None | Some (xid, l2) =>
    match take_be 8 l2 with None => None | Some (len, l3) =>
      Some (MXferAck flags xid len, l3)
    end end end
  else if id =? 3 then
    match take_be 1 l with None => None | Some (reason, l1) =>
    match take_be 8 l1 with None => None | Some (xid, l2) =>
      Some (MXferRefuse reason xid, l2)
    end end
  else if id =? 4 then Some (MKeepalive, l)
  else if id =? 5 then
    match take_be 1 l with None => None | Some (flags, l1) =>
    match take_be 1 l1 with None => None | Some (reason, l2) =>
      Some (MSessTerm flags reason, l2)
    end end
  else if id =? 6 then
    match take_be 1 l with None => None | Some (rej, l1) =>
    match take_be 1 l1 with None => None | Some (reason, l2) =>
      Some (MReject rej reason, l2)
    end end
  else if id =? 7 then
    match take_be 2 l with None => None | Some (ka, l1) =>
    match take_be 8 l1 with None => None | Some (smru, l2) =>
    match take_be 8 l2 with None => None | Some (xmru, l3) =>
    match take_be 2 l3 with None => None | Some (nlen, l4) =>
    match take_n (N.to_nat nlen) l4 with None => None | Some (nodeid, l5) =>
    match parse_ext_region sess_ext_len l5 with None => None | Some (exts, l6) =>
      Some (MSessInit ka smru xmru nodeid exts, l6)
    end end end end end end
  else None.  (* unknown message type: never complete (the stream stalls) *)

Definition parse_msg (l : bytes) : option (msg * bytes) :=
  match l with
  | [] => None
  | id :: rest => parse_body id rest
  end.

(** Contact header: fixed six octets (recv_raw waits for all of them). *)
Definition parse_contact (l : bytes) : option (contact * bytes) :=
  match take_n 4 l with None => None | Some (magic, l1) =>
  match take_be 1 l1 with None => None | Some (ver, l2) =>
  match take_be 1 l2 with None => None | Some (flags, l3) =>
    Some (mkContact magic ver flags, l3)
  end end end.

(** The probe, by phase ([in_conn = false]: expecting the contact header). *)
Definition parse_frame (in_conn : bool) (l : bytes) : option (frame * bytes) :=
  if in_conn
  then match parse_msg l with Some (m, r) => Some (FMsg m, r) | None => None end
  else match parse_contact l with Some (c, r) => Some (FContact c, r) | None => None end.

(** Rendering for the correspondence files: a message as a flat list of
    numbers and octet strings the Python side can compare with scapy's
    dissection. *)
Definition render_ext (e : extitem) : list bytes := [[ei_flags e]; [ei_type e]; ei_val e].
Definition render_msg (m : msg) : list bytes :=
  match m with
  | MXferSeg flags xid exts data => [[1]; [flags]; [xid]; data] ++ concat (map render_ext exts)
  | MXferAck flags xid len => [[2]; [flags]; [xid]; [len]]
  | MXferRefuse reason xid => [[3]; [reason]; [xid]]
  | MKeepalive => [[4]]
  | MSessTerm flags reason => [[5]; [flags]; [reason]]
  | MReject rej reason => [[6]; [rej]; [reason]]
  | MSessInit ka smru xmru nodeid exts => [[7]; [ka]; [smru]; [xmru]; nodeid] ++ concat (map render_ext exts)
  end.
Definition render_frame (f : frame) : list bytes :=
  match f with
  | FContact c => [[0]; ch_magic c; [ch_version c]; [ch_flags c]]
  | FMsg m => render_msg m
  end.
