(** Agent.shutdown()/stop(): walking a list of handlers while closing a
    handler removes it from that very list.  Python's list iterator keeps an
    index into the live list, so after a removal at the current position the
    next element is skipped.  [walk_live] models that; [walk_snapshot] is the
    iteration over [tuple(self._handlers)]. *)
From Coq Require Import List Arith Bool Lia.
Import ListNotations.

Section Walk.
  Variable H : Type.
  Variable closes : H -> bool.        (* does acting on this handler close (and so remove) it? *)

  Definition walk_snapshot (l : list H) : list H := l.

  (** index-based iteration over the live list; the visited element is
      removed from the list iff [closes] *)
  Fixpoint walk_live (fuel i : nat) (l : list H) : list H :=
    match fuel with
    | O => []
    | S f =>
      match nth_error l i with
      | None => []
      | Some h =>
        if closes h
        then h :: walk_live f (S i) (firstn i l ++ skipn (S i) l)
        else h :: walk_live f (S i) l
      end
    end.

  Theorem snapshot_visits_all : forall l h, In h l -> In h (walk_snapshot l).
  Proof. intros l h Hin. exact Hin. Qed.
End Walk.

(** With the live list a handler is skipped as soon as an earlier one closes. *)
Theorem live_skips : exists (l : list nat) (closes : nat -> bool) (h : nat),
  In h l /\ ~ In h (walk_live nat closes (length l) 0 l).
Proof.
  exists [1; 2], (fun x => Nat.eqb x 1), 2. split; [cbn; auto|].
  cbn. intros [E|[]]. discriminate E.
Qed.
