(** Proofs about Model/BpSecChain.v (property C12). *)
From Coq Require Import ZArith NArith List Bool Lia ZifyBool ZifyN ZifyNat.
From DTN Require Import Model.BpSecChain.
Import ListNotations.
Local Open Scope N_scope.

(** * The verdict of a block does not depend on the state of the bundle *)

Lemma run_tgts_verdict : forall a b tg d,
  match snd (run_tgts a b tg d) with
  | None => tgts_result tg = VRaised
  | Some (Some x, _) => tgts_result tg = VCode x
  | Some (None, _) => tgts_result tg = VNone
  end.
Proof.
  intros a b tg. induction tg as [|[t r] rest IH]; intro d; cbn [run_tgts tgts_result snd].
  - reflexivity.
  - destruct r as [p|c|].
    + specialize (IH (if a && b then set_btsd t p d else d)).
      destruct (run_tgts a b rest (if a && b then set_btsd t p d else d)) as [d' [[f kept]|]];
        cbn [snd] in *; [destruct f|]; exact IH.
    + specialize (IH d).
      destruct (run_tgts a b rest d) as [d' [[f kept]|]]; cbn [snd] in *.
      * destruct f; rewrite IH; reflexivity.
      * rewrite IH. reflexivity.
    + reflexivity.
Qed.

Lemma verify_block_result : forall c s v, snd (verify_block c s v) = blk_result s.
Proof.
  intros c s v. unfold verify_block, blk_result.
  destruct (negb (s_ctx s)); [reflexivity|].
  destruct (s_pre s); try reflexivity.
  pose proof (run_tgts_verdict (accept_after_verify c) (s_bcb s) (s_tgts s) (v_data v)) as H.
  destruct (run_tgts (accept_after_verify c) (s_bcb s) (s_tgts s) (v_data v)) as [d [[f kept]|]];
    cbn [snd] in *; [destruct f|]; symmetry; exact H.
Qed.

(** The [failure] list of a verification step: one code per block that does not verify, in block order. *)
Definition failures (l : list secblk) : list N :=
  fold_right (fun s rs => push (blk_result s) rs) [] l.

Lemma verify_all_failures : forall c l v, snd (verify_all c l v) = failures l.
Proof.
  intros c l. induction l as [|s rest IH]; intro v; cbn [verify_all].
  - reflexivity.
  - pose proof (verify_block_result c s v) as Hr.
    destruct (verify_block c s v) as [v1 r]. cbn [snd] in Hr. subst r.
    specialize (IH v1). destruct (verify_all c rest v1) as [v2 rs]. cbn [snd] in *. subst rs.
    reflexivity.
Qed.

Lemma step_code_none : forall r, step_code r = None <-> r = VNone.
Proof. intros [|code|]; cbn; split; intros; congruence. Qed.

Lemma failures_nil : forall l, failures l = [] <-> (forall s, In s l -> blk_result s = VNone).
Proof.
  induction l as [|s rest IH]; cbn [failures fold_right].
  - split; [intros _ x []|reflexivity].
  - fold (failures rest). unfold push. destruct (step_code (blk_result s)) eqn:E.
    + split; [discriminate|]. intro H. specialize (H s (or_introl eq_refl)).
      apply step_code_none in H. congruence.
    + apply step_code_none in E. rewrite IH. split.
      * intros H x [<-|Hx]; [exact E|apply H, Hx].
      * intros H x Hx. apply H. right. exact Hx.
Qed.

Lemma failures_in : forall l code,
  In code (failures l) -> exists s, In s l /\ step_code (blk_result s) = Some code.
Proof.
  induction l as [|s rest IH]; intros code H; [destruct H|].
  cbn [failures fold_right] in H. fold (failures rest) in H. unfold push in H.
  destruct (step_code (blk_result s)) eqn:E.
  - destruct H as [<-|H].
    + exists s. split; [left; reflexivity|exact E].
    + destruct (IH code H) as [x [Hx Ex]]. exists x. split; [right; exact Hx|exact Ex].
  - destruct (IH code H) as [x [Hx Ex]]. exists x. split; [right; exact Hx|exact Ex].
Qed.

(** * [max(failure)] *)

Lemma max_code_none : forall l, max_code l = None <-> l = [].
Proof. intros [|r rest]; cbn; split; intros; congruence. Qed.

Lemma max_code_some : forall l, l <> [] -> exists m, max_code l = Some m.
Proof. intros [|r rest] H; [congruence|]. cbn. eauto. Qed.

Lemma max_code_range : forall l m,
  max_code l = Some m -> (forall code, In code l -> sec_reason code = true) -> sec_reason m = true.
Proof.
  induction l as [|code rest IH]; intros m Hm Hall; [discriminate|].
  cbn [max_code] in Hm. pose proof (Hall code (or_introl eq_refl)) as Hc.
  destruct (max_code rest) as [x|] eqn:E.
  - assert (Hx : sec_reason x = true) by (apply IH; [reflexivity|intros y Hy; apply Hall; right; exact Hy]).
    inversion Hm; subst m. unfold sec_reason in *. lia.
  - inversion Hm; subst m. exact Hc.
Qed.

(** * One verification step *)

Lemma sec_step_unfold : forall c bcb secs st,
  c_deliver st = true ->
  sec_step c bcb secs st =
  conclude st (fst (verify_all c (of_kind bcb secs) (c_view st))) (failures (of_kind bcb secs)).
Proof.
  intros c bcb secs st Hd. unfold sec_step. rewrite Hd. cbn [negb].
  pose proof (verify_all_failures c (of_kind bcb secs) (c_view st)) as H.
  destruct (verify_all c (of_kind bcb secs) (c_view st)) as [v fl]. cbn [fst snd] in *. subst fl. reflexivity.
Qed.

Lemma in_of_kind : forall bcb secs s,
  In s (of_kind bcb secs) <-> In s secs /\ s_visible s = true /\ s_bcb s = bcb.
Proof.
  intros bcb secs s. unfold of_kind. rewrite filter_In. rewrite andb_true_iff, Bool.eqb_true_iff. tauto.
Qed.

(** A step whose blocks all verify changes neither 'deliver' nor 'delete' and lets the chain go on. *)
Lemma sec_step_clean : forall c bcb secs st,
  c_deliver st = true -> failures (of_kind bcb secs) = [] ->
  sec_step c bcb secs st =
  (mkCS true (c_delete st) (fst (verify_all c (of_kind bcb secs) (c_view st))), Continue).
Proof.
  intros c bcb secs st Hd Hf. rewrite sec_step_unfold by exact Hd. rewrite Hf.
  unfold conclude. cbn [max_code]. rewrite Hd. reflexivity.
Qed.

(** A step with a block that does not verify removes 'deliver', records 'delete' with the largest code
    of the step and stops the chain. *)
Lemma sec_step_dirty : forall c bcb secs st,
  c_deliver st = true -> failures (of_kind bcb secs) <> [] ->
  exists v m, sec_step c bcb secs st = (mkCS false (Some m) v, Interrupt)
              /\ max_code (failures (of_kind bcb secs)) = Some m.
Proof.
  intros c bcb secs st Hd Hf. rewrite sec_step_unfold by exact Hd.
  destruct (max_code_some _ Hf) as [m Em]. unfold conclude. rewrite Em. eauto.
Qed.

Lemma failures_cons_dec : forall l, {failures l = []} + {failures l <> []}.
Proof. intro l. destruct (failures l); [left; reflexivity|right; discriminate]. Qed.

(** The code recorded when some visible block does not verify: the largest code of the first step
    (BCBs, then BIBs) that has such a block. *)
Lemma deleted_with_max : forall c secs data,
  (exists s, In s secs /\ s_visible s = true /\ blk_result s <> VNone) ->
  exists bcb m,
    max_code (failures (of_kind bcb secs)) = Some m
    /\ r_reached (recv_sec c secs data) = false /\ r_app (recv_sec c secs data) = None
    /\ r_out (recv_sec c secs data) = Deleted m.
Proof.
  intros c secs data [s [Hin [Hvis Hbad]]].
  unfold recv_sec, chain.
  set (st0 := mkCS true None (view_of secs data)).
  assert (Hd0 : c_deliver st0 = true) by reflexivity.
  destruct (failures_cons_dec (of_kind true secs)) as [F1|F1].
  - rewrite (sec_step_clean c true secs st0 Hd0 F1).
    set (st1 := mkCS true (c_delete st0) _).
    assert (Hd1 : c_deliver st1 = true) by reflexivity.
    assert (F2 : failures (of_kind false secs) <> []).
    { intro F2. destruct (s_bcb s) eqn:K.
      - rewrite failures_nil in F1. apply Hbad, F1, in_of_kind. auto.
      - rewrite failures_nil in F2. apply Hbad, F2, in_of_kind. auto. }
    destruct (sec_step_dirty c false secs st1 Hd1 F2) as [v [m [E Em]]].
    rewrite E. exists false, m. cbn. auto.
  - destruct (sec_step_dirty c true secs st0 Hd0 F1) as [v [m [E Em]]].
    rewrite E. exists true, m. cbn. auto.
Qed.

(** For any number and order of blocks: one visible block that does not verify and the bundle is not
    delivered but marked deleted. *)
Theorem never_delivered : forall c secs data,
  (exists s, In s secs /\ s_visible s = true /\ blk_result s <> VNone) ->
  r_reached (recv_sec c secs data) = false /\ r_app (recv_sec c secs data) = None
  /\ exists code, r_out (recv_sec c secs data) = Deleted code.
Proof.
  intros c secs data H. destruct (deleted_with_max c secs data H) as [bcb [m [_ [H1 [H2 H3]]]]].
  split; [exact H1|]. split; [exact H2|]. exists m. exact H3.
Qed.

Lemma FAILED_SEC_reason : sec_reason FAILED_SEC = true.
Proof. reflexivity. Qed.

(** ... and the reason is a security reason, whether the context answered a code or an exception escaped it. *)
Theorem fail_closed : forall c secs data,
  (exists s, In s secs /\ s_visible s = true /\ blk_result s <> VNone) ->
  (forall s code, In s secs -> s_visible s = true -> blk_result s = VCode code -> sec_reason code = true) ->
  r_reached (recv_sec c secs data) = false /\ r_app (recv_sec c secs data) = None
  /\ exists code, r_out (recv_sec c secs data) = Deleted code /\ 12 <= code <= 16.
Proof.
  intros c secs data H Hcodes. destruct (deleted_with_max c secs data H) as [bcb [m [Em [H1 [H2 H3]]]]].
  split; [exact H1|]. split; [exact H2|]. exists m. split; [exact H3|].
  assert (Hm : sec_reason m = true).
  { apply (max_code_range _ _ Em). intros code Hc.
    destruct (failures_in _ _ Hc) as [x [Hx Ex]]. apply in_of_kind in Hx. destruct Hx as [Hx [Hv _]].
    destruct (blk_result x) as [|k|] eqn:R; cbn [step_code] in Ex.
    - discriminate.
    - inversion Ex; subst k. eapply Hcodes; eauto.
    - inversion Ex; subst code. exact FAILED_SEC_reason. }
  unfold sec_reason in Hm. lia.
Qed.

(** * Pass-through *)

Definition all_ok (tg : list (N * tres)) : Prop := forall tr, In tr tg -> exists p, snd tr = TOk p.

Lemma tgts_result_none_ok : forall tg, tgts_result tg = VNone -> all_ok tg.
Proof.
  induction tg as [|[t r] rest IH]; intros H tr Hin; [destruct Hin|].
  cbn [tgts_result] in H. destruct r as [p|code|].
  - destruct Hin as [<-|Hin]; [exists p; reflexivity|apply IH; assumption].
  - destruct (tgts_result rest); discriminate.
  - discriminate.
Qed.

Lemma blk_result_none : forall s,
  blk_result s = VNone -> s_ctx s = true /\ s_pre s = PreOk /\ all_ok (s_tgts s).
Proof.
  intros s H. unfold blk_result in H. destruct (s_ctx s); cbn [negb] in H; [|discriminate].
  destruct (s_pre s); try discriminate. split; [reflexivity|]. split; [reflexivity|].
  apply tgts_result_none_ok. exact H.
Qed.

Lemma run_tgts_all_ok : forall a b tg d,
  all_ok tg ->
  run_tgts a b tg d =
  (if a && b then fold_left (fun d' tp => set_btsd (fst tp) (snd tp) d') (plains tg) d else d,
   Some (None, if a then [] else map fst tg)).
Proof.
  intros a b tg. induction tg as [|[t r] rest IH]; intros d Hok.
  - cbn. destruct (a && b), a; reflexivity.
  - destruct (Hok (t, r) (or_introl eq_refl)) as [p Hp]. cbn [snd] in Hp. subst r.
    cbn [run_tgts]. rewrite IH by (intros tr Htr; apply Hok; right; exact Htr).
    unfold plains. cbn [flat_map snd fst app fold_left map].
    destruct (a && b), a; reflexivity.
Qed.

Lemma verify_block_ok : forall c s v,
  blk_result s = VNone ->
  verify_block c s v =
  (mkView (if accept_after_verify c && s_bcb s then decrypt_block (v_data v) s else v_data v)
          (set_targets (s_num s) (if accept_after_verify c then [] else map fst (s_tgts s)) (v_secs v)),
   VNone).
Proof.
  intros c s v H. destruct (blk_result_none s H) as [Hc [Hp Hok]].
  unfold verify_block. rewrite Hc, Hp. cbn [negb].
  rewrite run_tgts_all_ok by exact Hok. reflexivity.
Qed.

(** ** acceptance on: every verified visible block is removed *)

Definition removed (nums : list N) (sv : secview) : secview :=
  filter (fun e => negb (existsb (N.eqb (fst e)) nums)) sv.

Lemma removed_nil : forall sv, removed [] sv = sv.
Proof.
  intro sv. unfold removed. cbn. induction sv as [|e sv IH]; [reflexivity|]. cbn. rewrite IH. reflexivity.
Qed.

Lemma removed_cons : forall n nums sv,
  removed nums (filter (fun e => negb (fst e =? n)) sv) = removed (n :: nums) sv.
Proof.
  intros n nums sv. unfold removed. induction sv as [|e sv IH]; [reflexivity|].
  cbn [filter existsb]. destruct (fst e =? n) eqn:E; cbn [negb orb].
  - exact IH.
  - cbn [filter]. rewrite IH. reflexivity.
Qed.

Lemma verify_all_accept : forall c l v,
  accept_after_verify c = true ->
  (forall s, In s l -> blk_result s = VNone) ->
  verify_all c l v =
  (mkView (fold_left (fun d s => if s_bcb s then decrypt_block d s else d) l (v_data v))
          (removed (map s_num l) (v_secs v)), []).
Proof.
  intros c l. induction l as [|s rest IH]; intros v Ha Hok.
  - cbn. rewrite removed_nil. destruct v; reflexivity.
  - cbn [verify_all]. rewrite verify_block_ok by (apply Hok; left; reflexivity).
    rewrite Ha. cbn [andb set_targets].
    rewrite IH; [|exact Ha|intros x Hx; apply Hok; right; exact Hx].
    cbn [v_data v_secs fold_left map]. rewrite removed_cons. reflexivity.
Qed.

Lemma fold_bcb_only : forall l d,
  (forall s, In s l -> s_bcb s = true) ->
  fold_left (fun d s => if s_bcb s then decrypt_block d s else d) l d = fold_left decrypt_block l d.
Proof.
  induction l as [|s rest IH]; intros d H; [reflexivity|].
  cbn [fold_left]. rewrite (H s (or_introl eq_refl)). apply IH. intros x Hx. apply H. right. exact Hx.
Qed.

Lemma fold_bib_only : forall l d,
  (forall s, In s l -> s_bcb s = false) ->
  fold_left (fun d s => if s_bcb s then decrypt_block d s else d) l d = d.
Proof.
  induction l as [|s rest IH]; intros d H; [reflexivity|].
  cbn [fold_left]. rewrite (H s (or_introl eq_refl)). apply IH. intros x Hx. apply H. right. exact Hx.
Qed.

Lemma removed_all : forall secs,
  removed (map s_num (of_kind false secs))
          (removed (map s_num (of_kind true secs))
                   (map (fun s => (s_num s, map fst (s_tgts s))) (filter s_visible secs))) = [].
Proof.
  intro secs.
  assert (G : forall l,
    (forall s, In s l -> In s secs /\ s_visible s = true) ->
    removed (map s_num (of_kind false secs))
            (removed (map s_num (of_kind true secs))
                     (map (fun s => (s_num s, map fst (s_tgts s))) l)) = []).
  { induction l as [|s rest IH]; intro H; [reflexivity|].
    destruct (H s (or_introl eq_refl)) as [Hs Hv].
    assert (IH' := IH (fun x Hx => H x (or_intror Hx))).
    unfold removed in *. cbn [map filter fst].
    destruct (existsb (N.eqb (s_num s)) (map s_num (of_kind true secs))) eqn:E1; cbn [negb].
    - exact IH'.
    - cbn [filter fst].
      destruct (existsb (N.eqb (s_num s)) (map s_num (of_kind false secs))) eqn:E2; cbn [negb].
      + exact IH'.
      + exfalso.
        destruct (s_bcb s) eqn:K.
        * assert (In s (of_kind true secs)) as Hi by (apply in_of_kind; auto).
          assert (existsb (N.eqb (s_num s)) (map s_num (of_kind true secs)) = true).
          { apply existsb_exists. exists (s_num s). split; [apply in_map; exact Hi|apply N.eqb_refl]. }
          congruence.
        * assert (In s (of_kind false secs)) as Hi by (apply in_of_kind; auto).
          assert (existsb (N.eqb (s_num s)) (map s_num (of_kind false secs)) = true).
          { apply existsb_exists. exists (s_num s). split; [apply in_map; exact Hi|apply N.eqb_refl]. }
          congruence. }
  apply G. intros s Hs. apply filter_In in Hs. exact Hs.
Qed.

Lemma all_visible_ok_failures : forall bcb secs,
  (forall s, In s secs -> s_visible s = true -> blk_result s = VNone) ->
  failures (of_kind bcb secs) = [].
Proof.
  intros bcb secs H. apply failures_nil. intros s Hs. apply in_of_kind in Hs. destruct Hs as [Hs [Hv _]]. auto.
Qed.

Theorem pass_through_accept : forall c secs data,
  accept_after_verify c = true ->
  (forall s, In s secs -> s_visible s = true -> blk_result s = VNone) ->
  let v := mkView (decrypted secs data) [] in
  recv_sec c secs data = mkRes true (Some (btsd_of PAYLOAD_NUM (v_data v), v))
                               (Delivered (btsd_of PAYLOAD_NUM (v_data v)) v).
Proof.
  intros c secs data Ha Hok v.
  assert (Hk : forall bcb s, In s (of_kind bcb secs) -> blk_result s = VNone).
  { intros bcb s Hs. apply in_of_kind in Hs. destruct Hs as [Hs [Hv _]]. auto. }
  unfold recv_sec, chain.
  rewrite sec_step_clean; [|reflexivity|apply all_visible_ok_failures; exact Hok].
  rewrite sec_step_clean; [|reflexivity|apply all_visible_ok_failures; exact Hok].
  cbn [c_view c_delete].
  rewrite (verify_all_accept c (of_kind true secs)) by (auto || apply (Hk true)).
  cbn [fst].
  rewrite (verify_all_accept c (of_kind false secs)) by (auto || apply (Hk false)).
  cbn [fst v_data v_secs view_of].
  rewrite (fold_bib_only (of_kind false secs)) by (intros s Hs; apply in_of_kind in Hs; tauto).
  rewrite (fold_bcb_only (of_kind true secs)) by (intros s Hs; apply in_of_kind in Hs; tauto).
  rewrite removed_all.
  unfold app_step, finish. cbn [c_deliver c_delete c_view]. reflexivity.
Qed.

(** ** acceptance off: nothing changes (blocks listing at least one target) *)

Definition entry (s : secblk) : N * list N := (s_num s, map fst (s_tgts s)).

Lemma set_targets_id : forall s sv,
  s_tgts s <> [] ->
  (forall e, In e sv -> fst e = s_num s -> e = entry s) ->
  set_targets (s_num s) (map fst (s_tgts s)) sv = sv.
Proof.
  intros s sv Hne Hu. unfold set_targets.
  destruct (map fst (s_tgts s)) eqn:E.
  - destruct (s_tgts s); [congruence|discriminate].
  - rewrite <- E. clear E. induction sv as [|e sv IH]; [reflexivity|].
    cbn [map]. rewrite IH by (intros x Hx; apply Hu; right; exact Hx).
    destruct (fst e =? s_num s) eqn:K.
    + apply N.eqb_eq in K. rewrite (Hu e (or_introl eq_refl) K). reflexivity.
    + reflexivity.
Qed.

Lemma verify_all_keep : forall c l v,
  accept_after_verify c = false ->
  (forall s, In s l -> blk_result s = VNone /\ s_tgts s <> []
                        /\ (forall e, In e (v_secs v) -> fst e = s_num s -> e = entry s)) ->
  verify_all c l v = (v, []).
Proof.
  intros c l. induction l as [|s rest IH]; intros v Ha H; [reflexivity|].
  destruct (H s (or_introl eq_refl)) as [Hr [Hne Hu]].
  cbn [verify_all]. rewrite verify_block_ok by exact Hr. rewrite Ha. cbn [andb].
  rewrite set_targets_id by assumption.
  assert (E : mkView (v_data v) (v_secs v) = v) by (destruct v; reflexivity). rewrite E.
  rewrite IH; [reflexivity|exact Ha|intros x Hx; apply H; right; exact Hx].
Qed.

Lemma nodup_entry : forall l s e,
  NoDup (map s_num l) -> In s l -> In e (map entry l) -> fst e = s_num s -> e = entry s.
Proof.
  induction l as [|x rest IH]; intros s e Hnd Hs He Hf; [destruct Hs|].
  cbn [map] in *. inversion Hnd as [|? ? Hnot Hnd']; subst.
  destruct Hs as [->|Hs]; destruct He as [<-|He].
  - reflexivity.
  - exfalso. apply Hnot. apply in_map_iff in He. destruct He as [y [<- Hy]].
    cbn [entry fst] in Hf. rewrite <- Hf. apply in_map. exact Hy.
  - exfalso. apply Hnot. cbn [entry fst] in Hf. rewrite Hf. apply in_map. exact Hs.
  - apply IH; assumption.
Qed.

Theorem pass_through_keep : forall c secs data,
  accept_after_verify c = false ->
  NoDup (map s_num (filter s_visible secs)) ->
  (forall s, In s secs -> s_visible s = true -> s_tgts s <> []) ->
  (forall s, In s secs -> s_visible s = true -> blk_result s = VNone) ->
  let v := view_of secs data in
  recv_sec c secs data = mkRes true (Some (btsd_of PAYLOAD_NUM data, v)) (Delivered (btsd_of PAYLOAD_NUM data) v).
Proof.
  intros c secs data Ha Hnd Hne Hok v.
  assert (Hk : forall bcb s, In s (of_kind bcb secs) ->
            blk_result s = VNone /\ s_tgts s <> []
            /\ (forall e, In e (v_secs v) -> fst e = s_num s -> e = entry s)).
  { intros bcb s Hs. apply in_of_kind in Hs. destruct Hs as [Hs [Hv _]].
    split; [auto|]. split; [auto|].
    intros e He Hf. apply (nodup_entry (filter s_visible secs)); try assumption.
    apply filter_In. auto. }
  unfold recv_sec, chain.
  rewrite sec_step_clean; [|reflexivity|apply all_visible_ok_failures; exact Hok].
  cbn [c_view c_delete].
  rewrite (verify_all_keep c (of_kind true secs)) by (auto || apply (Hk true)).
  cbn [fst].
  rewrite sec_step_clean; [|reflexivity|apply all_visible_ok_failures; exact Hok].
  cbn [c_view c_delete].
  rewrite (verify_all_keep c (of_kind false secs)) by (auto || apply (Hk false)).
  cbn [fst]. unfold app_step, finish. cbn [c_deliver c_delete c_view]. reflexivity.
Qed.

Theorem no_security_blocks : forall c data,
  recv_sec c [] data =
  mkRes true (Some (btsd_of PAYLOAD_NUM data, mkView data [])) (Delivered (btsd_of PAYLOAD_NUM data) (mkView data [])).
Proof. intros c data. reflexivity. Qed.

(** * Witnesses *)

(** a type-11 block whose BTSD does not dissect (it would not even verify), block 1 = payload *)
Definition w_invisible : list secblk := [mkSec false 2 false true PreOk [(1, TFail FAILED_SEC)]].
Definition w_data : datamap := [(2, 7); (5, 6); (1, 9)].

Lemma invisible_refuted :
  exists c secs data,
    (exists s, In s secs /\ s_visible s = false)
    /\ exists p v, r_out (recv_sec c secs data) = Delivered p v /\ r_app (recv_sec c secs data) = Some (p, v).
Proof.
  exists (mkCfg false), w_invisible, w_data. split.
  - eexists. split; [left; reflexivity|reflexivity].
  - eexists _, _. vm_compute. split; reflexivity.
Qed.

(** two BIBs, the first verifies and is accepted (removed), the second does not verify *)
Definition w_second_bad : list secblk :=
  [mkSec false 2 true true PreOk [(1, TOk 0)]; mkSec false 3 true true PreOk [(5, TFail FAILED_SEC)]].

Lemma live_iteration_refuted :
  exists c secs data,
    (exists s, In s secs /\ s_visible s = true /\ blk_result s <> VNone)
    /\ (exists p v, r_out (recv_sec_live c secs data) = Delivered p v)
    /\ r_out (recv_sec c secs data) = Deleted FAILED_SEC.
Proof.
  exists (mkCfg true), w_second_bad, [(5, 6); (1, 9)]. split; [|split].
  - eexists. split; [right; left; reflexivity|]. split; [reflexivity|]. vm_compute. discriminate.
  - eexists _, _. vm_compute. reflexivity.
  - reflexivity.
Qed.

(** * The verdict is computed on the target's current data, never on an attached copy *)
Theorem verdict_ignores_slot : forall (open : N -> N -> option N) data t auth slot1 slot2,
  target_verdict open data t (mkMsg auth slot1) = target_verdict open data t (mkMsg auth slot2).
Proof. intros. reflexivity. Qed.

Theorem verdict_on_current_data : forall (open : N -> N -> option N) data t m,
  target_verdict open data t m =
  match open (m_auth m) (btsd_of t data) with Some p => TOk p | None => TFail FAILED_SEC end.
Proof. intros. reflexivity. Qed.
