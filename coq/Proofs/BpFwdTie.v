(** Translator tie for property C11: the step structure of [Agent._do_fwd] as read from the source
    ([Gen/FwdSteps.v], regenerated from /repo on every run by translate/targets/fwdsteps.py) interpreted
    over the primitives of [Model/BpFwd.v], and the proof that the hand-written model [fwd_blocks]
    performs exactly those steps, in that order, under that guard, with that age.

    [run_step] gives every constructor its meaning:
    - [StRemoveAll t true]   every block recognised as a type-[t] block goes ([remove_all]);
      [StRemoveAll t false]  the loop iterates over the live list it removes from: only the 1st, 3rd, ...
                             go ([remove_live], the behaviour before fix 1355258);
    - [StAddPrevNode]        number from [get_block_num] ([alloc], the container's counter is threaded),
                             inserted before the last block;
    - [StBumpHop d true]     hop count + [d], data re-encoded; [StBumpHop d false] data left stale (before
                             fix df72a19);
    - [StAddAge]             iff [fwd_age_guard creation]: next number, inserted before the last block. *)
From Coq Require Import List NArith ZArith Bool Lia.
From DTN Require Import Lib.Bytes Lib.Cbor Model.Bundle Model.BpFwd Gen.FwdSteps.
Import ListNotations.
Local Open Scope N_scope.

(** removal while iterating over the list being removed from *)
Fixpoint remove_live (p : cblock -> bool) (take : bool) (l : list cblock) : list cblock :=
  match l with
  | [] => []
  | x :: t =>
      if p x then (if take then remove_live p false t else x :: remove_live p true t)
      else x :: remove_live p take t
  end.

(** which blocks [ctr.block_type(X)] yields for the class bound to type [t] *)
Definition recognised (t : N) : cblock -> bool :=
  if t =? BLOCK_PREV_NODE then is_prev
  else if t =? BLOCK_AGE then is_age
  else fun x => match (if btype x =? t then hop_view x else None) with Some _ => true | None => false end.

Definition bump_gen (delta : N) (reencode : bool) (x : cblock) : cblock :=
  match hop_view x with
  | Some (l, c) => if reencode then set_btsd x (encode_hop_count (l, c + delta)) else x
  | None => x
  end.

(** state: the container's block-number counter and the block list *)
Definition run_step (node : eid) (now ctime : N) (st : N * list cblock) (s : fwd_step) : N * list cblock :=
  let (cnt, bl) := st in
  match s with
  | StRemoveAll t copy =>
      (cnt, if copy then remove_all (recognised t) bl else remove_live (recognised t) true bl)
  | StAddPrevNode =>
      let n := alloc cnt (used_nums bl) in
      (n, insert_bl (new_block BLOCK_PREV_NODE n (encode_prev_node (impl_norm_eid node))) bl)
  | StBumpHop delta reencode => (cnt, map (bump_gen delta reencode) bl)
  | StAddAge =>
      if fwd_age_guard ctime
      then let n := alloc cnt (used_nums bl) in
           (n, insert_bl (new_block BLOCK_AGE n (encode (age_item now ctime))) bl)
      else (cnt, bl)
  end.

Definition run_steps (steps : list fwd_step) (node : eid) (now ctime : N) (bl : list cblock) : list cblock :=
  snd (fold_left (run_step node now ctime) steps (1, bl)).

(** the integer a CBOR item stands for *)
Definition cbor_int (c : cbor) : option Z :=
  match c with
  | CUint n => Some (Z.of_N n)
  | CNint n => Some (- 1 - Z.of_N n)%Z
  | _ => None
  end.

(** the steps the source performs, spelled out *)
Lemma tie_steps_shape :
  fwd_steps = [StRemoveAll 6 true; StAddPrevNode; StBumpHop 1 true; StRemoveAll 7 true; StAddAge].
Proof. reflexivity. Qed.

Lemma tie_age_guard ctime : fwd_age_guard ctime = negb (ctime =? 0).
Proof. unfold fwd_age_guard. destruct ctime; reflexivity. Qed.

Lemma tie_age_value now ctime :
  cbor_int (age_item now ctime) = Some (fwd_age (Z.of_N now) (Z.of_N ctime)).
Proof.
  unfold age_item, fwd_age. destruct (ctime <=? now) eqn:E; cbn [cbor_int]; f_equal.
  - apply N.leb_le in E. lia.
  - apply N.leb_gt in E. lia.
Qed.

(** the hand-written model performs exactly the translated steps, in their order, for every bundle *)
Theorem tie_fwd_blocks node now ctime bl :
  fwd_blocks node now ctime bl = run_steps fwd_steps node now ctime bl.
Proof.
  unfold run_steps. rewrite tie_steps_shape. cbn [fold_left run_step]. rewrite tie_age_guard.
  unfold fwd_blocks. destruct (ctime =? 0); reflexivity.
Qed.
