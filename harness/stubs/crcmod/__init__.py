from . import predefined  # noqa: F401
