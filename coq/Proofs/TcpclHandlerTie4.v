(** Tie between the endpoint model's [do_close] and the report loop at the head
    of ContactHandler.close of tcpcl/session.py, regenerated on every run
    (Gen/TcpclClose.v): a close that takes effect reports every transfer that
    was queued but never started -- in queue order, each removed from the
    transmit map, before the connection goes down -- and empties the queue. *)
From Coq Require Import ZArith NArith List Bool.
From RecordUpdate Require Import RecordSet.
From DTN Require Import Lib.Bytes Model.TcpclMsg Model.TcpclSess Model.TcpclHandlerSt Gen.TcpclClose
  Proofs.TcpclSessBasics Proofs.TcpclSentProofs1 Proofs.TcpclSentProofs18 Proofs.TcpclHandlerTie.
Import ListNotations RecordSetNotations.
Local Open Scope N_scope.

Ltac h4_cbn := cbn [h_in_sess h_in_conn h_ack_final h_ack_inter h_modulate h_tx_map h_pend_start h_pend_ack
  h_tx_tmp h_tx_len h_pq h_rx_tmp h_rx_map h_sent h_events h_check set_h_tx_map set_h_pend_start h_emit habs
  opt_or0 fst snd].

Lemma close_fold : forall l h,
  let h' := fold_left (fun h it => gen_close_item it h) (pabs l) h in
  h_tx_map h' = flush_map l (h_tx_map h) /\ h_events h' = h_events h ++ flush_events l
  /\ h_in_sess h' = h_in_sess h /\ h_in_conn h' = h_in_conn h /\ h_pend_start h' = h_pend_start h
  /\ h_pend_ack h' = h_pend_ack h /\ h_tx_tmp h' = h_tx_tmp h /\ h_tx_len h' = h_tx_len h
  /\ h_pq h' = h_pq h /\ h_rx_tmp h' = h_rx_tmp h /\ h_rx_map h' = h_rx_map h
  /\ h_sent h' = h_sent h /\ h_check h' = h_check h.
Proof.
  induction l as [|it l IH]; intros h; cbn [pabs map fold_left flush_map flush_events].
  - rewrite app_nil_r. repeat split; reflexivity.
  - fold (pabs l). destruct (IH (gen_close_item (fst it, None) h)) as (A1&A2&A3&A4&A5&A6&A7&A8&A9&A10&A11&A12&A13).
    cbv zeta in *. rewrite A1, A2, A3, A4, A5, A6, A7, A8, A9, A10, A11, A12, A13.
    unfold gen_close_item. h4_cbn. rewrite <- app_assoc. repeat split; reflexivity.
Qed.

Theorem tie_close_reports s : closed s = false ->
  let g := gen_close_flush (habs s) in
  closed (do_close s) = true
  /\ h_pend_start g = map (fun it => (fst it, None)) (pend_start (do_close s))
  /\ h_tx_map g = tx_map (do_close s)
  /\ trace (do_close s) = trace s ++ h_events g ++ [EClosed]
  /\ h_in_sess g = in_sess (do_close s) /\ h_in_conn g = in_conn (do_close s)
  /\ h_pend_ack g = pend_ack (do_close s)
  /\ h_tx_tmp g = match tx_tmp (do_close s) with Some (i, _) => Some i | None => None end
  /\ h_tx_len g = tx_len (do_close s) /\ h_pq g = pq_set (do_close s)
  /\ h_sent g = [] /\ sent (do_close s) = sent s /\ h_check g = false.
Proof.
  intros Hc. cbv zeta. destruct (close_reports_unstarted s Hc) as (C1&C2&C3&C4).
  unfold gen_close_flush. cbv zeta.
  destruct (close_fold (pend_start s) (set_h_pend_start [] (habs s))) as (A1&A2&A3&A4&A5&A6&A7&A8&A9&A10&A11&A12&A13).
  cbv zeta in *. change (h_pend_start (habs s)) with (pabs (pend_start s)).
  rewrite A1, A2, A3, A4, A5, A6, A7, A8, A9, A12, A13, C1, C2, C3. h4_cbn.
  rewrite do_close_eq. ep_cbn. repeat split; reflexivity.
Qed.
