(** Tie of the hand-written TCPCL session model to the fragments of
    tcpcl/session.py regenerated on every run (Gen/SessParams.v), plus the
    clamp of the adaptive segment-size controller.  Used by the checks of
    C04, C09, C14 and C18. *)
From Coq Require Import List NArith Bool.
From DTN Require Import Lib.Bytes Model.TcpclMsg Model.TcpclSess Gen.SessParams Proofs.TcpclGenTie.
Local Open Scope N_scope.

(** The model's idle predicate is the code's two is_sess_idle conjunctions. *)
Theorem Tie_idle_predicate : forall s,
  is_sess_idle s =
  gen_idle_handler (gen_idle_messenger (is_nil (rx_buf s)) (is_nil (msg_tx s)))
                   (none_b (rx_tmp s)) (none_b (tx_tmp s)) (is_nil (pend_start s)) (is_nil (pend_ack s)).
Proof. exact tie_idle. Qed.
Print Assumptions Tie_idle_predicate.

(** ... and "idle" as the code computes it means: nothing queued, in progress or
    awaiting acknowledgement, no received octets awaiting processing, nothing
    left to send at message level. *)
Theorem Tie_idle_sound : forall rx_empty tx_empty rx_tmp_none tx_tmp_none ps_empty pa_empty,
  gen_idle_handler (gen_idle_messenger rx_empty tx_empty) rx_tmp_none tx_tmp_none ps_empty pa_empty = true ->
  rx_empty = true /\ tx_empty = true /\ rx_tmp_none = true /\ tx_tmp_none = true /\ ps_empty = true /\ pa_empty = true.
Proof.
  intros a b c d e f. unfold gen_idle_handler, gen_idle_messenger.
  destruct a, b, c, d, e, f; cbn; intros H; try discriminate H; repeat split; reflexivity.
Qed.
Print Assumptions Tie_idle_sound.

Theorem Tie_close_when_terminating : forall s,
  check_sess_term s = if gen_close_when (in_term s) (is_sess_idle s) then do_close s else s.
Proof. exact tie_check_sess_term. Qed.
Print Assumptions Tie_close_when_terminating.

Theorem Tie_refill_trigger : forall buf_use s,
  send_buffer_decreased buf_use s = if gen_buf_trigger buf_use (seg_size s) then pq_trigger s else s.
Proof. exact tie_send_buffer_decreased. Qed.
Print Assumptions Tie_refill_trigger.

Theorem Tie_negotiation : forall s s' this peer,
  sessinit_this s = Some this -> sessinit_peer s = Some peer ->
  merge_session_params s = (s', None) ->
  keepalive_time s' = gen_keepalive (si_keepalive this) (si_keepalive peer)
  /\ seg_size s' = gen_seg_size (c_seg_init (cf s)) (si_seg_mru peer).
Proof. exact tie_merge. Qed.
Print Assumptions Tie_negotiation.

(** Whatever the adaptive controller computes, the clamp the code applies
    keeps the segment size within the peer's segment MRU. *)
Theorem C14_clamp_le_mru : forall next floor mru, gen_clamp next floor mru <= mru.
Proof. exact clamp_le_mru. Qed.
Print Assumptions C14_clamp_le_mru.

Theorem C14_initial_seg_le_mru : forall init mru, gen_seg_size init mru <= mru.
Proof. exact seg_size_le_mru. Qed.
Print Assumptions C14_initial_seg_le_mru.

Theorem C14_keepalive_is_min : forall a b, gen_keepalive a b = N.min a b.
Proof. exact keepalive_is_min. Qed.
Print Assumptions C14_keepalive_is_min.

(** Agent.shutdown() and Agent.stop() walk a snapshot of the handler list
    (regenerated from tcpcl/agent.py): every session is asked to terminate /
    is closed, although closing a handler removes it from the live list. *)
From DTN Require Import Gen.AgentLoops Proofs.TcpclAgentLoops.
Theorem C09_agent_shutdown_walks_snapshot : shutdown_iterates_snapshot = true /\ stop_iterates_snapshot = true.
Proof. split; reflexivity. Qed.
Print Assumptions C09_agent_shutdown_walks_snapshot.

Theorem C09_snapshot_visits_every_handler : forall (H : Type) (l : list H) (h : H), In h l -> In h (walk_snapshot H l).
Proof. exact snapshot_visits_all. Qed.
Print Assumptions C09_snapshot_visits_every_handler.

Theorem C09_live_iteration_skips_refuted : exists (l : list nat) (closes : nat -> bool) (h : nat),
  In h l /\ ~ In h (walk_live nat closes (length l) 0 l).
Proof. exact live_skips. Qed.
Print Assumptions C09_live_iteration_skips_refuted.

(** The transfer-message handlers of ContactHandler (recv_xfer_ack,
    recv_xfer_refuse, recv_sess_term, with the Messenger base guards they call
    first and _tx_teardown), regenerated from tcpcl/session.py on every run
    (Gen/TcpclHandlers.v over the abstract handler state of
    Model/TcpclHandlerSt.v): for EVERY endpoint state [s], the model's handling
    of the message agrees with the generated function on the abstraction
    [habs s] -- reject-or-handled outcome, every field of the abstract state
    (session flags, transmit map with the acknowledged lengths, the queue of
    unstarted transfers, the set awaiting the final acknowledgement, the
    transfer in progress, its offset, the pending queue run), the D-Bus signals
    emitted in order ([h_events]; the model's trace may only add the state
    change of its own SESS_TERM reply before and the socket-closed event after,
    the latter only if _check_sess_term() was called). *)
From DTN Require Import Model.TcpclHandlerSt Gen.TcpclHandlers Proofs.TcpclHandlerTie.
Import ListNotations.

Theorem Tie_recv_xfer_ack : forall (s : ep) (fl xid len : N),
  let g := gen_recv_xfer_ack xid fl len (habs s) in
  let r := handle_msg (MXferAck fl xid len) s in
  snd g = outcome_code (snd r)
  /\ h_in_sess (fst g) = in_sess (fst r) /\ h_in_conn (fst g) = in_conn (fst r)
  /\ h_tx_map (fst g) = tx_map (fst r)
  /\ h_pend_start (fst g) = map (fun it => (fst it, None)) (pend_start (fst r))
  /\ h_pend_ack (fst g) = pend_ack (fst r)
  /\ h_tx_tmp (fst g) = match tx_tmp (fst r) with Some (i, _) => Some i | None => None end
  /\ h_tx_len (fst g) = tx_len (fst r) /\ h_pq (fst g) = pq_set (fst r)
  /\ (exists tail, trace (fst r) = trace s ++ h_events (fst g) ++ tail
                   /\ (tail = [] \/ (tail = [EClosed] /\ h_check (fst g) = true)))
  /\ (h_check (fst g) = false -> closed (fst r) = closed s).
Proof. exact tie_xfer_ack. Qed.
Print Assumptions Tie_recv_xfer_ack.

Theorem Tie_recv_xfer_refuse : forall (s : ep) (reason xid : N),
  let g := gen_recv_xfer_refuse xid reason (habs s) in
  let r := handle_msg (MXferRefuse reason xid) s in
  snd g = outcome_code (snd r)
  /\ h_in_sess (fst g) = in_sess (fst r) /\ h_in_conn (fst g) = in_conn (fst r)
  /\ h_tx_map (fst g) = tx_map (fst r)
  /\ h_pend_start (fst g) = map (fun it => (fst it, None)) (pend_start (fst r))
  /\ h_pend_ack (fst g) = pend_ack (fst r)
  /\ h_tx_tmp (fst g) = match tx_tmp (fst r) with Some (i, _) => Some i | None => None end
  /\ h_tx_len (fst g) = tx_len (fst r) /\ h_pq (fst g) = pq_set (fst r)
  /\ (exists tail, trace (fst r) = trace s ++ h_events (fst g) ++ tail
                   /\ (tail = [] \/ (tail = [EClosed] /\ h_check (fst g) = true)))
  /\ (h_check (fst g) = false -> closed (fst r) = closed s).
Proof. exact tie_xfer_refuse. Qed.
Print Assumptions Tie_recv_xfer_refuse.

Theorem Tie_recv_sess_term : forall (s : ep) (fl reason : N),
  let g := gen_recv_sess_term reason (habs s) in
  let r := handle_msg (MSessTerm fl reason) s in
  snd g = outcome_code (snd r)
  /\ h_in_sess (fst g) = in_sess (fst r) /\ h_in_conn (fst g) = in_conn (fst r)
  /\ h_tx_map (fst g) = tx_map (fst r)
  /\ h_pend_start (fst g) = map (fun it => (fst it, None)) (pend_start (fst r))
  /\ h_pend_ack (fst g) = pend_ack (fst r)
  /\ h_tx_tmp (fst g) = match tx_tmp (fst r) with Some (i, _) => Some i | None => None end
  /\ h_tx_len (fst g) = tx_len (fst r) /\ h_pq (fst g) = pq_set (fst r)
  /\ (exists t1 tail, trace (fst r) = trace s ++ t1 ++ h_events (fst g) ++ tail
                      /\ (t1 = [] \/ t1 = [ESig SigState [PStr ST_ENDING]])
                      /\ (tail = [] \/ (tail = [EClosed] /\ h_check (fst g) = true)))
  /\ (h_check (fst g) = false -> closed (fst r) = closed s).
Proof. exact tie_sess_term. Qed.
Print Assumptions Tie_recv_sess_term.

(* Non-vacuity: on a reachable state with a transfer awaiting its final
   acknowledgement the generated handler accepts the END acknowledgement, emits
   the finished signal and asks for the termination check. *)
Example Tie_handlers_nonvacuous :
  let s := run (mkCfg false [100] 30 60 1000 500 None)
               [OStart; ORx (encode_frame (FContact (mkContact MAGIC 4 0)));
                ORx (encode_frame (FMsg (MSessInit 30 100 1000 [101] []))); OSend [1;2;3]; OPQ] in
  let g := gen_recv_xfer_ack 1 3 3 (habs s) in
  pend_ack s = [1] /\ snd g = None /\ h_pend_ack (fst g) = [] /\ h_check (fst g) = true
  /\ h_events (fst g) = [ESig SigSendFinished [PStrNum 1; PInt 3; PStr RES_SUCCESS]].
Proof. vm_compute. repeat split; reflexivity. Qed.

(** XFER_SEGMENT: ContactHandler.recv_xfer_data (with the base guard, _rx_setup
    and _rx_teardown); the octet string of the segment is represented by its
    length, the transfer being received by (id, octets received so far), the
    received bundles by (id, length); [h_sent] are the XFER_ACKs handed to
    send_message. *)
From DTN Require Import Proofs.TcpclHandlerTie3.
Theorem Tie_recv_xfer_data : forall (s : ep) (fl xid : N) (ext data : bytes),
  let g := gen_recv_xfer_data xid fl (N.of_nat (length data)) 0 (habs s) in
  let r := handle_msg (MXferSeg fl xid ext data) s in
  snd g = outcome_code (snd r)
  /\ h_in_sess (fst g) = in_sess (fst r) /\ h_in_conn (fst g) = in_conn (fst r)
  /\ h_rx_tmp (fst g) = match rx_tmp (fst r) with Some (i, a) => Some (i, N.of_nat (length a)) | None => None end
  /\ h_rx_map (fst g) = map (fun it => (fst it, N.of_nat (length (snd it)))) (rx_map (fst r))
  /\ sent (fst r) = sent s ++ map FMsg (h_sent (fst g))
  /\ h_tx_map (fst g) = tx_map (fst r) /\ h_pend_ack (fst g) = pend_ack (fst r)
  /\ h_tx_len (fst g) = tx_len (fst r) /\ h_pq (fst g) = pq_set (fst r)
  /\ (exists tail, trace (fst r) = trace s ++ h_events (fst g) ++ tail
                   /\ (tail = [] \/ (tail = [EClosed] /\ h_check (fst g) = true)))
  /\ (h_check (fst g) = false -> closed (fst r) = closed s).
Proof. exact tie_xfer_data. Qed.
Print Assumptions Tie_recv_xfer_data.

(** Control structure (Gen/TcpclControl.v): each model function IS the decision
    regenerated from the code followed by the corresponding model action. *)
From RecordUpdate Require Import RecordSet.
Import RecordSetNotations.
From DTN Require Import Gen.TcpclControl Proofs.TcpclHandlerTie2.

(** ContactHandler._process_queue up to the point where a segment is produced:
    wait for the session (keep the idle source) / nothing to do / start the
    transfer at the head of the queue / go on with the transfer in progress --
    a transfer in progress goes on whatever _in_sess and _in_term say. *)
Theorem Tie_process_queue_guards : forall s : ep,
  process_queue s =
  match gen_pq_guard (is_none (tx_tmp s)) (in_sess s) (in_term s) (is_nil (pend_start s)) with
  | PqReturn keep => (s <| pq_set := false |>, keep)
  | PqContinue => (send_next (s <| pq_set := false |>), false)
  | PqStart =>
      match pend_start s with
      | (id, data) :: rest =>
          (send_next (emit (ESig SigSendStarted [PStrNum id; PInt (N.of_nat (length data))])
                           (s <| pq_set := false |> <| pend_start := rest |> <| tx_tmp := Some (id, data) |>
                              <| tx_len := 0 |>)), false)
      | [] => (s <| pq_set := false |>, false)
      end
  end.
Proof. exact tie_process_queue. Qed.
Print Assumptions Tie_process_queue_guards.

(** Messenger._idle_timeout when the timer fires on an open endpoint. *)
Theorem Tie_idle_timeout : forall (s : ep) (due : N),
  closed s = false -> idle_due s = Some due -> (due <=? now s) = true ->
  step s OFireIdle =
  match gen_idle_timeout (in_sess s) (in_term s) (is_sess_idle s) with
  | IdleClose => do_close (s <| idle_due := None |>)
  | IdleTerm reason reply => escape (send_sess_term reason reply (s <| idle_due := None |>))
  | IdleNothing => s <| idle_due := None |>
  end.
Proof. exact tie_idle_timeout. Qed.
Print Assumptions Tie_idle_timeout.

(** ContactHandler.terminate. *)
Theorem Tie_terminate : forall (s : ep) (reason : N), closed s = false ->
  step s (OTerm reason) =
  match gen_terminate reason (in_sess s) (in_term s) (is_sess_idle s) with
  | TermClose => do_close s
  | TermSend r reply => escape (send_sess_term r reply s)
  | TermNothing => s
  end.
Proof. exact tie_terminate. Qed.
Print Assumptions Tie_terminate.

(** The loop of Messenger.recv_raw goes on while octets are buffered AND the
    socket is open: nothing buffered behind a message that closed the
    connection is parsed. *)
Theorem Tie_recv_raw_loop : forall (fuel : nat) (s : ep),
  recv_loop (S fuel) s =
  if gen_rx_loop_guard (negb (is_nil (rx_buf s))) (negb (closed s)) then
    match parse_frame (in_conn s) (rx_buf s) with
    | None => ok s
    | Some (fr, rest) =>
        match recv_frame fr (s <| rx_buf := rest |> <| handled := handled s ++ [fr] |>) with
        | (s', None) => recv_loop fuel s'
        | (s', Some k) => raise k s'
        end
    end
  else ok s.
Proof. exact tie_rx_loop. Qed.
Print Assumptions Tie_recv_raw_loop.

(** Messenger.send_sess_term: the two RuntimeError guards, _in_term, the state
    change and the REPLY flag. *)
Theorem Tie_send_sess_term : forall (reason : N) (reply : bool) (s : ep),
  send_sess_term reason reply s =
  if gen_sst_raises (in_sess s) (in_term s) then raise EX_RUNTIME s
  else ok (send_msg (MSessTerm (gen_sst_flags reply) reason) (set_state ST_ENDING (s <| in_term := true |>))).
Proof. exact tie_send_sess_term. Qed.
Print Assumptions Tie_send_sess_term.

(** The SESS_TERM branch of Messenger.recv_message: reject outside a session,
    reply unless already terminating, then the handler. *)
Theorem Tie_sess_term_dispatch : forall (fl reason : N) (s : ep),
  handle_msg (MSessTerm fl reason) s =
  if gen_term_reject (in_sess s) (in_term s) then (s, Reject REJ_UNEXPECTED)
  else
    let '(s1, exc) := if gen_term_reply (in_sess s) (in_term s) then send_sess_term reason true s else (s, None) in
    match exc with
    | Some k => (s1, Escaped k)
    | None => (check_sess_term (flush_pend_start s1), Done)
    end.
Proof. exact tie_term_dispatch. Qed.
Print Assumptions Tie_sess_term_dispatch.

(** send_bundle_data -> ContactHandler._add_queue_item: the refusal guard. *)
Theorem Tie_send_bundle : forall (s : ep) (data : bytes), closed s = false ->
  step s (OSend data) =
  if gen_add_queue_refused (in_sess s) (in_term s) then emit (EExc EX_RUNTIME) s
  else
    emit (ERet 1 (PStrNum (next_id s)))
         (pq_trigger (s <| next_id := next_id s + 1 |> <| pend_start := pend_start s ++ [(next_id s, data)] |>
                        <| tx_map := dict_set (next_id s) 0 (tx_map s) |>)).
Proof. exact tie_send_bundle. Qed.
Print Assumptions Tie_send_bundle.

(** ContactHandler.close: the report loop at its head (Gen/TcpclClose.v; it must
    be followed by exactly the removal from the bus and Messenger.close).  A
    close that takes effect empties the queue of unstarted transfers, removes
    each from the transmit map and emits its SigSendFinished [id; 0; "session
    terminating"], in queue order, BEFORE the socket-closed event; nothing else
    of the abstract handler state changes and nothing is sent. *)
From DTN Require Import Gen.TcpclClose Proofs.TcpclHandlerTie4.
Theorem Tie_close_reports : forall s : ep, closed s = false ->
  let g := gen_close_flush (habs s) in
  closed (do_close s) = true
  /\ h_pend_start g = map (fun it => (fst it, None)) (pend_start (do_close s))
  /\ h_tx_map g = tx_map (do_close s)
  /\ trace (do_close s) = trace s ++ h_events g ++ [EClosed]
  /\ h_in_sess g = in_sess (do_close s) /\ h_in_conn g = in_conn (do_close s)
  /\ h_pend_ack g = pend_ack (do_close s)
  /\ h_tx_tmp g = match tx_tmp (do_close s) with Some (i, _) => Some i | None => None end
  /\ h_tx_len g = tx_len (do_close s) /\ h_pq g = pq_set (do_close s)
  /\ h_sent g = [] /\ sent (do_close s) = sent s /\ h_check g = false.
Proof. exact tie_close_reports. Qed.
Print Assumptions Tie_close_reports.

(* Non-vacuity: two queued, unstarted bundles are reported in queue order. *)
Example Tie_close_nonvacuous :
  let s := run (mkCfg false [100] 30 60 1000 500 None) [OStart; OSend [1;2;3]; OSend [4]] in
  closed s = false
  /\ h_events (gen_close_flush (habs s))
     = [ESig SigSendFinished [PStrNum 1; PInt 0; PStr RES_TERMINATING];
        ESig SigSendFinished [PStrNum 2; PInt 0; PStr RES_TERMINATING]]
  /\ h_tx_map (gen_close_flush (habs s)) = [].
Proof. vm_compute. repeat split; reflexivity. Qed.

(** The segment-producing part of ContactHandler._process_queue (Gen/TcpclSendNext.v):
    for every state with a transfer in progress, one pass of the model's
    [send_next] does what the generated function says for (segment size in use,
    offset, total length): nothing while waiting for the final acknowledgement;
    otherwise it sends XFER_SEGMENT with the generated flags (START on the first
    segment, END when the data is exhausted, both for a zero-length bundle), the
    transfer-length extension item on the first segment, the next [so_dlen]
    octets from the offset, advances the offset to [so_newlen], and at END moves
    the item to the set awaiting the final acknowledgement, clears the transfer
    in progress and requests a queue run. *)
From DTN Require Import Gen.TcpclSendNext Proofs.TcpclHandlerTie5.
Theorem Tie_send_next : forall (s : ep) (id : N) (data : bytes), tx_tmp s = Some (id, data) ->
  send_next s =
  match gen_send_next (seg_size s) (tx_len s) (N.of_nat (length data)) true false with
  | None => s
  | Some o =>
      let seg := firstn (N.to_nat (so_dlen o)) (skipn (N.to_nat (tx_len s)) data) in
      let ext := match so_ext_total o with Some t => total_length_ext t | None => [] end in
      let s1 := send_msg (MXferSeg (so_flags o) id ext seg) (s <| tx_len := so_newlen o |>) in
      if so_moved o
      then pq_trigger (s1 <| pend_ack := pend_ack s1 ++ [id] |> <| tx_tmp := None |> <| tx_len := 0 |>)
      else s1
  end.
Proof. exact tie_send_next. Qed.
Print Assumptions Tie_send_next.

Theorem Tie_send_next_switches : forall (sz off total : N) (o : seg_out),
  gen_send_next sz off total true false = Some o -> so_priv o = false /\ so_unack o = false.
Proof. exact tie_send_next_switches. Qed.
Print Assumptions Tie_send_next_switches.

(* Non-vacuity: 3 octets, segment size 2: START with 2 octets, then END with 1;
   a zero-length bundle goes out as one START|END segment. *)
Example Tie_send_next_nonvacuous :
  option_map (fun o => (so_flags o, so_dlen o, so_newlen o, so_moved o)) (gen_send_next 2 0 3 true false)
    = Some (2, 2, 2, false)
  /\ option_map (fun o => (so_flags o, so_dlen o, so_newlen o, so_moved o)) (gen_send_next 2 2 3 true false)
    = Some (1, 1, 3, true)
  /\ option_map (fun o => (so_flags o, so_dlen o, so_newlen o, so_moved o)) (gen_send_next 2 0 0 true false)
    = Some (3, 0, 0, true)
  /\ gen_send_next 2 3 3 true false = None.
Proof. vm_compute. repeat split; reflexivity. Qed.
